/-
  Lemmas/Start.lean — the simulation invariant between the `Start` model and the input contract
  (helper lemmas for Props/C06.lean, Props/C17.lean).
-/
import NoirVerif.Model.Start
import NoirVerif.Model.StartSpec
namespace Noir.Start
open Noir.StartSpec

variable {α : Type}

/-! ### `compute` is the minimum of a complete list -/

theorem optJoinMin_none_right (m : Option Int) : optJoinMin m none = m := by
  cases m <;> rfl

/-- the fold, characterised: completeness flag and running minimum -/
theorem computeFold_spec (l : List (Option Int)) (b : Bool) (m : Option Int) :
    (computeFold l (b, m)).1 = (b && l.all Option.isSome) ∧
    (∀ f, (computeFold l (b, m)).2 = some f →
        (m = some f ∨ some f ∈ l) ∧ (∀ w, m = some w → f ≤ w) ∧ (∀ w, some w ∈ l → f ≤ w)) ∧
    ((computeFold l (b, m)).2 = none → m = none ∧ ∀ x ∈ l, x = none) := by
  induction l generalizing b m with
  | nil =>
    simp only [computeFold, List.all_nil, Bool.and_true, List.not_mem_nil, or_false, true_and]
    refine ⟨?_, ?_⟩
    · intro f hf; subst hf; exact ⟨rfl, fun w hw => by cases hw; exact Int.le_refl _, fun _ h => (nomatch h)⟩
    · intro h; exact ⟨h, fun _ h => (nomatch h)⟩
  | cons x xs ih =>
    simp only [computeFold]
    obtain ⟨h1, h2, h3⟩ := ih (b && x.isSome) (optJoinMin m x)
    refine ⟨by rw [h1]; simp [Bool.and_assoc], ?_, ?_⟩
    · intro f hf
      obtain ⟨ha, hb, hc⟩ := h2 f hf
      have hjoin : ∀ w, optJoinMin m x = some w →
          (m = some w ∨ x = some w) ∧ (∀ u, m = some u → w ≤ u) ∧ (∀ u, x = some u → w ≤ u) := by
        intro w hw
        cases m with
        | none =>
          cases x with
          | none => simp [optJoinMin] at hw
          | some xv =>
            simp [optJoinMin] at hw; subst hw
            exact ⟨Or.inr rfl, fun u h => (nomatch h), fun u h => by cases h; exact Int.le_refl _⟩
        | some mv =>
          cases x with
          | none =>
            simp [optJoinMin] at hw; subst hw
            exact ⟨Or.inl rfl, fun u h => by cases h; exact Int.le_refl _, fun u h => (nomatch h)⟩
          | some xv =>
            simp [optJoinMin] at hw; subst hw
            refine ⟨?_, fun u h => by cases h; exact Int.min_le_left _ _, fun u h => by cases h; exact Int.min_le_right _ _⟩
            rcases Int.le_total mv xv with h | h
            · left; rw [Int.min_eq_left h]
            · right; rw [Int.min_eq_right h]
      refine ⟨?_, ?_, ?_⟩
      · rcases ha with ha | ha
        · obtain ⟨h', _, _⟩ := hjoin f ha
          rcases h' with h' | h'
          · exact Or.inl h'
          · right; rw [h']; exact List.mem_cons_self
        · right; exact List.mem_cons_of_mem _ ha
      · intro w hw
        cases hj : optJoinMin m x with
        | none => cases x <;> simp [optJoinMin, hw] at hj
        | some j =>
          obtain ⟨_, hm, _⟩ := hjoin j hj
          exact Int.le_trans (hb j hj) (hm w hw)
      · intro w hw
        rcases List.mem_cons.mp hw with hw | hw
        · cases hj : optJoinMin m x with
          | none => cases m <;> simp [optJoinMin, ← hw] at hj
          | some j =>
            obtain ⟨_, _, hx⟩ := hjoin j hj
            exact Int.le_trans (hb j hj) (hx w hw.symm)
        · exact hc w hw
    · intro h
      obtain ⟨hm, hx⟩ := h3 h
      cases m with
      | none =>
        cases x with
        | none => exact ⟨rfl, fun y hy => by rcases List.mem_cons.mp hy with h | h; exact h; exact hx y h⟩
        | some xv => simp [optJoinMin] at hm
      | some mv => cases x <;> simp [optJoinMin] at hm

/-- `compute l = some f`: the list is complete, `f` is one of its values and a lower bound. -/
theorem compute_some {l : List (Option Int)} {f : Int} (h : compute l = some f) :
    (∀ x ∈ l, x.isSome = true) ∧ some f ∈ l ∧ ∀ w, some w ∈ l → f ≤ w := by
  unfold compute at h
  obtain ⟨h1, h2, _⟩ := computeFold_spec l true none
  cases hc : computeFold l (true, none) with
  | mk c m =>
    rw [hc] at h h1 h2
    simp only at h h1 h2
    by_cases hcc : c = true
    · simp only [hcc, if_true] at h
      obtain ⟨ha, _, hb⟩ := h2 f h
      refine ⟨?_, ?_, hb⟩
      · rw [hcc] at h1; simpa using h1.symm
      · rcases ha with ha | ha
        · cases ha
        · exact ha
    · simp [hcc] at h

/-- a complete, non-empty list has a frontier -/
theorem compute_complete {l : List (Option Int)} (hne : l ≠ []) (h : ∀ x ∈ l, x.isSome = true) :
    ∃ f, compute l = some f := by
  unfold compute
  obtain ⟨h1, _, h3⟩ := computeFold_spec l true none
  cases hc : computeFold l (true, none) with
  | mk c m =>
    rw [hc] at h1 h3
    simp only at h1 h3
    have hcc : c = true := by rw [h1]; simpa using h
    simp only [hcc, if_true]
    cases m with
    | some f => exact ⟨f, rfl⟩
    | none =>
      obtain ⟨_, hx⟩ := h3 rfl
      cases l with
      | nil => exact absurd rfl hne
      | cons x xs =>
        have := hx x List.mem_cons_self
        have := h x List.mem_cons_self
        simp_all

/-- an incomplete list has no frontier -/
theorem compute_incomplete {l : List (Option Int)} (h : none ∈ l) : compute l = none := by
  cases hc : compute l with
  | none => rfl
  | some f =>
    have := (compute_some hc).1 none h
    simp at this

/-- Raising one entry never lowers the frontier. -/
theorem compute_set_mono {l : List (Option Int)} {r : Nat} {t f f' : Int} {x : Option Int}
    (hx : l[r]? = some x) (hle : ∀ t0, x = some t0 → t0 ≤ t)
    (h : compute l = some f) (h' : compute (l.set r (some t)) = some f') : f ≤ f' := by
  obtain ⟨hall, _, hlow⟩ := compute_some h
  obtain ⟨_, hmem', _⟩ := compute_some h'
  rcases List.mem_or_eq_of_mem_set hmem' with hm | hm
  · exact hlow f' hm
  · cases hm
    have hxm : x ∈ l := List.mem_of_getElem? hx
    cases x with
    | none => have := hall none hxm; simp at this
    | some t0 => exact Int.le_trans (hlow t0 hxm) (hle t0 rfl)

theorem compute_set_some {l : List (Option Int)} {r : Nat} {t f : Int}
    (h : compute l = some f) : ∃ f', compute (l.set r (some t)) = some f' := by
  obtain ⟨hall, hmem, _⟩ := compute_some h
  apply compute_complete
  · intro hnil
    have : (l.set r (some t)).length = 0 := by rw [hnil]; rfl
    rw [List.length_set] at this
    cases l with
    | nil => cases hmem
    | cons _ _ => simp at this
  · intro y hy
    rcases List.mem_or_eq_of_mem_set hy with hm | hm
    · exact hall y hm
    · rw [hm]; rfl

/-! ### watermark-safety state of an output -/

/-- state of the `wmSafeGo` recogniser after a list -/
def wmAfter : Option Int → List (Elem α) → Option Int
  | w, [] => w
  | _, Elem.wm t :: rest => wmAfter (some t) rest
  | _, Elem.far :: rest => wmAfter none rest
  | w, _ :: rest => wmAfter w rest

theorem wmSafeGo_append (w : Option Int) (l1 l2 : List (Elem α)) :
    wmSafeGo w (l1 ++ l2) = (wmSafeGo w l1 && wmSafeGo (wmAfter w l1) l2) := by
  induction l1 generalizing w with
  | nil => simp [wmSafeGo, wmAfter]
  | cons e es ih =>
    cases e <;> simp [wmSafeGo, wmAfter, ih, Bool.and_assoc]

/-! ### the simulation relation -/

/-- the frontier entry the code holds for a replica in contract state `p` -/
def latestOf (p : Rep) : Option Int := if p.ended then some TS_MAX else p.lw

/-- number of replicas that ended the current iteration -/
def endedCount : List Rep → Nat
  | [] => 0
  | p :: ps => (if p.ended then 1 else 0) + endedCount ps

theorem endedCount_le (l : List Rep) : endedCount l ≤ l.length := by
  induction l with
  | nil => simp [endedCount]
  | cons p ps ih => simp only [endedCount, List.length_cons]; split <;> omega

theorem endedCount_eq_length {l : List Rep} : endedCount l = l.length ↔ l.all (·.ended) = true := by
  induction l with
  | nil => simp [endedCount]
  | cons p ps ih =>
    have := endedCount_le ps
    simp only [endedCount, List.length_cons, List.all_cons, Bool.and_eq_true]
    cases hp : p.ended
    · simp; omega
    · simp only [if_true, true_and]; rw [← ih]; omega

theorem endedCount_set {l : List Rep} {r : Nat} {p p' : Rep} (h : l[r]? = some p) :
    endedCount (l.set r p') + (if p.ended then 1 else 0) = endedCount l + (if p'.ended then 1 else 0) := by
  induction l generalizing r with
  | nil => simp at h
  | cons q qs ih =>
    cases r with
    | zero => simp at h; subst h; simp [endedCount]; omega
    | succ r =>
      simp at h
      have := ih h
      simp only [List.set_cons_succ, endedCount]
      omega

theorem endedCount_set_same {l : List Rep} {r : Nat} {p p' : Rep} (h : l[r]? = some p)
    (he : p'.ended = p.ended) : endedCount (l.set r p') = endedCount l := by
  have := endedCount_set (p' := p') h
  rw [he] at this; omega

theorem map_none_eq_replicate (l : List (Option Int)) :
    l.map (fun _ => (none : Option Int)) = List.replicate l.length none := by
  induction l with
  | nil => rfl
  | cons x xs ih => simp [List.replicate_succ, ih]

theorem map_latest_reset (l : List Rep) :
    (l.map (fun p => ({ p with lw := none, ended := false, dirty := false } : Rep))).map latestOf
      = List.replicate l.length none := by
  induction l with
  | nil => rfl
  | cons x xs ih => simp [List.replicate_succ, latestOf] at ih ⊢; exact ih

theorem endedCount_reset (l : List Rep) :
    endedCount (l.map (fun p => ({ p with lw := none, ended := false, dirty := false } : Rep))) = 0 := by
  induction l with
  | nil => rfl
  | cons q qs ih => simp [endedCount, ih]

structure Rel (s : State) (sp : InSt) (outW : Option Int) : Prop where
  len : sp.reps.length = s.n
  npos : 0 < s.n
  latest : s.frontier.latest = sp.reps.map latestOf
  front : s.frontier.front = compute s.frontier.latest
  far : s.missingFar + endedCount sp.reps = s.n
  farPos : 0 < s.missingFar
  bound : ∀ p ∈ sp.reps, ∀ w, p.lw = some w → w ≤ TS_MAX
  /-- the frontier is what the block has been told, or is about to be told (pending) -/
  eff : s.frontier.front = (match s.pending with | some p => some p | none => outW)
  /-- a pending announcement is strictly above the last emitted watermark -/
  pendGt : ∀ p w, s.pending = some p → outW = some w → w < p

theorem latestOf_default : latestOf ({} : Rep) = none := rfl

theorem endedCount_replicate (n : Nat) : endedCount (List.replicate n ({} : Rep)) = 0 := by
  induction n with
  | zero => rfl
  | succ n ih => simp [List.replicate_succ, endedCount, ih]

theorem compute_replicate_none (n : Nat) (h : 0 < n) : compute (List.replicate n none) = none := by
  apply compute_incomplete
  cases n with
  | zero => omega
  | succ n => simp [List.replicate_succ]

theorem rel_init (n : Nat) (h : 0 < n) : Rel (init n) (InSt.init n) none := by
  refine ⟨by simp [InSt.init, init], h, ?_, ?_, ?_, h, ?_, rfl, fun p w hp => by simp [init] at hp⟩
  · simp [init, Frontier.new, InSt.init, latestOf_default]
  · simp only [init, Frontier.new]; exact (compute_replicate_none n h).symm
  · simp [init, InSt.init, endedCount_replicate]
  · intro p hp w hw
    simp [InSt.init] at hp
    rw [hp.2] at hw; cases hw

end Noir.Start

namespace Noir.Start
open Noir.StartSpec
variable {α : Type}

/-- outputs only (without arrival indices) -/
def outs (s : State) (as : List (Arrival α)) : List (Elem α) := (runFrom s 0 as).map (·.2)

theorem runFrom_map_snd (s : State) (i : Nat) (as : List (Arrival α)) :
    (runFrom s i as).map (·.2) = outs s as := by
  unfold outs
  induction as generalizing s i with
  | nil => rfl
  | cons a as ih =>
    simp only [runFrom, List.map_append, List.map_map]
    rw [ih (step s a).1 (i + 1), ih (step s a).1 (0 + 1)]
    congr 1

theorem outs_cons (s : State) (a : Arrival α) (as : List (Arrival α)) :
    outs s (a :: as) = (step s a).2 ++ outs (step s a).1 as := by
  unfold outs
  simp only [runFrom, List.map_append, List.map_map]
  rw [runFrom_map_snd]
  congr 1
  · induction (step s a).2 with
    | nil => rfl
    | cons x xs ih => simp [ih]

theorem outs_terminated (s : State) (h : s.missingTerm = 0) (as : List (Arrival α)) : outs s as = [] := by
  induction as with
  | nil => rfl
  | cons a as ih =>
    rw [outs_cons]
    have : step s a = (s, []) := by simp [step, h]
    rw [this]; simpa using ih

theorem set_same {β : Type} {l : List β} {r : Nat} {x : β} (h : l[r]? = some x) : l.set r x = l := by
  induction l generalizing r with
  | nil => rfl
  | cons y ys ih =>
    cases r with
    | zero => simp at h; simp [h]
    | succ r => simp at h; simp [ih h]

theorem getElem?_map_latest {reps : List Rep} {r : Nat} {p : Rep} (h : reps[r]? = some p) :
    (reps.map latestOf)[r]? = some (latestOf p) := by
  simp [List.getElem?_map, h]

/-- the last emitted watermark is below the frontier (derived form of `eff`/`pendGt`) -/
theorem Rel.outW_le {s : State} {sp : InSt} {outW : Option Int} (rel : Rel s sp outW) :
    ∀ w, outW = some w → ∃ f, s.frontier.front = some f ∧ w ≤ f := by
  intro w hw
  have he := rel.eff
  cases hp : s.pending with
  | none => rw [hp] at he; simp only at he; exact ⟨w, by rw [he, hw], Int.le_refl _⟩
  | some p =>
    rw [hp] at he; simp only at he
    exact ⟨p, he, Int.le_of_lt (rel.pendGt p w hp hw)⟩

/-- data element or anything that only sets `dirty` in the contract state; the block may have been
    told a pending watermark at the same time (new `pending`/`outW`) -/
theorem rel_set_dirty {s : State} {sp : InSt} {outW : Option Int} {r : Nat} {p : Rep}
    (rel : Rel s sp outW) (hp : sp.reps[r]? = some p) {pend' outW' : Option Int}
    (heff : s.frontier.front = (match pend' with | some q => some q | none => outW'))
    (hgt : ∀ q w, pend' = some q → outW' = some w → w < q) :
    Rel { s with pending := pend' } { sp with reps := sp.reps.set r { p with dirty := true } } outW' := by
  have hlat : latestOf { p with dirty := true } = latestOf p := rfl
  refine ⟨by simp [rel.len], rel.npos, ?_, rel.front, ?_, rel.farPos, ?_, heff, hgt⟩
  · show s.frontier.latest = _
    rw [rel.latest, List.map_set, hlat]
    exact (set_same (getElem?_map_latest hp)).symm
  · have := endedCount_set_same (p' := { p with dirty := true }) hp rfl
    have h2 := rel.far
    simp only at this ⊢
    omega
  · intro q hq w hw
    rcases List.mem_or_eq_of_mem_set hq with h | h
    · exact rel.bound q h w hw
    · subst h; exact rel.bound p (List.mem_of_getElem? hp) w hw

theorem rel_set_termd {s : State} {sp : InSt} {outW : Option Int} {r : Nat} {p : Rep} {k : Nat}
    (rel : Rel s sp outW) (hp : sp.reps[r]? = some p) :
    Rel { s with missingTerm := k } { sp with reps := sp.reps.set r { p with termd := true } } outW := by
  have hlat : latestOf { p with termd := true } = latestOf p := rfl
  refine ⟨by simp [rel.len], rel.npos, ?_, rel.front, ?_, rel.farPos, ?_, rel.eff, rel.pendGt⟩
  · show s.frontier.latest = _
    rw [rel.latest, List.map_set, hlat]
    exact (set_same (getElem?_map_latest hp)).symm
  · have := endedCount_set_same (p' := { p with termd := true }) hp rfl
    have h2 := rel.far
    simp only at this ⊢
    omega
  · intro q hq w hw
    rcases List.mem_or_eq_of_mem_set hq with h | h
    · exact rel.bound q h w hw
    · subst h; exact rel.bound p (List.mem_of_getElem? hp) w hw

theorem update_fresh {f : Frontier} {r : Nat} {t : Int} {x : Option Int}
    (hx : f.latest[r]? = some x) (hfresh : ∀ t', x = some t' → t' < t) :
    f.update r t = (⟨f.latest.set r (some t), compute (f.latest.set r (some t))⟩,
      announce f.front (compute (f.latest.set r (some t)))) := by
  unfold Frontier.update
  rw [hx]
  cases x with
  | none => simp
  | some t' =>
    have := hfresh t' rfl
    have h2 : ¬ (t ≤ t') := by omega
    simp [h2]

end Noir.Start

namespace Noir.Start
open Noir.StartSpec
variable {α : Type}

theorem announce_some {a b : Option Int} {f : Int} (h : announce a b = some f) : b = some f := by
  unfold announce at h
  split at h
  · exact h ▸ rfl
  · split at h
    · cases h; rfl
    · cases h
  · cases h

theorem announce_some_ne {a b : Option Int} {f g : Int} (h : announce a b = some f) (ha : a = some g) :
    g ≠ f := by
  subst ha
  cases b with
  | none => simp [announce] at h
  | some n =>
    simp only [announce] at h
    by_cases hgn : g = n
    · simp [hgn] at h
    · simp [hgn] at h; omega

theorem announce_none {a b : Option Int} (h : announce a b = none)
    (hs : ∀ g, a = some g → ∃ g', b = some g') : a = b := by
  cases a with
  | none =>
    cases b with
    | none => rfl
    | some n => simp [announce] at h
  | some o =>
    obtain ⟨g', hg'⟩ := hs o rfl
    subst hg'
    simp only [announce] at h
    split at h
    · cases h
    · rename_i heq; simp at heq; rw [heq]

/-- every data element of a replica that has not ended is strictly above the frontier -/
theorem front_lt_ts {s : State} {sp : InSt} {outW : Option Int} {r : Nat} {p : Rep} {t : Int}
    (rel : Rel s sp outW) (hp : sp.reps[r]? = some p) (hpe : p.ended = false)
    (habove : above p.lw t = true) : ∀ f, s.frontier.front = some f → f < t := by
  intro f hf
  rw [rel.front] at hf
  obtain ⟨hall, _, hlow⟩ := compute_some hf
  have hlatr : s.frontier.latest[r]? = some (latestOf p) := by
    rw [rel.latest]; exact getElem?_map_latest hp
  have hmem : latestOf p ∈ s.frontier.latest := List.mem_of_getElem? hlatr
  have hsome := hall _ hmem
  simp only [latestOf, hpe, Bool.false_eq_true, if_false] at hsome hmem
  cases hlw : p.lw with
  | none => rw [hlw] at hsome; simp at hsome
  | some lw =>
    rw [hlw] at hmem
    have := hlow lw hmem
    rw [hlw] at habove
    simp only [above, decide_eq_true_eq] at habove
    omega

/-- The simulation step: a contract-respecting arrival keeps the output watermark-safe and the
    relation between the code's state and the contract state. -/
theorem step_ok {s : State} {sp sp' : InSt} {outW : Option Int} {r : Nat} {e : Elem α}
    (rel : Rel s sp outW) (hT : s.missingTerm ≠ 0) (hin : inStep sp r e = some sp') :
    wmSafeGo outW (step s (.elem r e)).2 = true ∧
    ((step s (.elem r e)).1.missingTerm = 0 ∨
      Rel (step s (.elem r e)).1 sp' (wmAfter outW (step s (.elem r e)).2)) := by
  unfold inStep at hin
  cases hp : sp.reps[r]? with
  | none => simp [hp] at hin
  | some p =>
    simp only [hp] at hin
    by_cases htd : p.termd = true
    · rw [if_pos htd] at hin; cases hin
    · rw [if_neg htd] at hin
      have hpm : p ∈ sp.reps := List.mem_of_getElem? hp
      have hlatr : s.frontier.latest[r]? = some (latestOf p) := by
        rw [rel.latest]; exact getElem?_map_latest hp
      cases e with
      | flushBatch => simp at hin
      | term =>
        simp only at hin
        split at hin
        · cases hin
          simp only [step, hT, if_false, afterCounters]
          by_cases h0 : s.missingTerm - 1 = 0
          · simp [h0, wmSafeGo]
          · have hfp := rel.farPos
            have hfp' : s.missingFar ≠ 0 := by omega
            simp only [h0, if_false, hfp', wmSafeGo, wmAfter, true_and]
            right
            exact rel_set_termd rel hp
        · cases hin
      | item a =>
        simp only at hin
        split at hin
        · cases hin
        · cases hin
          simp only [step, hT, if_false]
          cases hpend : s.pending with
          | none =>
            simp only [wmSafeGo, wmAfter, true_and]
            right
            have := rel_set_dirty (pend' := s.pending) (outW' := outW) rel hp rel.eff rel.pendGt
            rw [hpend] at this
            have hs : ({ s with pending := none } : State) = s := by cases s; simp_all
            rw [hs] at this; exact this
          | some q =>
            have he := rel.eff; rw [hpend] at he; simp only at he
            refine ⟨?_, Or.inr ?_⟩
            · cases hw : outW with
              | none => simp [wmSafeGo]
              | some w => have := rel.pendGt q w hpend hw; simp [wmSafeGo]; omega
            · simp only [wmAfter]
              exact rel_set_dirty (pend' := none) (outW' := some q) rel hp he (fun _ _ h => by cases h)
      | ts a t =>
        simp only at hin
        split at hin
        · cases hin
        · rename_i hne
          split at hin
          · rename_i hok
            cases hin
            have hpe : p.ended = false := by
              cases h : p.ended <;> simp [h] at hne ⊢
            simp only [Bool.and_eq_true, decide_eq_true_eq] at hok
            have hlt := front_lt_ts rel hp hpe hok.2
            simp only [step, hT, if_false]
            cases hpend : s.pending with
            | none =>
              refine ⟨?_, Or.inr ?_⟩
              · cases hw : outW with
                | none => simp [wmSafeGo]
                | some w =>
                  obtain ⟨f, hf, hwf⟩ := rel.outW_le w hw
                  have := hlt f hf
                  simp [wmSafeGo]; omega
              · simp only [wmAfter]
                have := rel_set_dirty (pend' := s.pending) (outW' := outW) rel hp rel.eff rel.pendGt
                rw [hpend] at this
                have hs : ({ s with pending := none } : State) = s := by cases s; simp_all
                rw [hs] at this; exact this
            | some q =>
              have he := rel.eff; rw [hpend] at he; simp only at he
              have hq := hlt q he
              refine ⟨?_, Or.inr ?_⟩
              · cases hw : outW with
                | none => simp [wmSafeGo]; omega
                | some w => have := rel.pendGt q w hpend hw; simp [wmSafeGo]; omega
              · simp only [wmAfter]
                exact rel_set_dirty (pend' := none) (outW' := some q) rel hp he (fun _ _ h => by cases h)
          · cases hin
      | wm t =>
        simp only at hin
        split at hin
        · cases hin
        · rename_i hne
          split at hin
          · rename_i hok
            cases hin
            have hpe : p.ended = false := by
              cases h : p.ended <;> simp [h] at hne ⊢
            simp only [Bool.and_eq_true, decide_eq_true_eq] at hok
            have hlat' : latestOf p = p.lw := by simp [latestOf, hpe]
            rw [hlat'] at hlatr
            have hfresh : ∀ t', p.lw = some t' → t' < t := by
              intro t' ht'
              have := hok.2; rw [ht'] at this
              simpa [above] using this
            have hupd := update_fresh hlatr hfresh
            have hmono : ∀ f f', s.frontier.front = some f →
                compute (s.frontier.latest.set r (some t)) = some f' → f ≤ f' := by
              intro f f' hf hf'
              rw [rel.front] at hf
              exact compute_set_mono hlatr (fun t0 h0 => by have := hfresh t0 h0; omega) hf hf'
            have hsome : ∀ f, s.frontier.front = some f →
                ∃ f', compute (s.frontier.latest.set r (some t)) = some f' := by
              intro f hf; rw [rel.front] at hf; exact compute_set_some hf
            have hlatnew : latestOf { p with dirty := true, lw := some t } = some t := by
              simp [latestOf, hpe]
            have hbase : ∀ (pend' outW' : Option Int),
                compute (s.frontier.latest.set r (some t)) = (match pend' with | some q => some q | none => outW') →
                (∀ q w, pend' = some q → outW' = some w → w < q) →
                Rel { s with frontier := ⟨s.frontier.latest.set r (some t), compute (s.frontier.latest.set r (some t))⟩,
                             pending := pend' }
                  { sp with reps := sp.reps.set r { p with dirty := true, lw := some t } } outW' := by
              intro pend' outW' heff hgt
              refine ⟨by simp [rel.len], rel.npos, ?_, rfl, ?_, rel.farPos, ?_, heff, hgt⟩
              · show s.frontier.latest.set r (some t) = _
                rw [List.map_set, hlatnew, rel.latest]
              · have := endedCount_set_same (p' := { p with dirty := true, lw := some t }) hp rfl
                have h3 := rel.far
                simp only at this ⊢
                omega
              · intro q hq w hw
                rcases List.mem_or_eq_of_mem_set hq with h | h
                · exact rel.bound q h w hw
                · subst h; simp only at hw; cases hw; exact hok.1
            simp only [step, hT, if_false, hupd]
            cases hann : announce s.frontier.front (compute (s.frontier.latest.set r (some t))) with
            | none =>
              have heq := announce_none hann hsome
              simp only [wmSafeGo, wmAfter, true_and]
              right
              exact hbase s.pending outW (by rw [← heq]; exact rel.eff) rel.pendGt
            | some f' =>
              have hf' := announce_some hann
              refine ⟨?_, Or.inr ?_⟩
              · cases hw : outW with
                | none => simp [wmSafeGo]
                | some w =>
                  obtain ⟨f, hf, hwf⟩ := rel.outW_le w hw
                  have h1 := hmono f f' hf hf'
                  have h2 := announce_some_ne hann hf
                  simp [wmSafeGo]; omega
              · simp only [wmAfter]
                exact hbase none (some f') hf' (fun _ _ h => by cases h)
          · cases hin
      | far =>
        simp only at hin
        split at hin
        · cases hin
        · rename_i hne
          have hpe : p.ended = false := by
            cases h : p.ended <;> simp [h] at hne ⊢
          have hlat' : latestOf p = p.lw := by simp [latestOf, hpe]
          rw [hlat'] at hlatr
          have hbound : ∀ t0, p.lw = some t0 → t0 ≤ TS_MAX := fun t0 h0 => rel.bound p hpm t0 h0
          obtain ⟨p', hp'⟩ : ∃ p', p' = ({ p with dirty := true, ended := true } : Rep) := ⟨_, rfl⟩
          rw [← hp'] at hin
          have hlatnew : latestOf p' = some TS_MAX := by simp [latestOf, hp']
          have hpe' : p'.ended = true := by rw [hp']
          have hcnt := endedCount_set (p' := p') hp
          rw [hpe, hpe'] at hcnt
          have hfar := rel.far
          have hfp := rel.farPos
          have hlen : (sp.reps.set r p').length = s.n := by simp [rel.len]
          -- what happens after the frontier was updated to `fr` with pending value `pend'`
          have finish : ∀ (fr : Frontier) (pend' : Option Int),
              fr.latest = s.frontier.latest.set r (some TS_MAX) → fr.front = compute fr.latest →
              fr.front = (match pend' with | some q => some q | none => outW) →
              (∀ q w, pend' = some q → outW = some w → w < q) →
              wmSafeGo outW (afterCounters (α := α) { s with frontier := fr, missingFar := s.missingFar - 1, pending := pend' }).2 = true ∧
              ((afterCounters (α := α) { s with frontier := fr, missingFar := s.missingFar - 1, pending := pend' }).1.missingTerm = 0 ∨
               Rel (afterCounters (α := α) { s with frontier := fr, missingFar := s.missingFar - 1, pending := pend' }).1 sp'
                 (wmAfter outW (afterCounters (α := α) { s with frontier := fr, missingFar := s.missingFar - 1, pending := pend' }).2)) := by
            intro fr pend' hfr2 hfr3 heff' hgt'
            simp only [afterCounters]
            by_cases hall : (sp.reps.set r p').all (·.ended) = true
            · -- last replica of the iteration: `FlushAndRestart`, reset
              simp only [hall, if_true] at hin
              cases hin
              have hc : endedCount (sp.reps.set r p') = s.n := by
                rw [← hlen]; exact endedCount_eq_length.mpr hall
              have h0 : s.missingFar - 1 = 0 := by
                simp only [Bool.false_eq_true, if_false, Nat.add_zero, if_true] at hcnt; omega
              simp only [h0, hT, if_false, if_true, wmSafeGo, wmAfter, true_and]
              right
              refine ⟨by simp [resetIter, rel.len], rel.npos, ?_, ?_, ?_, rel.npos, ?_, rfl, fun _ _ h => by cases h⟩
              · simp only [Frontier.reset, resetIter]
                rw [map_none_eq_replicate, map_latest_reset, hfr2]
                simp [rel.latest]
              · simp only [Frontier.reset]
                symm; apply compute_incomplete
                have : 0 < fr.latest.length := by rw [hfr2]; simp [rel.latest, rel.len, rel.npos]
                cases hl : fr.latest with
                | nil => rw [hl] at this; simp at this
                | cons x xs => simp
              · simp only [resetIter]
                rw [endedCount_reset]; rfl
              · intro q hq w hw
                simp only [resetIter, List.mem_map] at hq
                obtain ⟨q0, _, rfl⟩ := hq
                simp at hw
            · simp only [hall, Bool.false_eq_true, if_false] at hin
              cases hin
              have hc : endedCount (sp.reps.set r p') ≠ s.n := by
                rw [← hlen]; intro h; exact hall (endedCount_eq_length.mp h)
              have hle := endedCount_le (sp.reps.set r p')
              have h0 : s.missingFar - 1 ≠ 0 := by
                simp only [Bool.false_eq_true, if_false, Nat.add_zero, if_true] at hcnt; omega
              simp only [h0, hT, if_false, wmSafeGo, wmAfter, true_and]
              right
              refine ⟨hlen, rel.npos, ?_, hfr3, ?_, by show 0 < s.missingFar - 1; omega, ?_, heff', hgt'⟩
              · show fr.latest = _
                rw [hfr2, List.map_set, hlatnew, rel.latest]
              · show s.missingFar - 1 + endedCount (sp.reps.set r p') = s.n
                simp only [Bool.false_eq_true, if_false, Nat.add_zero, if_true] at hcnt; omega
              · intro q hq w hw
                rcases List.mem_or_eq_of_mem_set hq with h | h
                · exact rel.bound q h w hw
                · rw [h, hp'] at hw; exact rel.bound p hpm w hw
          simp only [step, hT, if_false]
          by_cases hmax : p.lw = some TS_MAX
          · have hu : s.frontier.update r TS_MAX = (s.frontier, none) := by
              unfold Frontier.update; rw [hlatr, hmax]; simp
            rw [hu]
            refine finish s.frontier s.pending ?_ rel.front rel.eff rel.pendGt
            rw [hmax] at hlatr; exact (set_same hlatr).symm
          · have hfresh : ∀ t', p.lw = some t' → t' < TS_MAX := by
              intro t' ht'
              have := hbound t' ht'
              have : t' ≠ TS_MAX := fun h => hmax (h ▸ ht')
              omega
            have hu := update_fresh hlatr hfresh
            have hmono : ∀ f f', s.frontier.front = some f →
                compute (s.frontier.latest.set r (some TS_MAX)) = some f' → f ≤ f' := by
              intro f f' hf hf'
              rw [rel.front] at hf
              exact compute_set_mono hlatr hbound hf hf'
            have hsome : ∀ f, s.frontier.front = some f →
                ∃ f', compute (s.frontier.latest.set r (some TS_MAX)) = some f' := by
              intro f hf; rw [rel.front] at hf; exact compute_set_some hf
            rw [hu]
            cases hann : announce s.frontier.front (compute (s.frontier.latest.set r (some TS_MAX))) with
            | none =>
              have heq := announce_none hann hsome
              exact finish _ s.pending rfl rfl (by show compute _ = _; rw [← heq]; exact rel.eff) rel.pendGt
            | some f' =>
              have hf' := announce_some hann
              have hgt : ∀ w, outW = some w → w < f' := by
                intro w hw
                obtain ⟨f, hf, hwf⟩ := rel.outW_le w hw
                have h1 := hmono f f' hf hf'
                have h2 := announce_some_ne hann hf
                omega
              exact finish _ (some f') rfl rfl hf' (fun q w hq hw => by cases hq; exact hgt w hw)

end Noir.Start


namespace Noir.Start
/-- the two behaviours of `update` -/
theorem update_cases (f : Frontier) (r : Nat) (t : Int) :
    (f.update r t = (f, none)) ∨
    (∃ x, f.latest[r]? = some x ∧ (∀ t', x = some t' → t' < t) ∧
      f.update r t = (⟨f.latest.set r (some t), compute (f.latest.set r (some t))⟩,
        announce f.front (compute (f.latest.set r (some t))))) := by
  cases hx : f.latest[r]? with
  | none => left; simp [Frontier.update, hx]
  | some x =>
    by_cases hfresh : ∀ t', x = some t' → t' < t
    · right; exact ⟨x, rfl, hfresh, update_fresh hx hfresh⟩
    · left
      cases x with
      | none => exact absurd (fun t' h => nomatch h) hfresh
      | some t0 =>
        have : t ≤ t0 := by
          apply Classical.byContradiction; intro hn
          exact hfresh (fun t' h => by cases h; omega)
        simp [Frontier.update, hx, this]

end Noir.Start

namespace Noir.Start
open Noir.StartSpec

theorem minList_some {l : List Int} {m : Int} (h : minList l = some m) : m ∈ l ∧ ∀ x ∈ l, m ≤ x := by
  induction l generalizing m with
  | nil => cases h
  | cons x xs ih =>
    simp only [minList] at h
    cases hm : minList xs with
    | none =>
      rw [hm] at h; cases h
      have : xs = [] := by
        cases xs with
        | nil => rfl
        | cons y ys => simp only [minList] at hm; split at hm <;> cases hm
      subst this; simp
    | some m' =>
      rw [hm] at h; cases h
      obtain ⟨h1, h2⟩ := ih hm
      constructor
      · rcases Int.le_total x m' with hle | hle
        · rw [Int.min_eq_left hle]; simp
        · rw [Int.min_eq_right hle]; simp [h1]
      · intro y hy
        rcases List.mem_cons.mp hy with rfl | hy
        · exact Int.min_le_left _ _
        · exact Int.le_trans (Int.min_le_right _ _) (h2 y hy)

theorem minList_none {l : List Int} (h : minList l = none) : l = [] := by
  cases l with
  | nil => rfl
  | cons x xs => simp only [minList] at h; split at h <;> cases h

/-- In related states the code's frontier is the specification frontier: the minimum over the
    replicas that have not ended the iteration of their latest watermark. -/
theorem front_eq_spec {s : State} {sp : InSt} {outW : Option Int} (rel : Rel s sp outW) :
    s.frontier.front = specFront sp := by
  rw [rel.front, rel.latest]
  unfold specFront
  -- some replica has not ended
  have hcount : endedCount sp.reps < sp.reps.length := by
    have := rel.far; have := rel.farPos; have := rel.len; omega
  have hact : ∃ p ∈ sp.reps, p.ended = false := by
    apply Classical.byContradiction
    intro hno
    have : sp.reps.all (·.ended) = true := by
      rw [List.all_eq_true]; intro p hp
      cases h : p.ended with
      | true => rfl
      | false => exact absurd ⟨p, hp, h⟩ hno
    have := endedCount_eq_length.mpr this
    omega
  by_cases hall : (sp.reps.filter (fun p => !p.ended)).all (fun p => p.lw.isSome) = true
  · simp only [hall, if_true]
    have hcomplete : ∀ x ∈ sp.reps.map latestOf, x.isSome = true := by
      intro x hx
      obtain ⟨p, hp, rfl⟩ := List.mem_map.mp hx
      unfold latestOf
      cases hpe : p.ended with
      | true => rfl
      | false =>
        simp only [Bool.false_eq_true, if_false]
        rw [List.all_eq_true] at hall
        exact hall p (by simp [List.mem_filter, hp, hpe])
    have hne : sp.reps.map latestOf ≠ [] := by
      obtain ⟨p, hp, _⟩ := hact
      intro h; have := List.map_eq_nil_iff.mp h; rw [this] at hp; cases hp
    obtain ⟨f, hf⟩ := compute_complete hne hcomplete
    rw [hf]
    obtain ⟨_, hfm, hflow⟩ := compute_some hf
    cases hm : minList ((sp.reps.filter (fun p => !p.ended)).filterMap (·.lw)) with
    | none =>
      have hnil := minList_none hm
      obtain ⟨p, hp, hpe⟩ := hact
      have hpf : p ∈ sp.reps.filter (fun p => !p.ended) := by simp [List.mem_filter, hp, hpe]
      rw [List.all_eq_true] at hall
      have hs := hall p hpf
      cases hlw : p.lw with
      | none => rw [hlw] at hs; cases hs
      | some w =>
        have : w ∈ (sp.reps.filter (fun p => !p.ended)).filterMap (·.lw) :=
          List.mem_filterMap.mpr ⟨p, hpf, hlw⟩
        rw [hnil] at this; cases this
    | some m =>
      obtain ⟨hmm, hmlow⟩ := minList_some hm
      -- m is the lw of an active replica, hence an entry of `latest`
      obtain ⟨p, hpf, hplw⟩ := List.mem_filterMap.mp hmm
      have hpmem := (List.mem_filter.mp hpf)
      have hpe : p.ended = false := by simpa using hpmem.2
      have h1 : f ≤ m := by
        apply hflow m
        apply List.mem_map.mpr
        exact ⟨p, hpmem.1, by simp [latestOf, hpe, hplw]⟩
      -- f is an entry: either an active lw or TS_MAX
      obtain ⟨q, hq, hqf⟩ := List.mem_map.mp hfm
      have h2 : m ≤ f := by
        unfold latestOf at hqf
        cases hqe : q.ended with
        | true =>
          rw [hqe] at hqf; simp only [if_true] at hqf; cases hqf
          exact rel.bound p hpmem.1 m hplw
        | false =>
          rw [hqe] at hqf; simp only [Bool.false_eq_true, if_false] at hqf
          apply hmlow f
          exact List.mem_filterMap.mpr ⟨q, by simp [List.mem_filter, hq, hqe], hqf⟩
      congr 1; omega
  · simp only [hall, Bool.false_eq_true, if_false]
    apply compute_incomplete
    rw [List.all_eq_true] at hall
    have : ∃ p ∈ sp.reps.filter (fun p => !p.ended), p.lw.isSome = false := by
      apply Classical.byContradiction
      intro hno
      apply hall
      intro p hp
      cases h : p.lw.isSome with
      | true => rfl
      | false => exact absurd ⟨p, hp, h⟩ hno
    obtain ⟨p, hp, hlw⟩ := this
    have hpmem := List.mem_filter.mp hp
    have hpe : p.ended = false := by simpa using hpmem.2
    apply List.mem_map.mpr
    refine ⟨p, hpmem.1, ?_⟩
    simp only [latestOf, hpe, Bool.false_eq_true, if_false]
    cases h : p.lw with
    | none => rfl
    | some w => rw [h] at hlw; cases hlw

end Noir.Start

namespace Noir.Start
open Noir.StartSpec
variable {α : Type}

/-- A receive timeout (the block goes idle): a pending announcement is emitted, then the fake
    `FlushBatch`; the contract state is untouched. -/
theorem timeout_ok {s : State} {sp : InSt} {outW : Option Int} (rel : Rel s sp outW)
    (hT : s.missingTerm ≠ 0) :
    wmSafeGo outW (step s (Arrival.timeout : Arrival α)).2 = true ∧
    (step s (Arrival.timeout : Arrival α)).1.missingTerm = s.missingTerm ∧
    Rel (step s (Arrival.timeout : Arrival α)).1 sp (wmAfter outW (step s (Arrival.timeout : Arrival α)).2) := by
  simp only [step, hT, if_false]
  cases hp : s.pending with
  | none =>
    refine ⟨by simp [wmSafeGo], rfl, ?_⟩
    simpa [wmAfter] using rel
  | some q =>
    have he := rel.eff; rw [hp] at he; simp only at he
    refine ⟨?_, rfl, ?_⟩
    · cases hw : outW with
      | none => simp [wmSafeGo]
      | some w => have := rel.pendGt q w hp hw; simp [wmSafeGo]; omega
    · simp only [wmAfter]
      exact ⟨rel.len, rel.npos, rel.latest, rel.front, rel.far, rel.farPos, rel.bound, he,
        fun _ _ h => by cases h⟩

/-- the non-watermark part of a timeout's output is the fake `FlushBatch` -/
theorem timeout_out (s : State) (hT : s.missingTerm ≠ 0) :
    (step s (Arrival.timeout : Arrival α)).2 = [.flushBatch] ∨
    ∃ p, (step s (Arrival.timeout : Arrival α)).2 = [.wm p, .flushBatch] := by
  simp only [step, hT, if_false]
  cases s.pending with
  | none => left; rfl
  | some p => right; exact ⟨p, rfl⟩

end Noir.Start
