/-
  Lemmas/Range.lean — helper lemmas for the integer-range part of C15.

  Both implementations compute `chunk = ⌈(end-start)/peers⌉` and hand replica `i` the interval
  `[min (start + i·chunk) end, min (start + (i+1)·chunk) end)`; saturating additions never matter because
  they only kick in above `end`. The intervals telescope (`flatMap_intRange`).
-/
import NoirVerif.Model.Range
namespace Noir.Range

theorem upTo_append (k m : Nat) : ∀ a : Int, upTo a k ++ upTo (a + k) m = upTo a (k + m) := by
  induction k with
  | zero => intro a; simp [upTo]
  | succ k ih =>
    intro a
    have : k + 1 + m = (k + m) + 1 := by omega
    rw [this]
    simp only [upTo, List.cons_append]
    have e : a + ((k : Nat) + 1 : Nat) = a + 1 + (k : Int) := by omega
    rw [e, ih]

theorem intRange_append {a b c : Int} (h1 : a ≤ b) (h2 : b ≤ c) :
    intRange a b ++ intRange b c = intRange a c := by
  unfold intRange
  have e1 : b = a + ((b - a).toNat : Int) := by omega
  have e2 : (c - a).toNat = (b - a).toNat + (c - b).toNat := by omega
  rw [e2, ← upTo_append]
  congr 2

theorem intRange_empty {a b : Int} (h : b ≤ a) : intRange a b = [] := by
  unfold intRange
  have : (b - a).toNat = 0 := by omega
  rw [this]; rfl

theorem mem_upTo (k : Nat) : ∀ (a x : Int), x ∈ upTo a k ↔ a ≤ x ∧ x < a + k := by
  induction k with
  | zero => intro a x; simp [upTo]
  | succ k ih =>
    intro a x
    simp only [upTo, List.mem_cons, ih]
    omega

theorem mem_intRange {a b x : Int} : x ∈ intRange a b ↔ a ≤ x ∧ x < b := by
  unfold intRange
  rw [mem_upTo]
  omega

theorem intRange_congr {a b a' b' : Int} (h : (a = a' ∧ b = b') ∨ (b ≤ a ∧ b' ≤ a')) :
    intRange a b = intRange a' b' := by
  rcases h with ⟨rfl, rfl⟩ | ⟨h1, h2⟩
  · rfl
  · rw [intRange_empty h1, intRange_empty h2]

/-- telescoping of consecutive intervals -/
theorem flatMap_intRange (B : Nat → Int) : ∀ k, (∀ i, i < k → B i ≤ B (i + 1)) →
    (List.range k).flatMap (fun i => intRange (B i) (B (i + 1))) = intRange (B 0) (B k) ∧ B 0 ≤ B k := by
  intro k
  induction k with
  | zero => intro _; simp [intRange_empty]
  | succ k ih =>
    intro h
    obtain ⟨h1, h2⟩ := ih (fun i hi => h i (by omega))
    have hk := h k (by omega)
    constructor
    · rw [List.range_succ, List.flatMap_append, h1]
      simp only [List.flatMap_cons, List.flatMap_nil, List.append_nil]
      exact intRange_append h2 hk
    · omega

/-- the core of both implementations: with `x = start + index*chunk`, saturation at `M ≥ end` and the
    final `.min(end).max(start)` yield exactly the elements of `[min x e, min (x+c) e)`. -/
theorem core_elems {s e M c x : Int} (hse : s ≤ e) (heM : e ≤ M) (hc : 0 ≤ c) (hx : s ≤ x) :
    intRange (min M x) (max (min (min M (min M x + c)) e) s) = intRange (min x e) (min (x + c) e) := by
  apply intRange_congr
  omega

theorem chunk_facts {n p : Int} (hn : 0 ≤ n) (hp : 1 ≤ p) :
    0 ≤ (n + p - 1) / p ∧ n ≤ p * ((n + p - 1) / p) ∧ p * ((n + p - 1) / p) ≤ n + p - 1 := by
  have h1 := Int.mul_ediv_add_emod (n + p - 1) p
  have h2 := Int.emod_nonneg (n + p - 1) (show p ≠ 0 by omega)
  have h3 := Int.emod_lt_of_pos (n + p - 1) (show 0 < p by omega)
  have h4 : 0 ≤ (n + p - 1) / p := Int.ediv_nonneg (by omega) (by omega)
  refine ⟨h4, ?_, ?_⟩ <;> omega

theorem mul_le_of_le {i p c : Int} (hi : i ≤ p) (hc : 0 ≤ c) : i * c ≤ p * c :=
  Int.mul_le_mul_of_nonneg_right hi hc

/-- chunk size both implementations compute for a forward range: `⌈(e-s)/peers⌉` -/
def chunkOf (s e : Int) (peers : Nat) : Int := (e - s + (peers : Int) - 1) / (peers : Int)

/-- boundary `i` of the partition: `min (s + i·chunk) e` -/
def bound (s e : Int) (peers : Nat) (i : Nat) : Int := min (s + (i : Int) * chunkOf s e peers) e

/-- `Range<u64>` on a forward range. The only arithmetic requirement of the code: `n + peers - 1` must not
    saturate (`e - s + p - 1 ≤ u64::MAX`), otherwise the chunk size is rounded *down* and the tail of the
    range is lost. -/
theorem genU64_elems {s e : Int} {i p : Nat} (hs : 0 ≤ s) (hse : s ≤ e) (he : e ≤ U64_MAX)
    (hn : e - s + (p : Int) - 1 ≤ U64_MAX) (hp1 : 1 ≤ p) (hi : i < p) :
    ∃ a b, genU64 s e i p = .range a b ∧
      intRange a b = intRange (bound s e p i) (bound s e p (i + 1)) := by
  have hM : U64_MAX = 18446744073709551615 := rfl
  obtain ⟨c0, c1, c2⟩ := chunk_facts (n := e - s) (p := (p : Int)) (by omega) (by omega)
  have hic : (i : Int) * chunkOf s e p ≤ (p : Int) * chunkOf s e p :=
    mul_le_of_le (by omega) c0
  have hic0 : 0 ≤ (i : Int) * chunkOf s e p := Int.mul_nonneg (by omega) c0
  have hmax : max 0 (e - s) = e - s := by omega
  have hsat : satAdd 0 U64_MAX (e - s) ((p : Int) - 1) = e - s + (p : Int) - 1 := by
    unfold satAdd; omega
  have hp0 : ¬ p = 0 := by omega
  unfold genU64
  simp only [hmax, hp0, if_false, hsat]
  have hprod : ¬ ((i : Int) * ((e - s + (p : Int) - 1) / (p : Int)) > U64_MAX) := by
    unfold chunkOf at hic; omega
  simp only [hprod, if_false]
  refine ⟨_, _, rfl, ?_⟩
  apply intRange_congr
  unfold bound
  have e1 : ((i + 1 : Nat) : Int) * chunkOf s e p = (i : Int) * chunkOf s e p + chunkOf s e p := by
    rw [Int.natCast_succ, Int.add_mul, Int.one_mul]
  rw [e1]
  unfold chunkOf at hic hic0 ⊢
  unfold satAdd
  generalize (i : Int) * ((e - s + (p : Int) - 1) / (p : Int)) = x at *
  generalize ((e - s + (p : Int) - 1) / (p : Int)) = c at *
  omega

/-- `Range<u64>`, reversed or empty range: every replica (any index) gets an empty range, no panic. -/
theorem genU64_reversed {s e : Int} (i : Nat) {p : Nat} (hs : 0 ≤ s) (hs' : s ≤ U64_MAX) (hes : e ≤ s)
    (hp1 : 1 ≤ p) (hp2 : (p : Int) ≤ U64_MAX) : genU64 s e i p = .range s s := by
  have hM : U64_MAX = 18446744073709551615 := rfl
  have hmax : max 0 (e - s) = 0 := by omega
  have hp0 : ¬ p = 0 := by omega
  have hchunk : (satAdd 0 U64_MAX 0 ((p : Int) - 1)) / (p : Int) = 0 := by
    apply Int.ediv_eq_zero_of_lt <;> unfold satAdd <;> omega
  unfold genU64
  simp only [hmax, hp0, if_false, hchunk, Int.mul_zero]
  have h0 : ¬ ((0 : Int) > U64_MAX) := by omega
  simp only [h0, if_false]
  have h1 : satAdd 0 U64_MAX s 0 = s := by unfold satAdd; omega
  rw [h1, h1]
  congr 1
  omega

theorem fromI128_of_bounds {t : Ty} {v : Int} (h1 : t.lo ≤ v) (h2 : v ≤ t.hi) : t.fromI128 v = some v := by
  simp [Ty.fromI128, h1, h2]

theorem Ty.lo_ge (t : Ty) : I64_MIN ≤ t.lo := by cases t <;> decide
theorem Ty.lo_le (t : Ty) : t.lo ≤ 0 := by cases t <;> decide
theorem Ty.hi_le (t : Ty) : t.hi ≤ U64_MAX := by cases t <;> decide
theorem Ty.hi_ge (t : Ty) : 0 ≤ t.hi := by cases t <;> decide

/-- The macro implementation on a forward range: no side condition at all (every intermediate value is
    below 2^67, far inside `i128`; both bounds are clamped into `[first, last]`, hence fit the type). -/
theorem genMacro_elems {t : Ty} {s e : Int} {i p : Nat} (hs : t.lo ≤ s) (hse : s ≤ e) (he : e ≤ t.hi)
    (hp1 : 1 ≤ p) (hp2 : (p : Int) ≤ U64_MAX) (hi : i < p) :
    ∃ a b, genMacro t s e i p = .range a b ∧
      intRange a b = intRange (bound s e p i) (bound s e p (i + 1)) := by
  have hU : U64_MAX = 18446744073709551615 := rfl
  have hm : I64_MIN = -9223372036854775808 := rfl
  have hM : I128_MAX = 170141183460469231731687303715884105727 := rfl
  have hmm : I128_MIN = -170141183460469231731687303715884105728 := rfl
  have hlo := t.lo_ge
  have hhi := t.hi_le
  obtain ⟨c0, c1, c2⟩ := chunk_facts (n := e - s) (p := (p : Int)) (by omega) (by omega)
  have hic : (i : Int) * chunkOf s e p ≤ (p : Int) * chunkOf s e p :=
    mul_le_of_le (by omega) c0
  have hic0 : 0 ≤ (i : Int) * chunkOf s e p := Int.mul_nonneg (by omega) c0
  have c0' : 0 ≤ chunkOf s e p := c0
  have c2' : (p : Int) * chunkOf s e p ≤ e - s + (p : Int) - 1 := c2
  have hmax : max (e - s) 0 = e - s := by omega
  have hp0 : ¬ p = 0 := by omega
  have htdiv : Int.tdiv (e - s + (p : Int) - 1) (p : Int) = chunkOf s e p := by
    unfold chunkOf
    exact Int.tdiv_eq_ediv_of_nonneg (by omega)
  have hmul : satMul I128_MIN I128_MAX (i : Int) (chunkOf s e p) = (i : Int) * chunkOf s e p := by
    unfold satMul; omega
  have e1 : ((i + 1 : Nat) : Int) * chunkOf s e p = (i : Int) * chunkOf s e p + chunkOf s e p := by
    rw [Int.natCast_succ, Int.add_mul, Int.one_mul]
  unfold genMacro
  simp only [hmax, hp0, if_false, htdiv, hmul]
  generalize hx : (i : Int) * chunkOf s e p = x at *
  generalize hc : chunkOf s e p = c at *
  have hstart : max (min (satAdd I128_MIN I128_MAX s x) e) s = min (s + x) e := by
    unfold satAdd; omega
  rw [hstart]
  have hend : max (min (satAdd I128_MIN I128_MAX (min (s + x) e) c) e) (min (s + x) e) = min (s + x + c) e := by
    unfold satAdd; omega
  rw [hend, fromI128_of_bounds (by omega) (by omega), fromI128_of_bounds (by omega) (by omega)]
  refine ⟨_, _, rfl, ?_⟩
  unfold bound
  rw [hc, e1, hx, Int.add_assoc]

/-- The macro implementation on a reversed or empty range: every replica (any index) gets the empty range
    `first..first`, no panic. -/
theorem genMacro_reversed {t : Ty} {s e : Int} (i : Nat) {p : Nat} (hs : t.lo ≤ s) (hs' : s ≤ t.hi)
    (hes : e ≤ s) (hp1 : 1 ≤ p) : genMacro t s e i p = .range s s := by
  have hp0 : ¬ p = 0 := by omega
  have hmax : max (e - s) 0 = 0 := by omega
  have htdiv : Int.tdiv (0 + (p : Int) - 1) (p : Int) = 0 := by
    rw [Int.tdiv_eq_ediv_of_nonneg (by omega)]
    apply Int.ediv_eq_zero_of_lt <;> omega
  unfold genMacro
  simp only [hmax, hp0, if_false, htdiv]
  have hstart : ∀ y : Int, max (min y e) s = s := by intro y; omega
  rw [hstart]
  have hend : ∀ y : Int, max (min y e) s = s := hstart
  rw [hend, fromI128_of_bounds hs hs']

/-- "the per-replica chunks partition `[s, e)`": no replica panics, the concatenation of what the replicas
    `0, …, p-1` yield is exactly `s, s+1, …, e-1`, and everything replica `i` yields is smaller than
    everything replica `j > i` yields (so the chunks are disjoint and ordered). -/
def Partition (f : Nat → Res) (s e : Int) (p : Nat) : Prop :=
  (∀ i, i < p → (f i).isPanic = false) ∧
  (List.range p).flatMap (fun i => (f i).elems) = intRange s e ∧
  (∀ i j, i < j → j < p → ∀ x ∈ (f i).elems, ∀ y ∈ (f j).elems, x < y)

theorem flatMap_congr' {α β : Type} (l : List α) (f g : α → List β) (h : ∀ a ∈ l, f a = g a) :
    l.flatMap f = l.flatMap g := by
  induction l with
  | nil => rfl
  | cons x xs ih =>
    simp only [List.flatMap_cons, h x (by simp)]
    rw [ih (fun a ha => h a (by simp [ha]))]

theorem bound_mono {s e : Int} {p : Nat} (hc : 0 ≤ chunkOf s e p) {i j : Nat} (h : i ≤ j) :
    bound s e p i ≤ bound s e p j := by
  unfold bound
  have : (i : Int) * chunkOf s e p ≤ (j : Int) * chunkOf s e p := mul_le_of_le (by omega) hc
  omega

theorem partition_of_bounds {f : Nat → Res} {s e : Int} {p : Nat} (hse : s ≤ e) (hp : 1 ≤ p)
    (h : ∀ i, i < p → ∃ a b, f i = .range a b ∧
      intRange a b = intRange (bound s e p i) (bound s e p (i + 1))) :
    Partition f s e p := by
  obtain ⟨c0, c1, _⟩ := chunk_facts (n := e - s) (p := (p : Int)) (by omega) (by omega)
  have c0' : 0 ≤ chunkOf s e p := c0
  have helems : ∀ i, i < p → (f i).elems = intRange (bound s e p i) (bound s e p (i + 1)) := by
    intro i hi
    obtain ⟨a, b, h1, h2⟩ := h i hi
    rw [h1]; exact h2
  refine ⟨?_, ?_, ?_⟩
  · intro i hi
    obtain ⟨a, b, h1, _⟩ := h i hi
    rw [h1]; rfl
  · have h1 : (List.range p).flatMap (fun i => (f i).elems)
        = (List.range p).flatMap (fun i => intRange (bound s e p i) (bound s e p (i + 1))) := by
      apply flatMap_congr'
      intro i hi
      exact helems i (by simpa using hi)
    rw [h1, (flatMap_intRange (bound s e p) p (fun i _ => bound_mono c0' (by omega))).1]
    have b0 : bound s e p 0 = s := by unfold bound; simp; omega
    have bp : bound s e p p = e := by
      unfold bound
      have : e - s ≤ (p : Int) * chunkOf s e p := c1
      omega
    rw [b0, bp]
  · intro i j hij hj x hx y hy
    rw [helems i (by omega), mem_intRange] at hx
    rw [helems j hj, mem_intRange] at hy
    have := bound_mono (s := s) (e := e) c0' (show i + 1 ≤ j by omega)
    omega

theorem chunkOf_empty (s : Int) (p : Nat) (hp : 1 ≤ p) : chunkOf s s p = 0 := by
  unfold chunkOf
  apply Int.ediv_eq_zero_of_lt <;> omega

end Noir.Range
