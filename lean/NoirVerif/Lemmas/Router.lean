/-
  Lemmas/Router.lean — helper lemmas for Props/C03.lean.
-/
import NoirVerif.Model.Router
import NoirVerif.Lemmas.Placement
namespace Noir.Router
open Noir.Placement

/-! ### `blocksOf`, `indexesOf` -/

theorem mem_blocksOf (b : Nat) : ∀ bs : List Nat, b ∈ blocksOf bs ↔ b ∈ bs := by
  intro bs
  induction bs with
  | nil => simp [blocksOf]
  | cons x xs ih =>
    simp only [blocksOf, List.mem_cons, List.mem_filter, bne_iff_ne, ne_eq, ih]
    constructor
    · rintro (h | ⟨h, _⟩)
      · exact Or.inl h
      · exact Or.inr h
    · rintro (h | h)
      · exact Or.inl h
      · by_cases hb : b = x
        · exact Or.inl hb
        · exact Or.inr ⟨h, hb⟩

theorem nodup_blocksOf : ∀ bs : List Nat, (blocksOf bs).Nodup := by
  intro bs
  induction bs with
  | nil => simp [blocksOf]
  | cons x xs ih =>
    simp only [blocksOf, List.nodup_cons, List.mem_filter, bne_self_eq_false, Bool.false_eq_true,
      and_false, not_false_eq_true, true_and]
    exact ih.sublist List.filter_sublist

theorem mem_indexesOf (bs : List Nat) (b i : Nat) : i ∈ indexesOf bs b ↔ bs[i]? = some b := by
  simp only [indexesOf, List.mem_filter, List.mem_range, beq_iff_eq]
  constructor
  · exact fun h => h.2
  · intro h
    refine ⟨?_, h⟩
    by_cases hi : i < bs.length
    · exact hi
    · rw [List.getElem?_eq_none (by omega)] at h; cases h

theorem nodup_indexesOf (bs : List Nat) (b : Nat) : (indexesOf bs b).Nodup :=
  List.nodup_range.sublist List.filter_sublist

theorem indexesOf_ne_nil (bs : List Nat) (b : Nat) (h : b ∈ bs) : indexesOf bs b ≠ [] := by
  obtain ⟨i, hi, hb⟩ := List.getElem_of_mem h
  have : i ∈ indexesOf bs b := (mem_indexesOf bs b i).mpr (by simp [hi, hb])
  intro hnil; rw [hnil] at this; cases this

/-- the sender chosen inside the group of block `b` -/
def pick (bs : List Nat) (idx b : Nat) : Nat :=
  ((indexesOf bs b)[idx % (indexesOf bs b).length]?).getD 0

theorem pick_spec (bs : List Nat) (idx b : Nat) (h : b ∈ bs) :
    (indexesOf bs b)[idx % (indexesOf bs b).length]? = some (pick bs idx b) ∧
    bs[pick bs idx b]? = some b := by
  have hne := indexesOf_ne_nil bs b h
  have hpos : 0 < (indexesOf bs b).length := List.length_pos_iff.mpr hne
  have hlt : idx % (indexesOf bs b).length < (indexesOf bs b).length := Nat.mod_lt _ hpos
  have hsome : (indexesOf bs b)[idx % (indexesOf bs b).length]? =
      some ((indexesOf bs b)[idx % (indexesOf bs b).length]) := List.getElem?_eq_getElem hlt
  refine ⟨by simp [pick, hsome], ?_⟩
  have hmem : pick bs idx b ∈ indexesOf bs b := by
    simp only [pick, hsome, Option.getD_some]; exact List.getElem_mem hlt
  exact (mem_indexesOf bs b _).mp hmem

theorem filterMap_eq_map_of {α β : Type} (g : α → Option β) (f : α → β) :
    ∀ l : List α, (∀ x ∈ l, g x = some (f x)) → l.filterMap g = l.map f := by
  intro l
  induction l with
  | nil => intro _; rfl
  | cons x xs ih =>
    intro h
    rw [List.filterMap_cons, h x (by simp), List.map_cons, ih (fun y hy => h y (by simp [hy]))]

/-! ### groups -/

theorem groups_nodup (s : Strategy) (bs : List Nat) : ∀ g ∈ groups s bs, g.Nodup := by
  intro g hg
  cases s <;> simp only [groups, List.mem_map] at hg
  case all => obtain ⟨i, _, rfl⟩ := hg; simp
  all_goals (obtain ⟨b, _, rfl⟩ := hg; exact nodup_indexesOf bs b)

theorem groups_mem (s : Strategy) (bs : List Nat) (i : Nat) :
    (∃ g ∈ groups s bs, i ∈ g) ↔ i < bs.length := by
  have hother : (∃ g ∈ (blocksOf bs).map (indexesOf bs), i ∈ g) ↔ i < bs.length := by
    constructor
    · rintro ⟨g, hg, hi⟩
      obtain ⟨b, _, rfl⟩ := List.mem_map.mp hg
      rw [mem_indexesOf] at hi
      by_cases hlt : i < bs.length
      · exact hlt
      · rw [List.getElem?_eq_none (by omega)] at hi; cases hi
    · intro hi
      refine ⟨indexesOf bs bs[i], List.mem_map.mpr ⟨bs[i], ?_, rfl⟩, ?_⟩
      · exact (mem_blocksOf _ bs).mpr (List.getElem_mem hi)
      · exact (mem_indexesOf bs _ i).mpr (List.getElem?_eq_getElem hi)
  cases s
  case all =>
    simp only [groups, List.mem_map, List.mem_range]
    constructor
    · rintro ⟨g, ⟨j, hj, rfl⟩, hi⟩; simp at hi; omega
    · intro hi; exact ⟨[i], ⟨i, hi, rfl⟩, by simp⟩
  all_goals exact hother

theorem groups_disjoint (s : Strategy) (bs : List Nat) :
    (groups s bs).Pairwise (fun g1 g2 => ∀ x ∈ g1, ∀ y ∈ g2, x ≠ y) := by
  have hother : ((blocksOf bs).map (indexesOf bs)).Pairwise
      (fun g1 g2 => ∀ x ∈ g1, ∀ y ∈ g2, x ≠ y) := by
    rw [List.pairwise_map]
    have := nodup_blocksOf bs
    unfold List.Nodup at this
    refine this.imp ?_
    intro b1 b2 hne x hx y hy hxy
    rw [mem_indexesOf] at hx hy
    subst hxy; rw [hx] at hy; exact hne (by simpa using hy)
  cases s
  case all =>
    simp only [groups]
    rw [List.pairwise_map]
    have := @List.nodup_range bs.length
    unfold List.Nodup at this
    refine this.imp ?_
    intro a b hne x hx y hy
    simp at hx hy; omega
  all_goals exact hother

/-- the senders reached through the groups, filtered by `q`: each valid index satisfying `q`
    exactly once -/
theorem groups_flatMap_filter (s : Strategy) (bs : List Nat) (q : Nat → Bool) :
    ((groups s bs).flatMap (fun g => g.filter q)).Nodup ∧
    ∀ i, i ∈ (groups s bs).flatMap (fun g => g.filter q) ↔ i < bs.length ∧ q i = true := by
  constructor
  · unfold List.Nodup
    rw [List.pairwise_flatMap]
    constructor
    · intro g hg
      exact (groups_nodup s bs g hg).sublist List.filter_sublist
    · refine (groups_disjoint s bs).imp ?_
      intro g1 g2 h x hx y hy
      exact h x (List.mem_filter.mp hx).1 y (List.mem_filter.mp hy).1
  · intro i
    simp only [List.mem_flatMap, List.mem_filter]
    constructor
    · rintro ⟨g, hg, hi, hq⟩
      exact ⟨(groups_mem s bs i).mp ⟨g, hg, hi⟩, hq⟩
    · rintro ⟨hi, hq⟩
      obtain ⟨g, hg, hig⟩ := (groups_mem s bs i).mpr hi
      exact ⟨g, hg, hig, hq⟩

/-- the data targets of a non-`All` strategy: one `pick` per downstream block -/
theorem dataTargets_eq (st : State) (s : Strategy) (hs : s ≠ .all) (bs : List Nat)
    (hg : st.groups = groups s bs) (idx : Nat) :
    dataTargets st idx = (blocksOf bs).map (pick bs idx) := by
  have hgr : groups s bs = (blocksOf bs).map (indexesOf bs) := by
    cases s <;> first | rfl | exact absurd rfl hs
  unfold dataTargets
  rw [hg, hgr, List.filterMap_map]
  apply filterMap_eq_map_of
  intro b hb
  exact (pick_spec bs idx b ((mem_blocksOf b bs).mp hb)).1

theorem dataTargets_all (st : State) (bs : List Nat) (hg : st.groups = groups .all bs) (idx : Nat) :
    dataTargets st idx = List.range bs.length := by
  unfold dataTargets
  rw [hg]
  simp only [groups, List.filterMap_map]
  have : (List.range bs.length).filterMap ((fun g : List Nat => g[idx % g.length]?) ∘ fun i => [i])
      = (List.range bs.length).map id := by
    apply filterMap_eq_map_of
    intro i _
    simp [Nat.mod_one]
  simpa using this

/-! ### sorted senders -/

theorem lexLe_append_right : ∀ (a b s : List Nat), a.length = b.length →
    lexLe (a ++ s) (b ++ s) = true → lexLe a b = true := by
  intro a
  induction a with
  | nil => intro b s _ _; simp [lexLe]
  | cons x xs ih =>
    intro b s hl h
    cases b with
    | nil => simp at hl
    | cons y ys =>
      simp only [List.cons_append, lexLe, Bool.or_eq_true, Bool.and_eq_true, decide_eq_true_eq,
        beq_iff_eq] at *
      rcases h with h | ⟨h, h'⟩
      · exact Or.inl h
      · exact Or.inr ⟨h, ih ys s (by simpa using hl) h'⟩

theorem Endpoint.key_inj {a b : Endpoint} (h : a.key = b.key) : a = b := by
  obtain ⟨⟨a1, a2, a3⟩, ap⟩ := a
  obtain ⟨⟨b1, b2, b3⟩, bp⟩ := b
  simp [Endpoint.key, Coord.key] at h
  simp [h]

/-- the coordinates of the senders: sorted, and a permutation of the connected coordinates -/
theorem senders_coords (cfg : Cfg) (me : Nat) (next : List (Coord × Bool)) :
    ((senders cfg me next).map (·.coord)).Pairwise (fun a b => lexLe a.key b.key = true) ∧
    ((senders cfg me next).map (·.coord)).Perm
      ((next.filter (fun p => !p.2 && !cfg.ignore.contains p.1.block)).map (·.1)) := by
  constructor
  · rw [List.pairwise_map]
    have hs := List.pairwise_mergeSort (le := fun a b : Endpoint => lexLe a.key b.key)
      (fun a b c => lexLe_trans _ _ _) (fun a b => lexLe_total _ _)
      ((getSenders me next).filter (fun e => !cfg.ignore.contains e.coord.block))
    have hprev : ∀ e ∈ senders cfg me next, e.prev = me := by
      intro e he
      simp only [senders, List.mem_mergeSort, List.mem_filter, getSenders, List.mem_map] at he
      obtain ⟨⟨p, _, rfl⟩, _⟩ := he; rfl
    unfold senders
    refine (List.Pairwise.and_mem.mp hs).imp ?_
    rintro a b ⟨ha, hb, hle⟩
    have ha' := hprev a (by unfold senders; exact ha)
    have hb' := hprev b (by unfold senders; exact hb)
    simp only [Endpoint.key, ha', hb'] at hle
    exact lexLe_append_right _ _ [me] (by simp [Coord.key]) hle
  · unfold senders
    refine ((List.mergeSort_perm _ _).map _).trans ?_
    simp only [getSenders, List.filter_map, List.map_map, List.filter_filter]
    apply List.Perm.of_eq
    congr 1
    apply List.filter_congr
    intro p _
    simp [Bool.and_comm]

/-! ### the senders towards one downstream block (a producer may have several) -/

/-- the (sorted) senders towards block `b` -/
def sendersTo (ss : List Endpoint) (b : Nat) : List Endpoint := ss.filter (·.coord.block == b)

/-- the indexes of `indexesOf` enumerate exactly `sendersTo`, in order -/
theorem indexesOf_get (b : Nat) : ∀ ss : List Endpoint,
    (indexesOf (ss.map (·.coord.block)) b).map (fun i => ss[i]?) = (sendersTo ss b).map some := by
  intro ss
  induction ss with
  | nil => simp [indexesOf, sendersTo]
  | cons x xs ih =>
    have ih' : ((List.range xs.length).filter (fun i => (xs.map (·.coord.block))[i]? == some b)).map
        (fun i => xs[i]?) = (xs.filter (·.coord.block == b)).map some := by
      simpa [indexesOf, sendersTo] using ih
    simp only [indexesOf, sendersTo, List.map_cons, List.length_cons, List.range_succ_eq_map,
      List.filter_cons, List.getElem?_cons_zero, List.filter_map, List.map_map]
    by_cases hx : x.coord.block = b
    · simp only [hx, beq_self_eq_true, if_true, List.map_cons, List.getElem?_cons_zero,
        List.cons.injEq, true_and]
      rw [← ih']
      simp [Function.comp_def]
    · have : (some x.coord.block == some b) = false := by simp [hx]
      have h2 : (x.coord.block == b) = false := by simp [hx]
      simp only [this, h2, Bool.false_eq_true, if_false]
      rw [← ih']
      simp [Function.comp_def]

/-- the coordinate the element goes to inside block `b`: `sorted senders towards b [idx % len]` -/
def targetIn (ss : List Endpoint) (b idx : Nat) : Option Coord :=
  let cs := (sendersTo ss b).map (·.coord)
  cs[idx % cs.length]?

theorem pick_coord (ss : List Endpoint) (idx b : Nat) (hb : b ∈ ss.map (·.coord.block)) :
    (ss[pick (ss.map (·.coord.block)) idx b]?).map (·.coord) = targetIn ss b idx := by
  have hg := indexesOf_get b ss
  have hlen : (indexesOf (ss.map (·.coord.block)) b).length = (sendersTo ss b).length := by
    have := congrArg List.length hg; simpa using this
  have hp := (pick_spec (ss.map (·.coord.block)) idx b hb).1
  have h1 := congrArg (fun l => l[idx % (indexesOf (ss.map (·.coord.block)) b).length]?) hg
  simp only [List.getElem?_map, hp, Option.map_some] at h1
  unfold targetIn
  simp only [List.length_map, List.getElem?_map, ← hlen]
  cases hq : (sendersTo ss b)[idx % (indexesOf (ss.map (·.coord.block)) b).length]? with
  | none => rw [hq] at h1; simp at h1
  | some e => rw [hq] at h1; simp at h1; simp [h1]

/-- The coordinates of the senders towards block `b` are exactly `cs`, in order, whenever the
    connections of the replica towards `b` are the non-fragile links to `cs` (in any order, mixed
    with the connections towards other blocks), `b` is not ignored and `cs` is sorted. -/
theorem sendersTo_coords (cfg : Cfg) (me : Nat) (next : List (Coord × Bool)) (b : Nat)
    (cs : List Coord)
    (hJ : (next.filter (fun p => p.1.block == b)).Perm (cs.map (·, false)))
    (hi : cfg.ignore.contains b = false)
    (hs : cs.Pairwise (fun a c => lexLe a.key c.key = true)) :
    (sendersTo (senders cfg me next) b).map (·.coord) = cs := by
  have hsc := senders_coords cfg me next
  have hmap : (sendersTo (senders cfg me next) b).map (·.coord) =
      ((senders cfg me next).map (·.coord)).filter (·.block == b) := by
    simp [sendersTo, List.filter_map, Function.comp_def]
  apply List.Perm.eq_of_pairwise (le := fun a c : Coord => lexLe a.key c.key = true)
  · intro a c _ _ hac hca
    exact Coord.key_inj (lexLe_antisymm _ _ (by simp [Coord.key]) hac hca)
  · rw [hmap]; exact hsc.1.sublist List.filter_sublist
  · exact hs
  · rw [hmap]
    refine (hsc.2.filter _).trans ?_
    -- reorder the filters: first the block, then fragile / ignore
    have hi' : b ∉ cfg.ignore := by simpa using hi
    have e1 : ((next.filter (fun p => !p.2 && !cfg.ignore.contains p.1.block)).map (·.1)).filter
        (·.block == b) =
        ((next.filter (fun p => p.1.block == b)).filter
          (fun p => !p.2 && !cfg.ignore.contains p.1.block)).map (·.1) := by
      simp only [List.filter_map, List.filter_filter, Function.comp_def]
      congr 1
      apply List.filter_congr
      intro p _
      simp [Bool.and_comm]
    rw [e1]
    refine ((hJ.filter _).map _).trans (List.Perm.of_eq ?_)
    have hblock : ∀ c ∈ cs, c.block = b := by
      intro c hc
      have : (c, false) ∈ next.filter (fun p => p.1.block == b) :=
        hJ.mem_iff.mpr (List.mem_map.mpr ⟨c, hc, rfl⟩)
      simpa using (List.mem_filter.mp this).2
    rw [List.filter_map, List.map_map]
    have : cs.filter ((fun p : Coord × Bool => !p.2 && !cfg.ignore.contains p.1.block) ∘
        fun c => (c, false)) = cs := by
      rw [List.filter_eq_self]
      intro c hc
      simp [hblock c hc, hi']
    rw [this]; exact List.map_id' _

end Noir.Router
