/-
  Lemmas/EventTimeWindow.lean — invariants of `EventTimeWindowManager` and of the keyed dispatch
  (helper lemmas for Props/C13).
-/
import NoirVerif.Model.EventTimeWindow
import NoirVerif.Model.TransactionWindow

/-! ## Generic facts about the keyed dispatch (`Model/WindowOp.lean`) -/
namespace Noir.WindowOp

variable {κ σ α β : Type}

/-- `upsert` keeps a per-key predicate that `init` satisfies and `step` preserves, and its
    results are results of a step from a state satisfying it. -/
theorem upsert_inv [DecidableEq κ] (m : Mgr σ α β) (P : κ → σ → Prop) (k : κ) (e : Elem α)
    (hinit : P k m.init) (hstep : ∀ s, P k s → P k (m.step s e).1) :
    ∀ (ws : List (κ × σ)), (∀ p ∈ ws, P p.1 p.2) →
      (∀ p ∈ (upsert m k e ws).1, P p.1 p.2) ∧
      (∀ r ∈ (upsert m k e ws).2.1, ∃ s, P k s ∧ r ∈ (m.step s e).2) := by
  intro ws
  induction ws with
  | nil =>
    intro _
    refine ⟨?_, ?_⟩
    · intro p hp
      simp only [upsert, List.mem_singleton] at hp
      subst hp; exact hstep _ hinit
    · intro r hr; exact ⟨m.init, hinit, by simpa [upsert] using hr⟩
  | cons p rest ih =>
    intro h
    obtain ⟨k', s⟩ := p
    have hrest : ∀ p ∈ rest, P p.1 p.2 := fun p hp => h p (by simp [hp])
    have hks : P k' s := h (k', s) (by simp)
    by_cases hk : k' = k
    · subst hk
      simp only [upsert, if_true]
      refine ⟨?_, ?_⟩
      · intro p hp
        simp only [List.mem_cons] at hp
        rcases hp with rfl | hp
        · exact hstep s hks
        · exact hrest p hp
      · intro r hr; exact ⟨s, hks, hr⟩
    · simp only [upsert, hk, if_false]
      obtain ⟨ih1, ih2⟩ := ih hrest
      refine ⟨?_, ih2⟩
      intro p hp
      simp only [List.mem_cons] at hp
      rcases hp with rfl | hp
      · exact hks
      · exact ih1 p hp

/-- `broadcast` keeps a per-key predicate preserved by `step`; every output element is a result
    of the step of some manager, tagged with that manager's key. -/
theorem broadcast_inv (m : Mgr σ α β) (P : κ → σ → Prop) (e : Elem α)
    (hstep : ∀ k s, P k s → P k (m.step s e).1) :
    ∀ (ws : List (κ × σ)), (∀ p ∈ ws, P p.1 p.2) →
      (∀ p ∈ (broadcast m e ws).1, P p.1 p.2) ∧
      (∀ o ∈ (broadcast m e ws).2.1, ∃ k s r, P k s ∧ r ∈ (m.step s e).2 ∧ o = r.toElem k) := by
  intro ws
  induction ws with
  | nil => intro _; simp [broadcast]
  | cons p rest ih =>
    intro h
    obtain ⟨k, s⟩ := p
    have hrest : ∀ p ∈ rest, P p.1 p.2 := fun p hp => h p (by simp [hp])
    have hks : P k s := h (k, s) (by simp)
    obtain ⟨ih1, ih2⟩ := ih hrest
    refine ⟨?_, ?_⟩
    · intro p hp
      simp only [broadcast] at hp
      split at hp
      · exact ih1 p hp
      · simp only [List.mem_cons] at hp
        rcases hp with rfl | hp
        · exact hstep k s hks
        · exact ih1 p hp
    · intro o ho
      simp only [broadcast, List.mem_append, List.mem_map] at ho
      rcases ho with ⟨r, hr, rfl⟩ | ho
      · exact ⟨k, s, r, hks, hr, rfl⟩
      · exact ih2 o ho

/-- `broadcast` with a predicate that changes across the step (`P` before, `P'` after) -/
theorem broadcast_inv2 (m : Mgr σ α β) (P P' : κ → σ → Prop) (e : Elem α)
    (hstep : ∀ k s, P k s → P' k (m.step s e).1) :
    ∀ (ws : List (κ × σ)), (∀ p ∈ ws, P p.1 p.2) →
      (∀ p ∈ (broadcast m e ws).1, P' p.1 p.2) ∧
      (∀ o ∈ (broadcast m e ws).2.1, ∃ k s r, P k s ∧ r ∈ (m.step s e).2 ∧ o = r.toElem k) := by
  intro ws
  induction ws with
  | nil => intro _; simp [broadcast]
  | cons p rest ih =>
    intro h
    obtain ⟨k, s⟩ := p
    have hrest : ∀ p ∈ rest, P p.1 p.2 := fun p hp => h p (by simp [hp])
    have hks : P k s := h (k, s) (by simp)
    obtain ⟨ih1, ih2⟩ := ih hrest
    refine ⟨?_, ?_⟩
    · intro p hp
      simp only [broadcast] at hp
      split at hp
      · exact ih1 p hp
      · simp only [List.mem_cons] at hp
        rcases hp with rfl | hp
        · exact hstep k s hks
        · exact ih1 p hp
    · intro o ho
      simp only [broadcast, List.mem_append, List.mem_map] at ho
      rcases ho with ⟨r, hr, rfl⟩ | ho
      · exact ⟨k, s, r, hks, hr, rfl⟩
      · exact ih2 o ho

/-- if every manager is recyclable after the step, `broadcast` drops them all -/
theorem broadcast_all_recycled (m : Mgr σ α β) (e : Elem α) (h : ∀ s, m.recycle (m.step s e).1 = true) :
    ∀ (ws : List (κ × σ)), (broadcast m e ws).1 = [] := by
  intro ws
  induction ws with
  | nil => rfl
  | cons p rest ih =>
    obtain ⟨k, s⟩ := p
    simp [broadcast, h, ih]

end Noir.WindowOp

/-! ## The event-time manager -/
namespace Noir.EventTimeWindow
open Noir.WindowOp

variable {α : Type}

/-- a slot is well formed: it spans `size`, holds only elements of its interval that satisfy `Q`
    (a parameter, e.g. "belongs to key k"), and is `active` iff it holds something -/
structure SlotOk (c : Cfg) (Q : α × Int → Prop) (s : Slot α) : Prop where
  span : s.stop = s.start + c.size
  inside : ∀ p ∈ s.items, s.start ≤ p.2 ∧ p.2 < s.stop
  q : ∀ p ∈ s.items, Q p
  act : s.active = !s.items.isEmpty

/-- starts increase by at least `slide` -/
def Sorted (c : Cfg) (ws : List (Slot α)) : Prop :=
  ws.Pairwise (fun a b => a.start + c.slide ≤ b.start)

/-- representation invariant of the manager -/
structure Inv (c : Cfg) (Q : α × Int → Prop) (st : State α) : Prop where
  ok : ∀ s ∈ st.ws, SlotOk c Q s
  sorted : Sorted c st.ws

theorem inv_init (c : Cfg) (Q : α × Int → Prop) : Inv c Q (State.init : State α) :=
  ⟨by simp [State.init], by simp [State.init, Sorted]⟩

/-! ### `alloc_windows` -/

theorem skip_nonneg (c : Cfg) (hS : 0 < c.slide) (d : Int) : 0 ≤ max d 0 / c.slide * c.slide :=
  Int.mul_nonneg (Int.ediv_nonneg (by omega) (by omega)) (by omega)

theorem skip_le (c : Cfg) (hS : 0 < c.slide) (d : Int) : max d 0 / c.slide * c.slide ≤ max d 0 :=
  Int.ediv_mul_le _ (by omega)

/-- the new slot starts at least one slide after the back slot, and not before `t` if there is none -/
theorem nextStart_ge (c : Cfg) (hS : 0 < c.slide) (lw : Option Int) (t : Int) (ws : List (Slot α)) :
    (∀ b, ws.getLast? = some b → b.start + c.slide ≤ nextStart c lw t ws) ∧
    (ws.getLast? = none → t ≤ nextStart c lw t ws) := by
  unfold nextStart
  constructor
  · intro b hb
    rw [hb]
    cases lw with
    | none => simp
    | some w => have := skip_nonneg c hS (w - (b.start + c.slide)); simp only; omega
  · intro hn
    rw [hn]
    cases lw with
    | none => simp
    | some w => have := skip_nonneg c hS (w - t); simp only; omega

/-- induction principle for the allocation loop -/
theorem allocLoop_induct (c : Cfg) (lw : Option Int) (t : Int) (P : List (Slot α) → Prop)
    (hstep : ∀ ws, P ws → needMore t ws = true →
      P (ws ++ [Slot.new (nextStart c lw t ws) (nextStart c lw t ws + c.size)])) :
    ∀ (fuel : Nat) (ws : List (Slot α)), P ws → P (allocLoop c lw t fuel ws) := by
  intro fuel
  induction fuel with
  | zero => intro ws h; exact h
  | succ n ih =>
    intro ws h
    unfold allocLoop
    by_cases hn : needMore t ws = true
    · simp only [hn, if_true]; exact ih _ (hstep ws h hn)
    · simp only [hn]; exact h

/-- induction principle for the backward allocation loop -/
theorem allocBack_induct (c : Cfg) (t : Int) (P : List (Slot α) → Prop)
    (hback : ∀ f rest, P (f :: rest) → f.start > t →
      P (Slot.new (f.start - c.slide) (f.start - c.slide + c.size) :: f :: rest)) :
    ∀ (fuel : Nat) (ws : List (Slot α)), P ws → P (allocBack c t fuel ws) := by
  intro fuel
  induction fuel with
  | zero => intro ws h; exact h
  | succ n ih =>
    intro ws h
    cases ws with
    | nil => exact h
    | cons f rest =>
      unfold allocBack
      by_cases hf : f.start > t
      · simp only [hf, if_true]; exact ih _ (hback f rest h hf)
      · simp only [hf, if_false]; exact h

theorem alloc_induct (c : Cfg) (lw : Option Int) (t : Int) (P : List (Slot α) → Prop)
    (hback : ∀ f rest, P (f :: rest) → f.start > t →
      P (Slot.new (f.start - c.slide) (f.start - c.slide + c.size) :: f :: rest))
    (hstep : ∀ ws, P ws → needMore t ws = true →
      P (ws ++ [Slot.new (nextStart c lw t ws) (nextStart c lw t ws + c.size)]))
    (ws : List (Slot α)) (h : P ws) : P (alloc c lw t ws) := by
  unfold alloc
  exact allocLoop_induct c lw t P hstep _ _ (allocBack_induct c t P hback _ ws h)

/-- the fuel of the backward loop is enough: afterwards the front slot (if any) starts at or before `t` -/
theorem allocBack_front (c : Cfg) (hS : 0 < c.slide) (t : Int) :
    ∀ (fuel : Nat) (ws : List (Slot α)),
      (∀ f, ws.head? = some f → f.start - t ≤ fuel) →
      ∀ f', (allocBack c t fuel ws).head? = some f' → f'.start ≤ t := by
  intro fuel
  induction fuel with
  | zero =>
    intro ws h f' hf'
    have : allocBack c t 0 ws = ws := by cases ws <;> rfl
    rw [this] at hf'
    have := h f' hf'; omega
  | succ n ih =>
    intro ws h f' hf'
    cases ws with
    | nil => simp [allocBack] at hf'
    | cons f rest =>
      unfold allocBack at hf'
      by_cases hf : f.start > t
      · simp only [hf, if_true] at hf'
        apply ih _ _ f' hf'
        intro g hg
        simp only [List.head?_cons, Option.some.injEq] at hg
        subst hg
        have := h f rfl
        simp only [Slot.new]
        omega
      · simp only [hf, if_false, List.head?_cons, Option.some.injEq] at hf'
        subst hf'; omega

theorem sorted_push_front (c : Cfg) (hS : 0 < c.slide) (f : Slot α) (rest : List (Slot α))
    (h : Sorted c (f :: rest)) :
    Sorted c (Slot.new (f.start - c.slide) (f.start - c.slide + c.size) :: f :: rest) := by
  unfold Sorted at *
  rw [List.pairwise_cons]
  refine ⟨?_, h⟩
  intro b hb
  simp only [List.mem_cons] at hb
  simp only [Slot.new]
  rcases hb with rfl | hb
  · omega
  · have := (List.pairwise_cons.mp h).1 b hb; omega

theorem slotOk_new (c : Cfg) (Q : α × Int → Prop) (s : Int) : SlotOk c Q (Slot.new s (s + c.size) : Slot α) :=
  ⟨rfl, by simp [Slot.new], by simp [Slot.new], by simp [Slot.new]⟩

/-- pushing the next slot keeps the starts sorted -/
theorem sorted_push (c : Cfg) (hS : 0 < c.slide) (lw : Option Int) (t : Int) (ws : List (Slot α))
    (h : Sorted c ws) :
    Sorted c (ws ++ [Slot.new (nextStart c lw t ws) (nextStart c lw t ws + c.size)]) := by
  unfold Sorted at *
  rw [List.pairwise_append]
  refine ⟨h, by simp, ?_⟩
  intro a ha b hb
  simp only [List.mem_singleton] at hb
  subst hb
  show a.start + c.slide ≤ nextStart c lw t ws
  cases hl : ws.getLast? with
  | none => rw [List.getLast?_eq_none_iff] at hl; subst hl; simp at ha
  | some bk =>
    have hge := (nextStart_ge c hS lw t ws).1 bk hl
    obtain ⟨ys, rfl⟩ := List.getLast?_eq_some_iff.mp hl
    rw [List.pairwise_append] at h
    rcases List.mem_append.mp ha with ha | ha
    · have := h.2.2 a ha bk (by simp); omega
    · simp only [List.mem_singleton] at ha; subst ha; omega

theorem alloc_inv (c : Cfg) (hS : 0 < c.slide) (Q : α × Int → Prop) (lw : Option Int) (t : Int)
    (ws : List (Slot α)) (hok : ∀ s ∈ ws, SlotOk c Q s) (hs : Sorted c ws) :
    (∀ s ∈ alloc c lw t ws, SlotOk c Q s) ∧ Sorted c (alloc c lw t ws) := by
  apply alloc_induct c lw t (fun ws => (∀ s ∈ ws, SlotOk c Q s) ∧ Sorted c ws) _ _ ws ⟨hok, hs⟩
  · intro f rest ⟨h1, h2⟩ _
    refine ⟨?_, sorted_push_front c hS f rest h2⟩
    intro s hs'
    simp only [List.mem_cons] at hs'
    rcases hs' with rfl | hs'
    · exact slotOk_new c Q _
    · exact h1 s (by simpa using hs')
  intro ws' ⟨h1, h2⟩ _
  refine ⟨?_, sorted_push c hS lw t ws' h2⟩
  intro s hs'
  rcases List.mem_append.mp hs' with h | h
  · exact h1 s h
  · simp only [List.mem_singleton] at h; subst h; exact slotOk_new c Q _

/-- the fuel is enough: after `alloc` there is a back slot and it starts at or after `t` -/
theorem allocLoop_back (c : Cfg) (hS : 0 < c.slide) (lw : Option Int) (t : Int) :
    ∀ (fuel : Nat) (ws : List (Slot α)),
      (ws.getLast? = none → 1 ≤ fuel) →
      (∀ b, ws.getLast? = some b → t - b.start ≤ fuel) →
      ∃ b, (allocLoop c lw t fuel ws).getLast? = some b ∧ t ≤ b.start := by
  intro fuel
  induction fuel with
  | zero =>
    intro ws h0 h1
    cases hl : ws.getLast? with
    | none => have := h0 hl; omega
    | some b => exact ⟨b, by simpa [allocLoop] using hl, by have := h1 b hl; omega⟩
  | succ n ih =>
    intro ws h0 h1
    unfold allocLoop
    by_cases hn : needMore t ws = true
    · simp only [hn, if_true]
      apply ih
      · intro h; simp at h
      · intro b hb
        rw [List.getLast?_concat] at hb
        injection hb with hb
        subst hb
        show t - nextStart c lw t ws ≤ (n : Int)
        cases hl : ws.getLast? with
        | none => have := (nextStart_ge c hS lw t ws).2 hl; omega
        | some bk =>
          have := (nextStart_ge c hS lw t ws).1 bk hl
          have := h1 bk hl
          omega
    · have hn' : needMore t ws = false := by simpa using hn
      simp only [hn', Bool.false_eq_true, if_false]
      unfold needMore at hn'
      cases hl : ws.getLast? with
      | none => rw [hl] at hn'; simp at hn'
      | some b => rw [hl] at hn'; simp at hn'; exact ⟨b, rfl, hn'⟩

theorem alloc_back (c : Cfg) (hS : 0 < c.slide) (lw : Option Int) (t : Int) (ws : List (Slot α)) :
    ∃ b, (alloc c lw t ws).getLast? = some b ∧ t ≤ b.start := by
  unfold alloc
  simp only
  apply allocLoop_back c hS
  · intro h; rw [h]; exact Nat.le_refl 1
  · intro b hb
    rw [hb]
    simp only
    have : (t - b.start) ≤ ((t - b.start).toNat : Int) := Int.self_le_toNat _
    omega

/-! ### assignment -/

@[simp] theorem assignTake_starts (x : α) (t : Int) (ws : List (Slot α)) :
    (assignTake x t ws).map (·.start) = ws.map (·.start) := by
  induction ws with
  | nil => rfl
  | cons s rest ih =>
    unfold assignTake
    split <;> simp [Slot.update, ih]

@[simp] theorem assign_starts (x : α) (t : Int) (ws : List (Slot α)) :
    (assign x t ws).map (·.start) = ws.map (·.start) := by
  induction ws with
  | nil => rfl
  | cons s rest ih =>
    unfold assign
    split
    · simp [ih]
    · exact assignTake_starts x t (s :: rest)

/-- `Sorted` only depends on the starts -/
theorem sorted_of_starts (c : Cfg) (ws ws' : List (Slot α)) (h : ws'.map (·.start) = ws.map (·.start))
    (hs : Sorted c ws) : Sorted c ws' := by
  unfold Sorted at *
  have h1 : (ws.map (·.start)).Pairwise (fun a b => a + c.slide ≤ b) := by
    rw [List.pairwise_map]; exact hs
  rw [← h, List.pairwise_map] at h1
  exact h1

/-- Under the invariant, `skip_while end ≤ ts; take_while start ≤ ts` updates exactly the slots
    whose interval contains `ts`. -/
def contains (t : Int) (s : Slot α) : Bool := decide (s.start ≤ t) && decide (t < s.stop)

theorem assignTake_eq_map (c : Cfg) (hS : 0 < c.slide) (x : α) (t : Int) :
    ∀ (ws : List (Slot α)), (∀ s ∈ ws, s.stop = s.start + c.size) → Sorted c ws → (∀ s ∈ ws, t < s.stop) →
      assignTake x t ws = ws.map (fun s => if contains t s then s.update x t else s) := by
  intro ws
  induction ws with
  | nil => intros; rfl
  | cons s rest ih =>
    intro hsp hs hgt
    have hs' : Sorted c rest := (List.pairwise_cons.mp hs).2
    have hgts := hgt s (by simp)
    unfold assignTake
    by_cases h : s.start ≤ t
    · simp only [h, if_true, List.map_cons]
      rw [ih (fun s hs => hsp s (by simp [hs])) hs' (fun s hs => hgt s (by simp [hs]))]
      simp [contains, h, hgts]
    · simp only [h, if_false, List.map_cons]
      have hnc : contains t s = false := by simp [contains, h]
      rw [hnc]
      simp only [Bool.false_eq_true, if_false, List.cons.injEq, true_and]
      -- all later slots start after `t` as well
      have : ∀ s' ∈ rest, contains t s' = false := by
        intro s' hs'
        have := (List.pairwise_cons.mp hs).1 s' hs'
        simp [contains]; omega
      symm
      calc rest.map (fun s => if contains t s then s.update x t else s)
          = rest.map id := by
            apply List.map_congr_left
            intro s' hs'; simp [this s' hs']
        _ = rest := by simp

theorem assign_eq_map (c : Cfg) (hS : 0 < c.slide) (x : α) (t : Int) :
    ∀ (ws : List (Slot α)), (∀ s ∈ ws, s.stop = s.start + c.size) → Sorted c ws →
      assign x t ws = ws.map (fun s => if contains t s then s.update x t else s) := by
  intro ws
  induction ws with
  | nil => intros; rfl
  | cons s rest ih =>
    intro hsp hs
    have hs' : Sorted c rest := (List.pairwise_cons.mp hs).2
    unfold assign
    by_cases h : s.stop ≤ t
    · simp only [h, if_true, List.map_cons]
      rw [ih (fun s hs => hsp s (by simp [hs])) hs']
      have : contains t s = false := by simp [contains]; omega
      simp [this]
    · simp only [h, if_false]
      apply assignTake_eq_map c hS x t (s :: rest) hsp hs
      intro s' hs'
      simp only [List.mem_cons] at hs'
      rcases hs' with rfl | hs'
      · omega
      · have h1 := (List.pairwise_cons.mp hs).1 s' hs'
        have h2 := hsp s' (by simp [hs'])
        have h3 := hsp s (by simp)
        omega

theorem slotOk_update (c : Cfg) (Q : α × Int → Prop) (s : Slot α) (x : α) (t : Int)
    (h : SlotOk c Q s) (hc : contains t s = true) (hq : Q (x, t)) : SlotOk c Q (s.update x t) := by
  simp only [contains, Bool.and_eq_true, decide_eq_true_eq] at hc
  refine ⟨h.span, ?_, ?_, by simp [Slot.update]⟩
  · intro p hp
    simp only [Slot.update, List.mem_append, List.mem_singleton] at hp
    rcases hp with hp | rfl
    · exact h.inside p hp
    · exact hc
  · intro p hp
    simp only [Slot.update, List.mem_append, List.mem_singleton] at hp
    rcases hp with hp | rfl
    · exact h.q p hp
    · exact hq

/-! ### `process` preserves the invariant; what it emits -/

theorem process_inv (c : Cfg) (hS : 0 < c.slide) (Q : α × Int → Prop) (st : State α) (e : Elem α)
    (inv : Inv c Q st) (hq : ∀ x t, e = .ts x t → Q (x, t)) : Inv c Q (process c st e).1 := by
  cases e with
  | ts x t =>
    obtain ⟨hok, hs⟩ := alloc_inv c hS Q st.lw t st.ws inv.ok inv.sorted
    simp only [process]
    rw [assign_eq_map c hS x t _ (fun s h => (hok s h).span) hs]
    refine ⟨?_, ?_⟩
    · intro s hs'
      simp only [List.mem_map] at hs'
      obtain ⟨s0, h0, rfl⟩ := hs'
      by_cases hc : contains t s0 = true
      · simp only [hc, if_true]; exact slotOk_update c Q s0 x t (hok s0 h0) hc (hq x t rfl)
      · simp only [hc]; exact hok s0 h0
    · apply sorted_of_starts c _ _ _ hs
      rw [← assign_eq_map c hS x t _ (fun s h => (hok s h).span) hs]
      exact assign_starts x t _
  | wm w =>
    refine ⟨?_, ?_⟩
    · intro s hs
      exact inv.ok s ((List.dropWhile_sublist _).subset hs)
    · exact List.Pairwise.sublist (List.dropWhile_sublist _) inv.sorted
  | far => exact ⟨by simp [process], by simp [process, Sorted]⟩
  | term => exact ⟨by simp [process], by simp [process, Sorted]⟩
  | item _ => exact inv
  | flushBatch => exact inv

/-- every result is the content of an active slot of the state before, stamped with its end -/
theorem process_out (c : Cfg) (st : State α) (e : Elem α) :
    ∀ r ∈ (process c st e).2, ∃ s ∈ st.ws, s.active = true ∧ r = ⟨s.items, some s.stop⟩ := by
  intro r hr
  cases e with
  | wm w =>
    simp only [process, emit, List.mem_map, List.mem_filter] at hr
    obtain ⟨s, ⟨h1, h2⟩, rfl⟩ := hr
    exact ⟨s, (List.takeWhile_sublist _).subset h1, h2, rfl⟩
  | far =>
    simp only [process, emit, List.mem_map, List.mem_filter] at hr
    obtain ⟨s, ⟨h1, h2⟩, rfl⟩ := hr
    exact ⟨s, h1, h2, rfl⟩
  | term =>
    simp only [process, emit, List.mem_map, List.mem_filter] at hr
    obtain ⟨s, ⟨h1, h2⟩, rfl⟩ := hr
    exact ⟨s, h1, h2, rfl⟩
  | ts x t => simp [process] at hr
  | item _ => simp [process] at hr
  | flushBatch => simp [process] at hr

theorem inv_stateAfter (c : Cfg) (hS : 0 < c.slide) (Q : α × Int → Prop) :
    ∀ (es : List (Elem α)) (st : State α), Inv c Q st → (∀ x t, .ts x t ∈ es → Q (x, t)) →
      Inv c Q (stateAfter c st es) := by
  intro es
  induction es with
  | nil => intro st h _; exact h
  | cons e es ih =>
    intro st h hq
    simp only [stateAfter]
    apply ih
    · exact process_inv c hS Q st e h (fun x t he => hq x t (by simp [he]))
    · intro x t hm; exact hq x t (by simp [hm])

/-- every result of a run comes from an active, well-formed slot -/
theorem runFrom_out (c : Cfg) (hS : 0 < c.slide) (Q : α × Int → Prop) :
    ∀ (es : List (Elem α)) (st : State α) (i : Nat), Inv c Q st → (∀ x t, .ts x t ∈ es → Q (x, t)) →
      ∀ p ∈ runFrom c st i es, ∃ s : Slot α, SlotOk c Q s ∧ s.active = true ∧ p.2 = ⟨s.items, some s.stop⟩ := by
  intro es
  induction es with
  | nil => intro st i _ _ p hp; simp [runFrom] at hp
  | cons e es ih =>
    intro st i h hq p hp
    simp only [runFrom, List.mem_append, List.mem_map] at hp
    rcases hp with ⟨r, hr, rfl⟩ | hp
    · obtain ⟨s, hs, ha, rfl⟩ := process_out c st e r hr
      exact ⟨s, h.ok s hs, ha, rfl⟩
    · exact ih _ _ (process_inv c hS Q st e h (fun x t he => hq x t (by simp [he])))
        (fun x t hm => hq x t (by simp [hm])) p hp

end Noir.EventTimeWindow

/-! ## The keyed operator over event-time managers -/
namespace Noir.EventTimeWindow
open Noir.WindowOp

variable {α κ : Type}

/-- "arrived with key `k`": the predicate carried by the slots of key `k`'s manager -/
def ArrivedWith (es : List (Elem (κ × α))) (k : κ) (q : α × Int) : Prop := Elem.ts (k, q.1) q.2 ∈ es

/-- what an output element of the operator must look like -/
def GoodOut (c : Cfg) (es : List (Elem (κ × α))) : Elem (κ × List (α × Int)) → Prop
  | .ts (k, items) t => ∃ start : Int, t = start + c.size ∧ items ≠ [] ∧
      ∀ q ∈ items, Elem.ts (k, q.1) q.2 ∈ es ∧ start ≤ q.2 ∧ q.2 < start + c.size
  | .item _ => False
  | _ => True

theorem goodOut_of_slot (c : Cfg) (es : List (Elem (κ × α))) (k : κ) (s : Slot α)
    (hok : SlotOk c (ArrivedWith es k) s) (ha : s.active = true) :
    GoodOut c es (WResult.toElem k (⟨s.items, some s.stop⟩ : Res α)) := by
  simp only [WResult.toElem, GoodOut]
  refine ⟨s.start, hok.span, ?_, ?_⟩
  · have := hok.act; rw [ha] at this
    intro h; rw [h] at this; simp at this
  · intro q hq
    have h1 := hok.inside q hq
    have h2 := hok.span
    exact ⟨hok.q q hq, h1.1, by omega⟩

theorem op_step_inv [DecidableEq κ] (c : Cfg) (hS : 0 < c.slide) (es : List (Elem (κ × α)))
    (st : WindowOp.State κ (State α)) (e : Elem (κ × α)) (he : e ∈ es)
    (h : ∀ p ∈ st.windows, Inv c (ArrivedWith es p.1) p.2) :
    (∀ p ∈ (WindowOp.step (mgr c) st e).1.windows, Inv c (ArrivedWith es p.1) p.2) ∧
    (∀ o ∈ (WindowOp.step (mgr c) st e).2, GoodOut c es o) := by
  have hb : ∀ (e' : Elem α), (∀ x t, e' ≠ .ts x t) →
      (∀ p ∈ (broadcast (mgr c) e' st.windows).1, Inv c (ArrivedWith es p.1) p.2) ∧
      (∀ o ∈ (broadcast (mgr c) e' st.windows).2.1, GoodOut c es o) := by
    intro e' hne
    obtain ⟨h1, h2⟩ := broadcast_inv (mgr c) (fun k s => Inv c (ArrivedWith es k) s) e'
      (fun k s hs => process_inv c hS _ s e' hs (fun x t h => absurd h (hne x t))) st.windows h
    refine ⟨h1, ?_⟩
    intro o ho
    obtain ⟨k, s, r, hs, hr, rfl⟩ := h2 o ho
    obtain ⟨sl, hsl, ha, rfl⟩ := process_out c s e' r hr
    exact goodOut_of_slot c es k sl (hs.ok sl hsl) ha
  cases e with
  | item p =>
    obtain ⟨k, x⟩ := p
    obtain ⟨h1, h2⟩ := upsert_inv (mgr c) (fun k s => Inv c (ArrivedWith es k) s) k (.item x)
      (inv_init c _) (fun s hs => process_inv c hS _ s _ hs (fun _ _ h => by cases h)) st.windows h
    refine ⟨h1, ?_⟩
    intro o ho
    simp only [WindowOp.step, List.mem_map] at ho
    obtain ⟨r, hr, rfl⟩ := ho
    obtain ⟨s, _, hr'⟩ := h2 r hr
    simp [mgr, process] at hr'
  | ts p t =>
    obtain ⟨k, x⟩ := p
    obtain ⟨h1, h2⟩ := upsert_inv (mgr c) (fun k s => Inv c (ArrivedWith es k) s) k (.ts x t)
      (inv_init c _) (fun s hs => process_inv c hS _ s _ hs (fun x' t' h => by
        injection h with h1 h2; subst h1; subst h2; exact he)) st.windows h
    refine ⟨h1, ?_⟩
    intro o ho
    simp only [WindowOp.step, List.mem_map] at ho
    obtain ⟨r, hr, rfl⟩ := ho
    obtain ⟨s, _, hr'⟩ := h2 r hr
    simp [mgr, process] at hr'
  | flushBatch =>
    refine ⟨h, ?_⟩
    intro o ho
    simp only [WindowOp.step, List.mem_singleton] at ho
    subst ho; trivial
  | wm w =>
    obtain ⟨h1, h2⟩ := hb (.wm w) (fun _ _ h => by cases h)
    refine ⟨h1, ?_⟩
    intro o ho
    simp only [WindowOp.step, List.mem_append, List.mem_singleton] at ho
    rcases ho with ho | rfl
    · exact h2 o ho
    · trivial
  | term =>
    obtain ⟨h1, h2⟩ := hb .term (fun _ _ h => by cases h)
    refine ⟨h1, ?_⟩
    intro o ho
    simp only [WindowOp.step, List.mem_append, List.mem_singleton] at ho
    rcases ho with ho | rfl
    · exact h2 o ho
    · trivial
  | far =>
    obtain ⟨h1, h2⟩ := hb .far (fun _ _ h => by cases h)
    refine ⟨h1, ?_⟩
    intro o ho
    simp only [WindowOp.step, List.mem_append, List.mem_singleton] at ho
    rcases ho with ho | rfl
    · exact h2 o ho
    · trivial

theorem op_runUnits_good [DecidableEq κ] (c : Cfg) (hS : 0 < c.slide) (es : List (Elem (κ × α))) :
    ∀ (rest : List (Elem (κ × α))) (st : WindowOp.State κ (State α)),
      (∀ e ∈ rest, e ∈ es) → (∀ p ∈ st.windows, Inv c (ArrivedWith es p.1) p.2) →
      ∀ u ∈ WindowOp.runUnits (mgr c) st rest, ∀ o ∈ u, GoodOut c es o := by
  intro rest
  induction rest with
  | nil => intro st _ _ u hu; simp [WindowOp.runUnits] at hu
  | cons e rest ih =>
    intro st hsub h u hu
    obtain ⟨h1, h2⟩ := op_step_inv c hS es st e (hsub e (by simp)) h
    simp only [WindowOp.runUnits, List.mem_cons] at hu
    rcases hu with rfl | hu
    · exact h2
    · exact ih _ (fun e he => hsub e (by simp [he])) h1 u hu

end Noir.EventTimeWindow

/-! ## Firing, conservation, coverage -/
namespace Noir.EventTimeWindow

variable {α : Type}

theorem runFrom_results (c : Cfg) : ∀ (es : List (Elem α)) (st : State α) (i : Nat),
    (runFrom c st i es).map (·.2) = results c st es := by
  intro es
  induction es with
  | nil => intros; rfl
  | cons e es ih => intro st i; simp [runFrom, results, ih, List.map_map, Function.comp_def]

/-- on a deque sorted by `end`, the prefix with `end ≤ w` is all slots with `end ≤ w` -/
theorem takeWhile_eq_filter (c : Cfg) (hS : 0 < c.slide) (w : Int) :
    ∀ (ws : List (Slot α)), (∀ s ∈ ws, s.stop = s.start + c.size) → Sorted c ws →
      ws.takeWhile (fun s => decide (s.stop ≤ w)) = ws.filter (fun s => decide (s.stop ≤ w)) ∧
      ws.dropWhile (fun s => decide (s.stop ≤ w)) = ws.filter (fun s => !decide (s.stop ≤ w)) := by
  intro ws
  induction ws with
  | nil => intros; simp
  | cons s rest ih =>
    intro hsp hs
    have hs' : Sorted c rest := (List.pairwise_cons.mp hs).2
    obtain ⟨ih1, ih2⟩ := ih (fun s h => hsp s (by simp [h])) hs'
    by_cases h : s.stop ≤ w
    · simp [h, ih1, ih2]
    · have hall : ∀ s' ∈ rest, ¬ s'.stop ≤ w := by
        intro s' hs'
        have h1 := (List.pairwise_cons.mp hs).1 s' hs'
        have h2 := hsp s' (by simp [hs'])
        have h3 := hsp s (by simp)
        omega
      have hf1 : rest.filter (fun s => decide (s.stop ≤ w)) = [] := by
        rw [List.filter_eq_nil_iff]; intro s' hs'; simp [hall s' hs']
      have hf2 : rest.filter (fun s => !decide (s.stop ≤ w)) = rest := by
        rw [List.filter_eq_self]; intro s' hs'; simp [hall s' hs']
      simp [h, hf1, hf2]

/-- the items held in open slots / carried by results -/
def held (ws : List (Slot α)) : List (α × Int) := ws.flatMap (·.items)
def outItems (rs : List (Res α)) : List (α × Int) := rs.flatMap (·.val)

theorem outItems_emit (ws : List (Slot α)) (h : ∀ s ∈ ws, s.active = !s.items.isEmpty) :
    outItems (emit ws) = held ws := by
  induction ws with
  | nil => rfl
  | cons s rest ih =>
    have ih := ih (fun s hs => h s (by simp [hs]))
    have hs := h s (by simp)
    simp only [emit, outItems, held] at *
    by_cases ha : s.active = true
    · simp [ha, ih]
    · have : s.items = [] := by
        rw [Bool.not_eq_true] at ha; rw [ha] at hs
        cases hi : s.items with
        | nil => rfl
        | cons a l => rw [hi] at hs; simp at hs
      simp [ha, ih, this]

@[simp] theorem held_append (a b : List (Slot α)) : held (a ++ b) = held a ++ held b := by
  simp [held]

theorem held_alloc (c : Cfg) (lw : Option Int) (t : Int) (ws : List (Slot α)) :
    held (alloc c lw t ws) = held ws := by
  apply alloc_induct c lw t (fun ws' => held ws' = held ws) _ _ ws rfl
  · intro f rest h _
    rw [← h]; simp [held, Slot.new]
  intro ws' h _
  show held (ws' ++ [_]) = held ws
  rw [held_append, h]
  simp [held, Slot.new]

/-- number of slots whose interval contains `t` -/
def hits (t : Int) (ws : List (Slot α)) : Nat := (ws.filter (contains t)).length

theorem held_update (x : α) (t : Int) : ∀ (ws : List (Slot α)),
    (held (ws.map (fun s => if contains t s then s.update x t else s))).Perm
      (held ws ++ List.replicate (hits t ws) (x, t)) := by
  intro ws
  induction ws with
  | nil => simp [held, hits]
  | cons s rest ih =>
    simp only [held, hits] at *
    by_cases hc : contains t s = true
    · simp only [List.map_cons, hc, if_true, List.flatMap_cons, List.filter_cons, List.length_cons,
        List.replicate_succ, Slot.update]
      -- (items ++ [p]) ++ H' ~ (items ++ H) ++ p :: R
      have h1 : ((s.items ++ [(x, t)]) ++ List.flatMap (·.items) (rest.map fun s => if contains t s then s.update x t else s)).Perm
          ((s.items ++ [(x, t)]) ++ (List.flatMap (·.items) rest ++ List.replicate (rest.filter (contains t)).length (x, t))) :=
        List.Perm.append_left _ ih
      refine h1.trans ?_
      simp only [List.append_assoc]
      apply List.Perm.append_left
      simp only [List.singleton_append]
      exact (List.perm_middle (a := (x, t)) (l₁ := List.flatMap (·.items) rest)
        (l₂ := List.replicate (rest.filter (contains t)).length (x, t))).symm
    · simp only [List.map_cons, hc, List.flatMap_cons, List.filter_cons, List.append_assoc]
      exact List.Perm.append_left _ ih

/-- what the elements of a run are assigned to: each arriving element, once per slot that
    contains its timestamp at its arrival (after `alloc_windows`) -/
def assigned (c : Cfg) : State α → List (Elem α) → List (α × Int)
  | _, [] => []
  | st, e :: es =>
    (match e with
     | .ts x t => List.replicate (hits t (alloc c st.lw t st.ws)) (x, t)
     | _ => []) ++ assigned c (process c st e).1 es

/-- one step: what is emitted plus what is held afterwards = what was held plus the new assignments -/
theorem process_conserve (c : Cfg) (hS : 0 < c.slide) (Q : α × Int → Prop) (st : State α) (e : Elem α)
    (inv : Inv c Q st) :
    (outItems (process c st e).2 ++ held (process c st e).1.ws).Perm
      (held st.ws ++ (match e with
        | .ts x t => List.replicate (hits t (alloc c st.lw t st.ws)) (x, t)
        | _ => [])) := by
  have hact : ∀ s ∈ st.ws, s.active = !s.items.isEmpty := fun s hs => (inv.ok s hs).act
  cases e with
  | ts x t =>
    obtain ⟨hok, hs⟩ := alloc_inv c hS Q st.lw t st.ws inv.ok inv.sorted
    simp only [process, outItems, List.flatMap_nil, List.nil_append]
    rw [assign_eq_map c hS x t _ (fun s h => (hok s h).span) hs]
    have := held_update x t (alloc c st.lw t st.ws)
    rw [held_alloc] at this
    exact this
  | wm w =>
    simp only [process, List.append_nil]
    rw [outItems_emit _ (fun s hs => hact s ((List.takeWhile_sublist _).subset hs)), ← held_append,
      List.takeWhile_append_dropWhile]
  | far =>
    simp only [process, List.append_nil]
    rw [outItems_emit _ hact]; simp [held]
  | term =>
    simp only [process, List.append_nil]
    rw [outItems_emit _ hact]; simp [held]
  | item _ => simp [process, outItems]
  | flushBatch => simp [process, outItems]

/-- whole run: everything emitted plus everything still held = initially held plus all assignments -/
theorem run_conserve (c : Cfg) (hS : 0 < c.slide) (Q : α × Int → Prop) :
    ∀ (es : List (Elem α)) (st : State α), Inv c Q st → (∀ x t, .ts x t ∈ es → Q (x, t)) →
      (outItems (results c st es) ++ held (stateAfter c st es).ws).Perm (held st.ws ++ assigned c st es) := by
  intro es
  induction es with
  | nil => intro st _ _; simp [results, stateAfter, assigned, outItems]
  | cons e es ih =>
    intro st inv hq
    have inv' := process_inv c hS Q st e inv (fun x t he => hq x t (by simp [he]))
    have ih := ih (process c st e).1 inv' (fun x t hm => hq x t (by simp [hm]))
    have hstep := process_conserve c hS Q st e inv
    simp only [results, stateAfter, assigned, outItems, List.flatMap_append] at *
    -- (A ++ R) ++ Hf ~ A ++ (H' ++ As') ~ (A ++ H') ++ As' ~ (H ++ rep) ++ As'
    rw [List.append_assoc]
    refine (List.Perm.append_left _ ih).trans ?_
    rw [← List.append_assoc, ← List.append_assoc]
    exact List.Perm.append_right _ hstep

end Noir.EventTimeWindow

/-! ## Coverage: which arrivals find a slot -/
namespace Noir.EventTimeWindow

variable {α : Type}

/-- not late with respect to the (manager's) last watermark -/
def NotLate (lw : Option Int) (t : Int) : Prop := ∀ w, lw = some w → w < t

/-- every non-late instant between the first start and one slide past the last start lies in
    `[s, s + slide)` for some allocated start `s` (gaps only exist below the watermark) -/
def CoversI (slide : Int) (lw : Option Int) (l : List Int) : Prop :=
  ∀ t', NotLate lw t' → ∀ f b, l.head? = some f → l.getLast? = some b → f ≤ t' → t' < b + slide →
    ∃ s ∈ l, s ≤ t' ∧ t' < s + slide

def Covers (c : Cfg) (st : State α) : Prop := CoversI c.slide st.lw (st.ws.map (·.start))

theorem nextStart_cases (c : Cfg) (hS : 0 < c.slide) (lw : Option Int) (t : Int) (ws : List (Slot α)) :
    (∀ b, ws.getLast? = some b →
      nextStart c lw t ws = b.start + c.slide ∨ ∃ w, lw = some w ∧ nextStart c lw t ws ≤ w) ∧
    (ws.getLast? = none → NotLate lw t → nextStart c lw t ws = t) := by
  unfold nextStart
  constructor
  · intro b hb
    rw [hb]
    cases lw with
    | none => left; rfl
    | some w =>
      simp only
      by_cases hd : w - (b.start + c.slide) ≤ 0
      · left
        have : max (w - (b.start + c.slide)) 0 = 0 := by omega
        rw [this]; simp
      · right
        refine ⟨w, rfl, ?_⟩
        have := skip_le c hS (w - (b.start + c.slide))
        omega
  · intro hn hnl
    rw [hn]
    cases lw with
    | none => rfl
    | some w =>
      have := hnl w rfl
      have h0 : max (w - t) 0 = 0 := by omega
      simp only [h0]; simp

theorem coversI_push (slide : Int) (lw : Option Int) (l : List Int) (n : Int) (h : CoversI slide lw l)
    (hn : ∀ b, l.getLast? = some b → n = b + slide ∨ ∃ w, lw = some w ∧ n ≤ w) :
    CoversI slide lw (l ++ [n]) := by
  intro t' hnl f b hf hb hft htb
  rw [List.getLast?_concat] at hb
  injection hb with hb; subst hb
  cases l with
  | nil =>
    simp at hf; subst hf
    exact ⟨_, by simp, hft, htb⟩
  | cons f0 rest =>
    simp at hf; subst hf
    cases hl : (f0 :: rest).getLast? with
    | none => simp at hl
    | some bk =>
      by_cases hlt : t' < bk + slide
      · obtain ⟨s, hs, h1, h2⟩ := h t' hnl f0 bk (by simp) hl hft hlt
        exact ⟨s, by simp only [List.mem_append]; left; exact hs, h1, h2⟩
      · refine ⟨n, by simp, ?_, htb⟩
        rcases hn bk hl with h1 | ⟨w, hw, h1⟩
        · omega
        · have := hnl w hw; omega

theorem coversI_suffix (slide : Int) (hS : 0 < slide) (lw lw' : Option Int) (l1 l2 : List Int)
    (hp : (l1 ++ l2).Pairwise (fun a b => a + slide ≤ b)) (h : CoversI slide lw (l1 ++ l2))
    (hmono : ∀ t', NotLate lw' t' → NotLate lw t') : CoversI slide lw' l2 := by
  intro t' hnl f2 b hf2 hb hft htb
  have hmem2 : f2 ∈ l2 := List.mem_of_mem_head? hf2
  have hlast : (l1 ++ l2).getLast? = some b := by rw [List.getLast?_append, hb]; rfl
  rw [List.pairwise_append] at hp
  cases l1 with
  | nil => exact h t' (hmono t' hnl) f2 b (by simpa using hf2) (by simpa using hb) hft htb
  | cons f1 r1 =>
    have hle : f1 + slide ≤ f2 := hp.2.2 f1 (by simp) f2 hmem2
    obtain ⟨s, hs, h1, h2⟩ := h t' (hmono t' hnl) f1 b (by simp) hlast (by omega) htb
    rcases List.mem_append.mp hs with hs1 | hs2
    · have := hp.2.2 s hs1 f2 hmem2; omega
    · exact ⟨s, hs2, h1, h2⟩

theorem coversI_push_front (slide : Int) (hS : 0 < slide) (lw : Option Int) (f : Int) (rest : List Int)
    (h : CoversI slide lw (f :: rest)) : CoversI slide lw ((f - slide) :: f :: rest) := by
  intro t' hnl f0 b hf hb hft htb
  simp only [List.head?_cons, Option.some.injEq] at hf
  subst hf
  rw [List.getLast?_cons_cons] at hb
  by_cases hlt : t' < f
  · exact ⟨f - slide, by simp, hft, by omega⟩
  · obtain ⟨s, hs, h1, h2⟩ := h t' hnl f b rfl hb (by omega) htb
    exact ⟨s, List.mem_cons_of_mem _ hs, h1, h2⟩

theorem covers_alloc (c : Cfg) (hS : 0 < c.slide) (lw : Option Int) (t : Int) (ws : List (Slot α))
    (h : CoversI c.slide lw (ws.map (·.start))) :
    CoversI c.slide lw ((alloc c lw t ws).map (·.start)) := by
  apply alloc_induct c lw t (fun ws' => CoversI c.slide lw (ws'.map (·.start))) _ _ ws h
  · intro f rest h' _
    simp only [List.map_cons, Slot.new] at *
    exact coversI_push_front c.slide hS lw f.start _ h'
  intro ws' h' _
  rw [List.map_append]
  apply coversI_push _ _ _ _ h'
  intro b hb
  rw [List.getLast?_map] at hb
  cases hl : ws'.getLast? with
  | none => rw [hl] at hb; simp at hb
  | some bk =>
    rw [hl] at hb; simp at hb; subst hb
    exact (nextStart_cases c hS lw t ws').1 bk hl

theorem covers_init (c : Cfg) : Covers c (State.init : State α) := by
  intro t' _ f b hf; simp [State.init] at hf

/-- `Covers` is kept by every step, provided watermarks do not go back -/
theorem process_covers (c : Cfg) (hS : 0 < c.slide) (Q : α × Int → Prop) (st : State α) (e : Elem α)
    (inv : Inv c Q st) (hc : Covers c st) (hw : ∀ w, e = .wm w → ∀ w0, st.lw = some w0 → w0 ≤ w) :
    Covers c (process c st e).1 := by
  cases e with
  | ts x t =>
    simp only [process, Covers, assign_starts]
    exact covers_alloc c hS st.lw t st.ws hc
  | wm w =>
    simp only [process, Covers]
    have hsplit : st.ws.map (·.start) =
        (st.ws.takeWhile (fun s => decide (s.stop ≤ w))).map (·.start) ++
        (st.ws.dropWhile (fun s => decide (s.stop ≤ w))).map (·.start) := by
      rw [← List.map_append, List.takeWhile_append_dropWhile]
    have hp : (st.ws.map (·.start)).Pairwise (fun a b => a + c.slide ≤ b) := by
      rw [List.pairwise_map]; exact inv.sorted
    unfold Covers at hc
    rw [hsplit] at hp hc
    apply coversI_suffix c.slide hS st.lw (some w) _ _ hp hc
    intro t' hnl w0 h0
    have := hnl w rfl
    have := hw w rfl w0 h0
    omega
  | far => intro t' _ f b hf; simp [process] at hf
  | term => intro t' _ f b hf; simp [process] at hf
  | item _ => exact hc
  | flushBatch => exact hc

/-- after `alloc_windows` for a non-late `t` the front slot starts at or before `t` -/
theorem alloc_head (c : Cfg) (hS : 0 < c.slide) (lw : Option Int) (t : Int) (ws : List (Slot α))
    (hnl : NotLate lw t) : ∀ f, (alloc c lw t ws).head? = some f → f.start ≤ t := by
  unfold alloc
  simp only
  apply allocLoop_induct c lw t (fun ws' => ∀ f, ws'.head? = some f → f.start ≤ t)
  · intro ws' h' _ f hf
    cases ws' with
    | nil =>
      simp at hf; subst hf
      have := (nextStart_cases c hS lw t ([] : List (Slot α))).2 rfl hnl
      simp [Slot.new, this]
    | cons f0 r => simp at hf; subst hf; exact h' _ rfl
  · apply allocBack_front c hS t
    intro f hf
    rw [hf]
    simp only
    have : (f.start - t) ≤ ((f.start - t).toNat : Int) := Int.self_le_toNat _
    omega

/-- a non-late arrival finds a slot (`slide ≤ size`) — thanks to the backward allocation, also
    when it is earlier than the oldest open slot -/
theorem hits_pos (c : Cfg) (hS : 0 < c.slide) (hSN : c.slide ≤ c.size) (Q : α × Int → Prop)
    (st : State α) (t : Int) (inv : Inv c Q st) (hc : Covers c st) (hnl : NotLate st.lw t) :
    1 ≤ hits t (alloc c st.lw t st.ws) := by
  obtain ⟨hok, _⟩ := alloc_inv c hS Q st.lw t st.ws inv.ok inv.sorted
  have hcov := covers_alloc c hS st.lw t st.ws hc
  obtain ⟨b, hb, hbt⟩ := alloc_back c hS st.lw t st.ws
  have hhead := alloc_head c hS st.lw t st.ws hnl
  cases hh : (alloc c st.lw t st.ws).head? with
  | none =>
    rw [List.head?_eq_none_iff] at hh; rw [hh] at hb; simp at hb
  | some f =>
    obtain ⟨s0, hs0, h1, h2⟩ := hcov t hnl f.start b.start (by rw [List.head?_map, hh]; rfl)
      (by rw [List.getLast?_map, hb]; rfl) (hhead f hh) (by omega)
    obtain ⟨sl, hsl, rfl⟩ := List.mem_map.mp hs0
    have hsp := (hok sl hsl).span
    have : sl ∈ (alloc c st.lw t st.ws).filter (contains t) := by
      rw [List.mem_filter]; refine ⟨hsl, ?_⟩
      simp [contains]; omega
    unfold hits
    exact List.length_pos_of_mem this

/-- tumbling windows are disjoint: at most one slot contains a timestamp -/
theorem hits_le_one (c : Cfg) (hT : c.slide = c.size) (t : Int) (ws : List (Slot α))
    (hsp : ∀ s ∈ ws, s.stop = s.start + c.size) (hs : Sorted c ws) : hits t ws ≤ 1 := by
  unfold hits
  have hp : (ws.filter (contains t)).Pairwise (fun a b => a.start + c.slide ≤ b.start) :=
    List.Pairwise.sublist List.filter_sublist hs
  cases hL : ws.filter (contains t) with
  | nil => simp
  | cons a rest =>
    cases rest with
    | nil => simp
    | cons b rest' =>
      exfalso
      rw [hL] at hp
      have hab := (List.pairwise_cons.mp hp).1 b (by simp)
      have ha : a ∈ ws.filter (contains t) := by rw [hL]; simp
      have hb : b ∈ ws.filter (contains t) := by rw [hL]; simp
      rw [List.mem_filter] at ha hb
      have h1 := hsp a ha.1
      have hca := ha.2; have hcb := hb.2
      simp only [contains, Bool.and_eq_true, decide_eq_true_eq] at hca hcb
      omega

/-- starts that are `slide` apart and all `≤ t`: the first one is at least `(n-1)·slide` below `t` -/
theorem starts_spread (c : Cfg) (t : Int) : ∀ (L : List (Slot α)) (a : Slot α),
    Sorted c (a :: L) → (∀ s ∈ a :: L, s.start ≤ t) → a.start + (L.length : Int) * c.slide ≤ t := by
  intro L
  induction L with
  | nil => intro a _ h; have := h a (by simp); simp; omega
  | cons b rest ih =>
    intro a hs h
    have hab := (List.pairwise_cons.mp hs).1 b (by simp)
    have := ih b (List.pairwise_cons.mp hs).2 (fun s hs' => h s (by simp [hs']))
    simp only [List.length_cons, Int.natCast_add, Int.natCast_one, Int.add_mul, Int.one_mul]
    omega

/-- at most `⌈size/slide⌉` slots contain a timestamp -/
theorem hits_le_ceil (c : Cfg) (hS : 0 < c.slide) (hN : 0 < c.size) (t : Int) (ws : List (Slot α))
    (hsp : ∀ s ∈ ws, s.stop = s.start + c.size) (hs : Sorted c ws) :
    (hits t ws : Int) ≤ (c.size + c.slide - 1) / c.slide := by
  rw [Int.le_ediv_iff_mul_le hS]
  unfold hits
  have hp : Sorted c (ws.filter (contains t)) := List.Pairwise.sublist List.filter_sublist hs
  cases hL : ws.filter (contains t) with
  | nil => simp; omega
  | cons a rest =>
    rw [hL] at hp
    have hmem : ∀ s ∈ a :: rest, s ∈ ws ∧ contains t s = true := by
      intro s hs'; rw [← hL, List.mem_filter] at hs'; exact hs'
    have hle : ∀ s ∈ a :: rest, s.start ≤ t := by
      intro s hs'
      have := (hmem s hs').2
      simp only [contains, Bool.and_eq_true, decide_eq_true_eq] at this
      exact this.1
    have hspread := starts_spread c t rest a hp hle
    have ha := hmem a (by simp)
    have hca := ha.2
    simp only [contains, Bool.and_eq_true, decide_eq_true_eq] at hca
    have hspa := hsp a ha.1
    simp only [List.length_cons, Int.natCast_add, Int.natCast_one, Int.add_mul, Int.one_mul]
    omega

end Noir.EventTimeWindow

/-! ## Whole runs -/
namespace Noir.EventTimeWindow

variable {α : Type}

/-- the timestamped data elements of a run, in arrival order -/
def dataOf : List (Elem α) → List (α × Int)
  | [] => []
  | .ts x t :: es => (x, t) :: dataOf es
  | _ :: es => dataOf es

/-- Along the run of the manager: every arriving element is not late with respect to the
    manager's last watermark, and watermarks do not go back. (Implied by watermark safety of the
    input, `guarded_of_wmSafe`. Before the fix of F2 the additional clause "not earlier than the
    start of the oldest open slot" was needed.) -/
def Guarded (c : Cfg) : State α → List (Elem α) → Prop
  | _, [] => True
  | st, e :: es =>
    (match e with
     | .ts _ t => NotLate st.lw t
     | .wm w => ∀ w0, st.lw = some w0 → w0 ≤ w
     | _ => True) ∧ Guarded c (process c st e).1 es

/-- `Multi lo hi ds as`: `as` is `ds` with every element repeated between `lo` and `hi` times -/
inductive Multi (lo hi : Nat) : List (α × Int) → List (α × Int) → Prop
  | nil : Multi lo hi [] []
  | cons (d : α × Int) (n : Nat) (ds as : List (α × Int)) :
      lo ≤ n → n ≤ hi → Multi lo hi ds as → Multi lo hi (d :: ds) (List.replicate n d ++ as)

theorem multi_one (ds as : List (α × Int)) (h : Multi 1 1 ds as) : as = ds := by
  induction h with
  | nil => rfl
  | cons d n ds as h1 h2 _ ih =>
    have : n = 1 := by omega
    subst this; simp [ih]

theorem assigned_multi (c : Cfg) (hS : 0 < c.slide) (hSN : c.slide ≤ c.size) (Q : α × Int → Prop) (hi : Nat)
    (hhi : ∀ (t : Int) (ws : List (Slot α)), (∀ s ∈ ws, s.stop = s.start + c.size) → Sorted c ws → hits t ws ≤ hi) :
    ∀ (es : List (Elem α)) (st : State α), Inv c Q st → Covers c st → Guarded c st es →
      (∀ x t, .ts x t ∈ es → Q (x, t)) → Multi 1 hi (dataOf es) (assigned c st es) := by
  intro es
  induction es with
  | nil => intros; exact Multi.nil
  | cons e es ih =>
    intro st inv hc hg hq
    have inv' := process_inv c hS Q st e inv (fun x t he => hq x t (by simp [he]))
    have hq' : ∀ x t, .ts x t ∈ es → Q (x, t) := fun x t hm => hq x t (by simp [hm])
    cases e with
    | ts x t =>
      simp only [Guarded] at hg
      obtain ⟨hnl, hg'⟩ := hg
      have hc' := process_covers c hS Q st (.ts x t) inv hc (fun w h => by cases h)
      simp only [dataOf, assigned]
      obtain ⟨hok, hs⟩ := alloc_inv c hS Q st.lw t st.ws inv.ok inv.sorted
      exact Multi.cons _ _ _ _ (hits_pos c hS hSN Q st t inv hc hnl)
        (hhi t _ (fun s h => (hok s h).span) hs) (ih _ inv' hc' hg' hq')
    | wm w =>
      simp only [Guarded] at hg
      have hc' := process_covers c hS Q st (.wm w) inv hc (fun w' h => by injection h with h; subst h; exact hg.1)
      simpa [dataOf, assigned] using ih _ inv' hc' hg.2 hq'
    | far =>
      simp only [Guarded] at hg
      have hc' := process_covers c hS Q st .far inv hc (fun w h => by cases h)
      simpa [dataOf, assigned] using ih _ inv' hc' hg.2 hq'
    | term =>
      simp only [Guarded] at hg
      have hc' := process_covers c hS Q st .term inv hc (fun w h => by cases h)
      simpa [dataOf, assigned] using ih _ inv' hc' hg.2 hq'
    | item y =>
      simp only [Guarded] at hg
      have hc' := process_covers c hS Q st (.item y) inv hc (fun w h => by cases h)
      simpa [dataOf, assigned] using ih _ inv' hc' hg.2 hq'
    | flushBatch =>
      simp only [Guarded] at hg
      have hc' := process_covers c hS Q st .flushBatch inv hc (fun w h => by cases h)
      simpa [dataOf, assigned] using ih _ inv' hc' hg.2 hq'

theorem stateAfter_append (c : Cfg) : ∀ (es es' : List (Elem α)) (st : State α),
    stateAfter c st (es ++ es') = stateAfter c (stateAfter c st es) es' := by
  intro es
  induction es with
  | nil => intros; rfl
  | cons e es ih => intro es' st; simp [stateAfter, ih]

theorem mem_takeWhile_prop {β : Type} (p : β → Bool) : ∀ (l : List β) (x : β), x ∈ l.takeWhile p → p x = true := by
  intro l
  induction l with
  | nil => intro x h; simp at h
  | cons a l ih =>
    intro x h
    rw [List.takeWhile_cons] at h
    split at h
    · simp only [List.mem_cons] at h
      rcases h with rfl | h
      · assumption
      · exact ih x h
    · simp at h

/-- every result of a run is triggered by a watermark that has reached its stamp, or by the end of
    the iteration / stream -/
theorem runFrom_fire (c : Cfg) : ∀ (es : List (Elem α)) (st : State α) (i : Nat),
    ∀ p ∈ runFrom c st i es, ∃ j, p.1 = i + j ∧
      (es[j]? = some .far ∨ es[j]? = some .term ∨
       ∃ w stop, es[j]? = some (.wm w) ∧ p.2.ts = some stop ∧ stop ≤ w) := by
  intro es
  induction es with
  | nil => intro st i p hp; simp [runFrom] at hp
  | cons e es ih =>
    intro st i p hp
    simp only [runFrom, List.mem_append, List.mem_map] at hp
    rcases hp with ⟨r, hr, rfl⟩ | hp
    · refine ⟨0, rfl, ?_⟩
      cases e with
      | wm w =>
        right; right
        simp only [process, emit, List.mem_map, List.mem_filter] at hr
        obtain ⟨s, ⟨h1, _⟩, rfl⟩ := hr
        have := mem_takeWhile_prop _ _ s h1
        exact ⟨w, s.stop, rfl, rfl, by simpa using this⟩
      | far => left; rfl
      | term => right; left; rfl
      | ts x t => simp [process] at hr
      | item _ => simp [process] at hr
      | flushBatch => simp [process] at hr
    · obtain ⟨j, hj, h⟩ := ih _ _ p hp
      refine ⟨j + 1, by omega, ?_⟩
      simpa using h

end Noir.EventTimeWindow

/-! ## Transaction windows -/
namespace Noir.TransactionWindow

variable {α : Type}

/-- a run of `Continue` elements only accumulates -/
theorem run_continue (f : α → TxOp) : ∀ (xs : List (α × Int)) (items : List α) (cl : Option Int) (i : Nat)
    (rest : List (Elem α)), (∀ p ∈ xs, f p.1 = .continue_) →
    runFrom f (some ⟨items, cl⟩) i (xs.map (fun p => Elem.ts p.1 p.2) ++ rest) =
      runFrom f (some ⟨items ++ xs.map (·.1), cl⟩) (i + xs.length) rest := by
  intro xs
  induction xs with
  | nil => intros; simp
  | cons p xs ih =>
    intro items cl i rest h
    have hp : f p.1 = .continue_ := h p (by simp)
    simp only [List.map_cons, List.cons_append, runFrom, process, hp, List.map_nil, List.nil_append]
    rw [ih _ _ _ _ (fun q hq => h q (by simp [hq]))]
    simp only [List.length_cons, List.append_assoc, List.singleton_append]
    congr 1; omega

end Noir.TransactionWindow

namespace Noir.EventTimeWindow

variable {α : Type}

theorem dataOf_snoc_far (es : List (Elem α)) : dataOf (es ++ [.far]) = dataOf es := by
  induction es with
  | nil => rfl
  | cons e es ih => cases e <;> simp [dataOf, ih]

theorem guarded_snoc_far (c : Cfg) : ∀ (es : List (Elem α)) (st : State α),
    Guarded c st es → Guarded c st (es ++ [.far]) := by
  intro es
  induction es with
  | nil => intro st _; simp [Guarded]
  | cons e es ih => intro st h; simp only [List.cons_append, Guarded] at *; exact ⟨h.1, ih _ h.2⟩

/-- without any hypothesis on the input: every arrival is assigned to at most `hi` slots -/
theorem assigned_multi0 (c : Cfg) (hS : 0 < c.slide) (Q : α × Int → Prop) (hi : Nat)
    (hhi : ∀ (t : Int) (ws : List (Slot α)), (∀ s ∈ ws, s.stop = s.start + c.size) → Sorted c ws → hits t ws ≤ hi) :
    ∀ (es : List (Elem α)) (st : State α), Inv c Q st →
      (∀ x t, .ts x t ∈ es → Q (x, t)) → Multi 0 hi (dataOf es) (assigned c st es) := by
  intro es
  induction es with
  | nil => intros; exact Multi.nil
  | cons e es ih =>
    intro st inv hq
    have inv' := process_inv c hS Q st e inv (fun x t he => hq x t (by simp [he]))
    have hq' : ∀ x t, .ts x t ∈ es → Q (x, t) := fun x t hm => hq x t (by simp [hm])
    cases e with
    | ts x t =>
      simp only [dataOf, assigned]
      obtain ⟨hok, hs⟩ := alloc_inv c hS Q st.lw t st.ws inv.ok inv.sorted
      exact Multi.cons _ _ _ _ (Nat.zero_le _) (hhi t _ (fun s h => (hok s h).span) hs) (ih _ inv' hq')
    | wm w => simpa [dataOf, assigned] using ih _ inv' hq'
    | far => simpa [dataOf, assigned] using ih _ inv' hq'
    | term => simpa [dataOf, assigned] using ih _ inv' hq'
    | item y => simpa [dataOf, assigned] using ih _ inv' hq'
    | flushBatch => simpa [dataOf, assigned] using ih _ inv' hq'

/-- `⌈size/slide⌉` as a natural number -/
def ceilSlots (c : Cfg) : Nat := ((c.size + c.slide - 1) / c.slide).toNat

theorem hits_le_ceilSlots (c : Cfg) (hS : 0 < c.slide) (hN : 0 < c.size) (t : Int) (ws : List (Slot α))
    (hsp : ∀ s ∈ ws, s.stop = s.start + c.size) (hs : Sorted c ws) : hits t ws ≤ ceilSlots c := by
  have := hits_le_ceil c hS hN t ws hsp hs
  unfold ceilSlots
  omega

/-- a run that ends with `FlushAndRestart` leaves nothing behind -/
theorem results_far_conserve (c : Cfg) (hS : 0 < c.slide) (es : List (Elem α)) :
    (outItems (results c State.init (es ++ [.far]))).Perm (assigned c State.init (es ++ [.far])) := by
  have h := run_conserve c hS (fun _ => True) (es ++ [.far]) State.init (inv_init c _) (fun _ _ _ => trivial)
  have hfin : (stateAfter c State.init (es ++ [.far])).ws = [] := by
    rw [stateAfter_append]; simp [stateAfter, process]
  rw [hfin] at h
  simpa [held, State.init] using h

end Noir.EventTimeWindow

namespace Noir.EventTimeWindow

variable {α : Type}

/-- a watermark-safe input without `FlushAndRestart` inside (one iteration) is `Guarded` -/
theorem guarded_of_wmSafe (c : Cfg) : ∀ (es : List (Elem α)) (st : State α),
    (∀ e ∈ es, e ≠ .far) → wmSafeGo st.lw es = true → Guarded c st es := by
  intro es
  induction es with
  | nil => intros; trivial
  | cons e es ih =>
    intro st hfar hw
    have hfar' : ∀ e ∈ es, e ≠ .far := fun e he => hfar e (by simp [he])
    cases e with
    | ts x t =>
      simp only [wmSafeGo, Bool.and_eq_true] at hw
      refine ⟨?_, ih _ hfar' (by simpa [process] using hw.2)⟩
      intro w hlw; rw [hlw] at hw; simpa using hw.1
    | wm w =>
      simp only [wmSafeGo, Bool.and_eq_true] at hw
      refine ⟨?_, ih _ hfar' (by simpa [process] using hw.2)⟩
      intro w0 hlw; rw [hlw] at hw
      have : w0 < w := by simpa using hw.1
      omega
    | far => exact absurd rfl (hfar .far (by simp))
    | term => exact ⟨trivial, ih _ hfar' (by simpa [process, wmSafeGo] using hw)⟩
    | item y => exact ⟨trivial, ih _ hfar' (by simpa [process, wmSafeGo] using hw)⟩
    | flushBatch => exact ⟨trivial, ih _ hfar' (by simpa [process, wmSafeGo] using hw)⟩

end Noir.EventTimeWindow

/-! ## Watermark safety of the keyed operator (C06) -/
namespace Noir.EventTimeWindow
open Noir.WindowOp

variable {α κ : Type}

/-- every non-empty open slot ends after the watermark `g` -/
def Above (g : Option Int) (st : State α) : Prop :=
  ∀ s ∈ st.ws, s.active = true → ∀ w, g = some w → w < s.stop

theorem above_init (g : Option Int) : Above g (State.init : State α) := by
  intro s hs; simp [State.init] at hs

/-- steps other than a watermark keep `Above g`, provided an arriving element is not earlier than `g` -/
theorem above_process (c : Cfg) (hS : 0 < c.slide) (Q : α × Int → Prop) (g : Option Int) (st : State α)
    (e : Elem α) (inv : Inv c Q st) (ha : Above g st)
    (hts : ∀ x t, e = .ts x t → ∀ w, g = some w → w ≤ t) (hwm : ∀ w, e ≠ .wm w) :
    Above g (process c st e).1 := by
  cases e with
  | ts x t =>
    obtain ⟨hok, hs⟩ := alloc_inv c hS Q st.lw t st.ws inv.ok inv.sorted
    have hal : ∀ s ∈ alloc c st.lw t st.ws, s.active = true → ∀ w, g = some w → w < s.stop := by
      apply alloc_induct c st.lw t (fun ws' => ∀ s ∈ ws', s.active = true → ∀ w, g = some w → w < s.stop) _ _ st.ws ha
      · intro f rest h _ s hs' hact
        simp only [List.mem_cons] at hs'
        rcases hs' with rfl | hs'
        · simp [Slot.new] at hact
        · exact h s (by simpa using hs') hact
      · intro ws' h _ s hs' hact
        rcases List.mem_append.mp hs' with h1 | h1
        · exact h s h1 hact
        · simp only [List.mem_singleton] at h1; subst h1; simp [Slot.new] at hact
    intro s hs' hact w hg
    simp only [process] at hs'
    rw [assign_eq_map c hS x t _ (fun s h => (hok s h).span) hs, List.mem_map] at hs'
    obtain ⟨s0, h0, rfl⟩ := hs'
    by_cases hc : contains t s0 = true
    · simp only [hc, if_true, Slot.update]
      have := hts x t rfl w hg
      simp only [contains, Bool.and_eq_true, decide_eq_true_eq] at hc
      omega
    · simp only [hc] at hact ⊢
      exact hal s0 h0 hact w hg
  | wm w => exact absurd rfl (hwm w)
  | far => intro s hs; simp [process] at hs
  | term => intro s hs; simp [process] at hs
  | item _ => exact ha
  | flushBatch => exact ha

/-- after `Watermark(w)` every open slot ends after `w` -/
theorem above_wm (c : Cfg) (hS : 0 < c.slide) (Q : α × Int → Prop) (st : State α) (w : Int)
    (inv : Inv c Q st) : Above (some w) (process c st (.wm w)).1 := by
  intro s hs _ w' hw'
  injection hw' with hw'; subst hw'
  simp only [process] at hs
  rw [(takeWhile_eq_filter c hS w st.ws (fun s h => (inv.ok s h).span) inv.sorted).2, List.mem_filter] at hs
  have := hs.2
  simp at this
  omega

/-- results of a step from a state that is `Above g` are stamped after `g` -/
theorem out_above (c : Cfg) (g : Option Int) (st : State α) (e : Elem α) (ha : Above g st) :
    ∀ r ∈ (process c st e).2, ∃ stop, r.ts = some stop ∧ ∀ w, g = some w → w < stop := by
  intro r hr
  obtain ⟨s, hs, hact, rfl⟩ := process_out c st e r hr
  exact ⟨s.stop, rfl, ha s hs hact⟩

/-- data elements stamped after `g` do not matter for the recogniser -/
theorem wmSafeGo_skip {β : Type} (g : Option Int) : ∀ (l1 l2 : List (Elem β)),
    (∀ o ∈ l1, ∃ v t, o = .ts v t ∧ ∀ w, g = some w → w < t) →
    wmSafeGo g (l1 ++ l2) = wmSafeGo g l2 := by
  intro l1
  induction l1 with
  | nil => intros; rfl
  | cons o l1 ih =>
    intro l2 h
    obtain ⟨v, t, rfl, ht⟩ := h o (by simp)
    have := ih l2 (fun o ho => h o (by simp [ho]))
    simp only [List.cons_append, wmSafeGo, this]
    cases g with
    | none => simp
    | some w => simp [ht w rfl]

/-- operator invariant: every manager satisfies its invariant and is above the last forwarded watermark -/
def OpAbove (c : Cfg) (g : Option Int) (st : WindowOp.State κ (State α)) : Prop :=
  ∀ p ∈ st.windows, Inv c (fun _ => True) p.2 ∧ Above g p.2

theorem toElem_good (g : Option Int) (k : κ) (r : Res α)
    (h : ∃ stop, r.ts = some stop ∧ ∀ w, g = some w → w < stop) :
    ∃ v t, WResult.toElem k r = .ts v t ∧ ∀ w, g = some w → w < t := by
  obtain ⟨stop, h1, h2⟩ := h
  exact ⟨(k, r.val), stop, by simp [WResult.toElem, h1], h2⟩

theorem op_wmsafe_lax [DecidableEq κ] (c : Cfg) (hS : 0 < c.slide) :
    ∀ (es : List (Elem (κ × α))) (g : Option Int) (st : WindowOp.State κ (State α)),
      OpAbove c g st → wmSafeLaxGo g es = true →
      wmSafeGo g (WindowOp.runUnits (mgr c) st es).flatten = true := by
  intro es
  induction es with
  | nil => intros; rfl
  | cons e es ih =>
    intro g st hI hw
    simp only [WindowOp.runUnits, List.flatten_cons]
    -- data elements: no output, invariant kept
    have hdata : ∀ (k : κ) (e' : Elem α), (∀ w, e' ≠ .wm w) →
        (∀ x t, e' = .ts x t → ∀ w, g = some w → w ≤ t) →
        (∀ p ∈ (upsert (mgr c) k e' st.windows).1, Inv c (fun _ => True) p.2 ∧ Above g p.2) ∧
        (∀ r ∈ (upsert (mgr c) k e' st.windows).2.1, ∃ stop, r.ts = some stop ∧ ∀ w, g = some w → w < stop) := by
      intro k e' hnw hts
      obtain ⟨h1, h2⟩ := upsert_inv (mgr c) (fun _ s => Inv c (fun _ => True) s ∧ Above g s) k e'
        ⟨inv_init c _, above_init g⟩
        (fun s hs => ⟨process_inv c hS _ s e' hs.1 (fun _ _ _ => trivial),
          above_process c hS _ g s e' hs.1 hs.2 hts hnw⟩) st.windows hI
      refine ⟨h1, ?_⟩
      intro r hr
      obtain ⟨s, hs, hr'⟩ := h2 r hr
      exact out_above c g s e' hs.2 r hr'
    -- control elements: results above `g`
    have hctrl : ∀ (e' : Elem α), (∀ o ∈ (broadcast (mgr c) e' st.windows).2.1,
        ∃ v t, o = .ts v t ∧ ∀ w, g = some w → w < t) := by
      intro e' o ho
      obtain ⟨_, h2⟩ := broadcast_inv2 (mgr c) (fun _ s => Inv c (fun _ => True) s ∧ Above g s)
        (fun _ _ => True) e' (fun _ _ _ => trivial) st.windows hI
      obtain ⟨k, s, r, hs, hr, rfl⟩ := h2 o ho
      exact toElem_good g k r (out_above c g s e' hs.2 r hr)
    cases e with
    | item p =>
      obtain ⟨k, x⟩ := p
      obtain ⟨h1, h2⟩ := hdata k (.item x) (fun w h => by cases h) (fun _ _ h => by cases h)
      simp only [WindowOp.step]
      rw [wmSafeGo_skip g _ _ (by
        intro o ho
        obtain ⟨r, hr, rfl⟩ := List.mem_map.mp ho
        exact toElem_good g k r (h2 r hr))]
      exact ih g _ h1 (by simpa [wmSafeLaxGo] using hw)
    | ts p t =>
      obtain ⟨k, x⟩ := p
      simp only [wmSafeLaxGo, Bool.and_eq_true] at hw
      have hgt : ∀ w, g = some w → w ≤ t := by
        intro w hg; rw [hg] at hw; simpa using hw.1
      obtain ⟨h1, h2⟩ := hdata k (.ts x t) (fun w h => by cases h)
        (fun x' t' h => by injection h with _ ht; subst ht; exact hgt)
      simp only [WindowOp.step]
      rw [wmSafeGo_skip g _ _ (by
        intro o ho
        obtain ⟨r, hr, rfl⟩ := List.mem_map.mp ho
        exact toElem_good g k r (h2 r hr))]
      exact ih g _ h1 hw.2
    | flushBatch =>
      simp only [WindowOp.step, List.singleton_append]
      show wmSafeGo g (WindowOp.runUnits (mgr c) st es).flatten = true
      exact ih g st hI (by simpa [wmSafeLaxGo] using hw)
    | wm w =>
      simp only [wmSafeLaxGo, Bool.and_eq_true] at hw
      simp only [WindowOp.step, List.append_assoc, List.singleton_append]
      rw [wmSafeGo_skip g _ _ (hctrl (.wm w))]
      simp only [wmSafeGo, Bool.and_eq_true]
      refine ⟨hw.1, ih (some w) _ ?_ hw.2⟩
      exact (broadcast_inv2 (mgr c) (fun _ s => Inv c (fun _ => True) s ∧ Above g s)
        (fun _ s => Inv c (fun _ => True) s ∧ Above (some w) s) (.wm w)
        (fun _ s hs => ⟨process_inv c hS _ s _ hs.1 (fun _ _ _ => trivial), above_wm c hS _ s w hs.1⟩)
        st.windows hI).1
    | term =>
      simp only [WindowOp.step, List.append_assoc, List.singleton_append]
      rw [wmSafeGo_skip g _ _ (hctrl .term)]
      show wmSafeGo g (WindowOp.runUnits (mgr c) _ es).flatten = true
      apply ih g _ _ (by simpa [wmSafeLaxGo] using hw)
      intro p hp
      have : (broadcast (mgr c) .term st.windows).1 = [] :=
        broadcast_all_recycled (mgr c) .term (fun s => by simp [mgr, process, recycle]) st.windows
      simp [this] at hp
    | far =>
      simp only [WindowOp.step, List.append_assoc, List.singleton_append]
      rw [wmSafeGo_skip g _ _ (hctrl .far)]
      show wmSafeGo none (WindowOp.runUnits (mgr c) _ es).flatten = true
      apply ih none _ _ (by simpa [wmSafeLaxGo] using hw)
      intro p hp
      have : (broadcast (mgr c) .far st.windows).1 = [] :=
        broadcast_all_recycled (mgr c) .far (fun s => by simp [mgr, process, recycle]) st.windows
      simp [this] at hp


theorem wmSafeLax_of_wmSafe {β : Type} : ∀ (es : List (Elem β)) (g : Option Int),
    wmSafeGo g es = true → wmSafeLaxGo g es = true := by
  intro es
  induction es with
  | nil => intros; rfl
  | cons e es ih =>
    intro g h
    cases e with
    | ts x t =>
      simp only [wmSafeGo, wmSafeLaxGo, Bool.and_eq_true] at h ⊢
      refine ⟨?_, ih g h.2⟩
      cases g with
      | none => rfl
      | some w => have := h.1; simp at this ⊢; omega
    | wm w =>
      simp only [wmSafeGo, wmSafeLaxGo, Bool.and_eq_true] at h ⊢
      exact ⟨h.1, ih _ h.2⟩
    | far => simpa [wmSafeGo, wmSafeLaxGo] using ih none (by simpa [wmSafeGo] using h)
    | term => simpa [wmSafeGo, wmSafeLaxGo] using ih g (by simpa [wmSafeGo] using h)
    | item y => simpa [wmSafeGo, wmSafeLaxGo] using ih g (by simpa [wmSafeGo] using h)
    | flushBatch => simpa [wmSafeGo, wmSafeLaxGo] using ih g (by simpa [wmSafeGo] using h)

theorem op_wmsafe [DecidableEq κ] (c : Cfg) (hS : 0 < c.slide) :
    ∀ (es : List (Elem (κ × α))) (g : Option Int) (st : WindowOp.State κ (State α)),
      OpAbove c g st → wmSafeGo g es = true →
      wmSafeGo g (WindowOp.runUnits (mgr c) st es).flatten = true :=
  fun es g st h hw => op_wmsafe_lax c hS es g st h (wmSafeLax_of_wmSafe es g hw)

end Noir.EventTimeWindow

/-! ## Locating results of a run; transaction-window run lemmas -/
namespace Noir.EventTimeWindow

variable {α : Type}

/-- what the `j`-th element of a run emits is in the run's output, tagged with its index -/
theorem mem_runFrom_of_step (c : Cfg) : ∀ (es : List (Elem α)) (st : State α) (i0 j : Nat) (e : Elem α) (r : Res α),
    es[j]? = some e → r ∈ (process c (stateAfter c st (es.take j)) e).2 → (i0 + j, r) ∈ runFrom c st i0 es := by
  intro es
  induction es with
  | nil => intro st i0 j e r h; simp at h
  | cons e0 es ih =>
    intro st i0 j e r h hr
    cases j with
    | zero =>
      simp at h; subst h
      simp only [List.take_zero, stateAfter] at hr
      simp only [runFrom, List.mem_append, List.mem_map]
      left; exact ⟨r, hr, rfl⟩
    | succ j =>
      simp only [List.getElem?_cons_succ] at h
      simp only [List.take_succ_cons, stateAfter] at hr
      simp only [runFrom, List.mem_append]
      right
      have := ih (process c st e0).1 (i0 + 1) j e r h hr
      have hidx : i0 + 1 + j = i0 + (j + 1) := by omega
      rw [hidx] at this; exact this

theorem stateAfter_take_succ (c : Cfg) : ∀ (es : List (Elem α)) (st : State α) (j : Nat) (e : Elem α),
    es[j]? = some e → stateAfter c st (es.take (j + 1)) = (process c (stateAfter c st (es.take j)) e).1 := by
  intro es
  induction es with
  | nil => intro st j e h; simp at h
  | cons e0 es ih =>
    intro st j e h
    cases j with
    | zero => simp at h; subst h; simp [stateAfter]
    | succ j =>
      simp only [List.getElem?_cons_succ] at h
      simp only [List.take_succ_cons, stateAfter]
      exact ih _ j e h

end Noir.EventTimeWindow

namespace Noir.TransactionWindow

variable {α : Type}

/-- watermarks that have not passed the registered deadline do nothing -/
theorem run_wms_before (f : α → TxOp) (items : List α) (d : Int) : ∀ (ws : List Int) (i : Nat) (rest : List (Elem α)),
    (∀ v ∈ ws, v ≤ d) →
    runFrom f (some ⟨items, some d⟩) i (ws.map (fun v => Elem.wm v) ++ rest) =
      runFrom f (some ⟨items, some d⟩) (i + ws.length) rest := by
  intro ws
  induction ws with
  | nil => intros; simp
  | cons v ws ih =>
    intro i rest h
    have hv : ¬ d < v := by have := h v (by simp); omega
    simp only [List.map_cons, List.cons_append, runFrom, process, hv, if_false, List.map_nil, List.nil_append]
    rw [ih _ _ (fun u hu => h u (by simp [hu]))]
    simp only [List.length_cons]
    congr 1; omega

/-- all results of a run, without the indices -/
def results (f : α → TxOp) : State α → List (Elem α) → List (Res α)
  | _, [] => []
  | st, e :: es => (process f st e).2 ++ results f (process f st e).1 es

theorem runFrom_results (f : α → TxOp) : ∀ (es : List (Elem α)) (st : State α) (i : Nat),
    (runFrom f st i es).map (·.2) = results f st es := by
  intro es
  induction es with
  | nil => intros; rfl
  | cons e es ih => intro st i; simp [runFrom, results, ih, List.map_map, Function.comp_def]

end Noir.TransactionWindow
