/-
  Lemmas/HashJoin.lean — invariant and one-step lemmas for `JoinLocalHash` (DESIGN.md §5.21).

  The state reached after a prefix in which the left elements `Ls` and the right elements `Rs` have been
  seen, with end flags `le`, `re`, is a *function* of `(le, re, Ls, Rs)` (`stateOf`); what has been emitted
  so far is a permutation of `partialJoin le re Ls Rs`.
-/
import NoirVerif.Model.HashJoin
namespace Noir.Join

section Generic
variable {γ : Type}

theorem Interleave.cons_inv {x : γ} {xs ys zs : List γ} (h : Interleave xs ys (x :: zs)) :
    (∃ xs', xs = x :: xs' ∧ Interleave xs' ys zs) ∨ (∃ ys', ys = x :: ys' ∧ Interleave xs ys' zs) := by
  cases h with
  | left h => exact Or.inl ⟨_, rfl, h⟩
  | right h => exact Or.inr ⟨_, rfl, h⟩

theorem Interleave.nil_inv {xs ys : List γ} (h : Interleave xs ys []) : xs = [] ∧ ys = [] := by
  cases h; exact ⟨rfl, rfl⟩

theorem Interleave.append_seq (xs ys : List γ) : Interleave xs ys (xs ++ ys) := by
  induction xs with
  | nil =>
    induction ys with
    | nil => exact .nil
    | cons y ys ih => exact .right ih
  | cons x xs ih => exact .left ih

theorem Interleave.length {xs ys zs : List γ} (h : Interleave xs ys zs) :
    zs.length = xs.length + ys.length := by
  induction h with
  | nil => rfl
  | left _ ih => simp [ih]; omega
  | right _ ih => simp [ih]; omega

end Generic

section Spec
variable {κ α β : Type} [DecidableEq κ] (kl : α → κ) (kr : β → κ)

theorem contains_map_false_iff {γ : Type} (k : γ → κ) (l : List γ) (key : κ) :
    (!(l.map k).contains key) = (l.filter fun x => decide (k x = key)).isEmpty := by
  induction l with
  | nil => simp
  | cons x xs ih =>
    by_cases h : k x = key
    · simp [h]
    · have h' : ¬ key = k x := fun e => h e.symm
      simp [h, h', ← ih]

theorem pairs_append_left (L1 L2 : List α) (R : List β) :
    pairs kl kr (L1 ++ L2) R = pairs kl kr L1 R ++ pairs kl kr L2 R := by
  simp [pairs, List.flatMap_append]

theorem pairs_singleton (a : α) (R : List β) :
    pairs kl kr [a] R = (R.filter fun r => decide (kr r = kl a)).map fun r => (kl a, some a, some r) := by
  simp [pairs]

theorem pairs_nil_right (L : List α) : pairs kl kr L ([] : List β) = [] := by
  induction L with
  | nil => rfl
  | cons l L ih => simp [pairs] at ih ⊢

theorem pairs_snoc_right (L : List α) (R : List β) (b : β) :
    (pairs kl kr L (R ++ [b])).Perm
      (pairs kl kr L R ++ (L.filter fun l => decide (kl l = kr b)).map fun l => (kr b, some l, some b)) := by
  classical
  induction L with
  | nil => simp [pairs]
  | cons l L ih =>
    have hc : pairs kl kr (l :: L) (R ++ [b]) = pairs kl kr [l] (R ++ [b]) ++ pairs kl kr L (R ++ [b]) := by
      simp [pairs]
    have hc' : pairs kl kr (l :: L) R = pairs kl kr [l] R ++ pairs kl kr L R := by
      simp [pairs]
    rw [hc, hc', pairs_singleton, pairs_singleton]
    rw [List.perm_iff_count] at ih ⊢
    intro x
    have := ih x
    by_cases h : kl l = kr b
    · have h' : kr b = kl l := h.symm
      simp [List.filter_append, h, List.count_append, List.count_cons] at this ⊢
      omega
    · have h' : ¬ kr b = kl l := fun e => h e.symm
      simp [List.filter_append, h, h', List.count_append] at this ⊢
      omega

theorem unmatchedL_snoc (L : List α) (a : α) (R : List β) :
    unmatchedL kl kr (L ++ [a]) R = unmatchedL kl kr L R ++
      (if (R.filter fun r => decide (kr r = kl a)).isEmpty then [(kl a, some a, none)] else []) := by
  unfold unmatchedL
  by_cases h : (R.filter fun r => decide (kr r = kl a)).isEmpty
  · simp [List.filter_append, h]
  · simp [List.filter_append, h]

theorem unmatchedR_snoc (L : List α) (R : List β) (b : β) :
    unmatchedR kl kr L (R ++ [b]) = unmatchedR kl kr L R ++
      (if (L.filter fun l => decide (kl l = kr b)).isEmpty then [(kr b, none, some b)] else []) := by
  unfold unmatchedR
  by_cases h : (L.filter fun l => decide (kl l = kr b)).isEmpty
  · simp [List.filter_append, h]
  · simp [List.filter_append, h]


theorem mem_pairs (L : List α) (R : List β) (o : Out κ α β) :
    o ∈ pairs kl kr L R ↔ ∃ l ∈ L, ∃ r ∈ R, kr r = kl l ∧ o = (kl l, some l, some r) := by
  simp only [pairs, List.mem_flatMap, List.mem_map, List.mem_filter, decide_eq_true_eq]
  constructor
  · rintro ⟨l, hl, r, ⟨hr, hk⟩, rfl⟩; exact ⟨l, hl, r, hr, hk, rfl⟩
  · rintro ⟨l, hl, r, hr, hk, rfl⟩; exact ⟨l, hl, r, ⟨hr, hk⟩, rfl⟩

theorem mem_unmatchedL (L : List α) (R : List β) (o : Out κ α β) :
    o ∈ unmatchedL kl kr L R ↔ ∃ l ∈ L, (∀ r ∈ R, kr r ≠ kl l) ∧ o = (kl l, some l, none) := by
  simp only [unmatchedL, List.mem_map, List.mem_filter, List.isEmpty_iff, List.filter_eq_nil_iff,
    decide_eq_true_eq]
  constructor
  · rintro ⟨l, ⟨hl, hn⟩, rfl⟩; exact ⟨l, hl, hn, rfl⟩
  · rintro ⟨l, hl, hn, rfl⟩; exact ⟨l, ⟨hl, hn⟩, rfl⟩

theorem mem_unmatchedR (L : List α) (R : List β) (o : Out κ α β) :
    o ∈ unmatchedR kl kr L R ↔ ∃ r ∈ R, (∀ l ∈ L, kl l ≠ kr r) ∧ o = (kr r, none, some r) := by
  simp only [unmatchedR, List.mem_map, List.mem_filter, List.isEmpty_iff, List.filter_eq_nil_iff,
    decide_eq_true_eq]
  constructor
  · rintro ⟨l, ⟨hl, hn⟩, rfl⟩; exact ⟨l, hl, hn, rfl⟩
  · rintro ⟨l, hl, hn, rfl⟩; exact ⟨l, ⟨hl, hn⟩, rfl⟩

end Spec

namespace HashJoin
variable {κ α β : Type} [DecidableEq κ] (v : Variant) (kl : α → κ) (kr : β → κ)

/-- the state after having seen `Ls`, `Rs` with end flags `le`, `re` (DESIGN.md §5.21) -/
def stateOf (le re : Bool) (Ls : List α) (Rs : List β) : State κ α β :=
  { left := { data := if re then [] else Ls,
              keys := if le || !v.rightOuter then [] else Ls.map kl,
              ended := le },
    right := { data := if le then [] else Rs,
               keys := if re || !v.leftOuter then [] else Rs.map kr,
               ended := re } }

/-- what has been emitted after having seen `Ls`, `Rs` with end flags `le`, `re` -/
def partialJoin (le re : Bool) (Ls : List α) (Rs : List β) : List (Out κ α β) :=
  pairs kl kr Ls Rs
    ++ (if v.leftOuter && re then unmatchedL kl kr Ls Rs else [])
    ++ (if v.rightOuter && le then unmatchedR kl kr Ls Rs else [])

theorem stateOf_init : stateOf v kl kr false false ([] : List α) ([] : List β) = State.init := by
  simp [stateOf, State.init, Side.empty]

theorem partialJoin_final (L : List α) (R : List β) :
    partialJoin v kl kr true true L R = relJoin v kl kr L R := by
  simp [partialJoin, relJoin]

/-- tuples produced by a left item -/
def outLeft (re : Bool) (Rs : List β) (a : α) : List (Out κ α β) :=
  match lookup kr Rs (kl a) with
  | [] => if re && v.leftOuter then [(kl a, some a, none)] else []
  | m :: ms => (m :: ms).map fun r => (kl a, some a, some r)

/-- tuples produced by a right item -/
def outRight (le : Bool) (Ls : List α) (b : β) : List (Out κ α β) :=
  match lookup kl Ls (kr b) with
  | [] => if le && v.rightOuter then [(kr b, none, some b)] else []
  | m :: ms => (m :: ms).map fun l => (kr b, some l, some b)

theorem step_left (re : Bool) (Ls : List α) (Rs : List β) (a : α) :
    stepBin v kl kr (stateOf v kl kr false re Ls Rs) (.left a)
      = (stateOf v kl kr false re (Ls ++ [a]) Rs, outLeft v kl kr re Rs a) := by
  cases hm : lookup kr Rs (kl a) <;> cases re <;> cases hro : v.rightOuter <;>
    simp [stepBin, addItem, stateOf, outLeft, hro, hm]

theorem step_right (le : Bool) (Ls : List α) (Rs : List β) (b : β) :
    stepBin v kl kr (stateOf v kl kr le false Ls Rs) (.right b)
      = (stateOf v kl kr le false Ls (Rs ++ [b]), outRight v kl kr le Ls b) := by
  cases hm : lookup kl Ls (kr b) <;> cases le <;> cases hlo : v.leftOuter <;>
    simp [stepBin, addItem, stateOf, outRight, hlo, hm]

theorem step_leftEnd (re : Bool) (Ls : List α) (Rs : List β) :
    stepBin v kl kr (stateOf v kl kr false re Ls Rs) .leftEnd
      = (stateOf v kl kr true re Ls Rs, if v.rightOuter then unmatchedR kl kr Ls Rs else []) := by
  cases hro : v.rightOuter
  · simp [stepBin, sideEnded, stateOf, hro]
  · simp only [stepBin, sideEnded, stateOf, hro, unmatchedR, Bool.false_or, Bool.not_true,
      Bool.false_eq_true, if_false, if_true, contains_map_false_iff]
    simp

theorem step_rightEnd (le : Bool) (Ls : List α) (Rs : List β) :
    stepBin v kl kr (stateOf v kl kr le false Ls Rs) .rightEnd
      = (stateOf v kl kr le true Ls Rs, if v.leftOuter then unmatchedL kl kr Ls Rs else []) := by
  cases hlo : v.leftOuter
  · simp [stepBin, sideEnded, stateOf, hlo]
  · simp only [stepBin, sideEnded, stateOf, hlo, unmatchedL, Bool.false_or, Bool.not_true,
      Bool.false_eq_true, if_false, if_true, contains_map_false_iff]
    simp


theorem partialJoin_left (re : Bool) (Ls : List α) (Rs : List β) (a : α) :
    (partialJoin v kl kr false re (Ls ++ [a]) Rs).Perm
      (partialJoin v kl kr false re Ls Rs ++ outLeft v kl kr re Rs a) := by
  classical
  unfold partialJoin outLeft lookup
  rw [pairs_append_left, pairs_singleton, unmatchedL_snoc, List.perm_iff_count]
  intro x
  cases hm : Rs.filter (fun r => decide (kr r = kl a)) <;> cases re <;> cases v.leftOuter <;>
    simp [List.count_append, List.count_cons] <;> omega

theorem partialJoin_right (le : Bool) (Ls : List α) (Rs : List β) (b : β) :
    (partialJoin v kl kr le false Ls (Rs ++ [b])).Perm
      (partialJoin v kl kr le false Ls Rs ++ outRight v kl kr le Ls b) := by
  classical
  unfold partialJoin outRight lookup
  have hp := pairs_snoc_right kl kr Ls Rs b
  rw [List.perm_iff_count] at hp ⊢
  rw [unmatchedR_snoc]
  intro x
  have hx := hp x
  cases hm : Ls.filter (fun l => decide (kl l = kr b)) <;> cases le <;> cases v.rightOuter <;>
    simp [List.count_append, List.count_cons, hm] at hx ⊢ <;> omega

theorem partialJoin_leftEnd (re : Bool) (Ls : List α) (Rs : List β) :
    partialJoin v kl kr true re Ls Rs
      = partialJoin v kl kr false re Ls Rs ++ (if v.rightOuter then unmatchedR kl kr Ls Rs else []) := by
  simp [partialJoin]

theorem partialJoin_rightEnd (le : Bool) (Ls : List α) (Rs : List β) :
    (partialJoin v kl kr le true Ls Rs).Perm
      (partialJoin v kl kr le false Ls Rs ++ (if v.leftOuter then unmatchedL kl kr Ls Rs else [])) := by
  classical
  unfold partialJoin
  rw [List.perm_iff_count]
  intro x
  cases v.leftOuter <;> simp [List.count_append] <;> omega

/-- the remaining part of a side's stream: its pending items followed by the end marker, or
    nothing if the side has already ended -/
def remL (le : Bool) (Lr : List α) : List (Bin α β) :=
  if le then [] else Lr.map Bin.left ++ [Bin.leftEnd]

def remR (re : Bool) (Rr : List β) : List (Bin α β) :=
  if re then [] else Rr.map Bin.right ++ [Bin.rightEnd]

/-- **Main simulation lemma.** From the state reached after `(le, re, Ls, Rs)`, any interleaving of
    what remains of the two sides produces the rest of the relational join and ends in the final state. -/
theorem feed_interleaving :
    ∀ (tr : List (Bin α β)) (le re : Bool) (Ls Lr : List α) (Rs Rr : List β),
      (le = true → Lr = []) → (re = true → Rr = []) →
      Interleave (remL le Lr) (remR re Rr) tr →
      (partialJoin v kl kr le re Ls Rs ++ feed v kl kr (stateOf v kl kr le re Ls Rs) tr).Perm
          (relJoin v kl kr (Ls ++ Lr) (Rs ++ Rr))
        ∧ stateAfterBin v kl kr (stateOf v kl kr le re Ls Rs) tr
            = stateOf v kl kr true true (Ls ++ Lr) (Rs ++ Rr) := by
  intro tr
  induction tr with
  | nil =>
    intro le re Ls Lr Rs Rr hl hr h
    obtain ⟨h1, h2⟩ := h.nil_inv
    cases le <;> cases re <;> simp [remL, remR] at h1 h2
    have := hl rfl; have := hr rfl; subst_vars
    simp [feed, stateAfterBin, partialJoin_final]
  | cons x tr ih =>
    intro le re Ls Lr Rs Rr hl hr h
    rcases h.cons_inv with ⟨xs', hx, h'⟩ | ⟨ys', hy, h'⟩
    · -- the next element comes from the left side
      cases le with
      | true => simp [remL] at hx
      | false =>
        cases Lr with
        | nil =>
          simp [remL] at hx
          obtain ⟨rfl, rfl⟩ := hx
          have hrem : (remL true ([] : List α) : List (Bin α β)) = [] := rfl
          rw [← hrem] at h'
          obtain ⟨ih1, ih2⟩ := ih true re Ls [] Rs Rr (fun _ => rfl) hr h'
          simp only [feed, stateAfterBin, step_leftEnd]
          rw [partialJoin_leftEnd] at ih1
          constructor
          · simpa [List.append_assoc] using ih1
          · exact ih2
        | cons a Lr =>
          simp [remL] at hx
          obtain ⟨rfl, rfl⟩ := hx
          have hrem : (List.map Bin.left Lr ++ [Bin.leftEnd] : List (Bin α β)) = remL false Lr := rfl
          rw [hrem] at h'
          obtain ⟨ih1, ih2⟩ := ih false re (Ls ++ [a]) Lr Rs Rr (fun h => by cases h) hr h'
          simp only [feed, stateAfterBin, step_left]
          constructor
          · have hp := partialJoin_left v kl kr re Ls Rs a
            have : (partialJoin v kl kr false re Ls Rs ++ (outLeft v kl kr re Rs a ++
                feed v kl kr (stateOf v kl kr false re (Ls ++ [a]) Rs) tr)).Perm
                (partialJoin v kl kr false re (Ls ++ [a]) Rs ++
                  feed v kl kr (stateOf v kl kr false re (Ls ++ [a]) Rs) tr) := by
              rw [← List.append_assoc]
              exact (hp.symm).append_right _
            refine this.trans ?_
            simpa [List.append_assoc] using ih1
          · simpa [List.append_assoc] using ih2
    · -- the next element comes from the right side
      cases re with
      | true => simp [remR] at hy
      | false =>
        cases Rr with
        | nil =>
          simp [remR] at hy
          obtain ⟨rfl, rfl⟩ := hy
          have hrem : (remR true ([] : List β) : List (Bin α β)) = [] := rfl
          rw [← hrem] at h'
          obtain ⟨ih1, ih2⟩ := ih le true Ls Lr Rs [] hl (fun _ => rfl) h'
          simp only [feed, stateAfterBin, step_rightEnd]
          constructor
          · have hp := partialJoin_rightEnd v kl kr le Ls Rs
            have : (partialJoin v kl kr le false Ls Rs ++ ((if v.leftOuter then unmatchedL kl kr Ls Rs else []) ++
                feed v kl kr (stateOf v kl kr le true Ls Rs) tr)).Perm
                (partialJoin v kl kr le true Ls Rs ++ feed v kl kr (stateOf v kl kr le true Ls Rs) tr) := by
              rw [← List.append_assoc]
              exact (hp.symm).append_right _
            exact this.trans ih1
          · exact ih2
        | cons b Rr =>
          simp [remR] at hy
          obtain ⟨rfl, rfl⟩ := hy
          have hrem : (List.map Bin.right Rr ++ [Bin.rightEnd] : List (Bin α β)) = remR false Rr := rfl
          rw [hrem] at h'
          obtain ⟨ih1, ih2⟩ := ih le false Ls Lr (Rs ++ [b]) Rr hl (fun h => by cases h) h'
          simp only [feed, stateAfterBin, step_right]
          constructor
          · have hp := partialJoin_right v kl kr le Ls Rs b
            have : (partialJoin v kl kr le false Ls Rs ++ (outRight v kl kr le Ls b ++
                feed v kl kr (stateOf v kl kr le false Ls (Rs ++ [b])) tr)).Perm
                (partialJoin v kl kr le false Ls (Rs ++ [b]) ++
                  feed v kl kr (stateOf v kl kr le false Ls (Rs ++ [b])) tr) := by
              rw [← List.append_assoc]
              exact (hp.symm).append_right _
            refine this.trans ?_
            simpa [List.append_assoc] using ih1
          · simpa [List.append_assoc] using ih2

theorem runElems_items (bs : List (Bin α β)) (rest : List (Elem (Bin α β))) :
    ∀ s : State κ α β,
      runElems v kl kr s (bs.map Elem.item ++ rest)
          = (feed v kl kr s bs).map Elem.item ++ runElems v kl kr (stateAfterBin v kl kr s bs) rest
        ∧ stateAfter v kl kr s (bs.map Elem.item ++ rest)
          = stateAfter v kl kr (stateAfterBin v kl kr s bs) rest
        ∧ anyPanic v kl kr s (bs.map Elem.item ++ rest)
          = anyPanic v kl kr (stateAfterBin v kl kr s bs) rest := by
  induction bs with
  | nil => intro s; simp [feed, stateAfterBin]
  | cons b bs ih =>
    intro s
    obtain ⟨i1, i2, i3⟩ := ih (stepBin v kl kr s b).1
    simp [runElems, stateAfter, anyPanic, feed, stateAfterBin, step, panics, i1, i2, i3]

end HashJoin
end Noir.Join
