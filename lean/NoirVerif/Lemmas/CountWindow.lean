/-
  Lemmas/CountWindow.lean — invariant of `CountWindowManager` (helper lemmas for Props/C12).
-/
import NoirVerif.Model.CountWindow
namespace Noir.CountWindow

variable {α : Type}

/-- the contents the open slots must have: `cur, cur.drop S, cur.drop 2S, …` (m slots) -/
def slotsOf (S : Nat) : List α → Nat → List (List α)
  | _, 0 => []
  | cur, m + 1 => cur :: slotsOf S (cur.drop S) m

@[simp] theorem slotsOf_length (S : Nat) (cur : List α) (m : Nat) : (slotsOf S cur m).length = m := by
  induction m generalizing cur with
  | zero => rfl
  | succ m ih => simp [slotsOf, ih]

/-- number of slots the manager keeps open -/
def need (c : Cfg) : Nat := (c.size + c.slide - 1) / c.slide

theorem need_mul_ge (c : Cfg) (hS : 0 < c.slide) : c.size ≤ need c * c.slide := by
  unfold need
  have h1 := Nat.div_add_mod (c.size + c.slide - 1) c.slide
  have h2 := Nat.mod_lt (c.size + c.slide - 1) hS
  rw [Nat.mul_comm] at h1
  omega

theorem need_pos (c : Cfg) (hS : 0 < c.slide) (hN : 0 < c.size) : 0 < need c := by
  have := need_mul_ge c hS
  rcases Nat.eq_zero_or_pos (need c) with h | h
  · rw [h] at this; omega
  · exact h

/-- Well-formed slot: `count` is the number of accumulated items. -/
def SlotOk (s : Slot α) : Prop := s.count = s.items.length

/-- The representation invariant: the (padded) open slots hold exactly `slotsOf S cur`, where
    `cur` (shorter than `N`) is the content of the oldest open group. -/
structure Inv (c : Cfg) (ws : List (Slot α)) (cur : List α) : Prop where
  items : (pad c ws).map (·.items) = slotsOf c.slide cur (need c)
  ok : ∀ s ∈ ws, SlotOk s
  short : cur.length < c.size

theorem slotOk_empty : SlotOk (Slot.empty : Slot α) := rfl

theorem pad_ok (c : Cfg) (ws : List (Slot α)) (h : ∀ s ∈ ws, SlotOk s) : ∀ s ∈ pad c ws, SlotOk s := by
  intro s hs
  unfold pad at hs
  rcases List.mem_append.mp hs with h1 | h1
  · exact h s h1
  · rw [List.mem_replicate] at h1; rw [h1.2]; exact slotOk_empty

theorem pad_length_ge (c : Cfg) (ws : List (Slot α)) : ws.length ≤ (pad c ws).length := by
  unfold pad; simp

theorem pad_of_length (c : Cfg) (ws : List (Slot α)) (h : need c ≤ ws.length) : pad c ws = ws := by
  unfold pad; unfold need at h
  have : (c.size + c.slide - 1) / c.slide - ws.length = 0 := by omega
  simp [this]

/-- Appending `x` to the first `|cur|/S + 1` slots of `slotsOf S cur m` gives `slotsOf S (cur ++ [x]) m`. -/
theorem updFirst_items (S : Nat) (hS : 0 < S) (x : α) (t : Option Int) :
    ∀ (m : Nat) (cur : List α) (ws : List (Slot α)),
      ws.map (·.items) = slotsOf S cur m →
      (updFirst (cur.length / S + 1) x t ws).map (·.items) = slotsOf S (cur ++ [x]) m := by
  intro m
  induction m with
  | zero =>
    intro cur ws h
    cases ws with
    | nil => simp [updFirst, slotsOf]
    | cons s ws => simp [slotsOf] at h
  | succ m ih =>
    intro cur ws h
    cases ws with
    | nil => simp [slotsOf] at h
    | cons s ws =>
      simp only [slotsOf, List.map_cons, List.cons.injEq] at h
      obtain ⟨h0, h1⟩ := h
      simp only [updFirst, List.map_cons, slotsOf, Slot.update, h0, List.cons.injEq, true_and]
      by_cases hlt : cur.length < S
      · -- no further slot is touched
        have hk : cur.length / S = 0 := Nat.div_eq_of_lt hlt
        have hd : (cur ++ [x]).drop S = [] := by
          apply List.drop_eq_nil_of_le; simp; omega
        have hd' : cur.drop S = [] := by
          apply List.drop_eq_nil_of_le; omega
        rw [hk, hd]
        simp only [updFirst]
        rw [h1, hd']
      · have hge : S ≤ cur.length := by omega
        have hk : cur.length / S = (cur.drop S).length / S + 1 := by
          rw [List.length_drop]
          have := Nat.sub_add_cancel hge
          conv => lhs; rw [← this]
          rw [Nat.add_div_right _ hS]
        have hd : (cur ++ [x]).drop S = cur.drop S ++ [x] := by
          rw [List.drop_append_of_le_length hge]
        rw [hk, hd]
        exact ih (cur.drop S) ws h1

theorem updFirst_ok (k : Nat) (x : α) (t : Option Int) (ws : List (Slot α))
    (h : ∀ s ∈ ws, SlotOk s) : ∀ s ∈ updFirst k x t ws, SlotOk s := by
  induction k generalizing ws with
  | zero => simpa [updFirst] using h
  | succ k ih =>
    cases ws with
    | nil => simp [updFirst]
    | cons s ws =>
      intro s' hs'
      simp only [updFirst, List.mem_cons] at hs'
      rcases hs' with rfl | hs'
      · have := h s (by simp)
        unfold SlotOk at *; simp [Slot.update, this]
      · exact ih ws (fun s hs => h s (by simp [hs])) s' hs'

theorem updFirst_length (k : Nat) (x : α) (t : Option Int) (ws : List (Slot α))
    (h : k ≤ ws.length) : (updFirst k x t ws).length = ws.length := by
  induction k generalizing ws with
  | zero => rfl
  | succ k ih =>
    cases ws with
    | nil => simp at h
    | cons s ws => simp [updFirst, ih ws (by simpa using h)]

/-- `slotsOf` extended by one slot that is necessarily empty. -/
theorem slotsOf_snoc (S : Nat) : ∀ (m : Nat) (cur : List α), cur.length ≤ m * S →
    slotsOf S cur m ++ [[]] = slotsOf S cur (m + 1) := by
  intro m
  induction m with
  | zero => intro cur h; simp at h; simp [slotsOf, h]
  | succ m ih =>
    intro cur h
    have h' : (cur.drop S).length ≤ m * S := by
      rw [List.length_drop]; rw [Nat.succ_mul] at h; omega
    have := ih (cur.drop S) h'
    simp only [slotsOf, List.cons_append, List.cons.injEq, true_and]
    simpa [slotsOf] using this

theorem inv_init (c : Cfg) (hN : 0 < c.size) : Inv c ([] : List (Slot α)) [] := by
  refine ⟨?_, by simp, by simpa using hN⟩
  unfold pad
  simp only [List.nil_append, List.length_nil, Nat.sub_zero, List.map_replicate]
  show List.replicate (need c) [] = _
  generalize need c = m
  induction m with
  | zero => rfl
  | succ m ih => simp [slotsOf, List.replicate_succ, ← ih]

/-- One data element, no group completed. -/
theorem processItem_noemit (c : Cfg) (hS : 0 < c.slide) (ws : List (Slot α)) (cur : List α)
    (x : α) (t : Option Int) (inv : Inv c ws cur) (h : cur.length + 1 < c.size) :
    (processItem c ws x t).2 = none ∧ Inv c (processItem c ws x t).1 (cur ++ [x]) := by
  have hN : 0 < c.size := by omega
  have hneed := need_pos c hS hN
  have hlen : (pad c ws).length = need c := by
    have := congrArg List.length inv.items; simpa using this
  unfold processItem
  cases hp : pad c ws with
  | nil => rw [hp] at hlen; simp at hlen; omega
  | cons s0 rest =>
    have hit := inv.items
    rw [hp] at hit
    have hs0 : s0.items = cur := by
      cases hm : need c with
      | zero => omega
      | succ m => rw [hm] at hit; simp [slotsOf] at hit; exact hit.1
    have hok := pad_ok c ws inv.ok
    rw [hp] at hok
    have hc0 : s0.count = cur.length := by
      have := hok s0 (by simp); unfold SlotOk at this; rw [this, hs0]
    have hupd := updFirst_items c.slide hS x t (need c) cur (s0 :: rest) hit
    simp only [hc0]
    cases hu : updFirst (cur.length / c.slide + 1) x t (s0 :: rest) with
    | nil =>
      rw [hu] at hupd
      cases hm : need c with
      | zero => omega
      | succ m => rw [hm] at hupd; simp [slotsOf] at hupd
    | cons r rest' =>
      rw [hu] at hupd
      have hokU := updFirst_ok (cur.length / c.slide + 1) x t (s0 :: rest) hok
      rw [hu] at hokU
      have hr : r.items = cur ++ [x] := by
        cases hm : need c with
        | zero => omega
        | succ m => rw [hm] at hupd; simp [slotsOf] at hupd; exact hupd.1
      have hrc : r.count = cur.length + 1 := by
        have := hokU r (by simp); unfold SlotOk at this; rw [this, hr]; simp
      have hne : ¬ (r.count = c.size) := by omega
      simp only [hne, if_false, true_and]
      have hl : (r :: rest').length = need c := by
        have := congrArg List.length hupd; simpa using this
      refine ⟨?_, hokU, by simp; omega⟩
      rw [pad_of_length c _ (by omega)]
      exact hupd

/-- One data element completing the oldest group. -/
theorem processItem_emit (c : Cfg) (hS : 0 < c.slide) (hSN : c.slide ≤ c.size)
    (ws : List (Slot α)) (cur : List α)
    (x : α) (t : Option Int) (inv : Inv c ws cur) (h : cur.length + 1 = c.size) :
    (∃ ts, (processItem c ws x t).2 = some ⟨cur ++ [x], ts⟩) ∧
      Inv c (processItem c ws x t).1 ((cur ++ [x]).drop c.slide) := by
  have hN : 0 < c.size := by omega
  have hneed := need_pos c hS hN
  have hlen : (pad c ws).length = need c := by
    have := congrArg List.length inv.items; simpa using this
  unfold processItem
  cases hp : pad c ws with
  | nil => rw [hp] at hlen; simp at hlen; omega
  | cons s0 rest =>
    have hit := inv.items
    rw [hp] at hit
    have hs0 : s0.items = cur := by
      cases hm : need c with
      | zero => omega
      | succ m => rw [hm] at hit; simp [slotsOf] at hit; exact hit.1
    have hok := pad_ok c ws inv.ok
    rw [hp] at hok
    have hc0 : s0.count = cur.length := by
      have := hok s0 (by simp); unfold SlotOk at this; rw [this, hs0]
    have hupd := updFirst_items c.slide hS x t (need c) cur (s0 :: rest) hit
    simp only [hc0]
    cases hu : updFirst (cur.length / c.slide + 1) x t (s0 :: rest) with
    | nil =>
      rw [hu] at hupd
      cases hm : need c with
      | zero => omega
      | succ m => rw [hm] at hupd; simp [slotsOf] at hupd
    | cons r rest' =>
      rw [hu] at hupd
      have hokU := updFirst_ok (cur.length / c.slide + 1) x t (s0 :: rest) hok
      rw [hu] at hokU
      cases hm : need c with
      | zero => omega
      | succ m =>
        rw [hm] at hupd
        simp only [slotsOf, List.map_cons, List.cons.injEq] at hupd
        obtain ⟨hr, hrest⟩ := hupd
        have hrc : r.count = cur.length + 1 := by
          have := hokU r (by simp); unfold SlotOk at this; rw [this, hr]; simp
        have heq : r.count = c.size := by omega
        simp only [heq, if_true]
        refine ⟨⟨r.ts, by rw [hr]⟩, ?_, fun s hs => hokU s (by simp [hs]), ?_⟩
        · -- the remaining slots, padded by one empty slot
          have hl : rest'.length = m := by
            have := congrArg List.length hrest; simpa using this
          unfold pad
          have hnd : (c.size + c.slide - 1) / c.slide = m + 1 := hm
          rw [hnd, hl]
          have : m + 1 - m = 1 := by omega
          rw [this, hm]
          simp only [List.map_append, hrest, List.replicate_one, List.map_cons, List.map_nil]
          show _ ++ [[]] = _
          apply slotsOf_snoc
          have hge := need_mul_ge c hS
          rw [hm, Nat.succ_mul] at hge
          simp only [List.length_drop, List.length_append, List.length_cons, List.length_nil]
          omega
        · simp only [List.length_drop, List.length_append, List.length_cons, List.length_nil]
          omega

end Noir.CountWindow
