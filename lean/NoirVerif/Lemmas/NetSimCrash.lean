/-
  Lemmas/NetSimCrash.lean — the fail-stop extension of the network simulator (C20, message level).

  Plan: a state `s` of `Noir.NetSimCrash` is tied to a crash-free SHADOW execution `t` of
  `Noir.NetSim` (`Rel`): same process states everywhere, same channel contents for every replica
  that has not crashed (the queue of a crashed replica is dropped in `s`, kept in `t`; in `t` the
  crashed replicas and the replicas that failed a send/receive are simply never scheduled again —
  `NetSim` allows every schedule). So every invariant of `Lemmas/NetSim.lean` (`Inv`, `Inv2`)
  holds for the process states of `s` and for the queues of its live replicas.
-/
import NoirVerif.Model.NetSimCrash
import NoirVerif.Lemmas.NetSim
namespace Noir.NetSimCrash
open Noir Noir.NetSim

/-! ## A. facts about `NetSim` that Lemmas/NetSim.lean does not state -/

/-- a step of `(b, r)` changes no other process -/
theorem ns_step_proc_other (j : Job) (s : NetSim.State) (b r b' r' : Nat) (h : ¬ (b' = b ∧ r' = r)) :
    (NetSim.step j s b r).proc b' r' = s.proc b' r' := by
  have hc := step_case j s b r
  generalize NetSim.step j s b r = s' at hc
  cases hc with
  | idle _ => rfl
  | send sd rest _ _ _ _ => exact send_proc_other h
  | src e es _ _ _ _ _ => simp only [srcState, set2_other _ _ _ _ _ _ h]
  | recv m ms pb _ _ _ _ _ _ => simp only [recvState, set2_other _ _ _ _ _ _ h]

/-- a step of `(b, r)` touches only its own queue and the queue its next pending send goes to -/
theorem ns_step_chan_other (j : Job) (s : NetSim.State) (b r c i : Nat) (h1 : ¬ (c = b ∧ i = r))
    (h2 : ∀ sd rest, (s.proc b r).pending = sd :: rest → ¬ (c = sd.blk ∧ i = sd.rep)) :
    (NetSim.step j s b r).chan c i = s.chan c i := by
  have hc := step_case j s b r
  generalize NetSim.step j s b r = s' at hc
  cases hc with
  | idle _ => rfl
  | send sd rest _ _ hp _ => exact send_chan_other (h2 sd rest hp)
  | src e es _ _ _ _ _ => rfl
  | recv m ms pb _ _ _ _ _ _ => simp only [recvState, set2_other _ _ _ _ _ _ h1]

/-- `step` is local: it reads only the process, its queue and the target queue of its next send -/
theorem ns_step_congr {j : Job} {s t : NetSim.State} {b r : Nat} (h1 : s.proc b r = t.proc b r)
    (h2 : s.chan b r = t.chan b r)
    (h3 : ∀ sd rest, (s.proc b r).pending = sd :: rest → s.chan sd.blk sd.rep = t.chan sd.blk sd.rep) :
    (NetSim.step j s b r).proc b r = (NetSim.step j t b r).proc b r ∧
    (NetSim.step j s b r).chan b r = (NetSim.step j t b r).chan b r ∧
    (∀ sd rest, (s.proc b r).pending = sd :: rest →
      (NetSim.step j s b r).chan sd.blk sd.rep = (NetSim.step j t b r).chan sd.blk sd.rep) := by
  unfold NetSim.step
  by_cases hv : j.valid b r
  · simp only [hv, if_true]
    rw [← h1, ← h2]
    cases hp : (s.proc b r).pending with
    | cons sd rest =>
      simp only
      rw [← h3 sd rest hp]
      by_cases hl : (s.chan sd.blk sd.rep).length < j.cap
      · simp only [hl, if_true, set2_same]
        refine ⟨trivial, ?_, ?_⟩
        · simp only [set2]; split <;> simp_all
        · intro sd' rest' h; cases h; simp only [set2_same]
      · simp only [hl, if_false]
        exact ⟨h1, h2, fun sd' rest' h => by cases h; exact h3 sd rest hp⟩
    | nil =>
      simp only
      cases hd : done j b (s.proc b r) with
      | true =>
        simp only [if_true]
        exact ⟨h1, h2, fun _ _ h => by cases h⟩
      | false =>
        simp only [Bool.false_eq_true, if_false]
        cases hpr : j.prev b with
        | none =>
          simp only
          cases hs : (s.proc b r).script with
          | nil => exact ⟨h1, h2, fun _ _ h => by cases h⟩
          | cons e es => exact ⟨by simp only [set2_same], h2, fun _ _ h => by cases h⟩
        | some pb =>
          simp only
          cases hc : s.chan b r with
          | nil => exact ⟨h1, h2, fun _ _ h => by cases h⟩
          | cons m ms => exact ⟨by simp only [set2_same], by simp only [set2_same], fun _ _ h => by cases h⟩
  · simp only [hv, if_false]
    exact ⟨h1, h2, h3⟩

/-- a replica that pulled `Terminate` has got the `Terminate` of every producer: each producer has
    pulled `Terminate` itself and its `Terminate` towards this replica is no longer pending -/
theorem done_upstream {j : Job} {s : NetSim.State} (h : Inv j s) {c i pb : Nat} (hv : j.valid c i)
    (hp : j.prev c = some pb) (hd : done j c (s.proc c i) = true) :
    ∀ q, q < j.replicas pb →
      done j pb (s.proc pb q) = true ∧ tcount c i (s.proc pb q).pending = 0 := by
  intro q hq
  have hacc := h.termAcc c i pb hv hp
  have hmt : (s.proc c i).start.missingTerm = 0 := by simpa [done, hp] using hd
  rw [hmt] at hacc
  have h0 := sumTo_zero (f := fun q => owes j s pb q c i) (by omega) q hq
  simp only [owes] at h0
  split at h0
  · rename_i hdq; exact ⟨hdq, h0⟩
  · omega

/-- once `Terminate` is pulled the process only does its pending sends: `done`, the log and
    `published` never change again -/
theorem ns_step_done_stable {j : Job} {s : NetSim.State} (b r : Nat) {c i : Nat}
    (hd : done j c (s.proc c i) = true) :
    done j c ((NetSim.step j s b r).proc c i) = true ∧
    ((NetSim.step j s b r).proc c i).log = (s.proc c i).log ∧
    ((NetSim.step j s b r).proc c i).published = (s.proc c i).published := by
  by_cases heq : c = b ∧ i = r
  · obtain ⟨rfl, rfl⟩ := heq
    have hc := step_case j s c i
    generalize NetSim.step j s c i = s' at hc
    cases hc with
    | idle _ => exact ⟨hd, rfl, rfl⟩
    | send sd rest _ _ _ _ => rw [send_proc_self]; exact ⟨hd, rfl, rfl⟩
    | src e es _ _ _ hpr hs => simp [done, hpr, hs] at hd
    | recv m ms pb _ _ _ hpr hmt _ => simp [done, hpr, hmt] at hd
  · rw [ns_step_proc_other j s b r c i heq]; exact ⟨hd, rfl, rfl⟩

theorem ns_run_done_stable {j : Job} {s : NetSim.State} (l : List (Nat × Nat)) {c i : Nat}
    (hd : done j c (s.proc c i) = true) :
    done j c ((NetSim.run j s l).proc c i) = true ∧
    ((NetSim.run j s l).proc c i).log = (s.proc c i).log := by
  induction l generalizing s with
  | nil => exact ⟨hd, rfl⟩
  | cons p l ih =>
    rw [run_cons]
    obtain ⟨h1, h2, _⟩ := ns_step_done_stable (j := j) (s := s) p.1 p.2 hd
    obtain ⟨h3, h4⟩ := ih h1
    exact ⟨h3, by rw [h4, h2]⟩

/-- every reachable `NetSim` state can be completed to a FINAL state (run it fairly); the replicas
    that have already pulled `Terminate` keep their logs -/
theorem ns_completion {j : Job} (wf : j.WF) {t : NetSim.State} (ht : NetSim.Reachable j t) :
    ∃ tf, NetSim.Reachable j tf ∧ NetSim.final j tf ∧
      ∀ c i, done j c (t.proc c i) = true → (tf.proc c i).log = (t.proc c i).log := by
  refine ⟨NetSim.run j t (List.replicate (mu j t) (allPids j)).flatten, reachable_run ht _, ?_, ?_⟩
  · have hinv := inv_reachable wf ht
    rcases fair_rounds wf (List.replicate (mu j t) (allPids j)) (by
        intro ρ hρ
        rw [(List.mem_replicate.mp hρ).2]
        exact fun b r hv => mem_allPids hv) hinv with h | h
    · exact h
    · exact mu_zero_final wf (inv_run wf hinv _) (by simp only [List.length_replicate] at h; omega)
  · intro c i hd
    exact (ns_run_done_stable _ hd).2

/-! ## B. the crash model: case analysis of a step -/

theorem kill_proc (s : State) (b r : Nat) : (kill s b r).net.proc = s.net.proc := rfl

theorem kill_crashed_self (s : State) (b r : Nat) : (kill s b r).crashed b r = true := by
  simp [kill, set2]

theorem kill_crashed_other (s : State) (b r b' r' : Nat) (h : ¬ (b' = b ∧ r' = r)) :
    (kill s b r).crashed b' r' = s.crashed b' r' := by
  simp [kill, set2, h]

theorem kill_crashed_mono (s : State) (b r b' r' : Nat) (h : s.crashed b' r' = true) :
    (kill s b r).crashed b' r' = true := by
  by_cases heq : b' = b ∧ r' = r
  · obtain ⟨rfl, rfl⟩ := heq; exact kill_crashed_self s b' r'
  · rw [kill_crashed_other s b r b' r' heq]; exact h

theorem kill_chan_other (s : State) (b r b' r' : Nat) (h : ¬ (b' = b ∧ r' = r)) :
    (kill s b r).net.chan b' r' = s.net.chan b' r' := by
  simp [kill, set2, h]

theorem kill_chan_self (s : State) (b r : Nat) : (kill s b r).net.chan b r = [] := by
  simp [kill, set2]

/-- what one event of the unmutated model does -/
inductive CStep (j : Job) (s : State) : Ev → State → Prop where
  | idle (ev : Ev) : CStep j s ev s
  | crash (b r : Nat) : j.valid b r → s.crashed b r = false → finished j s b r = false →
      CStep j s (.crash b r) (kill s b r)
  | failSend (b r : Nat) (sd : Send) (rest : List Send) : j.valid b r → s.crashed b r = false →
      (s.net.proc b r).pending = sd :: rest → s.crashed sd.blk sd.rep = true →
      CStep j s (.run b r) (kill s b r)
  | failRecv (b r pb : Nat) : j.valid b r → s.crashed b r = false →
      (s.net.proc b r).pending = [] → done j b (s.net.proc b r) = false → j.prev b = some pb →
      s.net.chan b r = [] → disconnected j s pb = true → CStep j s (.run b r) (kill s b r)
  | net (b r : Nat) : j.valid b r → s.crashed b r = false →
      (∀ sd rest, (s.net.proc b r).pending = sd :: rest → s.crashed sd.blk sd.rep = false) →
      CStep j s (.run b r) { s with net := NetSim.step j s.net b r }

theorem cstep_case (j : Job) (s : State) (ev : Ev) : CStep j s ev (step false j s ev) := by
  cases ev with
  | crash b r =>
    by_cases hv : j.valid b r
    · cases hr : running j s b r with
      | true =>
        have : step false j s (.crash b r) = kill s b r := by simp [step, hv, hr]
        rw [this]
        simp only [running, Bool.and_eq_true, Bool.not_eq_true'] at hr
        exact .crash b r hv hr.1 hr.2
      | false =>
        have : step false j s (.crash b r) = s := by simp [step, hr]
        rw [this]; exact .idle _
    · have : step false j s (.crash b r) = s := by simp [step, hv]
      rw [this]; exact .idle _
  | run b r =>
    by_cases hv : j.valid b r
    · cases hc : s.crashed b r with
      | true =>
        have : step false j s (.run b r) = s := by simp [step, hc]
        rw [this]; exact .idle _
      | false =>
        cases hp : (s.net.proc b r).pending with
        | cons sd rest =>
          cases ht : s.crashed sd.blk sd.rep with
          | true =>
            have : step false j s (.run b r) = kill s b r := by simp [step, hv, hc, hp, ht]
            rw [this]; exact .failSend b r sd rest hv hc hp ht
          | false =>
            have : step false j s (.run b r) = { s with net := NetSim.step j s.net b r } := by
              simp [step, hv, hc, hp, ht]
            rw [this]
            exact .net b r hv hc (by intro sd' rest' h; rw [hp] at h; cases h; exact ht)
        | nil =>
          have hnet : ∀ sd rest, (s.net.proc b r).pending = sd :: rest → s.crashed sd.blk sd.rep = false := by
            intro sd rest h; rw [hp] at h; cases h
          cases hd : done j b (s.net.proc b r) with
          | true =>
            have : step false j s (.run b r) = s := by simp [step, hv, hc, hp, hd]
            rw [this]; exact .idle _
          | false =>
            cases hpr : j.prev b with
            | none =>
              have : step false j s (.run b r) = { s with net := NetSim.step j s.net b r } := by
                simp [step, hv, hc, hp, hd, hpr]
              rw [this]; exact .net b r hv hc hnet
            | some pb =>
              cases hch : s.net.chan b r with
              | cons m ms =>
                have : step false j s (.run b r) = { s with net := NetSim.step j s.net b r } := by
                  simp [step, hv, hc, hp, hd, hpr, hch]
                rw [this]; exact .net b r hv hc hnet
              | nil =>
                cases hdis : disconnected j s pb with
                | true =>
                  have : step false j s (.run b r) = kill s b r := by
                    simp [step, hv, hc, hp, hd, hpr, hch, hdis]
                  rw [this]; exact .failRecv b r pb hv hc hp hd hpr hch hdis
                | false =>
                  have : step false j s (.run b r) = s := by
                    simp [step, hv, hc, hp, hd, hpr, hch, hdis]
                  rw [this]; exact .idle _
    · have : step false j s (.run b r) = s := by simp [step, hv]
      rw [this]; exact .idle _

/-! ## C. the shadow execution -/

/-- `t` is a crash-free shadow of `s`: same processes, same queues for the live replicas -/
structure Rel (j : Job) (s : State) (t : NetSim.State) : Prop where
  proc : ∀ b r, s.net.proc b r = t.proc b r
  chan : ∀ b r, s.crashed b r = false → s.net.chan b r = t.chan b r

theorem rel_kill {j : Job} {s : State} {t : NetSim.State} (h : Rel j s t) (b r : Nat) :
    Rel j (kill s b r) t := by
  constructor
  · intro b' r'; exact h.proc b' r'
  · intro b' r' hc
    by_cases heq : b' = b ∧ r' = r
    · obtain ⟨rfl, rfl⟩ := heq; rw [kill_crashed_self] at hc; cases hc
    · rw [kill_crashed_other s b r b' r' heq] at hc
      rw [kill_chan_other s b r b' r' heq]; exact h.chan b' r' hc

theorem rel_net {j : Job} {s : State} {t : NetSim.State} (h : Rel j s t) {b r : Nat}
    (hc : s.crashed b r = false)
    (htgt : ∀ sd rest, (s.net.proc b r).pending = sd :: rest → s.crashed sd.blk sd.rep = false) :
    Rel j { s with net := NetSim.step j s.net b r } (NetSim.step j t b r) := by
  obtain ⟨c1, c2, c3⟩ := ns_step_congr (j := j) (h.proc b r) (h.chan b r hc)
    (fun sd rest hp => h.chan sd.blk sd.rep (htgt sd rest hp))
  constructor
  · intro b' r'
    by_cases heq : b' = b ∧ r' = r
    · obtain ⟨rfl, rfl⟩ := heq; exact c1
    · show (NetSim.step j s.net b r).proc b' r' = _
      rw [ns_step_proc_other j s.net b r b' r' heq, ns_step_proc_other j t b r b' r' heq]
      exact h.proc b' r'
  · intro c i hci
    show (NetSim.step j s.net b r).chan c i = _
    have hci' : s.crashed c i = false := hci
    by_cases heq : c = b ∧ i = r
    · obtain ⟨rfl, rfl⟩ := heq; exact c2
    · by_cases htg : ∃ sd rest, (s.net.proc b r).pending = sd :: rest ∧ c = sd.blk ∧ i = sd.rep
      · obtain ⟨sd, rest, hp, rfl, rfl⟩ := htg; exact c3 sd rest hp
      · rw [ns_step_chan_other j s.net b r c i heq (fun sd rest hp hh => htg ⟨sd, rest, hp, hh⟩),
          ns_step_chan_other j t b r c i heq (fun sd rest hp hh => htg ⟨sd, rest, by rw [h.proc b r]; exact hp, hh⟩)]
        exact h.chan c i hci'

/-- **every reachable state of the crash model has a reachable crash-free shadow** -/
theorem reachable_rel {j : Job} {s : State} (h : Reachable j s) :
    ∃ t, NetSim.Reachable j t ∧ Rel j s t := by
  induction h with
  | init => exact ⟨NetSim.init j, .init, ⟨fun _ _ => rfl, fun _ _ _ => rfl⟩⟩
  | @step s ev _ ih =>
    obtain ⟨t, ht, hrel⟩ := ih
    have hc := cstep_case j s ev
    generalize step false j s ev = s' at hc
    cases hc with
    | idle _ => exact ⟨t, ht, hrel⟩
    | crash b r _ _ _ => exact ⟨t, ht, rel_kill hrel b r⟩
    | failSend b r sd rest _ _ _ _ => exact ⟨t, ht, rel_kill hrel b r⟩
    | failRecv b r pb _ _ _ _ _ _ _ => exact ⟨t, ht, rel_kill hrel b r⟩
    | net b r _ hc htgt => exact ⟨NetSim.step j t b r, .step b r ht, rel_net hrel hc htgt⟩

/-- the queue of a crashed replica has been dropped, and only replicas of the job crash -/
structure CInv (j : Job) (s : State) : Prop where
  dropped : ∀ b r, s.crashed b r = true → s.net.chan b r = []
  crashedValid : ∀ b r, s.crashed b r = true → j.valid b r

theorem cinv_kill {j : Job} {s : State} (h : CInv j s) {b r : Nat} (hv : j.valid b r) :
    CInv j (kill s b r) := by
  constructor
  · intro b' r' hc
    by_cases heq : b' = b ∧ r' = r
    · obtain ⟨rfl, rfl⟩ := heq; exact kill_chan_self s b' r'
    · rw [kill_crashed_other s b r b' r' heq] at hc
      rw [kill_chan_other s b r b' r' heq]; exact h.dropped b' r' hc
  · intro b' r' hc
    by_cases heq : b' = b ∧ r' = r
    · obtain ⟨rfl, rfl⟩ := heq; exact hv
    · rw [kill_crashed_other s b r b' r' heq] at hc; exact h.crashedValid b' r' hc

theorem cinv_reachable {j : Job} {s : State} (h : Reachable j s) : CInv j s := by
  induction h with
  | init => constructor <;> (intro b r h; simp [init] at h)
  | @step s ev _ ih =>
    have hc := cstep_case j s ev
    generalize step false j s ev = s' at hc
    cases hc with
    | idle _ => exact ih
    | crash b r hv _ _ => exact cinv_kill ih hv
    | failSend b r sd rest hv _ _ _ => exact cinv_kill ih hv
    | failRecv b r pb hv _ _ _ _ _ _ => exact cinv_kill ih hv
    | net b r _ hc htgt =>
      constructor
      · intro c i hci
        have hci' : s.crashed c i = true := hci
        show (NetSim.step j s.net b r).chan c i = []
        rw [ns_step_chan_other j s.net b r c i
          (by intro ⟨h1, h2⟩; subst h1 h2; rw [hc] at hci'; cases hci')
          (by intro sd rest hp ⟨h1, h2⟩; subst h1 h2; rw [htgt sd rest hp] at hci'; cases hci')]
        exact ih.dropped c i hci'
      · intro c i hci; exact ih.crashedValid c i hci

theorem reachable_run {j : Job} {s : State} (h : Reachable j s) (evs : List Ev) :
    Reachable j (run false j s evs) := by
  induction evs generalizing s with
  | nil => exact h
  | cons ev evs ih => exact ih (.step ev h)

/-! ## D. `Terminate` certifies a complete upstream -/

/-- the `NetSim` invariants hold for the process states of a reachable crash-model state -/
theorem reachable_shadow {j : Job} (wf : j.WF) {s : State} (h : Reachable j s) :
    ∃ t, NetSim.Reachable j t ∧ Inv j t ∧ Inv2 j t ∧ Rel j s t := by
  obtain ⟨t, ht, hrel⟩ := reachable_rel h
  exact ⟨t, ht, inv_reachable wf ht, inv2_reachable wf ht, hrel⟩

theorem done_direct_up {j : Job} (wf : j.WF) {s : State} (h : Reachable j s) {c i pb : Nat}
    (hv : j.valid c i) (hp : j.prev c = some pb) (hd : done j c (s.net.proc c i) = true) :
    ∀ q, q < j.replicas pb →
      done j pb (s.net.proc pb q) = true ∧ tcount c i (s.net.proc pb q).pending = 0 := by
  obtain ⟨t, _, hinv, _, hrel⟩ := reachable_shadow wf h
  intro q hq
  rw [hrel.proc] at hd ⊢
  exact done_upstream hinv hv hp hd q hq

theorem uprep_valid {j : Job} (wf : j.WF) {a u c i : Nat} (hup : UpRep j a u c i) (hv : j.valid c i) :
    j.valid a u := by
  induction hup with
  | direct hp hq => exact ⟨by have := wf.topo _ _ hv.1 hp; have := hv.1; omega, hq⟩
  | trans _ hp hq ih =>
    exact ih ⟨by have := wf.topo _ _ hv.1 hp; have := hv.1; omega, hq⟩

theorem done_trans_up {j : Job} (wf : j.WF) {s : State} (h : Reachable j s) {a u c i : Nat}
    (hup : UpRep j a u c i) (hv : j.valid c i) (hd : done j c (s.net.proc c i) = true) :
    done j a (s.net.proc a u) = true := by
  induction hup with
  | direct hp hq => exact (done_direct_up wf h hv hp hd _ hq).1
  | trans _ hp hq ih =>
    exact ih ⟨by have := wf.topo _ _ hv.1 hp; have := hv.1; omega, hq⟩
      (done_direct_up wf h hv hp hd _ hq).1

/-- the input queue of a replica that pulled `Terminate` is empty -/
theorem done_chan_nil {j : Job} (wf : j.WF) {s : State} (h : Reachable j s) {c i : Nat}
    (hv : j.valid c i) (hd : done j c (s.net.proc c i) = true) : s.net.chan c i = [] := by
  cases hc : s.crashed c i with
  | true => exact (cinv_reachable h).dropped c i hc
  | false =>
    obtain ⟨t, _, hinv, _, hrel⟩ := reachable_shadow wf h
    rw [hrel.chan c i hc]
    rw [hrel.proc] at hd
    exact done_chan_empty hinv hv hd

/-- `published` = 1 iff `Terminate` was pulled -/
theorem published_iff_done {j : Job} (wf : j.WF) {s : State} (h : Reachable j s) {c i : Nat}
    (hv : j.valid c i) : (s.net.proc c i).published = if done j c (s.net.proc c i) then 1 else 0 := by
  obtain ⟨t, _, hinv, _, hrel⟩ := reachable_shadow wf h
  rw [hrel.proc]; exact hinv.pub c i hv

/-- a failing receive is never spurious: if the channel of a live replica that still waits for
    `Terminate`s is empty and disconnected, one of its producers has crashed -/
theorem failRecv_has_crashed_producer {j : Job} (wf : j.WF) {s : State} (h : Reachable j s)
    {b r pb : Nat} (hv : j.valid b r) (hc : s.crashed b r = false) (hp : j.prev b = some pb)
    (hd : done j b (s.net.proc b r) = false) (hch : s.net.chan b r = [])
    (hdis : disconnected j s pb = true) : anyCrashed j s pb = true := by
  apply Classical.byContradiction
  intro hno
  obtain ⟨t, _, hinv, _, hrel⟩ := reachable_shadow wf h
  have hacc := hinv.termAcc b r pb hv hp
  rw [← hrel.chan b r hc, hch] at hacc
  have hsum : sumTo (j.replicas pb) (fun q => owes j t pb q b r) = 0 := by
    apply sumTo_eq_zero
    intro q hq
    have hg : gone j s pb q = true := by
      simp only [disconnected, List.all_eq_true, List.mem_range] at hdis
      exact hdis q hq
    have hnc : s.crashed pb q = false := by
      cases hcq : s.crashed pb q with
      | false => rfl
      | true =>
        exfalso; apply hno
        simp only [anyCrashed, List.any_eq_true, List.mem_range]
        exact ⟨q, hq, hcq⟩
    simp only [gone, hnc, Bool.false_or, finished, Bool.and_eq_true, List.isEmpty_iff] at hg
    simp only [owes, ← hrel.proc, hg.2, hg.1, if_true, tcount, List.countP_nil]
  rw [hsum] at hacc
  rw [hrel.proc] at hd
  simp [done, hp, countTerm] at hd hacc
  exact hd hacc

/-! ## E. terminal states: nobody is left running or blocked -/

theorem finished_of_not_running {j : Job} {s : State} {b r : Nat}
    (h1 : (s.net.proc b r).pending = []) (h2 : done j b (s.net.proc b r) = true) :
    finished j s b r = true := by
  simp [finished, h1, h2]

/-- in a terminal state no live replica has a pending send -/
theorem terminal_no_pending {j : Job} (wf : j.WF) {s : State} (h : Reachable j s)
    (hterm : Terminal j s) :
    ∀ k b r, j.nblocks - b = k → j.valid b r → s.crashed b r = false →
      (s.net.proc b r).pending = [] := by
  obtain ⟨t, _, hinv, _, hrel⟩ := reachable_shadow wf h
  intro k
  induction k using Nat.strongRecOn with
  | _ k ih =>
    intro b r hk hv hc
    cases hp : (s.net.proc b r).pending with
    | nil => rfl
    | cons sd rest =>
      exfalso
      obtain ⟨t1, t2, t3⟩ := hinv.tgtOk b r sd (by rw [← hrel.proc, hp]; simp)
      have hlt := wf.topo _ _ t1 t3
      have hen := hterm b r
      simp only [enabled, hv, hc, hp, decide_true, Bool.not_false, Bool.and_self, Bool.true_and,
        Bool.or_eq_false_iff, decide_eq_false_iff_not] at hen
      obtain ⟨hct, hfull⟩ := hen
      have hvt : j.valid sd.blk sd.rep := ⟨t1, t2⟩
      have hpt := ih (j.nblocks - sd.blk) (by omega) sd.blk sd.rep rfl hvt hct
      have hent := hterm sd.blk sd.rep
      have hempty : s.net.chan sd.blk sd.rep = [] := by
        cases hdt : done j sd.blk (s.net.proc sd.blk sd.rep) with
        | true => exact done_chan_nil wf h hvt hdt
        | false =>
          simp only [enabled, hvt, hct, hpt, hdt, t3, decide_true, Bool.not_false, Bool.and_self,
            Bool.true_and, Bool.or_eq_false_iff, Bool.not_eq_false', List.isEmpty_iff] at hent
          exact hent.1
      rw [hempty] at hfull
      exact hfull wf.cap_pos

/-- **no hang**: in a terminal state every replica has finished or crashed -/
theorem terminal_resolved {j : Job} (wf : j.WF) {s : State} (h : Reachable j s)
    (hterm : Terminal j s) :
    ∀ b r, j.valid b r → s.crashed b r = true ∨ finished j s b r = true := by
  intro b
  induction b using Nat.strongRecOn with
  | _ b ih =>
    intro r hv
    cases hc : s.crashed b r with
    | true => exact .inl rfl
    | false =>
      right
      have hp := terminal_no_pending wf h hterm _ b r rfl hv hc
      cases hd : done j b (s.net.proc b r) with
      | true => exact finished_of_not_running hp hd
      | false =>
        exfalso
        have hen := hterm b r
        cases hpr : j.prev b with
        | none => simp [enabled, hv, hc, hp, hd, hpr] at hen
        | some pb =>
          have hlt := wf.topo b pb hv.1 hpr
          simp only [enabled, hv, hc, hp, hd, hpr, decide_true, Bool.not_false, Bool.and_self,
            Bool.true_and, Bool.or_eq_false_iff] at hen
          have hdis : disconnected j s pb = true := by
            simp only [disconnected, List.all_eq_true, List.mem_range]
            intro q hq
            rcases ih pb hlt q ⟨by have := hv.1; omega, hq⟩ with h1 | h1 <;> simp [gone, h1]
          rw [hdis] at hen
          exact absurd hen.2 (by decide)

/-- a replica downstream of a replica that crashed before pulling `Terminate` never pulls it -/
theorem downstream_not_done {j : Job} (wf : j.WF) {s : State} (h : Reachable j s) {a u c i : Nat}
    (hup : UpRep j a u c i) (hv : j.valid c i) (hd : done j a (s.net.proc a u) = false) :
    done j c (s.net.proc c i) = false := by
  cases hdc : done j c (s.net.proc c i) with
  | false => rfl
  | true => rw [done_trans_up wf h hup hv hdc] at hd; cases hd

theorem terminalB_iff {j : Job} {s : State} : terminalB j s = true ↔ Terminal j s := by
  simp only [terminalB, List.all_eq_true, List.mem_range, Bool.not_eq_true', Terminal]
  constructor
  · intro h b r
    by_cases hv : j.valid b r
    · exact h b hv.1 r hv.2
    · simp [enabled, hv]
  · intro h b _ r _; exact h b r

/-- a slot given to a replica that is not enabled changes nothing -/
theorem not_enabled_noop {j : Job} {s : State} {b r : Nat} (h : enabled j s b r = false) :
    step false j s (.run b r) = s := by
  have hc := cstep_case j s (.run b r)
  generalize step false j s (.run b r) = s' at hc
  cases hc with
  | idle _ => rfl
  | failSend _ _ sd rest hv hcr hp ht => simp [enabled, hv, hcr, hp, ht] at h
  | failRecv _ _ pb hv hcr hp hd hpr hch hdis => simp [enabled, hv, hcr, hp, hd, hpr, hch, hdis] at h
  | net _ _ hv hcr htgt =>
    have : ¬ NetSim.enabled j s.net b r := by
      intro ⟨_, hst⟩
      unfold status at hst
      cases hp : (s.net.proc b r).pending with
      | cons sd rest =>
        simp only [hp] at hst
        simp only [enabled, hv, hcr, hp, htgt sd rest hp, decide_true, Bool.not_false, Bool.and_self,
          Bool.true_and, Bool.false_or, decide_eq_false_iff_not] at h
        simp [h] at hst
      | nil =>
        simp only [hp] at hst
        cases hd : done j b (s.net.proc b r) with
        | true => simp [hd] at hst
        | false =>
          cases hpr : j.prev b with
          | none => simp [enabled, hv, hcr, hp, hd, hpr] at h
          | some pb =>
            simp only [enabled, hv, hcr, hp, hd, hpr, decide_true, Bool.not_false, Bool.and_self,
              Bool.true_and, Bool.or_eq_false_iff, Bool.not_eq_false'] at h
            simp [hd, hpr, h.1] at hst
    rw [step_idle this]

/-! ## F. refinement of the abstract fail-stop model `Noir.Crash` -/

/-- the replica an event is about -/
def evRep : Ev → Nat × Nat
  | .run b r => (b, r)
  | .crash b r => (b, r)

theorem step_invalid {j : Job} {s : State} (ev : Ev) (h : ¬ j.valid (evRep ev).1 (evRep ev).2) :
    step false j s ev = s := by
  cases ev with
  | run b r => simp only [evRep] at h; simp [step, h]
  | crash b r => simp only [evRep] at h; simp [step, h]

/-- an event changes nothing about the other replicas -/
theorem step_other {j : Job} {s : State} (ev : Ev) {b' r' : Nat}
    (h : ¬ (b' = (evRep ev).1 ∧ r' = (evRep ev).2)) :
    (step false j s ev).net.proc b' r' = s.net.proc b' r' ∧
    (step false j s ev).crashed b' r' = s.crashed b' r' := by
  have hc := cstep_case j s ev
  generalize step false j s ev = s' at hc
  cases hc with
  | idle _ => exact ⟨rfl, rfl⟩
  | crash b r _ _ _ => exact ⟨rfl, kill_crashed_other s b r b' r' h⟩
  | failSend b r sd rest _ _ _ _ => exact ⟨rfl, kill_crashed_other s b r b' r' h⟩
  | failRecv b r pb _ _ _ _ _ _ _ => exact ⟨rfl, kill_crashed_other s b r b' r' h⟩
  | net b r _ _ _ => exact ⟨ns_step_proc_other j s.net b r b' r' h, rfl⟩

/-- `done` and `crashed` are permanent -/
theorem step_mono {j : Job} {s : State} (ev : Ev) (c i : Nat) :
    (done j c (s.net.proc c i) = true → done j c ((step false j s ev).net.proc c i) = true) ∧
    (s.crashed c i = true → (step false j s ev).crashed c i = true) := by
  have hc := cstep_case j s ev
  generalize step false j s ev = s' at hc
  cases hc with
  | idle _ => exact ⟨id, id⟩
  | crash b r _ _ _ => exact ⟨id, kill_crashed_mono s b r c i⟩
  | failSend b r sd rest _ _ _ _ => exact ⟨id, kill_crashed_mono s b r c i⟩
  | failRecv b r pb _ _ _ _ _ _ _ => exact ⟨id, kill_crashed_mono s b r c i⟩
  | net b r _ _ _ => exact ⟨fun hd => (ns_step_done_stable b r hd).1, id⟩

/-- what an event does to the abstract status of its own replica -/
theorem step_self {j : Job} {s : State} (ev : Ev) :
    absSt j (step false j s ev) (evRep ev).1 (evRep ev).2 = absSt j s (evRep ev).1 (evRep ev).2 ∨
    (absSt j s (evRep ev).1 (evRep ev).2 = .running ∧
      absSt j (step false j s ev) (evRep ev).1 (evRep ev).2 = .crashed) ∨
    (absSt j s (evRep ev).1 (evRep ev).2 = .running ∧
      absSt j (step false j s ev) (evRep ev).1 (evRep ev).2 = .done) := by
  have kill_case : ∀ b r, j.valid b r → s.crashed b r = false →
      absSt j (kill s b r) b r = absSt j s b r ∨
      (absSt j s b r = .running ∧ absSt j (kill s b r) b r = .crashed) ∨
      (absSt j s b r = .running ∧ absSt j (kill s b r) b r = .done) := by
    intro b r hv hc
    cases hd : done j b (s.net.proc b r) with
    | true => left; simp [absSt, hv, kill_proc, hd]
    | false => right; left; simp [absSt, hv, kill_proc, hd, hc, kill_crashed_self]
  have hc := cstep_case j s ev
  generalize step false j s ev = s' at hc
  cases hc with
  | idle _ => exact .inl rfl
  | crash b r hv hcr _ => exact kill_case b r hv hcr
  | failSend b r sd rest hv hcr _ _ => exact kill_case b r hv hcr
  | failRecv b r pb hv hcr _ _ _ _ _ => exact kill_case b r hv hcr
  | net b r hv hcr _ =>
    simp only [evRep]
    cases hd : done j b (s.net.proc b r) with
    | true =>
      left
      have := (ns_step_done_stable (j := j) (s := s.net) b r hd).1
      simp [absSt, hv, hd, this]
    | false =>
      cases hd' : done j b ((NetSim.step j s.net b r).proc b r) with
      | false => left; simp [absSt, hv, hd, hd', hcr]
      | true => right; right; simp [absSt, hv, hd, hd', hcr]

theorem proj_pid {j : Job} {s : State} {b r : Nat} (hv : j.valid b r) :
    proj j s (pid j b r) = absSt j s b r := by
  have hr := valid_lt_maxRep j hv
  simp only [proj, pid_div j hr, pid_mod j hr]

theorem absSt_other {j : Job} {s : State} (ev : Ev) {b' r' : Nat}
    (h : ¬ (b' = (evRep ev).1 ∧ r' = (evRep ev).2)) :
    absSt j (step false j s ev) b' r' = absSt j s b' r' := by
  obtain ⟨e1, e2⟩ := step_other (j := j) (s := s) ev h
  simp only [absSt, e1, e2]

theorem proj_step_eq {j : Job} {s : State} (ev : Ev) (hv : j.valid (evRep ev).1 (evRep ev).2) :
    proj j (step false j s ev) = Crash.upd (proj j s) (pid j (evRep ev).1 (evRep ev).2)
      (absSt j (step false j s ev) (evRep ev).1 (evRep ev).2) := by
  funext p'
  by_cases hp : p' = pid j (evRep ev).1 (evRep ev).2
  · subst hp; rw [proj_pid hv]; simp [Crash.upd]
  · simp only [Crash.upd, if_neg hp]
    have hne : ¬ (p' / maxRep j = (evRep ev).1 ∧ p' % maxRep j = (evRep ev).2) := by
      intro ⟨h1, h2⟩; apply hp; rw [← pid_decode j p', h1, h2]
    exact absSt_other ev hne

theorem absNet_up {j : Job} {b r : Nat} (hv : j.valid b r) :
    (absNet j).up (pid j b r) = match j.prev b with
      | some pb => (List.range (j.replicas pb)).map (pid j pb)
      | none => [] := by
  have hr := valid_lt_maxRep j hv
  simp only [absNet, pid_div j hr, pid_mod j hr, hv, if_true]
  cases j.prev b <;> rfl

/-- **every event of the message-level model is a transition of the abstract fail-stop model
    or a stutter** (the interesting case: the step in which a replica pulls `Terminate` is the
    abstract `finish`, whose premise — every direct upstream replica is `done` — is a THEOREM
    here, `done_direct_up`). -/
theorem proj_step {j : Job} (wf : j.WF) {s : State} (h : Reachable j s) (ev : Ev) :
    proj j (step false j s ev) = proj j s ∨
    Crash.Step (absNet j) (proj j s) (proj j (step false j s ev)) := by
  by_cases hv : j.valid (evRep ev).1 (evRep ev).2
  · rw [proj_step_eq ev hv]
    have hp := pid_lt j hv
    rcases step_self (j := j) (s := s) ev with h1 | ⟨h1, h2⟩ | ⟨h1, h2⟩
    · left
      funext p'
      by_cases hpp : p' = pid j (evRep ev).1 (evRep ev).2
      · subst hpp; simp only [Crash.upd, if_true]; rw [h1, proj_pid hv]
      · simp only [Crash.upd, if_neg hpp]
    · right
      rw [h2]
      exact Crash.Step.crash _ _ hp (by rw [proj_pid hv]; exact h1)
    · right
      rw [h2]
      refine Crash.Step.finish _ _ hp (by rw [proj_pid hv]; exact h1) ?_
      intro q hq
      rw [absNet_up hv] at hq
      cases hpr : j.prev (evRep ev).1 with
      | none => simp [hpr] at hq
      | some pb =>
        simp only [hpr, List.mem_map, List.mem_range] at hq
        obtain ⟨q', hq', rfl⟩ := hq
        have hlt := wf.topo _ _ hv.1 hpr
        have hvq : j.valid pb q' := ⟨by have := hv.1; omega, hq'⟩
        have hd' : done j (evRep ev).1 ((step false j s ev).net.proc (evRep ev).1 (evRep ev).2) = true := by
          simp only [absSt, hv, if_true] at h2
          split at h2
          · assumption
          · split at h2 <;> cases h2
        have hdq := (done_direct_up wf (.step ev h) hv hpr hd' q' hq').1
        have hne : ¬ (pb = (evRep ev).1 ∧ q' = (evRep ev).2) := by intro ⟨e, _⟩; omega
        rw [(step_other ev hne).1] at hdq
        rw [proj_pid hvq]
        simp [absSt, hvq, hdq]
  · left; rw [step_invalid ev hv]

theorem proj_init {j : Job} (wf : j.WF) : proj j (init j) = Crash.init := by
  funext p
  simp only [proj, absSt, Crash.init]
  by_cases hv : j.valid (p / maxRep j) (p % maxRep j)
  · have hpub := (inv_init wf).pub _ _ hv
    have hd : done j (p / maxRep j) ((NetSim.init j).proc (p / maxRep j) (p % maxRep j)) = false := by
      cases hd : done j (p / maxRep j) ((NetSim.init j).proc (p / maxRep j) (p % maxRep j)) with
      | false => rfl
      | true => rw [hd] at hpub; simp [NetSim.init, initProc] at hpub
    simp [hv, hd, init]
  · simp [hv]

/-- the projection of a reachable state is reachable in the abstract model -/
theorem reach_abs {j : Job} (wf : j.WF) {s : State} (h : Reachable j s) :
    Crash.Reach (absNet j) (proj j s) := by
  induction h with
  | init => rw [proj_init wf]; exact .init
  | @step s ev hs ih =>
    rcases proj_step wf hs ev with h1 | h1
    · rw [h1]; exact ih
    · exact .step _ _ ih h1

theorem absNet_ok {j : Job} (wf : j.WF) : (absNet j).Ok := by
  constructor
  · intro p q hp hq
    simp only [absNet] at hq ⊢
    by_cases hv : j.valid (p / maxRep j) (p % maxRep j)
    · simp only [hv, if_true] at hq
      cases hpb : j.prev (p / maxRep j) with
      | none => simp [hpb] at hq
      | some pb =>
        simp only [hpb] at hq
        obtain ⟨i, hi, rfl⟩ := List.mem_map.mp hq
        have hlt := wf.topo _ pb hv.1 hpb
        exact pid_lt j ⟨by have := hv.1; omega, List.mem_range.mp hi⟩
    · simp only [hv, if_false] at hq; cases hq
  · intro p q hq
    simp only [absNet] at hq ⊢
    by_cases hv : j.valid (p / maxRep j) (p % maxRep j)
    · simp only [hv, if_true] at hq
      cases hpb : j.prev (p / maxRep j) with
      | none => simp [hpb] at hq
      | some pb =>
        simp only [hpb] at hq
        obtain ⟨i, hi, rfl⟩ := List.mem_map.mp hq
        have hlt := wf.topo _ pb hv.1 hpb
        have hpbv : pb < j.nblocks := by have := hv.1; omega
        rw [pid_div j (valid_lt_maxRep j ⟨hpbv, List.mem_range.mp hi⟩)]
        exact hlt
    · simp only [hv, if_false] at hq; cases hq

/-! ## G. what a published result is worth -/

/-- every reachable state of the crash model can be COMPLETED without crashes: there is a final
    state of a crash-free execution of the same job in which every replica that has pulled
    `Terminate` in `s` has exactly the log it has in `s` -/
theorem completion {j : Job} (wf : j.WF) {s : State} (h : Reachable j s) :
    ∃ tf, NetSim.Reachable j tf ∧ NetSim.final j tf ∧
      ∀ c i, done j c (s.net.proc c i) = true → (tf.proc c i).log = (s.net.proc c i).log := by
  obtain ⟨t, ht, hrel⟩ := reachable_rel h
  obtain ⟨tf, h1, h2, h3⟩ := ns_completion wf ht
  refine ⟨tf, h1, h2, ?_⟩
  intro c i hd
  rw [hrel.proc] at hd ⊢
  exact h3 c i hd

theorem published_done {j : Job} (wf : j.WF) {s : State} (h : Reachable j s) {c i : Nat}
    (hv : j.valid c i) (hpub : 1 ≤ (s.net.proc c i).published) :
    done j c (s.net.proc c i) = true := by
  have := published_iff_done wf h hv
  cases hd : done j c (s.net.proc c i) with
  | true => rfl
  | false => rw [hd] at this; simp at this; omega

/-! ## H. `enabled` is exact; without crash events the model IS `NetSim` -/

/-- a slot given to an enabled replica changes the state -/
theorem enabled_changes {j : Job} {s : State} {b r : Nat} (h : enabled j s b r = true) :
    step false j s (.run b r) ≠ s := by
  simp only [enabled, Bool.and_eq_true, decide_eq_true_eq, Bool.not_eq_true'] at h
  obtain ⟨⟨hv, hc⟩, h⟩ := h
  have killed : step false j s (.run b r) = kill s b r → step false j s (.run b r) ≠ s := by
    intro e heq
    have := congrArg (fun x => x.crashed b r) (e.symm.trans heq)
    simp [kill_crashed_self, hc] at this
  cases hp : (s.net.proc b r).pending with
  | cons sd rest =>
    simp only [hp, Bool.or_eq_true, decide_eq_true_eq] at h
    cases ht : s.crashed sd.blk sd.rep with
    | true => exact killed (by simp [step, hv, hc, hp, ht])
    | false =>
      have hl : (s.net.chan sd.blk sd.rep).length < j.cap := by
        rcases h with h | h
        · rw [ht] at h; cases h
        · exact h
      have e : step false j s (.run b r) = { s with net := NetSim.step j s.net b r } := by
        simp [step, hv, hc, hp, ht]
      have e2 : ((NetSim.step j s.net b r).proc b r).pending = rest := by
        simp [NetSim.step, hv, hp, hl, set2]
      intro heq
      have := congrArg (fun x => (x.net.proc b r).pending.length) (e.symm.trans heq)
      simp [e2, hp] at this
  | nil =>
    simp only [hp, Bool.and_eq_true, Bool.not_eq_true'] at h
    obtain ⟨hd, h⟩ := h
    cases hpr : j.prev b with
    | none =>
      have e : step false j s (.run b r) = { s with net := NetSim.step j s.net b r } := by
        simp [step, hv, hc, hp, hd, hpr]
      cases hs : (s.net.proc b r).script with
      | nil => simp [done, hpr, hs] at hd
      | cons x xs =>
        have e2 : ((NetSim.step j s.net b r).proc b r).script = xs := by
          simp [NetSim.step, hv, hp, hd, hpr, hs, set2, emit]
        intro heq
        have := congrArg (fun x => (x.net.proc b r).script.length) (e.symm.trans heq)
        simp [e2, hs] at this
    | some pb =>
      simp only [hpr, Bool.or_eq_true, Bool.not_eq_true', List.isEmpty_eq_false_iff] at h
      cases hch : s.net.chan b r with
      | cons m ms =>
        have e : step false j s (.run b r) = { s with net := NetSim.step j s.net b r } := by
          simp [step, hv, hc, hp, hd, hpr, hch]
        have e2 : (NetSim.step j s.net b r).chan b r = ms := by
          simp [NetSim.step, hv, hp, hd, hpr, hch, set2]
        intro heq
        have := congrArg (fun x => (x.net.chan b r).length) (e.symm.trans heq)
        simp [e2, hch] at this
      | nil =>
        have hdis : disconnected j s pb = true := by
          rcases h with h | h
          · exact absurd hch h
          · exact h
        exact killed (by simp [step, hv, hc, hp, hd, hpr, hch, hdis])

/-- `Terminal` ⇔ no scheduler slot changes the state -/
theorem terminal_iff_noop {j : Job} {s : State} :
    Terminal j s ↔ ∀ b r, step false j s (.run b r) = s := by
  constructor
  · intro h b r; exact not_enabled_noop (h b r)
  · intro h b r
    cases he : enabled j s b r with
    | false => rfl
    | true => exact absurd (h b r) (enabled_changes he)

/-- a `NetSim`-runnable live replica is enabled here too -/
theorem enabled_of_ns_enabled {j : Job} {s : State} {b r : Nat} (hc : s.crashed b r = false)
    (h : NetSim.enabled j s.net b r) : enabled j s b r = true := by
  obtain ⟨hv, hst⟩ := h
  unfold status at hst
  cases hp : (s.net.proc b r).pending with
  | cons sd rest =>
    simp only [hp] at hst
    split at hst
    · rename_i hl; simp [enabled, hv, hc, hp, hl]
    · cases hst
  | nil =>
    simp only [hp] at hst
    cases hd : done j b (s.net.proc b r) with
    | true => simp [hd] at hst
    | false =>
      cases hpr : j.prev b with
      | none => simp [enabled, hv, hc, hp, hd, hpr]
      | some pb =>
        simp only [hd, hpr, Bool.false_eq_true, if_false] at hst
        split at hst
        · cases hst
        · rename_i hne; simp [enabled, hv, hc, hp, hd, hpr, hne]

/-- as long as nobody has crashed a scheduler slot is exactly a `NetSim` step (in particular no
    receive or send fails) -/
theorem no_crash_step {j : Job} (wf : j.WF) {s : State} (h : Reachable j s)
    (hnc : ∀ b r, s.crashed b r = false) (b r : Nat) :
    step false j s (.run b r) = { s with net := NetSim.step j s.net b r } := by
  cases he : enabled j s b r with
  | false =>
    rw [not_enabled_noop he]
    have : ¬ NetSim.enabled j s.net b r := by
      intro hen; rw [enabled_of_ns_enabled (hnc b r) hen] at he; cases he
    rw [step_idle this]
  | true =>
    have hne := enabled_changes he
    have hc := cstep_case j s (.run b r)
    generalize step false j s (.run b r) = s' at hc hne
    cases hc with
    | idle _ => exact absurd rfl hne
    | failSend _ _ sd rest _ _ _ ht => rw [hnc] at ht; cases ht
    | failRecv _ _ pb hv hcr _ hd hpr hch hdis =>
      have := failRecv_has_crashed_producer wf h hv hcr hpr hd hch hdis
      simp only [anyCrashed, List.any_eq_true, List.mem_range] at this
      obtain ⟨q, _, hq⟩ := this
      rw [hnc] at hq; cases hq
    | net _ _ _ _ _ => rfl

/-- a run without crash events is a run of `NetSim`: nobody ever crashes -/
theorem no_crash_run {j : Job} (wf : j.WF) {s : State} (h : Reachable j s)
    (hnc : ∀ b r, s.crashed b r = false) (sched : List (Nat × Nat)) :
    (run false j s (sched.map fun p => Ev.run p.1 p.2)).net = NetSim.run j s.net sched ∧
    ∀ b r, (run false j s (sched.map fun p => Ev.run p.1 p.2)).crashed b r = false := by
  induction sched generalizing s with
  | nil => exact ⟨rfl, hnc⟩
  | cons p sched ih =>
    have e := no_crash_step wf h hnc p.1 p.2
    have hr : Reachable j (step false j s (.run p.1 p.2)) := .step _ h
    have := ih hr (by rw [e]; exact hnc)
    simp only [List.map_cons, run, List.foldl_cons] at this ⊢
    rw [e] at this ⊢
    exact this

end Noir.NetSimCrash
