/-
  Lemmas/KeyedJoin.lean — `JoinKeyedOuter` is `JoinLocalHash` on `(K, V)` items with the key stripped from
  the joined values (step-by-step simulation); `JoinKeyedInner` by its own invariant.
-/
import NoirVerif.Model.KeyedJoin
import NoirVerif.Lemmas.HashJoin
namespace Noir.Join.KeyedJoin
open Noir.Join.HashJoin (Side State lookup remL remR)

variable {κ α β : Type} [DecidableEq κ]

/-- drop the key from the joined values: `(k, (Some((k,v1)), Some((k,v2))))` ↦ `(k, (Some(v1), Some(v2)))` -/
def strip (o : Out κ (κ × α) (κ × β)) : Out κ α β := (o.1, o.2.1.map Prod.snd, o.2.2.map Prod.snd)

theorem outerStepBin_eq (v : Variant) (s : State κ (κ × α) (κ × β)) (b : Bin (κ × α) (κ × β)) :
    outerStepBin v s b =
      ((HashJoin.stepBin v Prod.fst Prod.fst s b).1, (HashJoin.stepBin v Prod.fst Prod.fst s b).2.map strip) := by
  cases b with
  | left a =>
    obtain ⟨key, v1⟩ := a
    cases hm : lookup Prod.fst s.right.data key <;>
      cases hlo : v.leftOuter <;> cases he : s.right.ended <;>
      simp [outerStepBin, HashJoin.stepBin, HashJoin.addItem, hm, strip, hlo, he]
  | right a =>
    obtain ⟨key, v2⟩ := a
    cases hm : lookup Prod.fst s.left.data key <;>
      cases hro : v.rightOuter <;> cases he : s.left.ended <;>
      simp [outerStepBin, HashJoin.stepBin, HashJoin.addItem, hm, strip, hro, he]
  | leftEnd =>
    cases hro : v.rightOuter <;>
      simp [outerStepBin, HashJoin.stepBin, HashJoin.sideEnded, strip, hro]
  | rightEnd =>
    cases hlo : v.leftOuter <;>
      simp [outerStepBin, HashJoin.stepBin, HashJoin.sideEnded, strip, hlo]

theorem outerFeed_eq (v : Variant) (tr : List (Bin (κ × α) (κ × β))) :
    ∀ s : State κ (κ × α) (κ × β),
      outerFeed v s tr = (HashJoin.feed v Prod.fst Prod.fst s tr).map strip := by
  induction tr with
  | nil => intro s; rfl
  | cons b tr ih =>
    intro s
    simp only [outerFeed, HashJoin.feed, outerStepBin_eq, ih, List.map_append]

/-! ### `JoinKeyedInner` -/

/-- invariant of `JoinKeyedInner` after having seen `Ls`, `Rs` with end flags `le`, `re`: a side's map
    holds everything seen on that side as long as the *other* side can still produce partners; once
    both sides ended both maps are empty. (Items arriving on a side after the other side ended are
    stored but never read: the invariant says nothing about them.) -/
structure InnerInv (s : InnerState κ α β) (le re : Bool) (Ls : List (κ × α)) (Rs : List (κ × β)) : Prop where
  lend : s.leftEnded = le
  rend : s.rightEnded = re
  ldata : re = false → s.left = Ls
  rdata : le = false → s.right = Rs
  done : le = true → re = true → s.left = [] ∧ s.right = []

theorem innerInv_init : InnerInv (InnerState.init : InnerState κ α β) false false [] [] :=
  ⟨rfl, rfl, fun _ => rfl, fun _ => rfl, (fun h => by cases h)⟩

theorem relJoinInner_snoc_left (L : List (κ × α)) (l : κ × α) (R : List (κ × β)) :
    relJoinInner (L ++ [l]) R
      = relJoinInner L R ++ (R.filter fun r => decide (r.1 = l.1)).map fun r => (l.1, l.2, r.2) := by
  simp [relJoinInner, List.flatMap_append]

theorem relJoinInner_snoc_right (L : List (κ × α)) (R : List (κ × β)) (r : κ × β) :
    (relJoinInner L (R ++ [r])).Perm
      (relJoinInner L R ++ (L.filter fun l => decide (l.1 = r.1)).map fun l => (r.1, l.2, r.2)) := by
  classical
  induction L with
  | nil => simp [relJoinInner]
  | cons l L ih =>
    have hc : ∀ R' : List (κ × β), relJoinInner (l :: L) R'
        = ((R'.filter fun r => decide (r.1 = l.1)).map fun r => (l.1, l.2, r.2)) ++ relJoinInner L R' := by
      intro R'; simp [relJoinInner]
    rw [hc, hc]
    rw [List.perm_iff_count] at ih ⊢
    intro x
    have := ih x
    by_cases h : l.1 = r.1
    · have h' : r.1 = l.1 := h.symm
      simp [List.filter_append, h, List.count_append, List.count_cons] at this ⊢
      omega
    · have h' : ¬ r.1 = l.1 := fun e => h e.symm
      simp [List.filter_append, h, h', List.count_append] at this ⊢
      omega

theorem inner_feed_interleaving :
    ∀ (tr : List (Bin (κ × α) (κ × β))) (s : InnerState κ α β) (le re : Bool)
      (Ls Lr : List (κ × α)) (Rs Rr : List (κ × β)),
      InnerInv s le re Ls Rs → (le = true → Lr = []) → (re = true → Rr = []) →
      Interleave (remL le Lr) (remR re Rr) tr →
      (relJoinInner Ls Rs ++ innerFeed s tr).Perm (relJoinInner (Ls ++ Lr) (Rs ++ Rr))
        ∧ InnerInv (innerStateAfter s tr) true true (Ls ++ Lr) (Rs ++ Rr) := by
  intro tr
  induction tr with
  | nil =>
    intro s le re Ls Lr Rs Rr inv hl hr h
    obtain ⟨h1, h2⟩ := h.nil_inv
    cases le <;> cases re <;> simp [remL, remR] at h1 h2
    have := hl rfl; have := hr rfl; subst_vars
    simpa [innerFeed, innerStateAfter] using inv
  | cons x tr ih =>
    intro s le re Ls Lr Rs Rr inv hl hr h
    rcases h.cons_inv with ⟨xs', hx, h'⟩ | ⟨ys', hy, h'⟩
    · cases le with
      | true => simp [remL] at hx
      | false =>
        cases Lr with
        | nil =>
          simp [remL] at hx
          obtain ⟨rfl, rfl⟩ := hx
          have hrem : (remL true ([] : List (κ × α)) : List (Bin (κ × α) (κ × β))) = [] := rfl
          rw [← hrem] at h'
          have inv' : InnerInv (innerStepBin s .leftEnd).1 true re Ls Rs := by
            refine ⟨rfl, inv.rend, ?_, (fun h => by cases h), ?_⟩
            · intro hre; simp [innerStepBin, inv.rend, hre, inv.ldata hre]
            · intro _ hre; simp [innerStepBin, inv.rend, hre]
          obtain ⟨ih1, ih2⟩ := ih _ true re Ls [] Rs Rr inv' (fun _ => rfl) hr h'
          simp only [innerFeed, innerStateAfter]
          exact ⟨by simpa [innerStepBin] using ih1, ih2⟩
        | cons a Lr =>
          simp [remL] at hx
          obtain ⟨rfl, rfl⟩ := hx
          have hrem : (List.map Bin.left Lr ++ [Bin.leftEnd] : List (Bin (κ × α) (κ × β))) = remL false Lr := rfl
          rw [hrem] at h'
          obtain ⟨key, v1⟩ := a
          have inv' : InnerInv (innerStepBin s (.left (key, v1))).1 false re (Ls ++ [(key, v1)]) Rs := by
            refine ⟨inv.lend, inv.rend, ?_, ?_, (fun h => by cases h)⟩
            · intro hre; simp [innerStepBin, inv.ldata hre]
            · intro _; simp [innerStepBin, inv.rdata rfl]
          obtain ⟨ih1, ih2⟩ := ih _ false re (Ls ++ [(key, v1)]) Lr Rs Rr inv' (fun h => by cases h) hr h'
          simp only [innerFeed, innerStateAfter]
          constructor
          · have hout : (innerStepBin s (.left (key, v1))).2
                = (Rs.filter fun r => decide (r.1 = key)).map fun r => (key, v1, r.2) := by
              simp [innerStepBin, lookup, inv.rdata rfl]
            rw [hout, ← List.append_assoc, ← relJoinInner_snoc_left Ls (key, v1) Rs]
            simpa [List.append_assoc] using ih1
          · simpa [List.append_assoc] using ih2
    · cases re with
      | true => simp [remR] at hy
      | false =>
        cases Rr with
        | nil =>
          simp [remR] at hy
          obtain ⟨rfl, rfl⟩ := hy
          have hrem : (remR true ([] : List (κ × β)) : List (Bin (κ × α) (κ × β))) = [] := rfl
          rw [← hrem] at h'
          have inv' : InnerInv (innerStepBin s .rightEnd).1 le true Ls Rs := by
            refine ⟨inv.lend, rfl, (fun h => by cases h), ?_, ?_⟩
            · intro hle; simp [innerStepBin, inv.lend, hle, inv.rdata hle]
            · intro hle _; simp [innerStepBin, inv.lend, hle]
          obtain ⟨ih1, ih2⟩ := ih _ le true Ls Lr Rs [] inv' hl (fun _ => rfl) h'
          simp only [innerFeed, innerStateAfter]
          exact ⟨by simpa [innerStepBin] using ih1, ih2⟩
        | cons b Rr =>
          simp [remR] at hy
          obtain ⟨rfl, rfl⟩ := hy
          have hrem : (List.map Bin.right Rr ++ [Bin.rightEnd] : List (Bin (κ × α) (κ × β))) = remR false Rr := rfl
          rw [hrem] at h'
          obtain ⟨key, v2⟩ := b
          have inv' : InnerInv (innerStepBin s (.right (key, v2))).1 le false Ls (Rs ++ [(key, v2)]) := by
            refine ⟨inv.lend, inv.rend, ?_, ?_, (fun _ h => by cases h)⟩
            · intro _; simp [innerStepBin, inv.ldata rfl]
            · intro hle; simp [innerStepBin, inv.rdata hle]
          obtain ⟨ih1, ih2⟩ := ih _ le false Ls Lr (Rs ++ [(key, v2)]) Rr inv' hl (fun h => by cases h) h'
          simp only [innerFeed, innerStateAfter]
          constructor
          · have hout : (innerStepBin s (.right (key, v2))).2
                = (Ls.filter fun l => decide (l.1 = key)).map fun l => (key, l.2, v2) := by
              simp [innerStepBin, lookup, inv.ldata rfl]
            rw [hout]
            have hp := relJoinInner_snoc_right Ls Rs (key, v2)
            have : (relJoinInner Ls Rs ++ ((Ls.filter fun l => decide (l.1 = key)).map (fun l => (key, l.2, v2)) ++
                innerFeed (innerStepBin s (.right (key, v2))).1 tr)).Perm
                (relJoinInner Ls (Rs ++ [(key, v2)]) ++ innerFeed (innerStepBin s (.right (key, v2))).1 tr) := by
              rw [← List.append_assoc]
              exact (hp.symm).append_right _
            refine this.trans ?_
            simpa [List.append_assoc] using ih1
          · simpa [List.append_assoc] using ih2

end Noir.Join.KeyedJoin
