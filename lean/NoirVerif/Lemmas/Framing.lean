/-
  Lemmas/Framing.lean — little-endian encoding, header and frame round trips.
-/
import NoirVerif.Model.Framing
namespace Noir.Framing

theorem leBytes_length : ∀ (k n : Nat), (leBytes k n).length = k := by
  intro k
  induction k with
  | zero => intro n; rfl
  | succ k ih => intro n; simp [leBytes, ih]

theorem leVal_leBytes : ∀ (k n : Nat), n < 256 ^ k → leVal (leBytes k n) = n := by
  intro k
  induction k with
  | zero => intro n h; simp at h; subst h; rfl
  | succ k ih =>
    intro n h
    have hdiv : n / 256 < 256 ^ k := by
      apply Nat.div_lt_of_lt_mul
      rw [Nat.pow_succ] at h; omega
    simp only [leBytes, leVal, ih _ hdiv, UInt8.toNat_ofNat']
    omega

theorem encodeHeader_length (h : Header) : (encodeHeader h).length = 20 := by
  simp [encodeHeader, leBytes_length]

theorem decode_encode (h : Header) (hv : h.Valid) : decodeHeader (encodeHeader h) = h := by
  obtain ⟨h1, h2, h3⟩ := hv
  have l4 := leBytes_length 4 h.size
  have l8 := leBytes_length 8 h.replica
  have l8' := leBytes_length 8 h.senderBlock
  unfold decodeHeader encodeHeader
  have t1 : (leBytes 4 h.size ++ leBytes 8 h.replica ++ leBytes 8 h.senderBlock).take 4
      = leBytes 4 h.size := by
    rw [List.append_assoc, List.take_append_of_le_length (by omega), List.take_of_length_le (by omega)]
  have d1 : (leBytes 4 h.size ++ leBytes 8 h.replica ++ leBytes 8 h.senderBlock).drop 4
      = leBytes 8 h.replica ++ leBytes 8 h.senderBlock := by
    rw [List.append_assoc, List.drop_append_of_le_length (by omega), List.drop_of_length_le (by omega)]
    rfl
  have d2 : (leBytes 4 h.size ++ leBytes 8 h.replica ++ leBytes 8 h.senderBlock).drop 12
      = leBytes 8 h.senderBlock := by
    have : 12 = 4 + 8 := rfl
    rw [this, ← List.drop_drop, d1, List.drop_append_of_le_length (by omega),
      List.drop_of_length_le (by omega)]
    rfl
  rw [t1, d1, d2, List.take_append_of_le_length (by omega), List.take_of_length_le (by omega),
    List.take_of_length_le (by omega)]
  rw [leVal_leBytes 4 _ (by simpa using h1), leVal_leBytes 8 _ (by simpa using h2),
    leVal_leBytes 8 _ (by simpa using h3)]

theorem frame_length (f : Frame) : (frame f).length = 20 + f.payload.length := by
  simp [frame, encodeHeader_length]

theorem header_size_eq : Noir.Consts.HEADER_SIZE = 20 := by decide

/-- reading one frame off the front of a byte stream -/
theorem deframe_frame_append (f : Frame) (hv : f.Valid) (rest : List UInt8) :
    deframe (frame f ++ rest) = (f :: (deframe rest).1, (deframe rest).2) := by
  have hl := encodeHeader_length f.header
  rw [deframe]
  have hlen : ¬ ((frame f ++ rest).length < Noir.Consts.HEADER_SIZE ∨ Noir.Consts.HEADER_SIZE = 0) := by
    rw [header_size_eq, List.length_append, frame_length]; omega
  have htake : (frame f ++ rest).take Noir.Consts.HEADER_SIZE = encodeHeader f.header := by
    rw [header_size_eq, frame, List.append_assoc, List.take_append_of_le_length (by omega),
      List.take_of_length_le (by omega)]
  have hdrop : (frame f ++ rest).drop Noir.Consts.HEADER_SIZE = f.payload ++ rest := by
    rw [header_size_eq, frame, List.append_assoc, List.drop_append_of_le_length (by omega),
      List.drop_of_length_le (by omega)]
    rfl
  simp only [hlen, dite_false, htake, hdrop, decode_encode f.header hv]
  have hsz : ¬ ((f.payload ++ rest).length < f.header.size) := by
    simp [Frame.header]
  simp only [hsz, if_false]
  have h1 : (f.payload ++ rest).take f.header.size = f.payload := by
    simp [Frame.header]
  have h2 : (f.payload ++ rest).drop f.header.size = rest := by
    simp [Frame.header]
  rw [h1, h2]
  rfl

theorem deframe_short (bs : List UInt8) (h : bs.length < 20) : deframe bs = ([], bs) := by
  rw [deframe]; simp [header_size_eq, h]

/-- a strict prefix of one frame contains no complete frame -/
theorem deframe_incomplete (f : Frame) (hv : f.Valid) (k : Nat) (hk : k < (frame f).length) :
    deframe ((frame f).take k) = ([], (frame f).take k) := by
  rw [frame_length] at hk
  by_cases h20 : k < 20
  · apply deframe_short
    rw [List.length_take]; omega
  · have hl := encodeHeader_length f.header
    have hsplit : (frame f).take k = encodeHeader f.header ++ f.payload.take (k - 20) := by
      rw [frame, List.take_append, List.take_of_length_le (by omega), hl]
    rw [hsplit, deframe]
    have hlen : ¬ ((encodeHeader f.header ++ f.payload.take (k - 20)).length < Noir.Consts.HEADER_SIZE
        ∨ Noir.Consts.HEADER_SIZE = 0) := by
      rw [header_size_eq, List.length_append, hl]; omega
    have htake : (encodeHeader f.header ++ f.payload.take (k - 20)).take Noir.Consts.HEADER_SIZE
        = encodeHeader f.header := by
      rw [header_size_eq, List.take_append_of_le_length (by omega), List.take_of_length_le (by omega)]
    have hdrop : (encodeHeader f.header ++ f.payload.take (k - 20)).drop Noir.Consts.HEADER_SIZE
        = f.payload.take (k - 20) := by
      rw [header_size_eq, List.drop_append_of_le_length (by omega), List.drop_of_length_le (by omega)]
      rfl
    simp only [hlen, dite_false, htake, hdrop, decode_encode f.header hv]
    have : (f.payload.take (k - 20)).length < f.header.size := by
      simp only [Frame.header, List.length_take]; omega
    rw [if_pos this]

/-- what has been decoded after the first `k` bytes of a framed stream arrived -/
theorem deframe_take : ∀ (fs : List Frame), (∀ f ∈ fs, f.Valid) → ∀ (k : Nat),
    ∃ j, j ≤ fs.length ∧
      (deframe ((fs.flatMap frame).take k)).1 = fs.take j ∧
      (fs.take j).flatMap frame ++ (deframe ((fs.flatMap frame).take k)).2 = (fs.flatMap frame).take k ∧
      (∀ hj : j < fs.length, (deframe ((fs.flatMap frame).take k)).2.length < (frame fs[j]).length) := by
  intro fs
  induction fs with
  | nil =>
    intro _ k
    refine ⟨0, by simp, ?_, ?_, ?_⟩ <;> simp [deframe_short]
  | cons f fs ih =>
    intro hv k
    have hf := hv f (by simp)
    have hvs : ∀ g ∈ fs, g.Valid := fun g hg => hv g (by simp [hg])
    by_cases hk : k < (frame f).length
    · have htk : ((f :: fs).flatMap frame).take k = (frame f).take k := by
        rw [List.flatMap_cons, List.take_append_of_le_length (by omega)]
      rw [htk, deframe_incomplete f hf k hk]
      refine ⟨0, by simp, by simp, by simp, ?_⟩
      intro _
      simp only [List.getElem_cons_zero, List.length_take]
      omega
    · have htk : ((f :: fs).flatMap frame).take k
          = frame f ++ (fs.flatMap frame).take (k - (frame f).length) := by
        rw [List.flatMap_cons, List.take_append, List.take_of_length_le (by omega)]
      obtain ⟨j, hj1, hj2, hj3, hj4⟩ := ih hvs (k - (frame f).length)
      rw [htk, deframe_frame_append f hf]
      refine ⟨j + 1, by simp; omega, by simp [hj2], ?_, ?_⟩
      · simp only [List.take_succ_cons, List.flatMap_cons, List.append_assoc]
        rw [hj3]
      · intro hlt
        simp only [List.getElem_cons_succ]
        exact hj4 (by simpa using hlt)

end Noir.Framing
