/-
  Props/C05Stateless.lean — C05 / C06 for the stateless operators of an operator chain
  (`liftStage`, Model/Stateless.lean: map / filter / flat_map / filter_map / flatten / inspect /
  key_by / unkey / drop_key and compositions; tied to the real operators by the correspondence
  component `stateless`): control elements pass unchanged, once and in order; a grammatical stream
  stays grammatical; a watermark-safe stream stays watermark-safe.
-/
import NoirVerif.Lemmas.Stateless
namespace Noir.Stateless

variable {α β : Type}

/-- **C05 (stateless stages forward control elements).** Watermarks, `FlushBatch`,
    `FlushAndRestart` and `Terminate` leave a stage unchanged, once each and in order. -/
theorem liftStage_control (f : α → List β) (l : List (Elem α)) :
    ctrlOf (liftStage f l) = ctrlOf l := by
  induction l with
  | nil => rfl
  | cons e l ih =>
    rw [liftStage_cons', ctrlOf_append, ih]
    cases e with
    | item a => simp [liftElem, ctrlOf, ctrlOf_items]
    | ts a t => simp [liftElem, ctrlOf, ctrlOf_tss]
    | wm t => rfl
    | flushBatch => rfl
    | far => rfl
    | term => rfl

/-- **C05 (stateless stages preserve the stream grammar).** Also when the stage drops every data
    element of an iteration. -/
theorem liftStage_grammar (f : α → List β) (l : List (Elem α)) (h : grammarOk l = true) :
    grammarOk (liftStage f l) = true :=
  liftStage_grammarGo f l false h

/-- **C06 (stateless stages preserve watermark safety).** Every child carries its parent's
    timestamp, so no timestamp at or below an earlier watermark appears. -/
theorem liftStage_wmSafe (f : α → List β) (l : List (Elem α)) (h : wmSafeOk l = true) :
    wmSafeOk (liftStage f l) = true :=
  liftStage_wmSafeGo f l none h

/-- Non-vacuity: a filter that empties the first iteration and a flat_map on mixed data. -/
example :
    let l : List (Elem Nat) := [.ts 1 5, .wm 5, .item 2, .far, .item 3, .flushBatch, .far, .term]
    let f : Nat → List Nat := fun x => if x = 3 then [] else [x, x + 10]
    grammarOk l = true ∧ wmSafeOk l = true ∧
    liftStage f l = [.ts 1 5, .ts 11 5, .wm 5, .item 2, .item 12, .far, .flushBatch, .far, .term] ∧
    grammarOk (liftStage f l) = true ∧ wmSafeOk (liftStage f l) = true := by
  decide

end Noir.Stateless
