/-
  Props/C07.lean — property theorems for C07 (aggregations equal a sequential fold).
  Models: `Model/Fold.lean` (`Fold`, `KeyedFold`); helper lemmas and the vocabulary used below
  (`values`, `dataTs`, `wmTs`, `maxOpt`, `mk`, `wmElem`, `Body`, `proj`, `occurs`, `resultFor`,
  `RightComm`, `Compat`, `partials`, `vals`, `optLocal`, `optGlobal`): `Model/Fold.lean`,
  `Lemmas/Fold.lean`.

  What the code really does (stated precisely below):
  * an iteration without data elements produces NO result (the accumulator is only created by the
    first element, fold.rs:83-85 / keyed_fold.rs:95-99) — also for the global `fold`;
  * a result is `Timestamped` iff at least one of its inputs was, with the maximum of the
    timestamps of the timestamped inputs (plain `Item`s do not contribute);
  * the maximum watermark of the iteration is held back and emitted after the result(s), before
    the `FlushAndRestart`.
-/
import NoirVerif.Lemmas.Fold

namespace Noir.Fold
variable {α β : Type}

/-- **C07 (global fold, one iteration).** From the initial state, an iteration with body `xs`
    (any mix of items, timestamped items, watermarks, `FlushBatch`) followed by `FlushAndRestart`
    emits: nothing for an iteration without data, otherwise exactly one element carrying
    `foldl f init` of all payloads in arrival order, timestamped with the maximum data timestamp
    if there is one; then the maximum watermark if any; then the `FlushAndRestart`. The operator is
    back in its initial state. -/
theorem fold_iteration (f : β → α → β) (init : β) (xs : List (Elem α)) (hb : Body xs) :
    runFrom f init State.init (xs ++ [.far]) =
      (State.init,
       (if (values xs).isEmpty then []
        else [mk ((values xs).foldl f init) (maxOpt (dataTs xs))])
       ++ wmElem (maxOpt (wmTs xs)) ++ [.far]) := by
  rw [runFrom_append, runFrom_body f init xs hb State.init rfl]
  simp only [runFrom, step, bodyState, Bool.false_eq_true, if_false, List.nil_append, List.append_nil]
  have h1 := flush_bodyState f init xs
  have h2 := afterFlush_bodyState f init xs false
  simp only [bodyState, result] at h1 h2
  rw [h1, h2]; rfl

/-- **C07 (empty input ⇒ no result).** An iteration without data elements emits no data element
    at all (only the held-back watermark, if any, and the end marker). -/
theorem fold_empty_iteration (f : β → α → β) (init : β) (xs : List (Elem α)) (hb : Body xs)
    (he : values xs = []) :
    (runFrom f init State.init (xs ++ [.far])).2 = wmElem (maxOpt (wmTs xs)) ++ [.far] := by
  rw [fold_iteration f init xs hb]; simp [he]

/-- **C07 (nothing is carried over).** Whatever was consumed before (any number of iterations,
    no `Terminate`), after a `FlushAndRestart` the operator is in its initial state. -/
theorem fold_resets (f : β → α → β) (init : β) (es : List (Elem α))
    (hnt : ∀ e ∈ es, e.isTerm = false) :
    (runFrom f init State.init (es ++ [.far])).1 = State.init := by
  rw [runFrom_append]
  obtain ⟨hinv, hd⟩ := runFrom_inv_done f init es State.init (fun _ => rfl) rfl hnt
  generalize (runFrom f init State.init es).1 = st at hinv hd
  simp only [runFrom, step, hd, Bool.false_eq_true, if_false, afterFlush, State.init]
  cases ha : st.accumulator with
  | none => simp [hinv ha]
  | some a => simp

/-- **C07 (whole stream).** A well-formed stream `(body far)* term` is mapped iteration by
    iteration: the output is the concatenation of the per-iteration outputs of `fold_iteration`,
    then `Terminate`. -/
theorem fold_stream (f : β → α → β) (init : β) (its : List (List (Elem α))) (hb : ∀ xs ∈ its, Body xs) :
    run f init (its.flatMap (· ++ [.far]) ++ [.term]) =
      its.flatMap (fun xs => iterOut f init xs .far) ++ [.term] := by
  unfold run
  induction its with
  | nil => simp [runFrom, step, State.init, flush]
  | cons xs its ih =>
    have h1 := fold_iteration f init xs (hb xs (by simp))
    have ih' := ih (fun ys h => hb ys (by simp [h]))
    simp only [List.flatMap_cons]
    rw [List.append_assoc (xs ++ [Elem.far]), runFrom_append, h1]
    simp only [ih']
    simp [iterOut, result]

/-- **C07 (timestamp of a result), on the operator model.** If the iteration's output contains a
    timestamped result, its stamp is one of the input timestamps and bounds all of them; if it
    contains a plain result, no input was timestamped. -/
theorem fold_timestamp_is_max (f : β → α → β) (init : β) (xs : List (Elem α)) (hb : Body xs) :
    (∀ v t, Elem.ts v t ∈ run f init (xs ++ [.far]) → t ∈ dataTs xs ∧ ∀ t' ∈ dataTs xs, t' ≤ t) ∧
    (∀ v, Elem.item v ∈ run f init (xs ++ [.far]) → dataTs xs = []) := by
  have hrun : run f init (xs ++ [.far]) = result f init xs ++ wmElem (maxOpt (wmTs xs)) ++ [.far] := by
    unfold run; rw [fold_iteration f init xs hb]; rfl
  rw [hrun]
  constructor
  · intro v t h
    simp only [List.mem_append, List.mem_singleton] at h
    rcases h with (h | h) | h
    · unfold result at h
      split at h
      · cases h
      · cases hm : maxOpt (dataTs xs) with
        | none => simp [hm, mk] at h
        | some m =>
          simp only [hm, mk, List.mem_singleton, Elem.ts.injEq] at h
          obtain ⟨_, rfl⟩ := h
          exact maxOpt_spec _ _ hm
    · cases hw : maxOpt (wmTs xs) <;> simp [hw, wmElem] at h
    · cases h
  · intro v h
    simp only [List.mem_append, List.mem_singleton] at h
    rcases h with (h | h) | h
    · unfold result at h
      split at h
      · cases h
      · cases hm : maxOpt (dataTs xs) with
        | none => exact (maxOpt_eq_none _).mp hm
        | some m => simp [hm, mk] at h
    · cases hw : maxOpt (wmTs xs) <;> simp [hw, wmElem] at h
    · cases h

/-- the data part of an iteration's output is `result` (spec lemma used below) -/
theorem fold_data_result (f : β → α → β) (init : β) (xs : List (Elem α)) (hb : Body xs) :
    TwoPhase.dataOut (run f init (xs ++ [.far])) = result f init xs := by
  unfold run; rw [fold_iteration f init xs hb]
  exact TwoPhase.dataOut_iterOut f init xs

/-- **C07 (single-phase multi-replica forms: `fold` after `replication(One)`).** The elements of
    several upstream replicas reach the single `Fold` instance in an arbitrary interleaving. For an
    order-insensitive (right-commutative) function the whole output of the iteration — result,
    timestamp, held-back watermark — is invariant under any permutation of the arrival order. -/
theorem fold_perm_invariant (f : β → α → β) (init : β) (hrc : TwoPhase.RightComm f)
    (xs ys : List (Elem α)) (hbx : Body xs) (hby : Body ys) (h : xs.Perm ys) :
    run f init (xs ++ [.far]) = run f init (ys ++ [.far]) := by
  have hr := TwoPhase.result_perm f init hrc xs ys h
  have hw : maxOpt (wmTs xs) = maxOpt (wmTs ys) := maxOpt_perm (h.filterMap _)
  unfold run
  rw [fold_iteration f init xs hbx, fold_iteration f init ys hby]
  simp only [result] at hr
  rw [hr, hw]

/-- Non-vacuity, and the order of arrival is what is folded (a non-commutative function shows it). -/
example : run (fun (l : List Nat) x => l ++ [x]) []
    [.ts 3 10, .item 1, .wm 4, .ts 2 7, .flushBatch, .far, .far, .item 9, .far, .term]
    = [.ts [3, 1, 2] 10, .wm 4, .far, .far, .item [9], .far, .term] := by decide

end Noir.Fold

namespace Noir.KeyedFold
open Noir.Fold
variable {κ α β : Type} [DecidableEq κ]

/-- **C07 (keyed fold, one iteration).** There is a duplicate-free list `ks` of exactly the keys
    that occur in the iteration such that the output is one result per `k ∈ ks` — the sequential
    `foldl f init` over `k`'s values in arrival order, stamped with the maximum timestamp of `k`'s
    timestamped elements — followed by the maximum watermark (if any) and the `FlushAndRestart`;
    the operator is back in its initial state. (The order of `ks` is the hash map's in Rust and
    first-occurrence in the model: only its existence is claimed; see `keyedFold_results_perm`.) -/
theorem keyedFold_iteration (f : β → α → β) (init : β) (xs : List (Elem (κ × α))) (hb : Body xs) :
    ∃ ks : List κ, ks.Nodup ∧ (∀ k, k ∈ ks ↔ occurs k xs) ∧
      runFrom f init State.init (xs ++ [.far]) =
        (State.init, ks.map (resultFor f init xs) ++ wmElem (maxOpt (wmTs xs)) ++ [.far]) := by
  have hlk : ∀ k, lookup (bodyAccs f init ([] : List (κ × β)) xs) k =
      if (values (proj k xs)).isEmpty then none else some ((values (proj k xs)).foldl f init) := by
    intro k; rw [lookup_bodyAccs]; simp [lookup, foldl_accumulate_none]
  have hlt : ∀ k, lookup (bodyTss ([] : List (κ × Int)) xs) k = maxOpt (dataTs (proj k xs)) := by
    intro k; rw [lookup_bodyTss]; simp [lookup, foldl_bump, optMax_none_left]
  have hnd : (keys (bodyAccs f init ([] : List (κ × β)) xs)).Nodup :=
    nodup_bodyAccs f init xs [] (by simp [keys])
  refine ⟨keys (bodyAccs f init [] xs), hnd, ?_, ?_⟩
  · intro k
    rw [occurs_iff_values, ← Decidable.not_iff_not, ← lookup_eq_none_iff, hlk]
    cases h : values (proj k xs) <;> simp
  · rw [runFrom_append, runFrom_body f init xs hb State.init rfl]
    simp only [runFrom, step, bodyState, State.init, Bool.false_eq_true, if_false, List.nil_append,
      List.append_nil]
    congr 1
    · -- the state: no accumulator left, every recorded timestamp belonged to a drained key
      simp only [afterFlush]
      congr 1
      rw [List.filter_eq_nil_iff]
      intro p hp
      have h1 := lookup_isSome_of_mem _ p hp
      rw [hlt] at h1
      rw [hlk]
      cases hv : (values (proj p.1 xs)).isEmpty with
      | false => simp
      | true =>
        have : values (proj p.1 xs) = [] := List.isEmpty_iff.mp hv
        rw [dataTs_nil_of_values_nil _ this] at h1
        simp [maxOpt] at h1
    · -- the output
      simp only [flush, foldl_bump, optMax_none_left, keys, List.map_map, List.append_assoc]
      congr 1
      apply List.map_congr_left
      intro p hp
      obtain ⟨k, a⟩ := p
      have hl := lookup_of_mem _ hnd k a hp
      rw [hlk] at hl
      cases hv : (values (proj k xs)).isEmpty with
      | true => simp [hv] at hl
      | false =>
        simp [hv] at hl
        simp [resultFor, hlt, hl]

/-- **C07 (one result per key, order unspecified).** The data results of an iteration are a
    permutation of `ks'.map (resultFor …)` for EVERY duplicate-free enumeration `ks'` of the
    occurring keys: exactly one result per key that occurs, none for other keys. -/
theorem keyedFold_results_perm (f : β → α → β) (init : β) (xs : List (Elem (κ × α))) (hb : Body xs)
    (ks' : List κ) (hn : ks'.Nodup) (hm : ∀ k, k ∈ ks' ↔ occurs k xs) :
    ∃ res, (runFrom f init State.init (xs ++ [.far])).2 = res ++ wmElem (maxOpt (wmTs xs)) ++ [.far] ∧
      res.Perm (ks'.map (resultFor f init xs)) := by
  obtain ⟨ks, hnd, hmem, hrun⟩ := keyedFold_iteration f init xs hb
  refine ⟨ks.map (resultFor f init xs), by rw [hrun], ?_⟩
  apply List.Perm.map
  rw [List.perm_ext_iff_of_nodup hnd hn]
  intro k; rw [hmem, hm]

/-- **C07 (keyed fold, per key, on the operator model).** The data outputs of an iteration that
    carry key `k` are exactly what a global `Fold` would emit on `k`'s sub-stream: nothing if `k`
    does not occur, otherwise the one sequential fold of `k`'s values with `k`'s max timestamp. -/
theorem keyedFold_per_key (f : β → α → β) (init : β) (zs : List (Elem (κ × α))) (hb : Body zs) (k : κ) :
    proj k (TwoPhase.dataOut (run f init (zs ++ [.far]))) = result f init (proj k zs) := by
  obtain ⟨ks, hnd, hmem, hrun⟩ := keyedFold_iteration f init zs hb
  have hout : run f init (zs ++ [.far]) =
      ks.map (resultFor f init zs) ++ wmElem (maxOpt (wmTs zs)) ++ [.far] := by
    unfold run; rw [hrun]
  have hd : TwoPhase.dataOut (ks.map (resultFor f init zs)) = ks.map (resultFor f init zs) :=
    TwoPhase.dataOut_map_mk ks _ _
  rw [hout, TwoPhase.dataOut_append, TwoPhase.dataOut_append, hd, TwoPhase.dataOut_wmElem]
  have hfar : TwoPhase.dataOut ([Elem.far] : List (Elem (κ × β))) = [] := rfl
  rw [hfar, List.append_nil, List.append_nil, TwoPhase.proj_map_resultFor f init zs k ks hnd]
  have hk : k ∈ ks ↔ values (proj k zs) ≠ [] := by rw [hmem, occurs_iff_values]
  unfold result
  cases hv : values (proj k zs) with
  | nil => have : k ∉ ks := by rw [hk, hv]; simp
           simp [this]
  | cons v vs => have : k ∈ ks := by rw [hk, hv]; simp
                 simp [this]

/-- **C07 (group_by + fold, any key-respecting partition), on the operator model.** A replica of
    the keyed stream receives the data elements of the keys assigned to it (`mine`), in their
    relative order, and the control elements. For every key assigned to it, what it emits for that
    key is what one instance on the whole stream emits: co-locating keys is all that matters. -/
theorem keyedFold_parallel (f : β → α → β) (init : β) (xs : List (Elem (κ × α))) (hb : Body xs)
    (mine : κ → Bool) (k : κ) (hk : mine k = true) :
    proj k (TwoPhase.dataOut (run f init (xs.filter (keep mine) ++ [.far]))) =
      proj k (TwoPhase.dataOut (run f init (xs ++ [.far]))) := by
  rw [keyedFold_per_key f init _ (TwoPhase.body_filter xs _ hb), keyedFold_per_key f init xs hb,
    proj_filter_keep mine k hk xs]

/-- **C07 (single-phase multi-replica keyed forms: `group_by().fold`).** The elements of a key
    reach its `KeyedFold` instance from several upstream replicas in an arbitrary interleaving. For
    an order-insensitive function the result of every key (value and timestamp) is invariant under
    any permutation of the arrival order. -/
theorem keyedFold_perm_invariant (f : β → α → β) (init : β) (hrc : TwoPhase.RightComm f)
    (xs ys : List (Elem (κ × α))) (hbx : Body xs) (hby : Body ys) (h : xs.Perm ys) (k : κ) :
    proj k (TwoPhase.dataOut (run f init (xs ++ [.far]))) =
      proj k (TwoPhase.dataOut (run f init (ys ++ [.far]))) := by
  rw [keyedFold_per_key f init xs hbx, keyedFold_per_key f init ys hby]
  apply TwoPhase.result_perm f init hrc
  unfold proj
  exact h.filterMap _

/-- **C07 (nothing is carried over, keyed).** After an iteration the operator is in its initial
    state: no accumulator and no timestamp of an earlier iteration can leak into the next one. -/
theorem keyedFold_resets (f : β → α → β) (init : β) (its : List (List (Elem (κ × α))))
    (hb : ∀ xs ∈ its, Body xs) :
    (runFrom f init State.init (its.flatMap (· ++ [.far]))).1 = State.init := by
  induction its with
  | nil => rfl
  | cons xs its ih =>
    obtain ⟨ks, _, _, hrun⟩ := keyedFold_iteration f init xs (hb xs (by simp))
    simp only [List.flatMap_cons]
    rw [runFrom_append, hrun]
    exact ih (fun ys h => hb ys (by simp [h]))

/-- **C07 (timestamp of a keyed result), on the operator model.** A timestamped result for key
    `k` in the iteration's output is stamped with the maximum timestamp of `k`'s elements. -/
theorem keyedFold_timestamp_is_max (f : β → α → β) (init : β) (xs : List (Elem (κ × α))) (hb : Body xs)
    (k : κ) (v : β) (t : Int) (h : Elem.ts (k, v) t ∈ run f init (xs ++ [.far])) :
    t ∈ dataTs (proj k xs) ∧ ∀ t' ∈ dataTs (proj k xs), t' ≤ t := by
  have hm : Elem.ts v t ∈ proj k (TwoPhase.dataOut (run f init (xs ++ [.far]))) := by
    rw [TwoPhase.proj_dataOut]
    unfold proj
    exact List.mem_filterMap.mpr ⟨_, h, by simp⟩
  rw [keyedFold_per_key f init xs hb] at hm
  unfold result at hm
  split at hm
  · cases hm
  · cases hmx : maxOpt (dataTs (proj k xs)) with
    | none => simp [hmx, mk] at hm
    | some m =>
      simp only [hmx, mk, List.mem_singleton, Elem.ts.injEq] at hm
      obtain ⟨_, rfl⟩ := hm
      exact maxOpt_spec _ _ hmx

/-- Non-vacuity: two keys, interleaved, mixed stamped / plain, two iterations. -/
example : run (fun (l : List Nat) x => l ++ [x]) []
    [.ts (1, 10) 5, .item (2, 20), .ts (1, 11) 3, .wm 9, .item (2, 21), .far, .item (2, 7), .far, .term]
    = [.ts (1, [10, 11]) 5, .item (2, [20, 21]), .wm 9, .far, .item (2, [7]), .far, .term] := by decide

end Noir.KeyedFold

namespace Noir.KeyedRichMap
open Noir.Fold Noir.KeyedFold
variable {κ α β : Type} [DecidableEq κ]

/-- **C07 (keyed `rich_map` state, one element).** With a running-fold closure, the value emitted
    for an element `(k, v)` is `f s v` where `s` is `k`'s current state (`init` for a new key), and
    that value becomes `k`'s state; other keys are untouched. -/
theorem richMap_step (f : β → α → β) (init : β) (st : List (κ × β)) (k : κ) (v : α) :
    (step f init st (.item (k, v))).2 = [.item (k, f ((lookup st k).getD init) v)] ∧
    lookup (step f init st (.item (k, v))).1 k = some (f ((lookup st k).getD init) v) ∧
    ∀ k', k' ≠ k → lookup (step f init st (.item (k, v))).1 k' = lookup st k' := by
  simp only [step, processItem, lookup_upsert, if_true, Option.getD_some, true_and]
  intro k' hk'; simp [hk']

/-- **C07 (keyed `rich_map`: state is kept PER KEY).** For every key `k` and every trace (any
    number of iterations), the outputs carrying key `k`, in order, are exactly what ONE sequential
    run of the stateful function, started from its initial state, produces over `k`'s sub-stream
    of the whole trace: nothing of `k` is lost, duplicated or reordered, timestamps are kept, and
    the state survives `FlushAndRestart` (documented behaviour: rich_map.rs:87-89 deliberately
    does not clear the per-key closures). -/
theorem richMap_per_key (f : β → α → β) (init : β) (es : List (Elem (κ × α))) (k : κ) :
    proj k (run f init es) = seqRun f init (proj k es) := by
  have key : ∀ (es : List (Elem (κ × α))) (st : List (κ × β)),
      proj k (runFrom f init st es).2 = seqRun f ((lookup st k).getD init) (proj k es) := by
    intro es
    induction es with
    | nil => intro st; rfl
    | cons e es ih =>
      intro st
      have happ : ∀ (l₁ l₂ : List (Elem (κ × β))), proj k (l₁ ++ l₂) = proj k l₁ ++ proj k l₂ := by
        intro l₁ l₂; simp [proj]
      simp only [runFrom, happ]
      rw [ih, proj_cons k e es]
      cases e with
      | item kv =>
        by_cases hk : kv.1 = k
        · subst hk
          simp [step, processItem, lookup_upsert, proj, seqRun]
        · have hk' : ¬ k = kv.1 := fun h => hk h.symm
          simp [step, processItem, lookup_upsert, proj, hk, hk']
      | ts kv t =>
        by_cases hk : kv.1 = k
        · subst hk
          simp [step, processItem, lookup_upsert, proj, seqRun]
        · have hk' : ¬ k = kv.1 := fun h => hk h.symm
          simp [step, processItem, lookup_upsert, proj, hk, hk']
      | wm t => simp [step, proj]
      | flushBatch => simp [step, proj]
      | far => simp [step, proj]
      | term => simp [step, proj]
  simpa [run, lookup] using key es []

/-- **C07 (keys never influence each other).** The outputs for key `k` depend only on `k`'s own
    sub-stream: two traces that agree on it — whatever the other keys, watermarks and iteration
    boundaries do — give the same outputs for `k`. -/
theorem richMap_keys_independent (f : β → α → β) (init : β) (es es' : List (Elem (κ × α))) (k : κ)
    (h : proj k es = proj k es') : proj k (run f init es) = proj k (run f init es') := by
  rw [richMap_per_key, richMap_per_key, h]

/-- The per-key state after ANY trace — `FlushAndRestart`s included — is the sequential fold of
    all of `k`'s values seen since the start of the job (absent iff `k` never occurred). -/
theorem richMap_state (f : β → α → β) (init : β) (es : List (Elem (κ × α))) (k : κ) :
    lookup (runFrom f init [] es).1 k =
      if (values (proj k es)).isEmpty then none else some ((values (proj k es)).foldl f init) := by
  have h : ∀ (es : List (Elem (κ × α))) (st : List (κ × β)),
      (runFrom f init st es).1 = bodyAccs f init st es := by
    intro es
    induction es with
    | nil => intro st; rfl
    | cons e es ih => intro st; cases e <;> simp [runFrom, step, bodyAccs, ih]
  rw [h, lookup_bodyAccs]
  simp [lookup, foldl_accumulate_none]

/-- Documented behaviour, for the record (not a defect: C07 asks for per-KEY state, not for a
    reset per iteration): the state of a key spans iterations. Key 7 sees 9 in the first
    iteration and 20 in the second; the second iteration's running sum is 29. The harness replays
    this trace on the real chain (`corpus/C07/krmap-far-reset.case`). -/
theorem richMap_state_spans_iterations :
    run (fun (a : Int) v => a + v) 0 [.item ((7 : Nat), (9 : Int)), .far, .item (7, 20), .far, .term]
      = [.item (7, 9), .far, .item (7, 29), .far, .term] := by decide

end Noir.KeyedRichMap

namespace Noir.TwoPhase
variable {α β κ γ : Type}

/-- **C07 (pre-aggregated = shuffle-then-aggregate).** Let the input be split over the replicas
    in any way (`parts`: what each replica saw, in its arrival order; together a permutation of
    `input`; the order of `parts` is the arbitrary order in which the partial results reach the
    global phase). Each replica that saw something folds its part from `init` with `local`; the
    global phase folds the partial results from `init` with `global`. If `local` is insensitive to
    the order of elements and `global` is compatible with it, the result is the sequential fold of
    the whole input. -/
theorem twoPhase_eq (loc : β → α → β) (glob : β → β → β) (init : β)
    (hrc : RightComm loc) (hc : Compat loc glob init)
    (input : List α) (parts : List (List α)) (hp : parts.flatten.Perm input) :
    (partials loc init parts).foldl glob init = input.foldl loc init := by
  rw [foldl_partials loc glob init hc]
  exact hp.foldl_eq' (fun x _ y _ z => hrc z x y) init

/-- … and the global phase has something to fold iff the input is non-empty (otherwise neither
    form emits a result, `fold_empty_iteration`). -/
theorem twoPhase_emits_iff (loc : β → α → β) (init : β)
    (input : List α) (parts : List (List α)) (hp : parts.flatten.Perm input) :
    partials loc init parts = [] ↔ input = [] := by
  have hlen := hp.length_eq
  constructor
  · intro h
    have hall : ∀ p ∈ parts, p = [] := by
      intro p hpm
      simp only [partials, List.map_eq_nil_iff, List.filter_eq_nil_iff] at h
      have := h p hpm
      cases p <;> simp_all
    have : parts.flatten = [] := by
      rw [List.flatten_eq_nil_iff]; exact hall
    rw [this] at hp
    exact hp.symm.eq_nil
  · intro h
    subst h
    have hnil := hp.eq_nil
    rw [List.flatten_eq_nil_iff] at hnil
    simp only [partials, List.map_eq_nil_iff, List.filter_eq_nil_iff]
    intro p hpm; simp [hnil p hpm]

/-- **C07 (timestamp of a two-phase result).** Each replica stamps its partial result with the
    maximum timestamp it saw (`fold_iteration`), the global phase with the maximum of the stamps of
    the partial results: that is the maximum input timestamp, for every partition. -/
theorem twoPhase_timestamp (input : List Int) (parts : List (List Int)) (hp : parts.flatten.Perm input) :
    Fold.maxOpt (parts.filterMap Fold.maxOpt) = Fold.maxOpt input := by
  rw [Fold.maxOpt_parts]; exact Fold.maxOpt_perm hp

/-- **C07 (keyed two-phase, `group_by_fold`).** Per key: folding, on every replica, the values
    of key `k` it saw and then folding those partial results globally equals the sequential fold
    of `k`'s values of the whole input. -/
theorem keyed_twoPhase_eq [DecidableEq κ] (loc : β → α → β) (glob : β → β → β) (init : β)
    (hrc : RightComm loc) (hc : Compat loc glob init)
    (input : List (κ × α)) (parts : List (List (κ × α))) (hp : parts.flatten.Perm input) (k : κ) :
    (partials loc init (parts.map (vals k))).foldl glob init = (vals k input).foldl loc init := by
  apply twoPhase_eq loc glob init hrc hc
  rw [vals_flatten]
  exact (hp.filter _).map _

/-- **Instance: every Option-wrapped reduction** (`reduce_assoc`, `group_by_reduce`,
    `group_by_sum`, and — with `op` = "keep the smaller/larger" — `group_by_min/max_element`):
    if `op` is associative and commutative the pair (`optLocal op g`, `optGlobal op`) with
    `init = None` meets the hypotheses of `twoPhase_eq`. -/
theorem reduce_assoc_ok (op : γ → γ → γ) (g : α → γ)
    (hassoc : ∀ a b c, op (op a b) c = op a (op b c)) (hcomm : ∀ a b, op a b = op b a) :
    RightComm (optLocal op g) ∧ Compat (optLocal op g) (optGlobal op) none := by
  constructor
  · intro b x y
    cases b with
    | none => simp [optLocal, hcomm]
    | some a => simp [optLocal, hassoc, hcomm (g x) (g y)]
  · intro a xs hne
    cases xs with
    | nil => exact absurd rfl hne
    | cons x xs =>
      cases a with
      | none => simp [optLocal, optGlobal, foldl_optLocal_some]
      | some a =>
        simp only [List.foldl_cons, optLocal, foldl_optLocal_some, optGlobal]
        rw [foldl_op_assoc op hassoc]

/-- the reduction result is the plain `foldl op` of the mapped elements (what `.unwrap()` yields) -/
theorem reduce_value (op : γ → γ → γ) (g : α → γ) (x : α) (xs : List α) :
    (x :: xs).foldl (optLocal op g) none = some (xs.foldl (fun c v => op c (g v)) (g x)) := by
  simp [optLocal, foldl_optLocal_some]

/-- **Instance: `group_by_sum`** (`operator/mod.rs:1234-1253`), on `Int`. -/
theorem sum_ok (g : α → Int) :
    RightComm (optLocal (· + ·) g) ∧ Compat (optLocal (· + ·) g) (optGlobal (· + ·)) none :=
  reduce_assoc_ok (· + ·) g Int.add_assoc Int.add_comm

/-- **Instance: `group_by_count`** (`operator/mod.rs:1355-1360`). -/
theorem count_ok : RightComm (fun (c : Nat) (_ : α) => c + 1) ∧
    Compat (fun (c : Nat) (_ : α) => c + 1) (fun c l => c + l) 0 := by
  constructor
  · intro b x y; rfl
  · intro a xs _
    have h : ∀ (l : List α) (b : Nat), l.foldl (fun c _ => c + 1) b = b + l.length := by
      intro l; induction l with
      | nil => intro b; rfl
      | cons x l ih => intro b; simp [ih]; omega
    simp [h]

/-- **Instance: `group_by_max_element`.** Tie-breaking assumption: `get_value` is injective on the
    elements (no two distinct elements compare equal). Without it `keepMax` is not commutative and
    the result depends on the partition (`max_tie_counterexample`). -/
theorem max_ok (g : α → Int) (hinj : ∀ a b, g a = g b → a = b) :
    RightComm (optLocal (keepMax g) id) ∧ Compat (optLocal (keepMax g) id) (optGlobal (keepMax g)) none := by
  apply reduce_assoc_ok
  · intro a b c
    simp only [keepMax]
    repeat' split
    all_goals first | rfl | (exfalso; omega) | (apply hinj; omega)
  · intro a b
    simp only [keepMax]
    repeat' split
    all_goals first | rfl | (exfalso; omega) | (apply hinj; omega)

/-- **Instance: `group_by_min_element`**, same tie-breaking assumption. -/
theorem min_ok (g : α → Int) (hinj : ∀ a b, g a = g b → a = b) :
    RightComm (optLocal (keepMin g) id) ∧ Compat (optLocal (keepMin g) id) (optGlobal (keepMin g)) none := by
  apply reduce_assoc_ok
  · intro a b c
    simp only [keepMin]
    repeat' split
    all_goals first | rfl | (exfalso; omega) | (apply hinj; omega)
  · intro a b
    simp only [keepMin]
    repeat' split
    all_goals first | rfl | (exfalso; omega) | (apply hinj; omega)

/-- With ties the max-element reduction is order dependent, hence partition dependent: the
    elements `(1,0)` and `(1,1)` (compared on the first component) split over two replicas give
    either one, depending on which partial result arrives first. Outside C07's hypothesis
    ("whenever the functions are associative and commutative"); recorded for the record. -/
theorem max_tie_counterexample :
    (partials (optLocal (keepMax Prod.fst) id) none [[((1 : Int), (0 : Nat))], [(1, 1)]]).foldl
        (optGlobal (keepMax Prod.fst)) none
      ≠ (partials (optLocal (keepMax Prod.fst) id) none [[((1 : Int), (1 : Nat))], [(1, 0)]]).foldl
        (optGlobal (keepMax Prod.fst)) none := by
  decide

/-- Non-vacuity of `twoPhase_eq`: a sum over three replicas, one of which saw nothing. -/
example : (partials (optLocal (· + ·) id) none [[3, 4], [], [(5 : Int)]]).foldl (optGlobal (· + ·)) none
    = [4, 5, 3].foldl (optLocal (· + ·) id) none := by decide

/-! ### Two-phase at the level of the operator models -/
open Noir.Fold

/-- Core: if the data elements reaching the global instance are the results of the local
    instances (`ps`: what each replica saw; list order = arrival order of the partial results),
    the global result is the result of one instance on the whole input: same value
    (`twoPhase_eq`), same emptiness (`twoPhase_emits_iff`), same timestamp (`twoPhase_timestamp`). -/
theorem twoPhase_result_eq (loc : β → α → β) (glob : β → β → β) (init : β)
    (hrc : RightComm loc) (hc : Compat loc glob init)
    (xs : List (Elem α)) (ps : List (List (Elem α))) (hp : ps.flatten.Perm xs)
    (ys : List (Elem β)) (hy : dataOut ys = ps.flatMap (result loc init)) :
    result glob init ys = result loc init xs := by
  have hpv : (ps.map values).flatten.Perm (values xs) := by
    rw [← values_flatten]; exact hp.filterMap _
  have hpt : (ps.map dataTs).flatten.Perm (dataTs xs) := by
    rw [← dataTs_flatten]; exact hp.filterMap _
  have e1 : values ys = partials loc init (ps.map values) := by
    rw [← values_dataOut, hy, values_flatMap_result]
  have e2 : dataTs ys = (ps.map dataTs).filterMap maxOpt := by
    rw [← dataTs_dataOut, hy, dataTs_flatMap_result]
  have e3 : (partials loc init (ps.map values)).isEmpty = (values xs).isEmpty := by
    rw [Bool.eq_iff_iff, List.isEmpty_iff, List.isEmpty_iff]
    exact twoPhase_emits_iff loc init _ _ hpv
  unfold result
  rw [e1, e2, e3, twoPhase_eq loc glob init hrc hc _ _ hpv, twoPhase_timestamp _ _ hpt]

/-- **C07 (`fold_assoc` = `fold`, on the operator models).** Split the input of an iteration over
    any number of local `Fold` instances in any way (`ps`, each run with `Fold.run` on its part
    followed by `FlushAndRestart`; together a permutation of `xs`). Feed the global `Fold` instance
    any body `ys` whose data elements are the data outputs of the local instances — every local
    instance emits at most one, so "any interleaving" is "any order of `ps`", and `ps` is
    universally quantified; watermarks / `FlushBatch` in `ys` are arbitrary. Then the global
    instance emits exactly the data result (value AND timestamp, or nothing) that a single instance
    emits on the whole input. -/
theorem twoPhase_operator_eq (loc : β → α → β) (glob : β → β → β) (init : β)
    (hrc : RightComm loc) (hc : Compat loc glob init)
    (xs : List (Elem α)) (hbx : Body xs) (ps : List (List (Elem α))) (hbp : ∀ p ∈ ps, Body p)
    (hp : ps.flatten.Perm xs) (ys : List (Elem β)) (hby : Body ys)
    (hy : dataOut ys = ps.flatMap (fun p => dataOut (Fold.run loc init (p ++ [.far])))) :
    dataOut (Fold.run glob init (ys ++ [.far])) = dataOut (Fold.run loc init (xs ++ [.far])) := by
  rw [fold_data_result glob init ys hby, fold_data_result loc init xs hbx]
  apply twoPhase_result_eq loc glob init hrc hc xs ps hp ys
  rw [hy]
  exact flatMap_congr_mem ps _ _ (fun p hpm => fold_data_result loc init p (hbp p hpm))

/-- **C07 (`group_by_fold` = `group_by().fold`, on the operator models).** The same for
    `KeyedFold`, per key `k`: if the `k`-elements reaching the global instance are, in some order
    of the replicas, the `k`-results of the local `KeyedFold` instances (the interleaving with
    other keys and the hash-map order of each local instance are irrelevant), the global instance
    emits for `k` exactly what a single instance emits for `k` on the whole input. -/
theorem keyed_twoPhase_operator_eq [DecidableEq κ] (loc : β → α → β) (glob : β → β → β) (init : β)
    (hrc : RightComm loc) (hc : Compat loc glob init)
    (xs : List (Elem (κ × α))) (hbx : Body xs) (ps : List (List (Elem (κ × α))))
    (hbp : ∀ p ∈ ps, Body p) (hp : ps.flatten.Perm xs)
    (ys : List (Elem (κ × β))) (hby : Body ys) (k : κ)
    (hy : KeyedFold.proj k (dataOut ys) =
      ps.flatMap (fun p => KeyedFold.proj k (dataOut (KeyedFold.run loc init (p ++ [.far]))))) :
    KeyedFold.proj k (dataOut (KeyedFold.run glob init (ys ++ [.far]))) =
      KeyedFold.proj k (dataOut (KeyedFold.run loc init (xs ++ [.far]))) := by
  rw [KeyedFold.keyedFold_per_key glob init ys hby, KeyedFold.keyedFold_per_key loc init xs hbx]
  apply twoPhase_result_eq loc glob init hrc hc (KeyedFold.proj k xs) (ps.map (KeyedFold.proj k))
  · rw [← proj_flatten]; unfold KeyedFold.proj; exact hp.filterMap _
  · rw [dataOut_proj, ← proj_dataOut, hy, flatMap_map']
    exact flatMap_congr_mem ps _ _ (fun p hpm => KeyedFold.keyedFold_per_key loc init p (hbp p hpm) k)

/-! ### Further instances -/

/-- **Instance: `group_by_avg`** (`operator/mod.rs:1298-1320`): the `(sum, count)` pair
    accumulator, over `Int` values. The engine finally maps the pair to `sum / count` in `f64`;
    floating point is out of scope — what is proved is that the two-phase pair equals the
    sequential pair (`avg_value`), so any function of the pair agrees. -/
theorem avg_ok (g : α → Int) :
    RightComm (avgLocal g) ∧ Compat (avgLocal g) avgGlobal (none, 0) := by
  obtain ⟨hs1, hs2⟩ := sum_ok g
  constructor
  · intro b x y
    simp only [avgLocal]
    rw [hs1 b.1 x y]
  · intro a xs hne
    obtain ⟨s, c⟩ := a
    rw [foldl_avgLocal, foldl_avgLocal]
    simp only [avgGlobal, Nat.zero_add]
    rw [hs2 s xs hne]

/-- the `(sum, count)` pair of a non-empty list is `(Some Σ, n)` -/
theorem avg_value (g : α → Int) (x : α) (xs : List α) :
    (x :: xs).foldl (avgLocal g) (none, 0) =
      (some (xs.foldl (fun c v => c + g v) (g x)), xs.length + 1) := by
  rw [foldl_avgLocal]
  simp [optLocal, foldl_optLocal_some]

/-- **Instance: `group_by_max_element(keyer, get_value)`** — the key-function form: built by
    `group_by_reduce` from `keepMax get_value` (`operator/mod.rs:1185-1189`). Same statement as
    `max_ok` under its API name. -/
theorem group_by_max_element_ok (get_value : α → Int) (hinj : ∀ a b, get_value a = get_value b → a = b) :
    RightComm (optLocal (keepMax get_value) id) ∧
      Compat (optLocal (keepMax get_value) id) (optGlobal (keepMax get_value)) none :=
  max_ok get_value hinj

/-- **Instance: `group_by_min_element(keyer, get_value)`** (`operator/mod.rs:1403-1407`). -/
theorem group_by_min_element_ok (get_value : α → Int) (hinj : ∀ a b, get_value a = get_value b → a = b) :
    RightComm (optLocal (keepMin get_value) id) ∧
      Compat (optLocal (keepMin get_value) id) (optGlobal (keepMin get_value)) none :=
  min_ok get_value hinj

/-- **Instance: `KeyedStream::reduce`** (`operator/mod.rs:2330-2340`: `fold(None, …).map(unwrap)`),
    on the operator model: for every key that occurs the single result is `Some` of the sequential
    reduction of the key's values (so the `unwrap` cannot fail), stamped with the key's maximum
    timestamp; nothing for other keys. -/
theorem keyedReduce_result [DecidableEq κ] (op : α → α → α) (zs : List (Elem (κ × α))) (hb : Body zs)
    (k : κ) :
    KeyedFold.proj k (dataOut (KeyedFold.run (optLocal op id) none (zs ++ [.far]))) =
      match values (KeyedFold.proj k zs) with
      | [] => []
      | v :: vs => [mk (some (vs.foldl op v)) (maxOpt (dataTs (KeyedFold.proj k zs)))] := by
  rw [KeyedFold.keyedFold_per_key _ _ zs hb k]
  unfold result
  cases hv : values (KeyedFold.proj k zs) with
  | nil => simp
  | cons v vs =>
    have := reduce_value op id v vs
    simp only [id] at this
    simp [this]

/-- … and for an associative and commutative `op` it is invariant under the arrival order of the
    key's elements (`keyedFold_perm_invariant` applies). -/
theorem keyedReduce_perm_invariant [DecidableEq κ] (op : α → α → α)
    (hassoc : ∀ a b c, op (op a b) c = op a (op b c)) (hcomm : ∀ a b, op a b = op b a)
    (xs ys : List (Elem (κ × α))) (hbx : Body xs) (hby : Body ys) (h : xs.Perm ys) (k : κ) :
    KeyedFold.proj k (dataOut (KeyedFold.run (optLocal op id) none (xs ++ [.far]))) =
      KeyedFold.proj k (dataOut (KeyedFold.run (optLocal op id) none (ys ++ [.far]))) :=
  KeyedFold.keyedFold_perm_invariant _ _ (reduce_assoc_ok op id hassoc hcomm).1 xs ys hbx hby h k

end Noir.TwoPhase
