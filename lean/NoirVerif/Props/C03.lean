/-
  Props/C03.lean — "Each connection kind routes to exactly the promised replicas".

  Model: `Model/Router.lean` (the `End` operator) on top of `Model/Placement.lean` (which senders a
  replica has). Helper lemmas: `Lemmas/Router.lean`, `Lemmas/Placement.lean`.

  What holds: exactly one sender per downstream block for every non-broadcast strategy, every
  sender for broadcast, key-determined target for group-by — identical on every producer of an
  all-to-all edge, hence for both inputs of a hash-shipped join —, control elements to every
  connected replica with the `Terminate`/feedback and `ignore` exceptions, and forward
  connections deliver to exactly one replica, the same-(host, replica) one when it exists
  (`forward_same_index_single`; false before commit 3deb123, finding F4, see Model/Placement.lean).
-/
import NoirVerif.Lemmas.Router
import NoirVerif.Props.C19
namespace Noir.Router
open Noir.Placement

variable {α : Type}

/-- the block id of every sender of a set-up `End` -/
def State.blocks (st : State) : List Nat := st.senders.map (·.coord.block)

/-- the coordinate a sender index stands for -/
def State.coordAt (st : State) (i : Nat) : Option Coord := st.senders[i]?.map (·.coord)

theorem setup_groups (cfg : Cfg) (me : Nat) (next : List (Coord × Bool)) :
    (setup cfg me next).groups = groups cfg.strategy (setup cfg me next).blocks := rfl

/-- a data element pulled by a live `End` is enqueued exactly to `dataTargets` -/
theorem step_data (cfg : Cfg) (hash : α → Nat) (rnd : Nat) (st : State) (a : α)
    (hc : st.closed = false) (hp : st.panicked = false) :
    (step cfg hash rnd st (.item a)).2 =
      (dataTargets st (cfg.strategy.index rnd (hash a))).map (fun i => (i, Elem.item a)) ∧
    ∀ t, (step cfg hash rnd st (.ts a t)).2 =
      (dataTargets st (cfg.strategy.index rnd (hash a))).map (fun i => (i, Elem.ts a t)) := by
  simp [step, hc, hp, Elem.isTerm]

/-- **C03 (exactly one replica per downstream block).** For `OnlyOne`, `Random` (whatever number is
    drawn) and `GroupBy` (whatever the hash), a data element is enqueued, for every downstream
    block, to exactly one of the senders towards that block, and to nothing else. -/
theorem data_exactly_one_per_block (cfg : Cfg) (hs : cfg.strategy ≠ .all) (me : Nat)
    (next : List (Coord × Bool)) (idx : Nat) :
    let st := setup cfg me next
    (∀ b ∈ st.blocks, ((dataTargets st idx).filter (fun i => st.blocks[i]? == some b)).length = 1) ∧
    (∀ i ∈ dataTargets st idx, i < st.senders.length) ∧
    (dataTargets st idx).length = (blocksOf st.blocks).length := by
  intro st
  have heq := dataTargets_eq st cfg.strategy hs st.blocks (setup_groups cfg me next) idx
  refine ⟨?_, ?_, by rw [heq, List.length_map]⟩
  · intro b hb
    rw [heq, List.filter_map, List.length_map]
    have hcongr : (blocksOf st.blocks).filter ((fun i => st.blocks[i]? == some b) ∘ pick st.blocks idx)
        = (blocksOf st.blocks).filter (· == b) := by
      apply List.filter_congr
      intro b' hb'
      have := (pick_spec st.blocks idx b' ((mem_blocksOf b' _).mp hb')).2
      simp [this]
    rw [hcongr, ← List.countP_eq_length_filter]
    have := (nodup_blocksOf st.blocks).count (a := b)
    rw [List.count] at this
    rw [this]; simp [(mem_blocksOf b _).mpr hb]
  · intro i hi
    rw [heq] at hi
    obtain ⟨b, hb, rfl⟩ := List.mem_map.mp hi
    have := (pick_spec st.blocks idx b ((mem_blocksOf b _).mp hb)).2
    by_cases hlt : pick st.blocks idx b < st.blocks.length
    · simpa [State.blocks] using hlt
    · rw [List.getElem?_eq_none (by omega)] at this; cases this

/-- **C03 (shuffle).** The random draw only selects *which* replica inside each block: for every
    draw the chosen sender is a sender towards that block (in range). -/
theorem random_in_range (cfg : Cfg) (hs : cfg.strategy = .random) (me : Nat)
    (next : List (Coord × Bool)) (rnd hash : Nat) :
    let st := setup cfg me next
    let idx := cfg.strategy.index rnd hash
    idx = rnd ∧
    dataTargets st idx = (blocksOf st.blocks).map (pick st.blocks idx) ∧
    ∀ b ∈ st.blocks, st.blocks[pick st.blocks idx b]? = some b := by
  intro st idx
  refine ⟨by simp [idx, hs, Strategy.index], ?_, ?_⟩
  · exact dataTargets_eq st cfg.strategy (by rw [hs]; simp) st.blocks (setup_groups cfg me next) idx
  · intro b hb; exact (pick_spec st.blocks idx b hb).2

/-- **C03 (broadcast).** With `All` every data element is enqueued to every sender, once. -/
theorem all_reaches_every_replica (cfg : Cfg) (hs : cfg.strategy = .all) (me : Nat)
    (next : List (Coord × Bool)) (rnd hash : Nat) :
    let st := setup cfg me next
    dataTargets st (cfg.strategy.index rnd hash) = List.range st.senders.length := by
  intro st
  have hg : st.groups = groups .all st.blocks := by rw [← hs]; exact setup_groups cfg me next
  have := dataTargets_all st st.blocks hg (cfg.strategy.index rnd hash)
  simpa [State.blocks] using this

/-- **C03 (group-by).** Two `End`s — different producer replicas, possibly of different blocks —
    whose sorted consumer coordinates coincide send equal hashes to the same coordinates. -/
theorem groupBy_target_depends_on_key_only (cfg1 cfg2 : Cfg)
    (h1 : cfg1.strategy = .groupBy) (h2 : cfg2.strategy = .groupBy)
    (me1 me2 : Nat) (next1 next2 : List (Coord × Bool))
    (hc : (setup cfg1 me1 next1).senders.map (·.coord) = (setup cfg2 me2 next2).senders.map (·.coord))
    (rnd1 rnd2 hash : Nat) :
    (dataTargets (setup cfg1 me1 next1) (cfg1.strategy.index rnd1 hash)).map (setup cfg1 me1 next1).coordAt
      = (dataTargets (setup cfg2 me2 next2) (cfg2.strategy.index rnd2 hash)).map (setup cfg2 me2 next2).coordAt := by
  have hb : (setup cfg1 me1 next1).blocks = (setup cfg2 me2 next2).blocks := by
    have := congrArg (List.map (·.block)) hc
    simpa [State.blocks, List.map_map, Function.comp_def] using this
  have e1 := dataTargets_eq (setup cfg1 me1 next1) cfg1.strategy (by rw [h1]; simp) _
    (setup_groups cfg1 me1 next1) (cfg1.strategy.index rnd1 hash)
  have e2 := dataTargets_eq (setup cfg2 me2 next2) cfg2.strategy (by rw [h2]; simp) _
    (setup_groups cfg2 me2 next2) (cfg2.strategy.index rnd2 hash)
  rw [e1, e2, hb]
  simp only [h1, h2, Strategy.index]
  apply List.map_congr_left
  intro i _
  have : ∀ st : State, st.coordAt i = (st.senders.map (·.coord))[i]? := by
    intro st; simp [State.coordAt]
  rw [this, this, hc]

/-- On an all-to-all edge into block `to`, the sorted consumer coordinates seen by ANY producer
    replica of ANY producer block (not ignoring `to`) are one and the same list: the sorted
    replicas of `to`. (The graph-model lemma that feeds `groupBy_target_depends_on_key_only`.) -/
theorem all_to_all_senders_coords_single (cfgA cfgB : Cfg) (A B to : BlockInfo)
    (hA : A.onlyOne = false) (hB : B.onlyOne = false)
    (hiA : cfgA.ignore.contains to.id = false) (hiB : cfgB.ignore.contains to.id = false)
    (fA fB : Coord) :
    (setup cfgA A.id ((consumers A to false fA).map (·, false))).senders.map (·.coord) =
    (setup cfgB B.id ((consumers B to false fB).map (·, false))).senders.map (·.coord) := by
  have key : ∀ (cfg : Cfg) (X : BlockInfo) (f : Coord), X.onlyOne = false →
      cfg.ignore.contains to.id = false →
      ((senders cfg X.id ((consumers X to false f).map (·, false))).map (·.coord)).Pairwise
        (fun a b => lexLe a.key b.key = true) ∧
      ((senders cfg X.id ((consumers X to false f).map (·, false))).map (·.coord)).Perm to.replicas := by
    intro cfg X f hX hi
    have := senders_coords cfg X.id ((consumers X to false f).map (·, false))
    refine ⟨this.1, this.2.trans (List.Perm.of_eq ?_)⟩
    rw [consumers_non_forward X to f hX, List.filter_map, List.map_map]
    have : (to.replicas.filter ((fun p : Coord × Bool => !p.2 && !cfg.ignore.contains p.1.block) ∘
        fun c => (c, false))) = to.replicas := by
      rw [List.filter_eq_self]
      intro c hc
      have := ((mem_replicas to c).mp hc).1
      have hi' : to.id ∉ cfg.ignore := by simpa using hi
      simp [this, hi']
    rw [this]; exact List.map_id' _
  obtain ⟨sA, pA⟩ := key cfgA A fA hA hiA
  obtain ⟨sB, pB⟩ := key cfgB B fB hB hiB
  apply List.Perm.eq_of_pairwise (le := fun a b : Coord => lexLe a.key b.key = true) _ sA sB
    (pA.trans pB.symm)
  intro a b _ _ hab hba
  exact Coord.key_inj (lexLe_antisymm _ _ (by simp [Coord.key]) hab hba)

/-- **C03 (equal keys of both join inputs meet).** In a hash-shipped join the two input blocks
    `L` and `R` are connected all-to-all to the join block `J`; whatever replica of `L` and whatever
    replica of `R` produce two elements with the same key hash, they are delivered to the same
    replica of `J`. -/
theorem join_inputs_meet_single (L R J : BlockInfo) (hL : L.onlyOne = false) (hR : R.onlyOne = false)
    (fL fR : Coord) (hash : Nat) :
    let cfg : Cfg := { strategy := .groupBy }
    let sL := setup cfg L.id ((consumers L J false fL).map (·, false))
    let sR := setup cfg R.id ((consumers R J false fR).map (·, false))
    (dataTargets sL hash).map sL.coordAt = (dataTargets sR hash).map sR.coordAt := by
  intro cfg sL sR
  have hc := all_to_all_senders_coords_single cfg cfg L R J hL hR (by simp [cfg]) (by simp [cfg]) fL fR
  exact groupBy_target_depends_on_key_only cfg cfg rfl rfl L.id R.id _ _ hc 0 0 hash

/-- **C03 (control elements).** Watermarks and end-of-iteration markers are enqueued to every
    sender exactly once; `Terminate` to every sender except those towards the feedback block;
    the senders are exactly the non-fragile, non-ignored connections of the replica. -/
theorem control_reaches_all (cfg : Cfg) (me : Nat) (next : List (Coord × Bool)) :
    let st := setup cfg me next
    ((controlTargets cfg st false).Nodup ∧
      ∀ i, i ∈ controlTargets cfg st false ↔ i < st.senders.length) ∧
    ((controlTargets cfg st true).Nodup ∧
      ∀ i, i ∈ controlTargets cfg st true ↔
        i < st.senders.length ∧ ¬ (cfg.feedback.isSome ∧ (st.blocks[i]?) = cfg.feedback)) ∧
    (∀ c, c ∈ st.senders.map (·.coord) ↔
        ∃ p ∈ next, p.1 = c ∧ p.2 = false ∧ cfg.ignore.contains c.block = false) := by
  intro st
  have hlen : st.blocks.length = st.senders.length := by simp [State.blocks]
  refine ⟨?_, ?_, ?_⟩
  · have := groups_flatMap_filter cfg.strategy st.blocks (fun _ => true)
    have heq : controlTargets cfg st false = (groups cfg.strategy st.blocks).flatMap (fun g => g.filter fun _ => true) := by
      simp [controlTargets, setup_groups cfg me next, st]
    rw [heq]
    exact ⟨this.1, fun i => by rw [this.2 i, hlen]; simp⟩
  · have := groups_flatMap_filter cfg.strategy st.blocks
      (fun i => !(true && (st.senders[i]?.map (·.coord.block)) == cfg.feedback && cfg.feedback.isSome))
    have heq : controlTargets cfg st true = (groups cfg.strategy st.blocks).flatMap (fun g => g.filter
        (fun i => !(true && (st.senders[i]?.map (·.coord.block)) == cfg.feedback && cfg.feedback.isSome))) := by
      simp [controlTargets, setup_groups cfg me next, st]
    rw [heq]
    refine ⟨this.1, fun i => ?_⟩
    rw [this.2 i, hlen]
    have : st.blocks[i]? = st.senders[i]?.map (·.coord.block) := by simp [State.blocks]
    rw [this]
    constructor
    · rintro ⟨h, hq⟩
      refine ⟨h, ?_⟩
      rintro ⟨h1, h2⟩
      simp [h1, h2] at hq
    · rintro ⟨h, hq⟩
      refine ⟨h, ?_⟩
      simp only [Bool.true_and, Bool.not_eq_true', Bool.and_eq_false_iff, beq_eq_false_iff_ne, ne_eq]
      by_cases h1 : cfg.feedback.isSome = true
      · left; intro h2; exact hq ⟨h1, h2⟩
      · right; simpa using h1
  · intro c
    have := (senders_coords cfg me next).2.mem_iff (a := c)
    show c ∈ (senders cfg me next).map (·.coord) ↔ _
    rw [this]
    simp only [List.mem_map, List.mem_filter, Bool.and_eq_true, Bool.not_eq_true']
    constructor
    · rintro ⟨p, ⟨hp, h1, h2⟩, rfl⟩; exact ⟨p, hp, rfl, h1, h2⟩
    · rintro ⟨p, hp, rfl, h1, h2⟩; exact ⟨p, ⟨hp, h1, h2⟩, rfl⟩

/-- **C03 (forward), full strength.** On a non-fragile forward edge into a non-empty block the
    `End` (strategy `OnlyOne`) of ANY producer replica `f` passes its set-up assertion and delivers
    every data element to exactly one replica of the consumer block: the same-(host, replica) one
    when it exists (otherwise the single replica, or the fallback replica chosen by
    `build_execution_graph`). -/
theorem forward_same_index_single (from_ to : BlockInfo) (hoo : from_.onlyOne = true)
    (hne : to.replicas ≠ []) (f : Coord) (idx : Nat) :
    let cfg : Cfg := { strategy := .onlyOne }
    let st := setup cfg from_.id ((consumers from_ to false f).map (·, false))
    ∃ t ∈ to.replicas, (dataTargets st idx).map st.coordAt = [some t] ∧
      setupOk .onlyOne st.groups = true ∧ (partner to f ∈ to.replicas → t = partner to f) := by
  intro cfg st
  obtain ⟨t, ht, hc, hpt⟩ := forward_exactly_one_consumer from_ to hoo hne f
  refine ⟨t, ht, ?_, ?_, hpt⟩
  · have hs : st.senders = [⟨t, from_.id⟩] := by
      simp [st, setup, senders, getSenders, hc, cfg]
    have hg : st.groups = [[0]] := by
      simp [st, setup, senders, getSenders, hc, cfg, groups, blocksOf, indexesOf]
    simp [dataTargets, hg, State.coordAt, hs, Nat.mod_one]
  · have hg : st.groups = [[0]] := by
      simp [st, setup, senders, getSenders, hc, cfg, groups, blocksOf, indexesOf]
    simp [hg, setupOk]

/-- the former F4 witness seen from the router (4 producer replicas, 3 consumer replicas, one
    local host): the `End` of producer replica `(0,0,3)` now has the sender `(1,0,0)` and delivers
    to it (before commit 3deb123 it had no sender and dropped every element) -/
example :
    let from_ := blockInfo (.loc 4) ⟨0, .unlimited, true⟩
    let to := blockInfo (.loc 4) ⟨1, .limited 3, false⟩
    let cfg : Cfg := { strategy := .onlyOne }
    let st := setup cfg from_.id ((consumers from_ to false ⟨0, 0, 3⟩).map (·, false))
    st.senders = [⟨⟨1, 0, 0⟩, 0⟩] ∧
      (step cfg (fun (_ : Nat) => 0) 0 st (.item 42)).2 = [(0, .item 42)] := by
  intro from_ to cfg st
  have hc : consumers from_ to false ⟨0, 0, 3⟩ = [⟨1, 0, 0⟩] := by decide
  have hid : from_.id = 0 := rfl
  have hs : st.senders = [⟨⟨1, 0, 0⟩, 0⟩] := by
    simp [st, setup, senders, getSenders, hc, cfg, hid]
  have hg : st.groups = [[0]] := by
    simp [st, setup, senders, getSenders, hc, cfg, groups, blocksOf, indexesOf]
  refine ⟨hs, ?_⟩
  have hcl : st.closed = false := rfl
  have hp : st.panicked = false := rfl
  simp [step, hcl, hp, dataTargets, hg, Elem.isTerm, cfg, Strategy.index]

/-! ## Producers with several downstream blocks

  A block may have several next blocks (`split`, the iteration blocks, …): the `End` of a replica then
  holds the connections of all its outgoing job-graph edges, in whatever order `connect` made them.
  The `_single` statements above are the one-edge special cases. -/

/-- the connections of producer replica `f` of block `A` whose outgoing edges are `outs`
    (`(consumer block, fragile)`), edge after edge -/
def nextOf (A : BlockInfo) (outs : List (BlockInfo × Bool)) (f : Coord) : List (Coord × Bool) :=
  outs.flatMap fun o => (consumers A o.1 o.2 f).map (·, o.2)

theorem consumers_block (A T : BlockInfo) (fr : Bool) (f t : Coord)
    (h : t ∈ consumers A T fr f) : t.block = T.id := by
  have hsub : t ∈ T.replicas := by
    rw [consumers_eq] at h
    rcases List.mem_append.mp h with h | h
    · split at h
      · split at h
        · rename_i t' ht'
          simp at h; subst h
          exact List.mem_of_getElem? ht'
        · simp at h
      · simp at h
    · exact (List.mem_filter.mp h).1
  exact ((mem_replicas T t).mp hsub).1

theorem nextOf_blocks (A : BlockInfo) (f : Coord) : ∀ (outs : List (BlockInfo × Bool)),
    ∀ p ∈ nextOf A outs f, p.1.block ∈ outs.map (·.1.id) := by
  intro outs p hp
  simp only [nextOf, List.mem_flatMap, List.mem_map] at hp
  obtain ⟨o, ho, t, ht, rfl⟩ := hp
  exact List.mem_map.mpr ⟨o, ho, (consumers_block A o.1 o.2 f t ht).symm⟩

/-- among all the connections of the replica, those towards block `J` are exactly the consumers of
    the edge to `J` (edges lead to pairwise distinct blocks) -/
theorem nextOf_filter (A : BlockInfo) (f : Coord) (J : BlockInfo) (fr : Bool) :
    ∀ (outs : List (BlockInfo × Bool)), (J, fr) ∈ outs → (outs.map (·.1.id)).Nodup →
    (nextOf A outs f).filter (fun p => p.1.block == J.id) = (consumers A J fr f).map (·, fr) := by
  intro outs
  induction outs with
  | nil => intro h; simp at h
  | cons o os ih =>
    intro hmem hnd
    rw [List.map_cons, List.nodup_cons] at hnd
    have hsplit : nextOf A (o :: os) f = (consumers A o.1 o.2 f).map (·, o.2) ++ nextOf A os f := by
      simp [nextOf]
    rw [hsplit, List.filter_append]
    by_cases hid : o.1.id = J.id
    · have ho : o = (J, fr) := by
        rcases List.mem_cons.mp hmem with h | h
        · exact h.symm
        · exact absurd (List.mem_map.mpr ⟨(J, fr), h, hid.symm⟩) hnd.1
      subst ho
      have htail : (nextOf A os f).filter (fun p => p.1.block == J.id) = [] := by
        rw [List.filter_eq_nil_iff]
        intro p hp hb
        have := nextOf_blocks A f os p hp
        have hb' : p.1.block = J.id := by simpa using hb
        rw [hb'] at this
        exact hnd.1 this
      rw [htail, List.append_nil, List.filter_eq_self]
      intro p hp
      obtain ⟨t, ht, rfl⟩ := List.mem_map.mp hp
      simp [consumers_block A J fr f t ht]
    · have hhead : ((consumers A o.1 o.2 f).map (·, o.2)).filter (fun p => p.1.block == J.id) = [] := by
        rw [List.filter_eq_nil_iff]
        intro p hp hb
        obtain ⟨t, ht, rfl⟩ := List.mem_map.mp hp
        have := consumers_block A o.1 o.2 f t ht
        simp only [beq_iff_eq] at hb
        exact hid (this ▸ hb)
      have hmem' : (J, fr) ∈ os := by
        rcases List.mem_cons.mp hmem with h | h
        · exact absurd (by rw [← h]) hid
        · exact h
      rw [hhead, List.nil_append, ih hmem' hnd.2]

/-- **C03 (exactly one replica per downstream block, as coordinates).** For `OnlyOne`, `Random` and
    `GroupBy` the element is delivered, for every downstream block `b`, to
    `sorted senders towards b [index % #senders towards b]` (`targetIn`). -/
theorem data_target_per_block (cfg : Cfg) (hs : cfg.strategy ≠ .all) (me : Nat)
    (next : List (Coord × Bool)) (idx : Nat) :
    let st := setup cfg me next
    (dataTargets st idx).map st.coordAt =
      (blocksOf st.blocks).map (fun b => targetIn st.senders b idx) := by
  intro st
  rw [dataTargets_eq st cfg.strategy hs st.blocks (setup_groups cfg me next) idx, List.map_map]
  apply List.map_congr_left
  intro b hb
  exact pick_coord st.senders idx b ((mem_blocksOf b _).mp hb)

/-- **C03 (group-by, any number of downstream blocks).** On an all-to-all edge `A → J`, whatever
    other edges leave `A` and in whatever order the connections were made, the replica of `J` that
    receives a key depends only on the key's hash: it is `J.replicas[hash % #J.replicas]` — the
    same expression for every producer replica of every producer block. -/
theorem all_to_all_senders_coords (cfg : Cfg) (A : BlockInfo) (outs : List (BlockInfo × Bool))
    (J : BlockInfo) (hA : A.onlyOne = false) (hmem : (J, false) ∈ outs)
    (hids : (outs.map (·.1.id)).Nodup) (hi : cfg.ignore.contains J.id = false) (f : Coord)
    (hash : Nat) :
    let st := setup cfg A.id (nextOf A outs f)
    (sendersTo st.senders J.id).map (·.coord) = J.replicas ∧
    targetIn st.senders J.id hash = J.replicas[hash % J.replicas.length]? := by
  intro st
  have hcs : (sendersTo st.senders J.id).map (·.coord) = J.replicas := by
    apply sendersTo_coords cfg A.id (nextOf A outs f) J.id J.replicas _ hi (replicas_sorted J)
    rw [nextOf_filter A f J false outs hmem hids, consumers_non_forward A J f hA]
  refine ⟨hcs, ?_⟩
  unfold targetIn
  simp only [hcs]

/-- **C03 (equal keys of both join inputs meet), any number of downstream blocks.** Both inputs
    `L`, `R` of a hash-shipped join are connected all-to-all to the join block `J` (and possibly to
    other blocks); elements with equal key hash, from any replica of `L` and any replica of `R`, are
    delivered to the same replica of `J`. -/
theorem join_inputs_meet (cfgL cfgR : Cfg) (L R J : BlockInfo)
    (outsL outsR : List (BlockInfo × Bool))
    (hL : L.onlyOne = false) (hR : R.onlyOne = false)
    (hmL : (J, false) ∈ outsL) (hmR : (J, false) ∈ outsR)
    (hidL : (outsL.map (·.1.id)).Nodup) (hidR : (outsR.map (·.1.id)).Nodup)
    (hiL : cfgL.ignore.contains J.id = false) (hiR : cfgR.ignore.contains J.id = false)
    (fL fR : Coord) (hash : Nat) :
    targetIn (setup cfgL L.id (nextOf L outsL fL)).senders J.id hash =
      targetIn (setup cfgR R.id (nextOf R outsR fR)).senders J.id hash := by
  rw [(all_to_all_senders_coords cfgL L outsL J hL hmL hidL hiL fL hash).2,
    (all_to_all_senders_coords cfgR R outsR J hR hmR hidR hiR fR hash).2]

/-- **C03 (forward, any number of downstream blocks).** On a non-fragile forward edge `A → J`
    among the edges leaving `A`, every producer replica has exactly one sender towards `J` (so the
    `OnlyOne` assertion of `End` holds for that block) and every data element goes to that replica:
    the same-(host, replica) one when it exists. -/
theorem forward_same_index (cfg : Cfg) (A : BlockInfo) (outs : List (BlockInfo × Bool))
    (J : BlockInfo) (hoo : A.onlyOne = true) (hne : J.replicas ≠ []) (hmem : (J, false) ∈ outs)
    (hids : (outs.map (·.1.id)).Nodup) (hi : cfg.ignore.contains J.id = false) (f : Coord) :
    let st := setup cfg A.id (nextOf A outs f)
    ∃ t ∈ J.replicas, (sendersTo st.senders J.id).map (·.coord) = [t] ∧
      (∀ idx, targetIn st.senders J.id idx = some t) ∧
      (partner J f ∈ J.replicas → t = partner J f) := by
  intro st
  obtain ⟨t, ht, hc, hpt⟩ := forward_exactly_one_consumer A J hoo hne f
  have hcs : (sendersTo st.senders J.id).map (·.coord) = [t] := by
    apply sendersTo_coords cfg A.id (nextOf A outs f) J.id [t] _ hi (by simp)
    rw [nextOf_filter A f J false outs hmem hids, hc]
  refine ⟨t, ht, hcs, ?_, hpt⟩
  intro idx
  unfold targetIn
  simp [hcs, Nat.mod_one]

/-! ## RoutingEnd (`Stream::route`, route.rs): facts about `routeData`; the operator model, driver and
     harness of the `route` component belong to C09 (`Model/Route.lean`) -/

/-- **First matching route only.** If route `k` is the first whose filter accepts the item, the
    item is enqueued to exactly one sender, the `index`-th (sorted) sender towards route `k`'s block
    (`index = 0` for the `OnlyOne` strategy that `route()` uses), and to no sender of any other
    route — even if later routes accept it too. `none` = index panic (`index ≥ #replicas`; the code
    has no modulo here). -/
theorem route_first_match_only : ∀ (gs : List (List Nat)) (accept : List Bool) (index k : Nat)
    (g : List Nat), gs[k]? = some g → accept[k]? = some true →
    (∀ j, j < k → accept[j]? = some false) →
    routeData gs accept index = (g[index]?).map (fun i => [i]) := by
  intro gs
  induction gs with
  | nil => intro accept index k g hg; simp at hg
  | cons g0 gs ih =>
    intro accept index k g hg hk hbefore
    cases accept with
    | nil => simp at hk
    | cons a as =>
      cases k with
      | zero =>
        simp at hg hk; subst hg hk
        simp [routeData]
      | succ k =>
        have ha : a = false := by simpa using hbefore 0 (by omega)
        subst ha
        have := ih as index k g (by simpa using hg) (by simpa using hk)
          (fun j hj => by simpa using hbefore (j + 1) (by omega))
        simpa [routeData] using this

/-- **Unmatched elements are dropped.** An item accepted by no route is enqueued to nobody (and
    nothing fails). -/
theorem route_unmatched_dropped (gs : List (List Nat)) (accept : List Bool) (index : Nat)
    (h : ∀ a ∈ accept, a = false) : routeData gs accept index = some [] := by
  have : (gs.zip accept).find? (·.2) = none := by
    rw [List.find?_eq_none]
    intro p hp
    have := h p.2 (List.of_mem_zip hp).2
    simp [this]
  simp [routeData, this]

/-- three routes, the item is accepted by the 2nd and the 3rd: only the 2nd route's sender gets it -/
example : routeData [[0], [1, 2], [3]] [false, true, true] 0 = some [1] := by decide

/-! ## Non-vacuity -/

/-- a fragile connection is not a sender; the remaining one receives the element -/
example :
    let st := setup { strategy := .groupBy } 0 [(⟨3, 1, 0⟩, false), (⟨9, 0, 0⟩, true)]
    st.senders.map (·.coord) = [⟨3, 1, 0⟩] ∧ dataTargets st 7 = [0] := by
  simp [setup, senders, getSenders, groups, blocksOf, indexesOf, dataTargets]

/-- group selection on two downstream blocks (3 with two senders, 5 with one): hash 7 selects
    index `7 % 2 = 1` of block 3's group and the only sender of block 5 -/
example : dataTargets { senders := [], groups := groups .groupBy [3, 3, 5] } 7 = [1, 2] := by decide

end Noir.Router
