/-
  Props/C05Fold.lean — C05 / C06 obligations of the aggregating operators and of `reorder()`:
  a well-formed input stream `((item|ts|wm|flushBatch)* far)+ term` is mapped to a well-formed
  output stream, and the output is watermark-safe. (Registered under C05 / C06 by the coordinator;
  the C07 / C16 theorems proper are in Props/C07.lean and Props/C16Reorder.lean.)
-/
import NoirVerif.Lemmas.Fold
import NoirVerif.Lemmas.Reorder

namespace Noir.Fold
variable {α β : Type}

/-- **C05 (Fold preserves the stream grammar).** -/
theorem fold_preserves_grammar (f : β → α → β) (init : β) (es : List (Elem α))
    (h : grammarOk es = true) : grammarOk (run f init es) = true := by
  have key : ∀ (es : List (Elem α)) (st : State β) (b : Bool), st.done = false →
      (b = true → flush st = []) → grammarGo b es = true →
      grammarGo b (runFrom f init st es).2 = true := by
    intro es
    induction es with
    | nil => intro st b _ _ h; simp [grammarGo] at h
    | cons e es ih =>
      intro st b hd hfl h
      have hbody : isBody e = true → grammarGo b (runFrom f init st (e :: es)).2 = true := by
        intro hbe
        have hrest : grammarGo false es = true := by
          cases es with
          | nil => cases e <;> simp [grammarGo, isBody] at h hbe
          | cons e' es' => cases e <;> simp [grammarGo, isBody] at h hbe <;> exact h
        simp only [runFrom, step_body_out f init st e hbe, List.nil_append]
        exact grammarGo_mono _ b
          (ih _ false (step_body_done f init st e hbe hd) (fun h => by cases h) hrest)
      cases e with
      | term =>
        cases es with
        | nil =>
          have hb : b = true := by cases b <;> simp [grammarGo] at h ⊢
          simp [runFrom, step, hd, hfl hb, hb, grammarGo]
        | cons e' es' => simp [grammarGo] at h
      | far =>
        simp only [grammarGo] at h
        simp only [runFrom, step, hd, Bool.false_eq_true, if_false, List.append_assoc,
          List.singleton_append]
        rw [grammarGo_chunk_far _ _ b (flush_body st)]
        exact ih _ true rfl (fun _ => flush_afterFlush st false) h
      | item a => exact hbody rfl
      | ts a t => exact hbody rfl
      | wm t => exact hbody rfl
      | flushBatch => exact hbody rfl
  exact key es State.init false rfl (fun h => by cases h) h

/-- **C06 (Fold output is watermark-safe)** — for every input: per iteration the result comes
    first and the single (maximum) watermark after it. -/
theorem fold_output_wmsafe (f : β → α → β) (init : β) (es : List (Elem α)) :
    wmSafeOk (run f init es) = true := by
  have key : ∀ (es : List (Elem α)) (st : State β), wmSafeGo none (runFrom f init st es).2 = true := by
    intro es
    induction es with
    | nil => intro st; rfl
    | cons e es ih =>
      intro st
      by_cases hd : st.done = true
      · rw [runFrom_done f init _ st hd]; rfl
      · have hd' : st.done = false := by simpa using hd
        cases e with
        | far =>
          simp only [runFrom, step, hd', Bool.false_eq_true, if_false, List.append_assoc]
          rw [wmSafeGo_append, wmSafe_flush]
          simpa [wmSafeGo] using ih _
        | term =>
          simp only [runFrom, step, hd', Bool.false_eq_true, if_false, List.append_assoc]
          rw [wmSafeGo_append, wmSafe_flush, runFrom_done f init es _ rfl]
          simp [wmSafeGo]
        | item a => simpa [runFrom, step, hd'] using ih _
        | ts a t => simpa [runFrom, step, hd'] using ih _
        | wm t => simpa [runFrom, step, hd'] using ih _
        | flushBatch => simpa [runFrom, step, hd'] using ih _
  exact key es State.init

/-- **C06 (Fold preserves watermark safety)** — the form the composition argument uses. -/
theorem fold_preserves_wmsafe (f : β → α → β) (init : β) (es : List (Elem α))
    (_ : wmSafeOk es = true) : wmSafeOk (run f init es) = true :=
  fold_output_wmsafe f init es

end Noir.Fold

namespace Noir.KeyedFold
open Noir.Fold
variable {κ α β : Type} [DecidableEq κ]

/-- **C05 (KeyedFold preserves the stream grammar).** -/
theorem keyedFold_preserves_grammar (f : β → α → β) (init : β) (es : List (Elem (κ × α)))
    (h : grammarOk es = true) : grammarOk (run f init es) = true := by
  have key : ∀ (es : List (Elem (κ × α))) (st : State κ β) (b : Bool), st.done = false →
      (b = true → flush st = []) → grammarGo b es = true →
      grammarGo b (runFrom f init st es).2 = true := by
    intro es
    induction es with
    | nil => intro st b _ _ h; simp [grammarGo] at h
    | cons e es ih =>
      intro st b hd hfl h
      have hbody : isBody e = true → grammarGo b (runFrom f init st (e :: es)).2 = true := by
        intro hbe
        have hrest : grammarGo false es = true := by
          cases es with
          | nil => cases e <;> simp [grammarGo, isBody] at h hbe
          | cons e' es' => cases e <;> simp [grammarGo, isBody] at h hbe <;> exact h
        simp only [runFrom, step_body_out f init st e hbe, List.nil_append]
        exact grammarGo_mono _ b
          (ih _ false (step_body_done f init st e hbe hd) (fun h => by cases h) hrest)
      cases e with
      | term =>
        cases es with
        | nil =>
          have hb : b = true := by cases b <;> simp [grammarGo] at h ⊢
          simp [runFrom, step, hd, hfl hb, hb, grammarGo]
        | cons e' es' => simp [grammarGo] at h
      | far =>
        simp only [grammarGo] at h
        simp only [runFrom, step, hd, Bool.false_eq_true, if_false, List.append_assoc,
          List.singleton_append]
        rw [grammarGo_chunk_far _ _ b (flush_body st)]
        exact ih _ true rfl (fun _ => flush_afterFlush st false) h
      | item a => exact hbody rfl
      | ts a t => exact hbody rfl
      | wm t => exact hbody rfl
      | flushBatch => exact hbody rfl
  exact key es State.init false rfl (fun h => by cases h) h

/-- **C06 (KeyedFold output is watermark-safe)** — for every input. -/
theorem keyedFold_output_wmsafe (f : β → α → β) (init : β) (es : List (Elem (κ × α))) :
    wmSafeOk (run f init es) = true := by
  have key : ∀ (es : List (Elem (κ × α))) (st : State κ β),
      wmSafeGo none (runFrom f init st es).2 = true := by
    intro es
    induction es with
    | nil => intro st; rfl
    | cons e es ih =>
      intro st
      by_cases hd : st.done = true
      · rw [runFrom_done f init _ st hd]; rfl
      · have hd' : st.done = false := by simpa using hd
        cases e with
        | far =>
          simp only [runFrom, step, hd', Bool.false_eq_true, if_false, List.append_assoc]
          rw [wmSafeGo_append, wmSafe_flush]
          simpa [wmSafeGo] using ih _
        | term =>
          simp only [runFrom, step, hd', Bool.false_eq_true, if_false, List.append_assoc]
          rw [wmSafeGo_append, wmSafe_flush, runFrom_done f init es _ rfl]
          simp [wmSafeGo]
        | item a => simpa [runFrom, step, hd'] using ih _
        | ts a t => simpa [runFrom, step, hd'] using ih _
        | wm t => simpa [runFrom, step, hd'] using ih _
        | flushBatch => simpa [runFrom, step, hd'] using ih _
  exact key es State.init

/-- **C06 (KeyedFold preserves watermark safety).** -/
theorem keyedFold_preserves_wmsafe (f : β → α → β) (init : β) (es : List (Elem (κ × α)))
    (_ : wmSafeOk es = true) : wmSafeOk (run f init es) = true :=
  keyedFold_output_wmsafe f init es

end Noir.KeyedFold

namespace Noir.Reorder
open Noir.Fold (Body isBody)
variable {α : Type}

/-- **C05 (reorder preserves the stream grammar).** -/
theorem reorder_preserves_grammar (es : List (Elem α)) (h : grammarOk es = true) :
    grammarOk (run es) = true := by
  have key : ∀ (es : List (Elem α)) (buf : List (TItem α)) (b : Bool),
      grammarGo b es = true → grammarGo b (runFrom buf es).2 = true := by
    intro es
    induction es with
    | nil => intro buf b h; simp [grammarGo] at h
    | cons e es ih =>
      intro buf b h
      -- a body element in front: the rest is non-empty and accepted with flag `false`
      have hbody : isBody e = true → ∀ (chunk : List (Elem α)) (buf' : List (TItem α)),
          (∀ c ∈ chunk, isBody c = true) → grammarGo b (chunk ++ (runFrom buf' es).2) = true := by
        intro hbe chunk buf' hchunk
        have hrest : grammarGo false es = true := by
          cases es with
          | nil => cases e <;> simp [grammarGo, isBody] at h hbe
          | cons e' es' => cases e <;> simp [grammarGo, isBody] at h hbe <;> exact h
        have h1 := ih buf' false hrest
        by_cases hc : chunk = []
        · subst hc; exact grammarGo_mono _ b h1
        · rw [grammarGo_body_append chunk _ b hchunk hc]; exact h1
      cases e with
      | term =>
        cases es with
        | nil => simpa [runFrom, step] using h
        | cons e' es' => simp [grammarGo] at h
      | far =>
        simp only [grammarGo] at h
        simp only [runFrom, step, List.append_assoc, List.singleton_append]
        rw [grammarGo_chunk_far _ _ b (by intro c hc; obtain ⟨x, _, rfl⟩ := List.mem_map.mp hc; rfl)]
        exact ih [] true h
      | item a => simpa [runFrom, step] using hbody rfl [.item a] buf (by simp [isBody])
      | flushBatch => simpa [runFrom, step] using hbody rfl [.flushBatch] buf (by simp [isBody])
      | ts a t => simpa [runFrom, step] using hbody rfl [] (buf ++ [(a, t)]) (by simp)
      | wm w =>
        have := hbody rfl (((sort buf).takeWhile (fun x => decide (x.2 ≤ w))).map emit ++ [.wm w])
          ((sort buf).dropWhile (fun x => decide (x.2 ≤ w))) (by
            intro c hc
            rcases List.mem_append.mp hc with hc | hc
            · obtain ⟨x, _, rfl⟩ := List.mem_map.mp hc; rfl
            · simp at hc; subst hc; rfl)
        simpa [runFrom, step] using this
  exact key es [] false h

end Noir.Reorder
