/-
C05 — "the built-in stateful operators (… joins …) output all results of an iteration before forwarding
its FlushAndRestart and carry nothing over into the next iteration": the join instances.

The operator-level facts are proved in `Props/C08.lean` / `Props/C08Interval.lean` together with the
relational content of the joins; here they are stated in the shape C05 asks for, for the three local join
operators (`JoinLocalHash`, `JoinLocalSortMerge`, `IntervalJoin`).  Correspondence: components `hjoin`
(hash + sort-merge, 2-3 iterations per case, later iterations built to be sensitive to state left over
from the previous one) and `ivjoin`.
-/
import NoirVerif.Props.C08
import NoirVerif.Props.C08Interval
namespace Noir.Join
variable {α β κ : Type} [DecidableEq κ]

/-- **C05 (hash join).** For every iteration (any interleaving of the two sides and their end markers)
    fed to the operator in its initial state: all join results are emitted before the `FlushAndRestart`
    (the output is `results ++ [far]`), no panic branch is hit, and the state after the
    `FlushAndRestart` is the *initial* state again — so, by induction on the number of iterations, every
    iteration is joined as if it were the first. -/
theorem hashJoin_iteration_isolated (v : Variant) (kl : α → κ) (kr : β → κ) (L : List α) (R : List β)
    (tr : List (Bin α β))
    (h : Interleave (L.map Bin.left ++ [Bin.leftEnd]) (R.map Bin.right ++ [Bin.rightEnd]) tr) :
    let es := tr.map Elem.item ++ [Elem.far]
    HashJoin.runElems v kl kr HashJoin.State.init es = (HashJoin.run v kl kr tr).map Elem.item ++ [Elem.far]
      ∧ HashJoin.anyPanic v kl kr HashJoin.State.init es = false
      ∧ HashJoin.stateAfter v kl kr HashJoin.State.init es = HashJoin.State.init := by
  obtain ⟨a, _, c, d⟩ := hashJoin_iteration v kl kr L R tr h
  exact ⟨a, c, d⟩

/-- **C05 (sort-merge join).** Same for `JoinLocalSortMerge`: after any iteration the `assert!`s of the
    `FlushAndRestart` arm hold and `FlushAndRestart` restores the initial state — in particular
    `last_left_key` is `None` again, whichever branch of the merge ended the iteration. -/
theorem sortMergeJoin_iteration_isolated (v : Variant) (kl : α → Int) (kr : β → Int) (L : List α) (R : List β)
    (tr : List (Bin α β))
    (h : Interleave (L.map Bin.left ++ [Bin.leftEnd]) (R.map Bin.right ++ [Bin.rightEnd]) tr) :
    SortMerge.farOk (SortMerge.stateAfterBin v kl kr SortMerge.State.init tr) = true
      ∧ SortMerge.far (SortMerge.stateAfterBin v kl kr SortMerge.State.init tr) = SortMerge.State.init :=
  (sortMergeJoin_correct v kl kr L R tr h).2

/-- The reset is not vacuous: in the middle of the iteration of the example in `Props/C08.lean`
    `last_left_key` is set (the left side ended first), and `far` clears it. -/
example :
    let s := SortMerge.stateAfterBin .outer (fun x : Int × Nat => x.1) (fun x : Int × Nat => x.1) SortMerge.State.init
      [.left (1, 20), .right (1, 10), .left (2, 21), .leftEnd, .right (3, 11), .right (1, 12), .rightEnd]
    s.lastLeftKey ≠ none ∧ SortMerge.far s = SortMerge.State.init := by
  decide

end Noir.Join
