/-
  Props/C16SeqPath.lean — C16, first half: along a path on which producer and consumer both
  have a single replica, elements are delivered in the order they were produced, for every
  batch mode.

  The path is the composition `chain → Batcher → link → Start(batch_iter)`:
  * the producer's `End` drives one batcher (`Noir.Batcher.opsOfElem`, Model/Batcher.lean);
  * the link delivers the batches of one producer to one consumer in sending order
    (`Noir.Link.link_exact_at_quiescence`, Props/C02.lean — per (producer, consumer) pair the
    delivered sequence is the sent sequence);
  * the consumer's `Start` consumes each batch in order (`Noir.Start`, Model/Start.lean).
-/
import NoirVerif.Lemmas.StartGrammar
import NoirVerif.Props.C02
namespace Noir.Start
open Noir.StartSpec

variable {α : Type}

/-- the data elements of one step's output: the element itself if it is data, nothing otherwise -/
theorem step_data (s : State) (hT : s.missingTerm ≠ 0) (r : Nat) (e : Elem α) :
    (step s (.elem r e)).2.filter Elem.isData = if e.isData then [e] else [] := by
  cases e with
  | item a => simp only [step, hT, if_false]; cases s.pending <;> simp [Elem.isData]
  | ts a t => simp only [step, hT, if_false]; cases s.pending <;> simp [Elem.isData]
  | flushBatch => simp only [step, hT, if_false]; cases s.pending <;> simp [Elem.isData]
  | wm t =>
    simp only [step, hT, if_false, Elem.isData]
    rcases hu : s.frontier.update r t with ⟨f, o⟩
    cases o <;> simp [Elem.isData]
  | far =>
    simp only [step, hT, if_false, Elem.isData, afterCounters]
    by_cases h1 : s.missingFar - 1 = 0 <;> simp [h1, hT, Elem.isData]
  | term =>
    simp only [step, hT, if_false, Elem.isData, afterCounters]
    by_cases h1 : s.missingTerm - 1 = 0 <;> by_cases h2 : s.missingFar = 0 <;> simp [h1, h2, Elem.isData]

theorem start_data_order_from (as : List (Arrival α)) : ∀ (s : State) (sp : InSt),
    Inv s sp → s.missingTerm ≠ 0 → inputOkFrom sp (elemsOf as) = true →
    (outs s as).filter Elem.isData = ((elemsOf as).map (·.2)).filter Elem.isData := by
  induction as with
  | nil => intro s sp _ _ _; simp [outs, runFrom, elemsOf]
  | cons a as ih =>
    intro s sp inv hT hin
    rw [outs_cons, List.filter_append]
    cases a with
    | timeout =>
      obtain ⟨inv', hT', pre0, hout, hpre0⟩ := inv_timeout (α := α) inv hT
      have hnd : (step s (Arrival.timeout : Arrival α)).2.filter Elem.isData = [] := by
        rw [hout]; rcases hpre0 with h | ⟨p, h⟩ <;> subst h <;> simp [Elem.isData]
      rw [hnd]
      simp only [List.nil_append, elemsOf]
      exact ih _ sp inv' hT' (by simpa [elemsOf] using hin)
    | elem r e =>
      simp only [elemsOf, inputOkFrom] at hin
      cases hs : inStep sp r e with
      | none => rw [hs] at hin; cases hin
      | some sp' =>
        rw [hs] at hin
        rw [step_data s hT r e]
        simp only [elemsOf, List.map_cons, List.filter_cons]
        obtain ⟨_, _, hcase⟩ := step_facts inv hT hs
        rcases hcase with ⟨hlive, inv', _⟩ | ⟨hdead, _, hcomp, _⟩
        · rw [ih _ sp' inv' hlive hin]
          cases e.isData <;> simp
        · -- the Start terminated: every replica has terminated, so no further arrival is valid
          rw [outs_terminated _ hdead]
          have hrest : elemsOf as = [] := by
            cases hel : elemsOf as with
            | nil => rfl
            | cons x xs =>
              rw [hel] at hin
              obtain ⟨r', e'⟩ := x
              simp only [inputOkFrom, complete_inStep_none hcomp r' e'] at hin
              cases hin
          rw [hrest]
          cases e.isData <;> simp

/-- **C16 (a block input preserves arrival order).** For every number of upstream replicas and
    every contract-respecting arrival sequence, the data elements leave `Start` exactly in the
    order in which they arrived (nothing lost, duplicated or reordered). -/
theorem start_data_order (n : Nat) (hn : 1 ≤ n) (as : List (Arrival α))
    (hin : inputOk n (elemsOf as) = true) :
    (run n as).filter Elem.isData = ((elemsOf as).map (·.2)).filter Elem.isData := by
  unfold run
  rw [runFrom_map_snd]
  exact start_data_order_from as (init n) (InSt.init n) (inv_init n hn) (by simp [init]; omega) hin

end Noir.Start

namespace Noir.SeqPath
open Noir Noir.Batcher

variable {α : Type}

/-- the batcher calls `End` makes for a whole script, with an arbitrary clock (`elapsed` flags) -/
def opsOfScript : List Bool → List (Elem α) → List (Op (Elem α))
  | _, [] => []
  | [], e :: es => opsOfElem false e ++ opsOfScript [] es
  | b :: bs, e :: es => opsOfElem b e ++ opsOfScript bs es

def notFlushBatch : Elem α → Bool
  | .flushBatch => false
  | _ => true

theorem enqueued_append (a b : List (Op α)) : enqueued (a ++ b) = enqueued a ++ enqueued b := by
  induction a with
  | nil => rfl
  | cons x xs ih => cases x <;> simp [enqueued, ih]

theorem enqueued_opsOfElem (b : Bool) (e : Elem α) :
    enqueued (opsOfElem b e) = if notFlushBatch e then [e] else [] := by
  cases e <;> simp [opsOfElem, enqueued, notFlushBatch]

theorem enqueued_opsOfScript (bs : List Bool) (es : List (Elem α)) :
    enqueued (opsOfScript bs es) = es.filter notFlushBatch := by
  induction es generalizing bs with
  | nil => cases bs <;> rfl
  | cons e es ih =>
    cases bs with
    | nil =>
      simp only [opsOfScript, enqueued_append, enqueued_opsOfElem, ih, List.filter_cons]
      cases notFlushBatch e <;> simp
    | cons b bs =>
      simp only [opsOfScript, enqueued_append, enqueued_opsOfElem, ih, List.filter_cons]
      cases notFlushBatch e <;> simp

theorem opsOfScript_snoc_term (bs : List Bool) (es : List (Elem α)) :
    ∃ ops, opsOfScript bs (es ++ [Elem.term]) = ops ++ [.end_] := by
  induction es generalizing bs with
  | nil =>
    cases bs with
    | nil => exact ⟨[.enqueue .term false], by simp [opsOfScript, opsOfElem]⟩
    | cons b bs => exact ⟨[.enqueue .term b], by cases bs <;> simp [opsOfScript, opsOfElem]⟩
  | cons e es ih =>
    cases bs with
    | nil =>
      obtain ⟨ops, h⟩ := ih []
      exact ⟨opsOfElem false e ++ ops, by simp [opsOfScript, h]⟩
    | cons b bs =>
      obtain ⟨ops, h⟩ := ih bs
      exact ⟨opsOfElem b e ++ ops, by simp [opsOfScript, h]⟩

/-- **C16 (what crosses a single-producer link is what the chain produced).** For every batch
    mode and every behaviour of the batcher's clock, the concatenation of the batches sent for a
    stream that ends with `Terminate` is exactly the stream (minus the `FlushBatch` hints, which are
    never sent), in order. -/
theorem batches_flatten_eq_script (m : Mode) (bs : List Bool) (es : List (Elem α)) :
    (run m [] (opsOfScript bs (es ++ [Elem.term]))).2.flatten = (es ++ [Elem.term]).filter notFlushBatch := by
  obtain ⟨ops, h⟩ := opsOfScript_snoc_term bs es
  have := (batcher_flush_complete m ops .end_ (Or.inr rfl)).2
  rw [← h] at this
  rw [this]
  have h2 := enqueued_opsOfScript bs (es ++ [Elem.term])
  rw [h, enqueued_append] at h2
  simp only [enqueued, List.append_nil] at h2
  exact h2

/-- **C16 (sequential path identity).** Single producer replica, single consumer replica: for
    every batch mode, every clock behaviour and every stream `es ++ [Terminate]` produced by the
    upstream chain whose element sequence respects the contract, the data elements observed after
    the consumer's `Start` are exactly the data elements produced, in the same order. (The link
    between the two is order- and content-preserving per producer/consumer pair by
    `Noir.Link.link_exact_at_quiescence`; here the batches are handed over in sending order.) -/
theorem seq_path_identity (m : Mode) (bs : List Bool) (es : List (Elem α))
    (hin : Noir.StartSpec.inputOk 1 (((es ++ [Elem.term]).filter notFlushBatch).map (fun e => (0, e))) = true) :
    let batches := (run m [] (opsOfScript bs (es ++ [Elem.term]))).2
    let arrivals := batches.flatten.map (fun e => Noir.Start.Arrival.elem 0 e)
    (Noir.Start.run 1 arrivals).filter Elem.isData = es.filter Elem.isData := by
  intro batches arrivals
  have hb : batches.flatten = (es ++ [Elem.term]).filter notFlushBatch := batches_flatten_eq_script m bs es
  have hel : Noir.Start.elemsOf arrivals = (batches.flatten).map (fun e => (0, e)) := by
    show Noir.Start.elemsOf (batches.flatten.map _) = _
    generalize batches.flatten = l
    induction l with
    | nil => rfl
    | cons x xs ih => simp [Noir.Start.elemsOf, ih]
  have := Noir.Start.start_data_order 1 (by omega) arrivals (by rw [hel, hb]; exact hin)
  rw [this, hel, hb]
  simp only [List.map_map, List.filter_append]
  have hdata : ∀ l : List (Elem α),
      (List.map ((fun x => x.2) ∘ fun e => ((0 : Nat), e)) (l.filter notFlushBatch)).filter Elem.isData
        = l.filter Elem.isData := by
    intro l
    induction l with
    | nil => rfl
    | cons x xs ih => cases x <;> simp [notFlushBatch, Elem.isData, List.filter_cons] at ih ⊢ <;> exact ih
  have := hdata (es ++ [Elem.term])
  simp only [List.filter_append] at this
  rw [this]
  simp [Elem.isData]

/-- Non-vacuity: `Fixed 2`, items 1 2 3 then FAR, TERM: batches [1,2] [3,FAR] [TERM]. -/
example :
    let es : List (Elem Nat) := [.item 1, .item 2, .item 3, .far]
    Noir.StartSpec.inputOk 1 (((es ++ [Elem.term]).filter notFlushBatch).map (fun e => (0, e))) = true ∧
    (run (.fixed 2) [] (opsOfScript [] (es ++ [Elem.term]))).2 = [[.item 1, .item 2], [.item 3, .far], [.term]] := by
  decide

end Noir.SeqPath
