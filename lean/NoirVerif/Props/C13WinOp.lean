/-
  Props/C13WinOp.lean — C13 (event-time windows), lifted from ONE manager to the KEYED
  `WindowOperator` with interleaved keys: "a tumbling window assigns every element that is not late
  with respect to the watermark to exactly one result (a sliding window to at least one and at most
  ceil(size/slide))".

  Props/C13.lean proves this (`etwin_tumbling_exactly_one`, `etwin_sliding_cover`) for one manager
  started from its initial state and fed one iteration. Here: for the operator
  (Model/WindowOp.lean instantiated with `EventTimeWindow.mgr`), any number of keys and
  iterations. Ingredients (Lemmas/WindowOp.lean):

  * `winop_keys_independent` — the results carrying key `k` are those of the solo instance of `k`
    (one manager, re-created from `init` after having been recycled) fed `proj k es`;
  * the solo instance is NOT a single manager run: `recycle` (event_time.rs:113-115) holds whenever
    a control element leaves the manager without open slot — always after `FlushAndRestart` /
    `Terminate`, and after a `Watermark` that closes every window — and the next data element of
    the key is processed by a fresh manager (`last_watermark = None`, no slot, windows re-anchored
    at that element's timestamp). The single-manager proofs are redone along the solo run
    (`solo_conserve`, `solo_multi`) from the same one-step lemmas; what has to be re-checked:
      - "started from the initial state": `Inv` and `Covers` hold for `State.init`, so they hold
        again after every re-creation (`solo_inv_step`, `covers_init`);
      - "watermark state": the single-manager theorems need `Guarded` — every arrival is later
        than the MANAGER's `last_watermark` and watermarks do not go back. A fresh manager has
        forgotten the watermarks of its iteration; the invariant `LwLink` (a manager's
        `last_watermark` is `None` or equals the last watermark of the stream's current
        iteration) shows that watermark safety of the operator's input implies `Guarded` for every
        incarnation.

  ASSUMPTIONS of the lifted theorems: `0 < size`, `slide = size` (resp. `0 < slide ≤ size`);
  the keyed input of the operator is watermark-safe (`wmSafeOk es`: within an iteration no data
  element is stamped at or before an earlier watermark and watermarks strictly increase; the
  watermark is forgotten at `FlushAndRestart` — the contract C06 establishes upstream); nothing
  else — in particular no assumption on the number/interleaving of keys, on the iterations, or on
  where managers are recycled. The `…_open` forms hold for every input (prefix); the main forms
  assume that the input ends with `FlushAndRestart` or `Terminate` (`Ended`), so that nothing is
  still held in an open window.
-/
import NoirVerif.Lemmas.WindowOp
namespace Noir.EventTimeWindow
open Noir.WindowOp

variable {α κ : Type}

/-- the arrivals (payload, timestamp) inside the results carrying key `k`, in output order -/
def opItems [DecidableEq κ] (k : κ) (out : List (Elem (κ × List (α × Int)))) : List (α × Int) :=
  outItems (out.filterMap (keyOut k))

/-- the arrivals of key `k` still held in open windows after the operator consumed `es` -/
def opHeld [DecidableEq κ] (c : Cfg) (k : κ) (es : List (Elem (κ × α))) : List (α × Int) :=
  held (eff (find k (WindowOp.stateAfter (mgr c) WindowOp.State.init es).windows)).ws

/-- the input ends with `FlushAndRestart` or `Terminate` -/
def Ended (es : List (Elem (κ × α))) : Prop := ∃ es', es = es' ++ [.far] ∨ es = es' ++ [.term]

/-- conservation for the operator, per key: emitted + held = assigned (for any input) -/
theorem etwin_op_conserve [DecidableEq κ] (c : Cfg) (hS : 0 < c.slide) (es : List (Elem (κ × α))) (k : κ) :
    (opItems k (WindowOp.run (mgr c) es) ++ opHeld c k es).Perm (soloAssigned c none (proj k es)) := by
  unfold opItems opHeld
  rw [winop_keys_independent, winop_state_independent]
  have := solo_conserve c hS (proj k es) none (inv_init c _)
  simpa [eff, held, State.init] using this

/-- after `FlushAndRestart`/`Terminate` the operator holds nothing -/
theorem opHeld_ended [DecidableEq κ] (c : Cfg) (es : List (Elem (κ × α))) (k : κ) (h : Ended es) :
    opHeld c k es = [] := by
  obtain ⟨es', h | h⟩ := h
  · subst h
    unfold opHeld
    rw [WindowOp.stateAfter_append]
    simp only [WindowOp.stateAfter]
    rw [(etwin_resets c _).1]; rfl
  · subst h
    unfold opHeld
    rw [WindowOp.stateAfter_append]
    simp only [WindowOp.stateAfter]
    rw [(etwin_resets c _).2]; rfl

/-- **C13 (tumbling: exactly one; keyed operator, any prefix).** For a tumbling window and any
    watermark-safe keyed input with interleaved keys: for every key `k`, the arrivals inside the
    results carrying `k`, together with those still held in `k`'s open windows, are a permutation
    of `k`'s arrivals — every arrival of every key is in exactly one result or still waiting in
    exactly one open window; none is lost or duplicated, whatever the interleaving, the arrival
    order, the placement of the watermarks and the recycling of managers. -/
theorem etwin_op_tumbling_exactly_one_open [DecidableEq κ] (c : Cfg) (hN : 0 < c.size) (hT : c.slide = c.size)
    (es : List (Elem (κ × α))) (hw : wmSafeOk es = true) (k : κ) :
    (opItems k (WindowOp.run (mgr c) es) ++ opHeld c k es).Perm (dataOf (proj k es)) := by
  have hS : 0 < c.slide := by omega
  have hm := solo_multi c hS (by omega) 1 (fun t ws h1 h2 => hits_le_one c hT t ws h1 h2)
    (proj k es) none none (inv_init c _) (covers_init c) (lwLink_init none) (wmSafe_proj k es none hw)
  rw [← multi_one _ _ hm]
  exact etwin_op_conserve c hS es k

/-- **C13 (tumbling: exactly one; keyed operator).** For a tumbling window and any watermark-safe
    keyed input that ends with `FlushAndRestart`/`Terminate`: for every key `k`, the arrivals
    inside the results carrying `k` are a permutation of `k`'s arrivals — every (non-late) arrival
    of ANY key is in exactly one result of the operator's output. (Together with
    `etwin_op_one_key_one_interval`: and in no result of another key.) -/
theorem etwin_op_tumbling_exactly_one [DecidableEq κ] (c : Cfg) (hN : 0 < c.size) (hT : c.slide = c.size)
    (es : List (Elem (κ × α))) (hw : wmSafeOk es = true) (hend : Ended es) (k : κ) :
    (opItems k (WindowOp.run (mgr c) es)).Perm (dataOf (proj k es)) := by
  have := etwin_op_tumbling_exactly_one_open c hN hT es hw k
  rwa [opHeld_ended c es k hend, List.append_nil] at this

/-- **C13 (sliding: between 1 and ⌈size/slide⌉; keyed operator, any prefix).** -/
theorem etwin_op_sliding_cover_open [DecidableEq κ] (c : Cfg) (hS : 0 < c.slide) (hSN : c.slide ≤ c.size)
    (es : List (Elem (κ × α))) (hw : wmSafeOk es = true) (k : κ) :
    ∃ as, (opItems k (WindowOp.run (mgr c) es) ++ opHeld c k es).Perm as ∧
      Multi 1 (ceilSlots c) (dataOf (proj k es)) as :=
  ⟨soloAssigned c none (proj k es), etwin_op_conserve c hS es k,
    solo_multi c hS hSN (ceilSlots c) (fun t ws h1 h2 => hits_le_ceilSlots c hS (by omega) t ws h1 h2)
      (proj k es) none none (inv_init c _) (covers_init c) (lwLink_init none) (wmSafe_proj k es none hw)⟩

/-- **C13 (sliding: between 1 and ⌈size/slide⌉; keyed operator).** For `slide ≤ size` and any
    watermark-safe keyed input that ends with `FlushAndRestart`/`Terminate`: for every key `k`,
    the arrivals inside the results carrying `k` are `k`'s arrivals, each repeated at least once
    and at most `⌈size/slide⌉` times. -/
theorem etwin_op_sliding_cover [DecidableEq κ] (c : Cfg) (hS : 0 < c.slide) (hSN : c.slide ≤ c.size)
    (es : List (Elem (κ × α))) (hw : wmSafeOk es = true) (hend : Ended es) (k : κ) :
    ∃ as, (opItems k (WindowOp.run (mgr c) es)).Perm as ∧
      Multi 1 (ceilSlots c) (dataOf (proj k es)) as := by
  obtain ⟨as, h1, h2⟩ := etwin_op_sliding_cover_open c hS hSN es hw k
  rw [opHeld_ended c es k hend, List.append_nil] at h1
  exact ⟨as, h1, h2⟩

/-- **C13 (no duplicates, at most ⌈size/slide⌉; keyed operator, unconditional).** For ANY keyed
    input (late elements included) that ends with `FlushAndRestart`/`Terminate`: the arrivals
    inside the results carrying `k` are arrivals of `k`, each at most `⌈size/slide⌉` times — at
    most once for a tumbling window. -/
theorem etwin_op_no_dup [DecidableEq κ] (c : Cfg) (hS : 0 < c.slide) (hN : 0 < c.size)
    (es : List (Elem (κ × α))) (hend : Ended es) (k : κ) :
    ∃ as, (opItems k (WindowOp.run (mgr c) es)).Perm as ∧
      Multi 0 (ceilSlots c) (dataOf (proj k es)) as ∧
      (c.slide = c.size → Multi 0 1 (dataOf (proj k es)) as) := by
  have h1 := etwin_op_conserve c hS es k
  rw [opHeld_ended c es k hend, List.append_nil] at h1
  exact ⟨_, h1,
    solo_multi0 c hS (ceilSlots c) (fun t ws h1 h2 => hits_le_ceilSlots c hS hN t ws h1 h2) _ none (inv_init c _),
    fun hT => solo_multi0 c hS 1 (fun t ws h1 h2 => hits_le_one c hT t ws h1 h2) _ none (inv_init c _)⟩

/-- `proj k es` contains exactly the timestamped arrivals of key `k` -/
theorem dataOf_proj [DecidableEq κ] (es : List (Elem (κ × α))) (k : κ) (x : α) (t : Int) :
    (x, t) ∈ dataOf (proj k es) ↔ Elem.ts (k, x) t ∈ es := by
  induction es with
  | nil => simp [proj, dataOf]
  | cons e es ih =>
    cases e with
    | item p =>
      obtain ⟨k', y⟩ := p
      by_cases hk : k' = k <;> simp [proj, projElem, hk, dataOf] <;> simpa [proj] using ih
    | ts p t' =>
      obtain ⟨k', y⟩ := p
      by_cases hk : k' = k
      · subst hk
        simp only [proj, List.filterMap_cons, projElem, if_true, dataOf, List.mem_cons, Prod.mk.injEq,
          Elem.ts.injEq, true_and]
        simp only [proj] at ih; rw [ih]
      · have : ¬ (k = k') := fun h => hk h.symm
        simp only [proj, List.filterMap_cons, projElem, hk, if_false, List.mem_cons, Elem.ts.injEq,
          Prod.mk.injEq, this, false_and, false_or]
        simpa [proj] using ih
    | flushBatch =>
      simp only [proj, List.filterMap_cons, projElem, List.mem_cons, reduceCtorEq, false_or]
      simpa [proj] using ih
    | wm w =>
      simp only [proj, List.filterMap_cons, projElem, dataOf, List.mem_cons, reduceCtorEq, false_or]
      simpa [proj] using ih
    | far =>
      simp only [proj, List.filterMap_cons, projElem, dataOf, List.mem_cons, reduceCtorEq, false_or]
      simpa [proj] using ih
    | term =>
      simp only [proj, List.filterMap_cons, projElem, dataOf, List.mem_cons, reduceCtorEq, false_or]
      simpa [proj] using ih

/-- Non-vacuity: two interleaved keys, two iterations, tumbling(10). `Watermark(13)` closes the
    only window of key 0, whose manager is dropped (`find 0 … = none`) while key 1's stays; key 0's
    next arrivals (14, 25) are handled by a fresh manager anchored at 14. Every arrival is in
    exactly one result of its key. -/
example :
    let es : List (Elem (Nat × Nat)) :=
      [.ts (0, 1) 3, .ts (1, 2) 9, .wm 13, .ts (0, 3) 14, .ts (1, 4) 14, .ts (0, 5) 25, .wm 14, .far,
       .ts (0, 6) 2, .ts (1, 7) 1, .wm 11, .far, .term]
    wmSafeOk es = true ∧
    WindowOp.run (mgr ⟨10, 10⟩) es =
      [.ts (0, [(1, 3)]) 13, .wm 13, .wm 14, .ts (1, [(2, 9), (4, 14)]) 19, .ts (0, [(3, 14)]) 24,
       .ts (0, [(5, 25)]) 34, .far, .ts (1, [(7, 1)]) 11, .wm 11, .ts (0, [(6, 2)]) 12, .far, .term] ∧
    find 0 (WindowOp.stateAfter (mgr (α := Nat) ⟨10, 10⟩) WindowOp.State.init (es.take 3)).windows = none ∧
    (find 1 (WindowOp.stateAfter (mgr (α := Nat) ⟨10, 10⟩) WindowOp.State.init (es.take 3)).windows).isSome = true ∧
    opItems 0 (WindowOp.run (mgr ⟨10, 10⟩) es) = [(1, 3), (3, 14), (5, 25), (6, 2)] ∧
    dataOf (proj 0 es) = [(1, 3), (3, 14), (5, 25), (6, 2)] ∧
    opItems 1 (WindowOp.run (mgr ⟨10, 10⟩) es) = [(2, 9), (4, 14), (7, 1)] ∧
    dataOf (proj 1 es) = [(2, 9), (4, 14), (7, 1)] := by
  decide

/-- Non-vacuity, sliding(10, 5) on the same input: key 1's arrival (4, 14) is in two results
    (`⌈10/5⌉ = 2`), key 0's arrival (3, 14) — the first of a re-created manager — in one. -/
example :
    let es : List (Elem (Nat × Nat)) :=
      [.ts (0, 1) 3, .ts (1, 2) 9, .wm 13, .ts (0, 3) 14, .ts (1, 4) 14, .ts (0, 5) 25, .wm 14, .far, .term]
    wmSafeOk es = true ∧ ceilSlots ⟨10, 5⟩ = 2 ∧
    opItems 0 (WindowOp.run (mgr ⟨10, 5⟩) es) = [(1, 3), (3, 14), (5, 25), (5, 25)] ∧
    opItems 1 (WindowOp.run (mgr ⟨10, 5⟩) es) = [(2, 9), (4, 14), (4, 14)] := by
  decide

end Noir.EventTimeWindow
