/-
  Props/C15.lean — property theorems for C15 (parallel sources split their input exactly once).
  Models: Model/Range.lean (`generate_iterator` of integer ranges, `IteratorSource`), Model/FileSplit.lean
  (`FileSource::setup/next`), Model/CsvSplit.lean (`CsvSource::setup` range alignment).
  Helper lemmas: Lemmas/Range.lean, Lemmas/FileSplit.lean, Lemmas/CsvSplit.lean.
-/
import NoirVerif.Lemmas.Range
import NoirVerif.Lemmas.FileSplit
import NoirVerif.Lemmas.CsvSplit

/-! ## Integer ranges (`ParallelIteratorSource` over `Range<T>`) -/
namespace Noir.Range

/-- `x` is a value of type `t`. -/
def Ty.Holds (t : Ty) (x : Int) : Prop := t.lo ≤ x ∧ x ≤ t.hi

/-- **Forward ranges, the nine macro types** (u8 u16 u32 usize i8 i16 i32 i64 isize;
    parallel_iterator.rs:44-78). For every range `s ≤ e` of the type — of *any* size — and every replica
    count `1 ≤ p` (a `u64`): no replica panics, the chunks of replicas `0..p-1` concatenate to exactly
    `s, …, e-1`, and they are disjoint and ordered (`Partition`, Lemmas/Range.lean). No size bound is
    needed: the code computes in `i128`. -/
theorem range_chunks_partition (t : Ty) (s e : Int) (p : Nat) (hs : t.Holds s) (he : t.Holds e) (hse : s ≤ e)
    (hp1 : 1 ≤ p) (hp2 : (p : Int) ≤ U64_MAX) :
    Partition (fun i => genMacro t s e i p) s e p :=
  partition_of_bounds hse hp1 (fun _ hi => genMacro_elems hs.1 hse he.2 hp1 hp2 hi)

/-- **Forward ranges, `Range<u64>`** (parallel_iterator.rs:27-42). Same statement; the `u64` code really
    needs one arithmetic side condition: `(e - s) + p - 1` must not exceed `u64::MAX` — beyond it
    `n.saturating_add(peers - 1)` saturates, the chunk size is rounded down and the tail of the range is
    lost (e.g. `0..u64::MAX` on 2 replicas misses the last element). This covers C15's quantifier
    (≤ 2^62 elements, any realistic replica count) with a huge margin. -/
theorem range_chunks_partition_u64 (s e : Int) (p : Nat) (hs : 0 ≤ s) (hse : s ≤ e) (he : e ≤ U64_MAX)
    (hp1 : 1 ≤ p) (hn : e - s + (p : Int) - 1 ≤ U64_MAX) :
    Partition (fun i => genU64 s e i p) s e p :=
  partition_of_bounds hse hp1 (fun _ hi => genU64_elems hs hse he hn hp1 hi)

/-- **Reversed or empty ranges, the nine macro types**: for `e ≤ s` every replica — whatever its index —
    gets an empty range and nothing panics. -/
theorem range_reversed_empty (t : Ty) (s e : Int) (i p : Nat) (hs : t.Holds s) (hes : e ≤ s) (hp1 : 1 ≤ p) :
    (genMacro t s e i p).isPanic = false ∧ (genMacro t s e i p).elems = [] := by
  rw [genMacro_reversed i hs.1 hs.2 hes hp1]
  exact ⟨rfl, intRange_empty (Int.le_refl _)⟩

/-- **Reversed or empty ranges, `Range<u64>`**. -/
theorem range_reversed_empty_u64 (s e : Int) (i p : Nat) (hs : 0 ≤ s) (hs' : s ≤ U64_MAX) (hes : e ≤ s)
    (hp1 : 1 ≤ p) (hp2 : (p : Int) ≤ U64_MAX) :
    (genU64 s e i p).isPanic = false ∧ (genU64 s e i p).elems = [] := by
  rw [genU64_reversed i hs hs' hes hp1 hp2]
  exact ⟨rfl, intRange_empty (Int.le_refl _)⟩

/-! ### Non-parallel source -/

/-- `IteratorSource` (one replica, `Replication::One`): pulling `next` yields every item exactly once, in
    order, then `FlushAndRestart`, then `Terminate`. -/
theorem single_source_in_order {α : Type} (items : List α) :
    iterRun (items.length + 2) (items, false) = items.map .item ++ [.far, .term] := by
  induction items with
  | nil => simp [iterRun, iterNext]
  | cons x xs ih =>
    simp only [List.length_cons, List.map_cons, List.cons_append]
    rw [show xs.length + 1 + 2 = (xs.length + 2) + 1 by omega, iterRun]
    simp only [iterNext]
    rw [ih]

/-! ### non-vacuity: concrete instances meeting the hypotheses (among them the inputs on which the code
    failed before the fix ebec77c: F1, F7, F10) -/

example : Partition (fun i => genU64 0 10 i 4) 0 10 4 :=
  range_chunks_partition_u64 0 10 4 (by decide) (by decide) (by decide) (by decide) (by decide)
example : (List.range 4).map (fun i => genU64 0 10 i 4) = [.range 0 3, .range 3 6, .range 6 9, .range 9 10] := by
  decide
example : Partition (fun i => genMacro .i64 (-5) 5 i 3) (-5) 5 3 :=
  range_chunks_partition .i64 (-5) 5 3 ⟨by decide, by decide⟩ ⟨by decide, by decide⟩ (by decide) (by decide) (by decide)
example : (List.range 3).map (fun i => genMacro .i64 (-5) 5 i 3) = [.range (-5) (-1), .range (-1) 3, .range 3 5] := by
  decide
-- F10: (250u8..255) on 8 replicas
example : (List.range 8).map (fun i => genMacro .u8 250 255 i 8) =
    [.range 250 251, .range 251 252, .range 252 253, .range 253 254, .range 254 255,
     .range 255 255, .range 255 255, .range 255 255] := by decide
-- F7: (2^63 .. 2^63+10 usize) on 2 replicas
example : (List.range 2).map (fun i => genMacro .usize 9223372036854775808 9223372036854775818 i 2) =
    [.range 9223372036854775808 9223372036854775813, .range 9223372036854775813 9223372036854775818] := by
  decide
-- F1: (10u8..0) on 4 replicas, (5u64..3) on 1 replica
example : (List.range 4).map (fun i => genMacro .u8 10 0 i 4) =
    [.range 10 10, .range 10 10, .range 10 10, .range 10 10] := by decide
example : genU64 5 3 0 1 = .range 5 5 := by decide
-- outside the side condition of `range_chunks_partition_u64`: 0..u64::MAX on 2 replicas loses the last element
example : (List.range 2).map (fun i => genU64 0 18446744073709551615 i 2) =
    [.range 0 9223372036854775807, .range 9223372036854775807 18446744073709551614] := by decide

end Noir.Range

/-! ## File source -/
namespace Noir.FileSplit

/-- **Each line exactly once, whole, in order.** For every file content and every number of replicas
    `n ≥ 1`, concatenating — in replica order — what the `n` replicas of `FileSource` emit gives exactly
    the lines of the file (`lines`: sequential `read_line` from offset 0; terminators kept, as the code does
    not trim them; a non-terminated last line included; no line for an empty file). -/
theorem file_lines_partition (bytes : List Nat) (n : Nat) (hn : 1 ≤ n) :
    (List.range n).flatMap (replicaLines bytes n) = lines bytes := by
  have h1 : (List.range n).flatMap (replicaLines bytes n)
      = (List.range n).flatMap (fun i => (seg bytes n i).map (·.2)) := by
    apply flatMap_congr'
    intro i hi
    exact replicaLines_eq_seg bytes n i (by simpa using hi)
  rw [h1, ← List.map_flatMap]
  obtain ⟨k, rfl⟩ : ∃ k, n = k + 1 := ⟨n - 1, by omega⟩
  rw [segs_prefix bytes (k + 1) k (by omega)]
  rw [takeWhile_eq_self_of_all, linesAt_map_snd]
  intro p hp
  have := linesAt_off_lt bytes 0 p hp
  simp only [endOf, Nat.add_sub_cancel, if_true, decide_eq_true_eq]
  omega

/-- Which replica emits which line: replica `i` emits exactly the lines whose start offset lies in
    `(sᵢ, eᵢ]` (`[0, e₀]` for replica 0), where `sᵢ = ⌊size/n⌋·i` and `eᵢ = sᵢ₊₁` (`size` for the last
    replica) — `seg` in Lemmas/FileSplit.lean, stated over `linesAt 0 bytes` (lines with their offsets). -/
theorem file_replica_lines_by_offset (bytes : List Nat) (n i : Nat) (hi : i < n) :
    replicaLines bytes n i = (seg bytes n i).map (·.2) :=
  replicaLines_eq_seg bytes n i hi

/-- The specification `lines` (repeated `read_line`) is the plain "split after every `'\n'`"
    (`splitLines`, structural; this is what the driver's oracle evaluates). -/
theorem lines_eq_splitLines (bytes : List Nat) : lines bytes = splitLines [] bytes := by
  rw [splitLines_eq_lines bytes [] (by simp)]
  simp

/-! ### non-vacuity -/
example : lines [97,10,98] = [[97,10],[98]] := by
  simp [lines_eq, readLine, NL]
example : (List.range 2).map (replicaLines [97,10,98,10,99] 2) = [[[97,10],[98,10]],[[99]]] := by
  simp [replicaLines, readLoop_eq, readLine, NL, List.range, List.range.loop]
example : (List.range 3).flatMap (replicaLines [97,10,98,98,13,10,10,99] 3) = lines [97,10,98,98,13,10,10,99] :=
  file_lines_partition _ 3 (by decide)

end Noir.FileSplit

/-! ## CSV source (range alignment of `CsvSource::setup`; the `csv` parser itself is not modelled) -/
namespace Noir.CsvSplit
open Noir.FileSplit

/-- **The aligned ranges tile `[header, size)`**: replica 0 starts right after the header (at 0 without
    header), the last replica ends at the end of the file, consecutive ranges share their boundary, and no
    range is reversed (so `(end - start) as usize`, csv.rs:350, never underflows). -/
theorem csv_ranges_tile (bytes : List Nat) (hasHeaders : Bool) (n : Nat) (_hn : 1 ≤ n) :
    (csvRange bytes hasHeaders n 0).1 = headerSize bytes hasHeaders ∧
    (csvRange bytes hasHeaders n (n - 1)).2 = bytes.length ∧
    (∀ i, i + 1 < n → (csvRange bytes hasHeaders n i).2 = (csvRange bytes hasHeaders n (i + 1)).1) ∧
    (∀ i, i < n → (csvRange bytes hasHeaders n i).1 ≤ (csvRange bytes hasHeaders n i).2) := by
  have hle := headerSize_le bytes hasHeaders
  have hbl := body_length bytes hasHeaders
  refine ⟨?_, ?_, ?_, ?_⟩
  · rw [csvRange_eq]; simp [relRange]
  · rw [csvRange_eq]; simp only [relRange, ne_eq, not_true_eq_false, if_false]; omega
  · intro i hi
    rw [csvRange_eq, csvRange_eq]
    simp only [relRange_chain _ n i hi]
  · intro i hi
    rw [csvRange_eq]
    have := relRange_ordered (body bytes hasHeaders) n i hi
    simp only; omega

/-- **Physical lines** are never split, duplicated or skipped and the first line is excluded: the byte
    ranges handed to the per-replica `csv::Reader`s contain, concatenated in replica order, exactly the
    lines of the file after the first line — every range starts and ends right after a `'\n'`. This is
    all the alignment code guarantees; it is about *lines*, not about CSV *records*. -/
theorem csv_lines_partition (bytes : List Nat) (hasHeaders : Bool) (n : Nat) (hn : 1 ≤ n) :
    (List.range n).flatMap (fun i => lines (replicaBytes bytes hasHeaders n i))
      = lines (body bytes hasHeaders) := by
  rw [← segs_all (body bytes hasHeaders) n hn]
  apply flatMap_congr'
  intro i hi
  rw [replicaBytes_eq, rel_lines _ n i (by simpa using hi)]

/- Full-strength statement C15 asks for (`csv_records_partition`): for EVERY file content, with the
   quote-aware record splitter `rawRecords` (a line terminator inside an open quote does not end a record)
   and the quote-aware header (`specHeaderSize`):
     `∀ bytes hasHeaders n, 1 ≤ n →
        (List.range n).flatMap (fun i => rawRecords (replicaBytes bytes hasHeaders n i))
          = rawRecords (bytes.drop (specHeaderSize bytes hasHeaders))`.
   It is FALSE for the unchanged code (finding F13, `csv_quoted_newline_counterexample`): the alignment
   (`read_until(b'\n')`, csv.rs:318-341) ignores quoting, so a range boundary can fall after a line feed
   that lies inside a quoted field and the record is cut in two. What holds is the statement under the
   extra hypothesis that no line terminator occurs inside quotes (every physical line of the body has an
   even number of quote characters) — then records are lines. -/

/-- "no line terminator inside quotes": every physical line closes all the quotes it opens -/
def NoQuotedTerminator (s : List Nat) : Prop := ∀ l ∈ lines s, oddQuotes l = false

/-- **Records**, partial: extra hypothesis `NoQuotedTerminator` on the part of the file after the first
    line. Then every raw record is emitted exactly once, whole, in order, first line (= header) excluded. -/
theorem csv_ranges_partition_partial (bytes : List Nat) (hasHeaders : Bool) (n : Nat) (hn : 1 ≤ n)
    (hq : NoQuotedTerminator (body bytes hasHeaders)) :
    (List.range n).flatMap (fun i => rawRecords (replicaBytes bytes hasHeaders n i))
      = rawRecords (body bytes hasHeaders) := by
  have hp := csv_lines_partition bytes hasHeaders n hn
  rw [rawRecords_eq_lines _ hq, ← hp]
  apply flatMap_congr'
  intro i hi
  apply rawRecords_eq_lines
  intro l hl
  apply hq
  rw [← hp]
  exact List.mem_flatMap.mpr ⟨i, hi, hl⟩

/-- The same for parsed records (fields unquoted, empty lines skipped), same extra hypothesis. -/
theorem csv_records_partition_partial (bytes : List Nat) (hasHeaders : Bool) (n : Nat) (hn : 1 ≤ n)
    (hq : NoQuotedTerminator (body bytes hasHeaders)) :
    (List.range n).flatMap (fun i => records (replicaBytes bytes hasHeaders n i))
      = records (body bytes hasHeaders) := by
  unfold records
  rw [← csv_ranges_partition_partial bytes hasHeaders n hn hq, filterMap_flatMap']

/-- F13: the file `"aaaaaaaa\nb"\nc\nd\n` (a quoted first field containing a line feed) on 2 replicas, no
    header: the raw range boundary 8 is aligned to offset 10 — right after the line feed *inside* the quoted
    field — so replica 0 gets `"aaaaaaaa\n` and replica 1 gets `b"\nc\nd\n`: the pieces' records are not
    the records of the file (the first record is cut in two). -/
theorem csv_quoted_newline_counterexample :
    (List.range 2).map (csvRange [34,97,97,97,97,97,97,97,97,10,98,34,10,99,10,100,10] false 2)
        = [(0, 10), (10, 17)] ∧
    (List.range 2).flatMap (fun i => rawRecords
        (replicaBytes [34,97,97,97,97,97,97,97,97,10,98,34,10,99,10,100,10] false 2 i))
      ≠ rawRecords (body [34,97,97,97,97,97,97,97,97,10,98,34,10,99,10,100,10] false) := by
  decide

/-! ### non-vacuity -/
example : (List.range 3).map (csvRange [104,10, 97,10,98,98,13,10,10,99] true 3) = [(2, 8), (8, 8), (8, 10)] := by
  simp [csvRange, headerSize, readLine, NL, List.range, List.range.loop]
-- a quoted field with a comma and an escaped quote, no terminator inside quotes: hypothesis holds
example : records [120,44,34,97,34,34,98,34,10, 34,99,44,100,34,44,121,10]
    = [[[120],[97,34,98]], [[99,44,100],[121]]] := by decide
example : rawRecords [34,97,10,98,34,10,99,10] = [[34,97,10,98,34,10],[99,10]] := by decide
-- the hypothesis of the `_partial` theorems is satisfiable (`"a",b` / `c`) …
example : NoQuotedTerminator (body [34,97,34,44,98,10,99,10] false) := by
  intro l hl
  simp [body, headerSize, lines_eq, readLine, NL] at hl
  rcases hl with rfl | rfl <;> decide
-- … and fails for the F13 file (its first physical line `"aaaaaaaa\n` has an odd number of quotes)
example : ¬ NoQuotedTerminator (body [34,97,97,97,97,97,97,97,97,10,98,34,10,99,10,100,10] false) := by
  intro h
  have := h [34,97,97,97,97,97,97,97,97,10] (by simp [body, headerSize, lines_eq, readLine, NL])
  revert this; decide

end Noir.CsvSplit
