/-
  Props/C15.lean — property theorems for C15 (parallel sources split their input exactly once).
  Models: Model/Range.lean (`generate_iterator` of integer ranges, `IteratorSource`), Model/FileSplit.lean
  (`FileSource::setup/next`). Helper lemmas: Lemmas/Range.lean, Lemmas/FileSplit.lean.
-/
import NoirVerif.Lemmas.Range
import NoirVerif.Lemmas.FileSplit

/-! ## Integer ranges (`ParallelIteratorSource` over `Range<T>`) -/
namespace Noir.Range

/-- `2^62`: the quantifier bound on the number of elements (and, here, of replicas). -/
def TWO62 : Int := 4611686018427387904

/-- **Range<u64>** (parallel_iterator.rs:27-40). For every forward range `s ≤ e` of at most 2^62 elements
    and every replica count `1 ≤ p ≤ 2^62`: no replica panics, the chunks of replicas `0..p-1` concatenate
    to exactly `s, …, e-1`, and they are disjoint and ordered (see `Partition`). -/
theorem range_chunks_partition_u64 (s e : Int) (p : Nat) (hs : 0 ≤ s) (hse : s ≤ e) (he : e ≤ U64_MAX)
    (hn : e - s ≤ TWO62) (hp1 : 1 ≤ p) (hp2 : (p : Int) ≤ TWO62) :
    Partition (fun i => genU64 s e i p) s e p :=
  partition_of_bounds hse hp1 (fun _ hi => genU64_elems hs hse he hn hp1 hp2 hi)

/-- **Range<i64>** (macro instance, parallel_iterator.rs:42-62, 72): full strength, as for `u64`. -/
theorem range_chunks_partition_i64 (s e : Int) (p : Nat) (hs : I64_MIN ≤ s) (hse : s ≤ e) (he : e ≤ I64_MAX)
    (hn : e - s ≤ TWO62) (hp1 : 1 ≤ p) (hp2 : (p : Int) ≤ TWO62) :
    Partition (fun i => genMacro .i64 s e i p) s e p :=
  partition_of_bounds hse hp1
    (fun _ hi => genMacro_elems (t := .i64) hs hse he he hn hp1 hp2 hi (Or.inl (Int.le_refl _)))

/-- **Range<isize>** (64-bit target): full strength. -/
theorem range_chunks_partition_isize (s e : Int) (p : Nat) (hs : I64_MIN ≤ s) (hse : s ≤ e) (he : e ≤ I64_MAX)
    (hn : e - s ≤ TWO62) (hp1 : 1 ≤ p) (hp2 : (p : Int) ≤ TWO62) :
    Partition (fun i => genMacro .isize s e i p) s e p :=
  partition_of_bounds hse hp1
    (fun _ hi => genMacro_elems (t := .isize) hs hse he he hn hp1 hp2 hi (Or.inl (Int.le_refl _)))

/- Full-strength statement for `Range<usize>` (what C15 asks for):
     `∀ s e p, 0 ≤ s → s ≤ e → e ≤ U64_MAX → e - s ≤ 2^62 → 1 ≤ p → p ≤ 2^62 →
        Partition (fun i => genMacro .usize s e i p) s e p`.
   It is FALSE for the unchanged code (finding F7, `range_usize_counterexample`): the macro computes in
   `i64`, bounds ≥ 2^63 are reinterpreted as negative numbers and `try_into::<usize>()` fails.
   What holds is the statement restricted to `e < 2^63`. -/

/-- **Range<usize>**, partial: bounds below 2^63 (extra hypothesis `e ≤ I64_MAX`). -/
theorem range_chunks_partition_usize_partial (s e : Int) (p : Nat) (hs : 0 ≤ s) (hse : s ≤ e)
    (he : e ≤ I64_MAX) (hn : e - s ≤ TWO62) (hp1 : 1 ≤ p) (hp2 : (p : Int) ≤ TWO62) :
    Partition (fun i => genMacro .usize s e i p) s e p :=
  partition_of_bounds hse hp1
    (fun _ hi => genMacro_elems (t := .usize) hs hse (by simp [Ty.hi, U64_MAX, I64_MAX] at *; omega) he hn hp1 hp2 hi
      (Or.inl (by decide)))

/-- F7: `(2^63 .. 2^63+10usize).generate_iterator(0, 2)` panics (`try_into().unwrap()`), although the range
    is a perfectly valid forward range of 10 elements. -/
theorem range_usize_counterexample :
    ¬ Partition (fun i => genMacro .usize 9223372036854775808 9223372036854775818 i 2)
        9223372036854775808 9223372036854775818 2 := by
  intro h
  have := h.1 0 (by decide)
  revert this
  decide

/- Full-strength statement for the narrow types `t ∈ {u8,u16,u32,i8,i16,i32}`:
     `∀ s e p, t.lo ≤ s → s ≤ e → e ≤ t.hi → 1 ≤ p → Partition (fun i => genMacro t s e i p) s e p`.
   It is FALSE for the unchanged code (NEW finding, `range_narrow_counterexample`): replica `i` starts at
   `s + i·⌈(e-s)/p⌉`, which can exceed `e` — harmless in `i64`, but the value is converted back with
   `try_into::<t>().unwrap()` *before* the range is known to be empty, so it panics when it exceeds
   `t::MAX`. What holds is the statement under the extra hypothesis that the last replica's start offset
   fits the type. -/

/-- **Narrow and all other macro types**, partial: extra hypothesis `hfit` — the start offset of the last
    replica, `s + (p-1)·⌈(e-s)/p⌉`, is representable in the element type. -/
theorem range_chunks_partition_narrow_partial (t : Ty) (s e : Int) (p : Nat) (hs : t.lo ≤ s) (hse : s ≤ e)
    (he : e ≤ t.hi) (he64 : e ≤ I64_MAX) (hn : e - s ≤ TWO62) (hp1 : 1 ≤ p) (hp2 : (p : Int) ≤ TWO62)
    (hfit : s + ((p : Int) - 1) * ((e - s + (p : Int) - 1) / (p : Int)) ≤ t.hi) :
    Partition (fun i => genMacro t s e i p) s e p := by
  apply partition_of_bounds hse hp1
  intro i hi
  apply genMacro_elems hs hse he he64 hn hp1 hp2 hi
  right
  obtain ⟨c0, _, _⟩ := chunk_facts (n := e - s) (p := (p : Int)) (by omega) (by omega)
  have : (i : Int) * chunkOf s e p ≤ ((p : Int) - 1) * chunkOf s e p := mul_le_of_le (by omega) c0
  unfold chunkOf at this ⊢
  omega

/-- NEW finding: `(250u8..255).generate_iterator(6, 8)` panics: chunk = 1, start = 256 does not fit `u8`
    (any machine with ≥ 7 cores running `stream_par_iter(250u8..255)`). -/
theorem range_narrow_counterexample :
    ¬ Partition (fun i => genMacro .u8 250 255 i 8) 250 255 8 := by
  intro h
  have := h.1 6 (by decide)
  revert this
  decide

/- Full-strength statement `range_reversed_empty` (what C15 asks for):
     `∀ t s e i p, t.lo ≤ s → s ≤ t.hi → t.lo ≤ e → e ≤ t.hi → e ≤ s → 1 ≤ p → i < p →
        (genMacro t s e i p).isPanic = false ∧ (genMacro t s e i p).elems = []`   (same for `genU64`).
   It is FALSE for the unchanged code (finding F1): -/

/-- F1 (macro): `(10u8..0).generate_iterator(1, 4)` is `9..10` — a reversed range yields an element. -/
theorem range_reversed_counterexample : (genMacro .u8 10 0 1 4).elems = [9] := by decide

/-- F1 (`u64`): `(5u64..3).generate_iterator(0, 1)` panics on `self.end - self.start` (overflow checks). -/
theorem range_reversed_u64_counterexample : (genU64 5 3 0 1).isPanic = true := by decide

/-- What does hold, part 1: an **empty** range (`s = e`) yields nothing on every replica, without panic
    (`u64`). -/
theorem range_reversed_empty_u64_partial (s : Int) (i p : Nat) (hs : 0 ≤ s) (he : s ≤ U64_MAX)
    (hp1 : 1 ≤ p) (hp2 : (p : Int) ≤ TWO62) (hi : i < p) :
    (genU64 s s i p).isPanic = false ∧ (genU64 s s i p).elems = [] := by
  obtain ⟨a, b, h1, h2⟩ := genU64_elems (s := s) (e := s) hs (Int.le_refl _) he (by simp) hp1 hp2 hi
  rw [h1]
  refine ⟨rfl, ?_⟩
  show intRange a b = []
  rw [h2]
  apply intRange_empty
  obtain ⟨c0, _, _⟩ := chunk_facts (n := s - s) (p := (p : Int)) (by omega) (by omega)
  have c0' : 0 ≤ chunkOf s s p := c0
  have m1 : 0 ≤ (i : Int) * chunkOf s s p := Int.mul_nonneg (by omega) c0'
  have m2 : 0 ≤ ((i + 1 : Nat) : Int) * chunkOf s s p := Int.mul_nonneg (by omega) c0'
  unfold bound; omega

/-- What does hold, part 2: an **empty** range yields nothing on every replica, without panic, for every
    macro type (for `usize` below 2^63, cf. F7). -/
theorem range_reversed_empty_macro_partial (t : Ty) (s : Int) (i p : Nat) (hs : t.lo ≤ s) (he : s ≤ t.hi)
    (he64 : s ≤ I64_MAX) (hp1 : 1 ≤ p) (hp2 : (p : Int) ≤ TWO62) (hi : i < p) :
    (genMacro t s s i p).isPanic = false ∧ (genMacro t s s i p).elems = [] := by
  have hc := chunkOf_empty s p hp1
  obtain ⟨a, b, h1, h2⟩ := genMacro_elems (t := t) (s := s) (e := s) hs (Int.le_refl _) he he64
    (by simp) hp1 hp2 hi (Or.inr (by rw [hc]; omega))
  rw [h1]
  refine ⟨rfl, ?_⟩
  show intRange a b = []
  rw [h2]
  apply intRange_empty
  unfold bound; rw [hc]; omega

/-- What does hold, part 3: replica 0 of a **reversed** range (macro types; distance ≤ 2^62, `usize` below
    2^63) yields nothing and does not panic — in particular a reversed range is harmless with one replica.
    Replicas `i ≥ 1` are the ones that yield elements / fail the conversion (F1). -/
theorem range_reversed_first_replica_partial (t : Ty) (s e : Int) (p : Nat) (he : t.lo ≤ e) (hes : e < s)
    (hs : s ≤ t.hi) (hs64 : s ≤ I64_MAX) (hn : s - e ≤ TWO62) (hp1 : 1 ≤ p) (hp2 : (p : Int) ≤ TWO62) :
    (genMacro t s e 0 p).isPanic = false ∧ (genMacro t s e 0 p).elems = [] := by
  have hM : I64_MAX = 9223372036854775807 := rfl
  have hm : I64_MIN = -9223372036854775808 := rfl
  have hlo := t.lo_ge
  have hlo0 := t.lo_le
  have hp0 : ¬ p = 0 := by omega
  have h1 : ¬ (((0 : Nat) : Int) > I64_MAX) := by omega
  have h2 : ¬ ((p : Int) > I64_MAX) := by unfold TWO62 at hp2; omega
  have hs64' : t.asI64 s = s := asI64_of_le hs64
  have he64' : t.asI64 e = e := asI64_of_le (by omega)
  have hchk : chkI64 (e - s) = some (e - s) := chkI64_of_bounds (by unfold TWO62 at hn; omega) (by omega)
  have hprod : ∀ c : Int, chkI64 (((0 : Nat) : Int) * c) = some 0 := by
    intro c; simp [chkI64, hM, hm]
  unfold genMacro
  simp only [h1, h2, if_false, hs64', he64', hchk, hp0, hprod]
  generalize Int.tdiv (satAdd I64_MIN I64_MAX (e - s) ((p : Int) - 1)) (p : Int) = c
  have hstart : satAdd I64_MIN I64_MAX s 0 = s := by unfold satAdd; omega
  have hend : max (min (satAdd I64_MIN I64_MAX s c) e) s = s := by omega
  rw [hstart, hend, fromI64_of_bounds (by omega) hs]
  refine ⟨rfl, ?_⟩
  show intRange s s = []
  exact intRange_empty (Int.le_refl _)

/-! ### Non-parallel source -/

/-- `IteratorSource` (one replica, `Replication::One`): pulling `next` yields every item exactly once, in
    order, then `FlushAndRestart`, then `Terminate`. -/
theorem single_source_in_order {α : Type} (items : List α) :
    iterRun (items.length + 2) (items, false) = items.map .item ++ [.far, .term] := by
  induction items with
  | nil => simp [iterRun, iterNext]
  | cons x xs ih =>
    simp only [List.length_cons, List.map_cons, List.cons_append]
    rw [show xs.length + 1 + 2 = (xs.length + 2) + 1 by omega, iterRun]
    simp only [iterNext]
    rw [ih]

/-! ### non-vacuity: concrete instances meeting the hypotheses -/

example : Partition (fun i => genU64 0 10 i 4) 0 10 4 :=
  range_chunks_partition_u64 0 10 4 (by decide) (by decide) (by decide) (by decide) (by decide) (by decide)
example : (List.range 4).map (fun i => genU64 0 10 i 4) = [.range 0 3, .range 3 6, .range 6 9, .range 9 10] := by
  decide
example : Partition (fun i => genMacro .i64 (-5) 5 i 3) (-5) 5 3 :=
  range_chunks_partition_i64 (-5) 5 3 (by decide) (by decide) (by decide) (by decide) (by decide) (by decide)
example : (List.range 3).map (fun i => genMacro .i64 (-5) 5 i 3) = [.range (-5) (-1), .range (-1) 3, .range 3 5] := by
  decide
example : Partition (fun i => genMacro .u8 0 255 i 4) 0 255 4 :=
  range_chunks_partition_narrow_partial .u8 0 255 4 (by decide) (by decide) (by decide) (by decide) (by decide)
    (by decide) (by decide) (by decide)
example : (genMacro .u8 250 255 6 8) = .unwrap := by decide

end Noir.Range

/-! ## File source -/
namespace Noir.FileSplit

/-- **Each line exactly once, whole, in order.** For every file content and every number of replicas
    `n ≥ 1`, concatenating — in replica order — what the `n` replicas of `FileSource` emit gives exactly
    the lines of the file (`lines`: sequential `read_line` from offset 0; terminators kept, as the code does
    not trim them; a non-terminated last line included; no line for an empty file). -/
theorem file_lines_partition (bytes : List Nat) (n : Nat) (hn : 1 ≤ n) :
    (List.range n).flatMap (replicaLines bytes n) = lines bytes := by
  have h1 : (List.range n).flatMap (replicaLines bytes n)
      = (List.range n).flatMap (fun i => (seg bytes n i).map (·.2)) := by
    apply flatMap_congr'
    intro i hi
    exact replicaLines_eq_seg bytes n i (by simpa using hi)
  rw [h1, ← List.map_flatMap]
  obtain ⟨k, rfl⟩ : ∃ k, n = k + 1 := ⟨n - 1, by omega⟩
  rw [segs_prefix bytes (k + 1) k (by omega)]
  rw [takeWhile_eq_self_of_all, linesAt_map_snd]
  intro p hp
  have := linesAt_off_lt bytes 0 p hp
  simp only [endOf, Nat.add_sub_cancel, if_true, decide_eq_true_eq]
  omega

/-- Which replica emits which line: replica `i` emits exactly the lines whose start offset lies in
    `(sᵢ, eᵢ]` (`[0, e₀]` for replica 0), where `sᵢ = ⌊size/n⌋·i` and `eᵢ = sᵢ₊₁` (`size` for the last
    replica) — `seg` in Lemmas/FileSplit.lean, stated over `linesAt 0 bytes` (lines with their offsets). -/
theorem file_replica_lines_by_offset (bytes : List Nat) (n i : Nat) (hi : i < n) :
    replicaLines bytes n i = (seg bytes n i).map (·.2) :=
  replicaLines_eq_seg bytes n i hi

/-- The specification `lines` (repeated `read_line`) is the plain "split after every `'\n'`"
    (`splitLines`, structural; this is what the driver's oracle evaluates). -/
theorem lines_eq_splitLines (bytes : List Nat) : lines bytes = splitLines [] bytes := by
  rw [splitLines_eq_lines bytes [] (by simp)]
  simp

/-! ### non-vacuity -/
example : lines [97,10,98] = [[97,10],[98]] := by
  simp [lines_eq, readLine, NL]
example : (List.range 2).map (replicaLines [97,10,98,10,99] 2) = [[[97,10],[98,10]],[[99]]] := by
  simp [replicaLines, readLoop_eq, readLine, NL, List.range, List.range.loop]
example : (List.range 3).flatMap (replicaLines [97,10,98,98,13,10,10,99] 3) = lines [97,10,98,98,13,10,10,99] :=
  file_lines_partition _ 3 (by decide)

end Noir.FileSplit
