/-
  Props/C16Reorder.lean — property theorems for the second half of C16: `reorder()`.
  Model: `Model/Reorder.lean`; helper lemmas and vocabulary (`Sorted`, `Above`, `BufInv`, `stamps`,
  `emit`): `Lemmas/Reorder.lean`. `Body` / `isBody` (no `far`, no `term`): `Lemmas/Fold.lean`.

  What the code really does: only `Timestamped` elements are buffered; `Item`s and `FlushBatch`
  pass through immediately (reorder.rs:110, 118); a `Terminate` that is not preceded by a
  `FlushAndRestart` does NOT flush the buffer (reorder.rs:123; outside the stream grammar).
-/
import NoirVerif.Lemmas.Reorder
namespace Noir.Reorder
open Noir.Fold (Body isBody)

variable {α : Type}

/-- **C16 (reorder loses and invents nothing).** The output of an iteration is a permutation of
    its input (all element kinds: data, watermarks, `FlushBatch`, the end marker). -/
theorem reorder_perm (xs : List (Elem α)) : (run (xs ++ [.far])).Perm (xs ++ [.far]) := by
  have h := runFrom_perm (xs ++ [.far]) ([] : List (TItem α))
  rw [runFrom_far_buf] at h
  simpa [run] using h

/-- … and in general: at any point, what was emitted plus what is buffered is what was consumed. -/
theorem reorder_conservation (es : List (Elem α)) :
    ((runFrom [] es).2 ++ (runFrom [] es).1.map emit).Perm es := by
  simpa using runFrom_perm es ([] : List (TItem α))

/-- Core of sortedness: from a buffer whose elements are all above the last watermark `lw`, on a
    watermark-safe rest of the iteration, the carried timestamps of everything emitted until the
    end of the iteration are non-decreasing and all above `lw`. -/
theorem sorted_from (xs : List (Elem α)) (hb : Body xs) :
    ∀ (buf : List (TItem α)) (lw : Option Int), wmSafeGo lw xs = true → BufInv lw buf →
      (stamps (runFrom buf (xs ++ [.far])).2).Pairwise (· ≤ ·) ∧
      ∀ t ∈ stamps (runFrom buf (xs ++ [.far])).2, Above lw t := by
  induction xs with
  | nil =>
    intro buf lw _ hinv
    simp only [List.nil_append, runFrom, step, List.append_nil, stamps_append, stamps_map_emit]
    have hs : stamps [(Elem.far : Elem α)] = [] := rfl
    rw [hs, List.append_nil]
    constructor
    · have := sort_sorted buf
      simpa [Sorted, List.pairwise_map] using this
    · intro t ht
      obtain ⟨x, hx, rfl⟩ := List.mem_map.mp ht
      exact hinv x ((mem_sort buf x).mp hx)
  | cons e es ih =>
    intro buf lw hsafe hinv
    have he := hb e (by simp)
    have hes : Body es := fun e' h => hb e' (by simp [h])
    cases e with
    | far => simp [isBody] at he
    | term => simp [isBody] at he
    | item a =>
      have := ih hes buf lw (by simpa [wmSafeGo] using hsafe) hinv
      simpa [runFrom, step] using this
    | flushBatch =>
      have := ih hes buf lw (by simpa [wmSafeGo] using hsafe) hinv
      simpa [runFrom, step] using this
    | ts a t =>
      simp only [wmSafeGo, Bool.and_eq_true] at hsafe
      have hinv' : BufInv lw (buf ++ [(a, t)]) := by
        intro x hx
        rcases List.mem_append.mp hx with hx | hx
        · exact hinv x hx
        · simp at hx; subst hx; exact (above_iff lw t).mp hsafe.1
      have := ih hes (buf ++ [(a, t)]) lw hsafe.2 hinv'
      simpa [runFrom, step] using this
    | wm w =>
      simp only [wmSafeGo, Bool.and_eq_true] at hsafe
      have hw : Above lw w := (above_iff lw w).mp hsafe.1
      have hsorted := sort_sorted buf
      have hinv' : BufInv (some w) ((sort buf).dropWhile (fun x => decide (x.2 ≤ w))) := by
        intro x hx w' hw'; injection hw' with hw'; subst hw'
        exact dropWhile_gt w (sort buf) hsorted x hx
      obtain ⟨ih1, ih2⟩ := ih hes _ (some w) hsafe.2 hinv'
      simp only [List.cons_append, runFrom, step, List.append_assoc, List.nil_append, stamps_append,
        stamps_map_emit, stamps_wm]
      have hpre_le := takeWhile_le w (sort buf)
      have hpre_sorted := takeWhile_sorted w (sort buf) hsorted
      constructor
      · rw [List.pairwise_append, List.pairwise_cons]
        refine ⟨by simpa [Sorted, List.pairwise_map] using hpre_sorted, ⟨?_, ih1⟩, ?_⟩
        · intro b hb
          exact Int.le_of_lt (ih2 b hb w rfl)
        · intro a ha b hb
          obtain ⟨x, hx, rfl⟩ := List.mem_map.mp ha
          have h1 := hpre_le x hx
          rcases List.mem_cons.mp hb with rfl | hb
          · exact h1
          · have := ih2 b hb w rfl; omega
      · intro t ht
        rcases List.mem_append.mp ht with ht | ht
        · obtain ⟨x, hx, rfl⟩ := List.mem_map.mp ht
          exact hinv x ((mem_sort buf x).mp (mem_of_mem_takeWhile hx))
        · rcases List.mem_cons.mp ht with rfl | ht
          · exact hw
          · intro w' hw'
            have h1 := ih2 t ht w rfl
            have h2 := hw w' hw'
            omega

/-- **C16 (reorder sorts).** Within an iteration whose input respects the watermark contract
    (no timestamp at or below an earlier watermark), the timestamps carried by the outputs — data
    elements AND watermarks — are non-decreasing. -/
theorem reorder_sorted (xs : List (Elem α)) (hb : Body xs) (hsafe : wmSafeOk xs = true) :
    (stamps (run (xs ++ [.far]))).Pairwise (· ≤ ·) :=
  (sorted_from xs hb [] none hsafe (fun _ h => by simp at h)).1

/-- **C16 (release only when covered).** A timestamped element leaves the operator only while a
    watermark at or above its timestamp, or the end of the iteration, is being processed — and it
    had arrived before. -/
theorem reorder_release_covered (buf : List (TItem α)) (e : Elem α) (a : α) (t : Int)
    (h : Elem.ts a t ∈ (step buf e).2) :
    ((∃ w, e = .wm w ∧ t ≤ w) ∨ e = .far) ∧ (a, t) ∈ buf := by
  cases e with
  | item b => simp [step] at h
  | ts b t' => simp [step] at h
  | flushBatch => simp [step] at h
  | term => simp [step] at h
  | far =>
    simp only [step, List.mem_append, List.mem_map, List.mem_singleton] at h
    rcases h with ⟨x, hx, hxe⟩ | h
    · simp only [emit, Elem.ts.injEq] at hxe
      have : x = (a, t) := by cases x; simp_all
      subst this
      exact ⟨Or.inr rfl, (mem_sort buf _).mp hx⟩
    · cases h
  | wm w =>
    simp only [step, List.mem_append, List.mem_map, List.mem_singleton] at h
    rcases h with ⟨x, hx, hxe⟩ | h
    · simp only [emit, Elem.ts.injEq] at hxe
      have : x = (a, t) := by cases x; simp_all
      subst this
      exact ⟨Or.inl ⟨w, rfl, takeWhile_le w (sort buf) _ hx⟩,
        (mem_sort buf _).mp (mem_of_mem_takeWhile hx)⟩
    · cases h

/-- **C16 (released as soon as covered).** After a watermark `w` was processed nothing with a
    timestamp `≤ w` is still buffered; after the end of an iteration nothing is buffered. -/
theorem reorder_releases_all_covered (buf : List (TItem α)) (w : Int) :
    (∀ x ∈ (step buf (.wm w)).1, w < x.2) ∧ (step buf .far).1 = [] :=
  ⟨dropWhile_gt w (sort buf) (sort_sorted buf), rfl⟩

/-- **C16 / C06 (reorder preserves watermark safety).** Any watermark-safe stream (any number of
    iterations) is mapped to a watermark-safe stream. -/
theorem reorder_preserves_wmsafe (es : List (Elem α)) (h : wmSafeOk es = true) :
    wmSafeOk (run es) = true := by
  have key : ∀ (es : List (Elem α)) (buf : List (TItem α)) (lw : Option Int),
      wmSafeGo lw es = true → BufInv lw buf → wmSafeGo lw (runFrom buf es).2 = true := by
    intro es
    induction es with
    | nil => intro buf lw _ _; rfl
    | cons e es ih =>
      intro buf lw hsafe hinv
      cases e with
      | item a => simpa [runFrom, step, wmSafeGo] using ih buf lw (by simpa [wmSafeGo] using hsafe) hinv
      | flushBatch => simpa [runFrom, step, wmSafeGo] using ih buf lw (by simpa [wmSafeGo] using hsafe) hinv
      | term => simpa [runFrom, step, wmSafeGo] using ih buf lw (by simpa [wmSafeGo] using hsafe) hinv
      | ts a t =>
        simp only [wmSafeGo, Bool.and_eq_true] at hsafe
        have hinv' : BufInv lw (buf ++ [(a, t)]) := by
          intro x hx
          rcases List.mem_append.mp hx with hx | hx
          · exact hinv x hx
          · simp at hx; subst hx; exact (above_iff lw t).mp hsafe.1
        simpa [runFrom, step] using ih _ lw hsafe.2 hinv'
      | far =>
        simp only [wmSafeGo] at hsafe
        simp only [runFrom, step, List.append_assoc]
        rw [wmSafeGo_emit_append lw (sort buf) _ (fun x hx => hinv x ((mem_sort buf x).mp hx))]
        simpa [wmSafeGo] using ih [] none hsafe (fun _ h => by simp at h)
      | wm w =>
        simp only [wmSafeGo, Bool.and_eq_true] at hsafe
        have hsorted := sort_sorted buf
        have hinv' : BufInv (some w) ((sort buf).dropWhile (fun x => decide (x.2 ≤ w))) := by
          intro x hx w' hw'; injection hw' with hw'; subst hw'
          exact dropWhile_gt w (sort buf) hsorted x hx
        simp only [runFrom, step, List.append_assoc]
        rw [wmSafeGo_emit_append lw _ _ (fun x hx =>
          hinv x ((mem_sort buf x).mp (mem_of_mem_takeWhile hx)))]
        simp only [List.cons_append, List.nil_append, wmSafeGo, Bool.and_eq_true]
        exact ⟨hsafe.1, ih _ (some w) hsafe.2 hinv'⟩
  exact key es [] none h (fun _ h => by simp at h)

/-- **C16 (nothing is carried over).** After `FlushAndRestart` the buffer is empty, whatever was
    consumed before. -/
theorem reorder_resets (es : List (Elem α)) : (runFrom [] (es ++ [.far])).1 = [] :=
  runFrom_far_buf es []

/-- Non-vacuity: out-of-order elements, a watermark equal to an element's timestamp, duplicates
    (stable), a pass-through item, two iterations. -/
example : run ([.ts 1 5, .ts 2 3, .item 9, .ts 3 3, .wm 3, .ts 4 4, .far, .ts 5 1, .far, .term] : List (Elem Nat))
    = [.item 9, .ts 2 3, .ts 3 3, .wm 3, .ts 4 4, .ts 1 5, .far, .ts 5 1, .far, .term] := by decide

/-- For the record: without the watermark contract on the input the output is not sorted (a late
    element is released by the next watermark / the end, after later ones). -/
theorem late_input_counterexample :
    stamps (run ([.ts 1 5, .wm 6, .ts 2 2, .far] : List (Elem Nat))) = [5, 6, 2] := by decide

end Noir.Reorder
