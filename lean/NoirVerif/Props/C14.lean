/-
  Props/C14.lean — property theorems for C14 (session windows and processing-time windows).

  "Whatever the wall-clock timing, per key the tumbling processing-time windows and the session windows
   partition the elements: each element appears in exactly one result, results keep arrival order and none
   is empty. Sliding processing-time windows cover each element between one and ceil(size/slide) times,
   and all pending windows are flushed at the end of the iteration."

  Models: Model/SessionWindow.lean, Model/ProcTimeWindow.lean (the clock reading of every `process` call is
  an explicit argument; `Mono` = the readings are non-decreasing, which is the only assumption on the
  clock). Helper lemmas: Lemmas/TimeWindows.lean. Inputs are lists of timed ops `(now, element)` of one key.
  Vocabulary (Lemmas/TimeWindows.lean): `values es` = payloads of the data elements in arrival order,
  `timed es` = the same with their clock readings, `clocks es` = all clock readings, `NoEnd es` = no
  `FlushAndRestart`/`Terminate` among the ops (FlushBatch / Watermark noise is allowed everywhere).
-/
import NoirVerif.Lemmas.TimeWindows

/-! ## Session windows -/
namespace Noir.SessionWindow
open Noir.TimeWin
variable {α : Type}

/-- **C14 (session windows partition the elements).** For *every* clock sequence (not even
    monotonicity is needed), every gap and every sequence of stream elements of one key: the
    concatenation of the emitted results followed by the still open session is exactly the input in
    arrival order — each element is in exactly one result, order is kept — and no result is empty. -/
theorem session_partition (gap : Nat) (es : List (Nat × Elem α)) :
    (outputs gap none es).flatten ++ pending (stateAfter gap none es) = values es ∧
    ∀ r ∈ outputs gap none es, r ≠ [] := by
  refine ⟨by simpa [pending] using run_conserves gap es none, (run_ok gap es none ok_none).2⟩

/-- **C14 (flush at the end of the iteration, reset).** `FlushAndRestart` and `Terminate` emit the open
    session (if any) whatever the clock says and leave no open session: nothing is carried over. -/
theorem session_flush_at_end (gap : Nat) (w : State α) (now : Nat) (e : Elem α)
    (he : e = Elem.far ∨ e = Elem.term) :
    (process gap w now e).1 = none ∧ (process gap w now e).2.toList.flatten = pending w := by
  have h := process_conserves gap w now e
  have h1 : (process gap w now e).1 = none := by
    rcases he with rfl | rfl <;> cases w with
    | none => simp [process, expire]
    | some s => by_cases hg : now - s.last > gap <;> simp [process, expire, hg]
  refine ⟨h1, ?_⟩
  rcases he with rfl | rfl <;> simpa [h1, pending, Elem.value] using h

theorem session_resets (gap : Nat) (w : State α) (now : Nat) :
    (process gap w now Elem.far).1 = none ∧ (process gap w now Elem.term).1 = none :=
  ⟨(session_flush_at_end gap w now _ (Or.inl rfl)).1, (session_flush_at_end gap w now _ (Or.inr rfl)).1⟩

/-- **C14 (one whole iteration).** Data (with noise) followed by the end marker: the results
    concatenate to the input, none is empty, nothing stays open. Any clock. -/
theorem session_iteration_partition (gap t : Nat) (es : List (Nat × Elem α)) (e : Elem α)
    (he : e = Elem.far ∨ e = Elem.term) :
    (outputs gap none (es ++ [(t, e)])).flatten = values es ∧
    (∀ r ∈ outputs gap none (es ++ [(t, e)]), r ≠ []) ∧
    stateAfter gap none (es ++ [(t, e)]) = none := by
  have hst : stateAfter gap none (es ++ [(t, e)]) = none := by
    rw [stateAfter_append]; simp only [stateAfter]
    exact (session_flush_at_end gap _ t e he).1
  obtain ⟨h1, h2⟩ := session_partition gap (es ++ [(t, e)])
  refine ⟨?_, h2, hst⟩
  rw [hst] at h1
  rcases he with rfl | rfl <;> simpa [pending, values_append, values, Elem.value] using h1

/-- **C14 (where sessions split).** For every non-decreasing clock: the results of an iteration are
    exactly `groups gap` of the timed data — a new session starts at an element **iff** the clock advanced
    by *strictly more than* `gap` since the previous element of the key (`ts - slot.last > self.gap`,
    session.rs:45); a pause of exactly `gap` does not split. FlushBatch/Watermark in between do not
    change the groups (they may only emit an expired session earlier). -/
theorem session_split_iff_gap (gap t : Nat) (es : List (Nat × Elem α)) (e : Elem α)
    (he : e = Elem.far ∨ e = Elem.term) (hne : NoEnd es) (hm : Mono (clocks es ++ [t])) :
    outputs gap none (es ++ [(t, e)]) = groups gap (timed es) := by
  rcases he with rfl | rfl
  · exact outputs_groups gap t es hne hm
  · rw [← outputs_groups gap t es hne hm, outputs_append, outputs_append]
    rfl

/-- the specification `groups`, spelled out: the group is cut before `(t, x)` iff `t - last > gap`,
    where `last` is the arrival time of the previous element -/
theorem session_groups_step (gap : Nat) (cur : List α) (last t : Nat) (x : α) (rest : List (Nat × α)) :
    groupsGo gap cur last ((t, x) :: rest) =
      if t - last > gap then cur :: groupsGo gap [x] t rest else groupsGo gap (cur ++ [x]) t rest := rfl

/-- `groups` is a partition into non-empty consecutive runs (so `session_split_iff_gap` is consistent
    with `session_partition`) -/
theorem session_groups_flatten (gap : Nat) (l : List (Nat × α)) :
    (groups gap l).flatten = l.map (·.2) ∧ ∀ g ∈ groups gap l, g ≠ [] := by
  have aux : ∀ (rest : List (Nat × α)) (cur : List α) (last : Nat), cur ≠ [] →
      (groupsGo gap cur last rest).flatten = cur ++ rest.map (·.2) ∧
      ∀ g ∈ groupsGo gap cur last rest, g ≠ [] := by
    intro rest
    induction rest with
    | nil => intro cur last hc; simp [groupsGo, hc]
    | cons p rest ih =>
      intro cur last hc
      obtain ⟨t, x⟩ := p
      rw [groupsGo]
      split
      · obtain ⟨h1, h2⟩ := ih [x] t (by simp)
        refine ⟨by simp [h1], ?_⟩
        intro g hg
        rcases List.mem_cons.mp hg with rfl | hg
        · exact hc
        · exact h2 g hg
      · obtain ⟨h1, h2⟩ := ih (cur ++ [x]) t (by simp)
        exact ⟨by simp [h1], h2⟩
  cases l with
  | nil => simp [groups]
  | cons p rest =>
    obtain ⟨t, x⟩ := p
    simpa [groups] using aux rest [x] t (by simp)

/-- Non-vacuity / boundary strictness: gap 10, arrivals at 0, 10 (exactly the gap: same session),
    21 (gap + 1: new session), 21 (burst), then a Watermark at 40 closes the session early, FAR at 41. -/
example : run 10 [(0, Elem.item 1), (10, .item 2), (21, .item 3), (21, .item 4), (40, .wm 0), (41, .far)]
    = [(2, [1, 2]), (4, [3, 4])] := by decide

end Noir.SessionWindow

/-! ## Processing-time windows -/
namespace Noir.ProcTimeWindow
open Noir.TimeWin
variable {α : Type}

/-- **C14 (no empty result).** Any configuration, any elements, any clock. -/
theorem ptwin_no_empty_output (c : Cfg) (es : List (Nat × Elem α)) :
    ∀ r ∈ outputs c [] es, r ≠ [] :=
  (run_activeOk c es [] activeOk_nil).2

/-- **C14 (arrival order kept).** Every result is a subsequence of the input (any configuration, any
    clock): elements inside a window are in arrival order and belong to the input. -/
theorem ptwin_order_kept (c : Cfg) (es : List (Nat × Elem α)) :
    ∀ r ∈ outputs c [] es, r.Sublist (values es) := by
  simpa using run_subOf c es [] [] (by intro s h; cases h)

/-- **C14 (all pending windows are flushed at the end of the iteration).** On `FlushAndRestart` /
    `Terminate` every slot that holds an element is emitted — in deque order — and nothing stays pending. -/
theorem ptwin_flush_at_end (c : Cfg) (ws : List (Slot α)) (now : Nat) (e : Elem α)
    (he : e = Elem.far ∨ e = Elem.term) (hok : ActiveOk ws) :
    (process c ws now e).1 = [] ∧
    (process c ws now e).2 = (ws.filter (fun s => s.items ≠ [])).map (·.items) ∧
    (process c ws now e).2.flatten = content ws := by
  have hfil : ws.filter (·.active) = ws.filter (fun s => s.items ≠ []) := by
    apply List.filter_congr
    intro s hs
    have := hok s hs
    by_cases hi : s.items = [] <;> simp [hi] at this ⊢ <;> simpa using this
  rcases he with rfl | rfl <;>
    exact ⟨rfl, by simp [process, drainAll, hfil], by simpa [process, drainAll] using drainAll_content ws hok⟩

/-- the `ActiveOk` hypothesis of `ptwin_flush_at_end` holds in every reachable state -/
theorem ptwin_reachable_activeOk (c : Cfg) (es : List (Nat × Elem α)) : ActiveOk (stateAfter c [] es) :=
  (run_activeOk c es [] activeOk_nil).1

theorem ptwin_resets (c : Cfg) (ws : List (Slot α)) (now : Nat) :
    (process c ws now Elem.far).1 = [] ∧ (process c ws now Elem.term).1 = [] := ⟨rfl, rfl⟩

/-- **C14 (tumbling windows partition the elements).** `slide = size ≥ 1`, every non-decreasing clock,
    every sequence of stream elements (any number of iterations, noise anywhere): the concatenation of
    all results in emission order, followed by what is still pending (front to back), is the input in
    arrival order. -/
theorem ptwin_tumbling_partition (c : Cfg) (hsz : 1 ≤ c.size) (hts : c.slide = c.size)
    (es : List (Nat × Elem α)) (hm : Mono (clocks es)) :
    (outputs c [] es).flatten ++ content (stateAfter c [] es) = values es := by
  have hm' : Mono (0 :: clocks es) := by
    simp only [Mono, List.pairwise_cons]; exact ⟨fun _ _ => Nat.zero_le _, hm⟩
  simpa using run_tumbling c hsz hts es [] 0 (inv_init c 0) hm'

/-- **C14 (tumbling, one whole iteration).** Each element is in exactly one result, order kept,
    nothing pending after the end marker. -/
theorem ptwin_tumbling_iteration (c : Cfg) (hsz : 1 ≤ c.size) (hts : c.slide = c.size)
    (es : List (Nat × Elem α)) (t : Nat) (e : Elem α) (he : e = Elem.far ∨ e = Elem.term)
    (hm : Mono (clocks es ++ [t])) :
    (outputs c [] (es ++ [(t, e)])).flatten = values es ∧ stateAfter c [] (es ++ [(t, e)]) = [] := by
  have hst : stateAfter c [] (es ++ [(t, e)]) = [] := by
    rw [stateAfter_append]; rcases he with rfl | rfl <;> rfl
  have h := ptwin_tumbling_partition c hsz hts (es ++ [(t, e)]) (by simpa [clocks] using hm)
  rw [hst] at h
  refine ⟨?_, hst⟩
  rcases he with rfl | rfl <;> simpa [values_append, values, Elem.value] using h

section cover
variable [DecidableEq α]

/-- **C14 (sliding windows cover every element 1 … ceil(size/slide) times).** `1 ≤ slide ≤ size`, every
    non-decreasing clock, one whole iteration (noise anywhere): for every value `y`, the number of its
    occurrences in all results together is at least the number of its occurrences in the input and at
    most `ceil(size/slide)` times that number. (Elements are not inspected by the manager, so for
    pairwise distinct inputs this is "each element is in between 1 and ceil(size/slide) results", see
    `ptwin_sliding_cover_distinct`.) -/
theorem ptwin_sliding_cover (c : Cfg) (hs : 1 ≤ c.slide) (hss : c.slide ≤ c.size)
    (es : List (Nat × Elem α)) (t : Nat) (e : Elem α) (he : e = Elem.far ∨ e = Elem.term)
    (hm : Mono (clocks es ++ [t])) (y : α) :
    (values es).count y ≤ (outputs c [] (es ++ [(t, e)])).flatten.count y ∧
    (outputs c [] (es ++ [(t, e)])).flatten.count y ≤ (c.size + c.slide - 1) / c.slide * (values es).count y := by
  have hst : stateAfter c [] (es ++ [(t, e)]) = [] := by
    rw [stateAfter_append]; rcases he with rfl | rfl <;> rfl
  have hm' : Mono (0 :: clocks (es ++ [(t, e)])) := by
    simp only [Mono, List.pairwise_cons]
    exact ⟨fun _ _ => Nat.zero_le _, by simpa [clocks, Mono] using hm⟩
  obtain ⟨n, h1, h2, h3⟩ := run_sliding c hs hss y (es ++ [(t, e)]) [] 0 (inv_init c 0) hm'
  have hv : values (es ++ [(t, e)]) = values es := by
    rcases he with rfl | rfl <;> simp [values, Elem.value]
  rw [hv] at h2 h3
  rw [hst] at h1
  simp only [content_nil, List.append_nil, List.count_nil, Nat.zero_add] at h1
  omega

/-- number of results that contain `y` -/
def resultsWith (y : α) (rs : List (List α)) : Nat := (rs.filter (fun r => decide (y ∈ r))).length

/-- **C14 (sliding cover, distinct elements).** If the elements of the iteration are pairwise distinct,
    each of them is contained in at least 1 and at most `ceil(size/slide)` results. -/
theorem ptwin_sliding_cover_distinct (c : Cfg) (hs : 1 ≤ c.slide) (hss : c.slide ≤ c.size)
    (es : List (Nat × Elem α)) (t : Nat) (e : Elem α) (he : e = Elem.far ∨ e = Elem.term)
    (hm : Mono (clocks es ++ [t])) (hnd : (values es).Nodup) (y : α) (hy : y ∈ values es) :
    1 ≤ resultsWith y (outputs c [] (es ++ [(t, e)])) ∧
    resultsWith y (outputs c [] (es ++ [(t, e)])) ≤ (c.size + c.slide - 1) / c.slide := by
  have hsub : ∀ r ∈ outputs c [] (es ++ [(t, e)]), r.Sublist (values es) := by
    have hv : values (es ++ [(t, e)]) = values es := by
      rcases he with rfl | rfl <;> simp [values, Elem.value]
    simpa [hv] using ptwin_order_kept c (es ++ [(t, e)])
  have key : ∀ rs : List (List α), (∀ r ∈ rs, r.Nodup) → rs.flatten.count y = resultsWith y rs := by
    intro rs
    induction rs with
    | nil => intro _; rfl
    | cons r rs ih =>
      intro h
      have hr : r.Nodup := h r (by simp)
      have := ih (fun r' hr' => h r' (by simp [hr']))
      simp only [List.flatten_cons, List.count_append, this, resultsWith, List.filter_cons]
      rw [hr.count]
      by_cases hm : y ∈ r
      · simp [hm]; omega
      · simp [hm]
  have hc := ptwin_sliding_cover c hs hss es t e he hm y
  rw [key _ (fun r hr => (hsub r hr).nodup hnd), hnd.count] at hc
  simp only [hy, if_true, Nat.mul_one] at hc
  omega

end cover

/-- Non-vacuity, tumbling, size 10: arrivals at 0, 3 (same window), 10 (exactly the window end: next
    window), 35 (pause longer than a window: the empty windows in between produce nothing), FAR. -/
example : run ⟨10, 10⟩ [(0, Elem.item 1), (3, .item 2), (10, .item 3), (35, .item 4), (36, .far)]
    = [(3, [1, 2]), (3, [3]), (4, [4])] := by decide

/-- Non-vacuity, sliding size 10 slide 5 (ceil = 2): windows start at the first arrival. -/
example : (run ⟨10, 5⟩ [(0, Elem.item 1), (5, .item 2), (9, .item 3), (10, .item 4), (30, .far)]).map (·.2)
    = [[1, 2, 3], [2, 3, 4], [4]] := by decide

/-- Outside C14's quantifier (`slide > size`): elements arriving between two windows are dropped
    (size 2, slide 5: the element at clock 3 is in no window). For the record, not a defect. -/
theorem slide_gt_size_drops_element :
    (run ⟨2, 5⟩ [(0, Elem.item 1), (3, .item 2), (5, .item 3), (9, .far)]).map (·.2) = [[1], [3]] := by
  decide

/-- The monotone-clock assumption is necessary for the processing-time manager: if the clock went
    backwards (10, then 5) the second element would be stored in no window. `std::time::Instant` is
    monotone, so this is an assumption of C14, not a defect. -/
theorem nonmonotone_clock_drops_element :
    (run ⟨10, 10⟩ [(10, Elem.item 1), (5, .item 2), (30, .far)]).map (·.2) = [[1]] := by decide

/-- Model fidelity: `partition_point` (processing_time.rs:83) is only specified on a deque that is
    partitioned w.r.t. `end < now`; the model takes the longest prefix instead. In every reachable state
    (and on the deque after the `while` loop and the marking) the `end`s are sorted, so both agree; and
    the `while` loop has exited because its condition is false, not because the model's fuel ran out. -/
theorem ptwin_deque_sorted (c : Cfg) (hs : 1 ≤ c.slide) (ws : List (Slot α)) (t now : Nat) (x : α)
    (inv : Inv c ws t) (ht : t ≤ now) :
    (ws.map (·.stop)).Pairwise (· ≤ ·) ∧
    ((mark now x (grow c now ws)).map (·.stop)).Pairwise (· ≤ ·) ∧
    ∃ b, (grow c now ws).getLast? = some b ∧ ¬ b.start < now := by
  obtain ⟨a, hc, ha⟩ := inv.chain
  obtain ⟨a', hc', _⟩ := (mark_grow_inv c hs ws t now x inv ht).chain
  obtain ⟨ext, b', _, hg, _, _, _, hl, hb⟩ := grow_spec c now hs ws a hc (by omega)
  exact ⟨chain_stop_sorted c ws a hc, chain_stop_sorted c _ a' hc', b', by rw [hg]; exact hl, by omega⟩

/-- every state reached from the initial one under a monotone clock satisfies the invariant used above -/
theorem ptwin_reachable_inv (c : Cfg) (hs : 1 ≤ c.slide) (hss : c.slide ≤ c.size)
    (es : List (Nat × Elem α)) (hm : Mono (clocks es)) :
    ∃ t, Inv c (stateAfter c [] es) t ∧ ∀ u ∈ clocks es, u ≤ t := by
  have hm' : Mono (0 :: clocks es) := by
    simp only [Mono, List.pairwise_cons]; exact ⟨fun _ _ => Nat.zero_le _, hm⟩
  obtain ⟨t, h1, _, h3⟩ := run_inv c hs hss es [] 0 (inv_init c 0) hm'
  exact ⟨t, h1, h3⟩

end Noir.ProcTimeWindow
