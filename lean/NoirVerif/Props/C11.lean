/-
  Props/C11.lean — side inputs of a loop (C11): `Start<BinaryStartReceiver>` with a cached side
  (src/operator/start/binary.rs composed with src/operator/start/mod.rs:213-311).

  Full-strength statements of the property (a history is a list of `enq`/`pump` ops, see
  Model/BinaryStart.lean; it is *contract respecting* when the cached side sends one iteration and
  terminates, the loop side sends `K` synchronised rounds and then terminates, and no round starts
  before the previous one is over on both sides):

    cache_replayed_each_round : for every contract-respecting history, every parallelism and every
        interleaving, `c11Ok cachedLeft (run … h).1` — every round closed by a `FlushAndRestart`
        presents the cached side exactly as round 1 did (same elements, same order, End marker
        once) and nothing of the cached side follows the last `FlushAndRestart`;
    cache_read_once           : once the cached side has sent all its `Terminate`s its channel is never
        received from again;
    cached_terminate_once     : the output contains `Terminate` at most once, as its last element, and
        nothing is pulled after it.

  `cache_read_once` and `cached_terminate_once` are proved at full strength (every state / every
  history). `cache_replayed_each_round` is FALSE for the unchanged code:

   * F6  (`cache_replay_counterexample`): with ≥ 2 replicas on the loop side the first loop-side
     `Terminate` is consumed by the `first_message` branch of `select` (binary.rs:237-245), the
     next `select` takes the cache branch (binary.rs:246-251) and replays the whole cache between the
     last `FlushAndRestart` and `Terminate`.
   * F6b (`cache_replay_timeout_counterexample`): `first_message` is cleared BEFORE the receive
     (binary.rs:240); when that receive times out (`Start` uses `recv_timeout(max_delay)`,
     mod.rs:286-301) the flag is lost, the cache is replayed before the loop side said whether a new
     round starts, and if the loop has ended the replay lands after the last `FlushAndRestart` —
     also with a single loop-side replica.

  What is proved instead (`…_partial`): the mechanism that makes every round identical — the cache
  never changes once the cached side has terminated (`cache_frozen_partial`), and a replay hands out
  exactly the whole cache, in order, without touching a channel (`cache_replayed_each_round_partial`).
  Missing for full strength (blocked by F6/F6b): that the cache equals the batches handed out in
  round 1 (by construction of `process_side`, binary.rs:182-186, exercised by the correspondence
  check only), and that a replay is started once per round and only in rounds that are opened by
  a loop-side data batch.
-/
import NoirVerif.Lemmas.BinaryStart
namespace Noir.BinaryStart

variable {α : Type}

/-- **C11 (read once), left side cached.** In every state in which the cached left side has received
    all its `Terminate`s, whatever history follows (any batches on either channel, any pulls), the
    left channel only grows: nothing is ever received from it again. -/
theorem cache_read_once (st : State α) (hc : st.left.cached = true) (ht : st.left.missingTerm = 0)
    (i : Nat) (ops : List (Op α)) :
    ∃ added, (runFrom st i ops).1.qL = st.qL ++ added := by
  obtain ⟨a, h⟩ := runFrom_leftDone ops st i st.qL ⟨hc, ht, rfl⟩
  exact ⟨a, h.queue⟩

/-- Former finding F6 (fixed by 6c83288), now the right output: left side cached with one replica
    (one element `41`), loop side with TWO replicas, one round, the batch that ends the round and
    the first `Terminate` are in the channel together. Nothing follows the `FlushAndRestart` but
    `Terminate`. (Before the fix: `… far, item (left 41), item leftEnd, term`.) -/
example :
    let h : List (Op Nat) :=
      Op.b true 0 [.item 41, .far, .term] ++ Op.b false 0 [.far] ++ [.enq false 1 [.far]]
        ++ Op.b false 0 [.term] ++ Op.b false 1 [.term]
    run 1 2 true false h =
      ([.item (.left 41), .item .leftEnd, .item .rightEnd, .far, .term], .done)
    ∧ c11Ok true (run 1 2 true false h).1 = true := by
  decide

/-- Former finding F6 with the right side cached (mirror image). -/
example :
    let h : List (Op Nat) :=
      Op.b false 0 [.item 41, .far, .term] ++ Op.b true 0 [.far] ++ [.enq true 1 [.far]]
        ++ Op.b true 0 [.term] ++ Op.b true 1 [.term]
    run 2 1 false true h =
      ([.item (.right 41), .item .rightEnd, .item .leftEnd, .far, .term], .done)
    ∧ c11Ok false (run 2 1 false true h).1 = true := by
  decide

/-- Former finding F6b (fixed by 14727d5): ONE loop-side replica, every batch is followed by a pull
    up to the receive timeout (the loop side is slower than `max_delay`); the timeout at the round
    boundary no longer loses `first_message`. -/
example :
    let h : List (Op Nat) :=
      Op.b true 0 [.item 41, .far, .term] ++ Op.b false 0 [.far] ++ Op.b false 0 [.term]
    run 1 1 true false h =
      ([.item (.left 41), .item .leftEnd, .item .rightEnd, .far, .term], .done)
    ∧ c11Ok true (run 1 1 true false h).1 = true := by
  decide

/-- Two loop-side replicas, two rounds, a receive timeout after every batch (also at both round
    boundaries): round 2 presents the cached side exactly as round 1. -/
example :
    let h : List (Op Nat) :=
      Op.b true 0 [.item 41, .far, .term] ++ Op.b false 0 [.far] ++ Op.b false 1 [.far]
        ++ Op.b false 1 [.item 5] ++ Op.b false 0 [.far] ++ Op.b false 1 [.far]
        ++ Op.b false 1 [.term] ++ Op.b false 0 [.term]
    run 1 2 true false h =
      ([.item (.left 41), .item .leftEnd, .item .rightEnd, .far,
        .item (.right 5), .item (.left 41), .item .leftEnd, .item .rightEnd, .far, .term], .done)
    ∧ c11Ok true (run 1 2 true false h).1 = true := by
  decide

/-- **C11 (the end is propagated once).** For every history from a state whose `Start` has not
    terminated (every parallelism, every interleaving, cached or not): `Terminate` occurs in the
    output at most once, only as the last element, and exactly when the run ended with `Terminate`
    (after which nothing is pulled). -/
theorem cached_terminate_once (st : State α) (h : st.start.missingTerm ≠ 0) (i : Nat) (ops : List (Op α)) :
    ((runFrom st i ops).2.2.1 ≠ .done ∧ Elem.term ∉ (runFrom st i ops).2.1.map (·.2))
    ∨ ((runFrom st i ops).2.2.1 = .done
        ∧ ∃ pre, (runFrom st i ops).2.1.map (·.2) = pre ++ [Elem.term] ∧ Elem.term ∉ pre) :=
  runFrom_term ops st i h

/-- **C11 (the cache is frozen, `_partial`).** Once the cached left side has received all its
    `Terminate`s a pull of any length leaves the cache as it is (so every later replay hands out the
    same batches). -/
theorem cache_frozen_partial (st : State α) (hc : st.left.cached = true) (ht : st.left.missingTerm = 0)
    (fuel : Nat) : (pump fuel st).1.left.cache = st.left.cache :=
  pump_leftDone_cache fuel st ⟨hc, ht, rfl⟩

/-- **C11 (every replay is the whole cache, `_partial`).** In every state in which the receiver is
    about to replay the left cache (cached side terminated, cache full, `k` batches still to
    replay, the loop side not terminated), the next `k` calls of `select` return exactly the
    remaining cached batches, in the order in which they were handed out in round 1, receive from
    no channel, leave the cache and the loop side untouched and end with the cached side counted as
    ended (`missing_flush_and_restart = 0`). Together with `cache_frozen_partial` this is why every
    round that replays presents identical content. Missing for full strength: see the header
    (which rounds replay, and how often — F6/F6b). -/
theorem cache_replayed_each_round_partial (st : State α) (h : ReplayingL st) :
    let k := st.left.cache.length - st.left.cachePointer
    (selectIter k st).2 = (st.left.cache.drop st.left.cachePointer).map (Sel.replay true)
    ∧ (selectIter k st).1.qL = st.qL ∧ (selectIter k st).1.qR = st.qR
    ∧ (selectIter k st).1.left.cache = st.left.cache
    ∧ (selectIter k st).1.left.cachePointer = st.left.cache.length
    ∧ (selectIter k st).1.left.missingFar = 0
    ∧ (selectIter k st).1.right = st.right :=
  replayL_whole_cache _ st h rfl

/-- **C09 (merge) / C11: without a cache nothing is lost, duplicated or reordered per side.** For every
    history (any batches, any interleaving, any pulls) all of whose pulls ended in a receive timeout
    (i.e. every prefix of a run before `Terminate`): the payloads sent on a side are exactly, in
    order, the payloads of that side in the output followed by those still waiting in the channel.
    (Per-iteration alignment of the `FlushAndRestart`s is checked by the oracle, not proved.) -/
theorem bstart_nocache_conserves (nL nR : Nat) (ops : List (Op α))
    (hidle : (runFrom (init nL nR false false) 0 ops).2.2.1 = .idle) :
    let r := runFrom (init nL nR false false) 0 ops
    payloads true (r.2.1.map (·.2)) ++ pendL r.1 = sentPayloads true ops
    ∧ payloads false (r.2.1.map (·.2)) ++ pendR r.1 = sentPayloads false ops := by
  have := runFrom_conserves ops (init nL nR false false) 0 rfl rfl hidle
  simpa [pendL, pendR, init, inPayloads] using this

/-- Non-vacuity of `bstart_nocache_conserves`: two iterations, the left `Terminate` waits in the
    channel while the right side is still in its iteration. -/
example :
    let h : List (Op Nat) :=
      Op.b true 0 [.item 1, .far] ++ [.enq true 0 [.term]] ++ Op.b false 0 [.item 2] ++ Op.b false 0 [.item 3, .far]
    (runFrom (init 1 1 false false) 0 h).2.2.1 = .idle
    ∧ (run 1 1 false false h).1 =
        [.item (.left 1), .item .leftEnd, .item (.right 2), .item (.right 3), .item .rightEnd, .far] := by
  decide

/-- Non-vacuity / the good case: one loop-side replica, three rounds, no receive timeout at the
    round boundaries: every round presents `41, 42, LeftEnd`, nothing follows the last
    `FlushAndRestart`, `Terminate` once. -/
example :
    let h : List (Op Nat) :=
      Op.b true 0 [.item 41] ++ Op.b false 0 [.item 1] ++ Op.b true 0 [.item 42, .far, .term]
        ++ [.enq false 0 [.far]] ++ Op.b false 0 [.item 2] ++ [.enq false 0 [.far]]
        ++ [.enq false 0 [.item 3, .far]] ++ Op.b false 0 [.term]
    run 1 1 true false h =
      ([.item (.left 41), .item (.right 1), .item (.left 42), .item .leftEnd, .item .rightEnd, .far,
        .item (.right 2), .item (.left 41), .item (.left 42), .item .leftEnd, .item .rightEnd, .far,
        .item (.right 3), .item .rightEnd, .item (.left 41), .item (.left 42), .item .leftEnd, .far,
        .term], .done)
    ∧ c11Ok true (run 1 1 true false h).1 = true := by
  decide

end Noir.BinaryStart
