/-
  Props/C11.lean — side inputs of a loop (C11): `Start<BinaryStartReceiver>` with a cached side
  (src/operator/start/binary.rs, as of 6c83288 + 14727d5, composed with src/operator/start/mod.rs:213-311).

  A history is a list of `enq`/`pump` ops (Model/BinaryStart.lean): batches put into the two channels in
  any order, pulls (`next()` until the receive timeout or `Terminate`) anywhere in between — so every
  interleaving of the two sides and every pattern of receive timeouts is a history. The input contract
  `contractL nL nR h` (left side cached; Lemmas/BinaryStart.lean: `cachedOk`, `loopOk`) says: every batch
  is `plain elements ++ control tail`; the cached side sends one iteration (`nL` `FlushAndRestart`s in all,
  `Terminate`s after them, no data after the last `FlushAndRestart`); the loop side sends rounds of `nR`
  `FlushAndRestart`s, each batch ending at its `FlushAndRestart`, and then, after at least one round and
  between rounds only, `Terminate`s in batches of their own (this is what `End` produces: it flushes at
  `FlushAndRestart` and at `Terminate`, src/operator/end.rs:223-228). Replicas are not told apart (only
  counts matter to the receiver), and NO synchronisation between the two sides is assumed: the receiver
  enforces it by not listening.

  Every theorem about runs is also quantified over an oracle `ch : Nat → Bool` that resolves the one
  unspecified point of the implementation: which channel a `select` over BOTH channels takes when both are
  non-empty (`ch k` = take the left one at the k-th such `select`). So no assumption about that choice
  (formerly the `ambiguous` guard) is left.

  Proved at full strength, for the LEFT side cached (`contractL`) and for the RIGHT side cached
  (`contractR`, theorems `…_right`), every `nL, nR ≥ 1`, every contract-respecting history, every `ch`:
    cache_replayed_each_round[_right]        every round closed by a `FlushAndRestart` presents the cached
                                             side (its data elements and its End marker, in order) exactly
                                             as round 1;
    end_marker_once_each_round[_right]       every closed round contains the cached side's End marker once;
    cache_not_replayed_after_loop_end[_right]  when the run has returned `Terminate`, the output ends
                                             `… FlushAndRestart, Terminate` — nothing of the cached side
                                             (nothing at all) after the last `FlushAndRestart` (`c11Ok`);
    contract_never_panics[_right]            no counter of `process_side` underflows;
  and for EVERY history (contract or not): cache_read_once, cached_terminate_once, cache_frozen_partial,
  cache_replayed_each_round_partial; bstart_nocache_conserves (C09, no cache).

  Proof, left: an invariant over the whole state (Lemmas/BinaryStart.lean `InvC`: phases round 1 / waiting
  for the first loop-side batch / replaying + rest of a later round / terminating / terminated, relating
  the receiver's counters, `Start`'s counters and pending watermark, the cache, the contract state of what
  is still queued or to be sent, and the shape of the output so far), preserved by every `select` + `Start`
  step for either resolution of the choice (`inv_select`), lifted over pulls and histories (`pump_inv`,
  `runFrom_inv`). Right: NOT a second copy — the model commutes with the exchange of the two sides
  (`State.swap`, `swapOp`, `swapEl`: `select_swap`, `pump_swap`, `runFrom_swap`, with the oracle flipped)
  along every run that satisfies the left invariant; the one asymmetric point of `select` (which side is
  asked first when BOTH sides have ended at the plain-receive branch) is never reached there (`inv_sym`);
  sender indices are kept by carrying the sides' replica offsets in the state.

  Nothing of C11 stays `_partial` except the two state-level facts that are named so because they are
  steps of the argument rather than the property (`cache_frozen_partial`,
  `cache_replayed_each_round_partial`). The old unconditional `cache_read_once_right` is false for the new
  code outside the contract (a loop-side batch `[…, FlushAndRestart, Terminate]` makes 6c83288 skip the
  replay and the receiver then listens to the terminated cached side) and stays removed.
  Findings F6 / F6b (cache replayed after the loop ended) are fixed; their witnesses are `example`s below
  and the first cases of every correspondence run.
-/
import NoirVerif.Lemmas.BinaryStart
namespace Noir.BinaryStart

variable {α : Type}

/-- **C11 (read once), left side cached.** In every state in which the cached left side has received
    all its `Terminate`s, whatever history follows (any batches on either channel, any pulls), the
    left channel only grows: nothing is ever received from it again. -/
theorem cache_read_once (st : State α) (hc : st.left.cached = true) (ht : st.left.missingTerm = 0)
    (ch : Nat → Bool) (i : Nat) (ops : List (Op α)) :
    ∃ added, (runFrom ch st i ops).1.qL = st.qL ++ added := by
  obtain ⟨a, h⟩ := runFrom_leftDone (ch := ch) ops st i st.qL ⟨hc, ht, rfl⟩
  exact ⟨a, h.queue⟩

/-- **C11 (identical content in every round).** Left side cached, any `nL, nR ≥ 1`, any
    contract-respecting history (any interleaving of the two sides, any receive timeouts, complete or
    not), any resolution `ch` of the unspecified choice of a two-sided `select`: every round of the
    output that has been closed by a `FlushAndRestart` presents the cached side — its data elements
    and its End marker, in order — exactly as the first round does. -/
theorem cache_replayed_each_round (ch : Nat → Bool) (nL nR : Nat) (ops : List (Op α))
    (hc : contractL nL nR ops = true) :
    ∀ r ∈ (splitRounds (run ch nL nR true false ops).1).1,
      presented true r = presented true ((splitRounds (run ch nL nR true false ops).1).1.headD []) :=
  shaped_rounds_equal (run_shaped nL nR ops hc)

/-- **C11 (End marker once per round).** Same quantifier: every closed round contains the cached side's
    End marker (`LeftEnd`) exactly once. -/
theorem end_marker_once_each_round (ch : Nat → Bool) (nL nR : Nat) (ops : List (Op α))
    (hc : contractL nL nR ops = true) :
    ∀ r ∈ (splitRounds (run ch nL nR true false ops).1).1, markers r = 1 :=
  shaped_marker_once (run_shaped nL nR ops hc) markers_presented

/-- **C11 (nothing after the loop has ended).** Same quantifier; when the run has returned `Terminate`:
    what follows the last `FlushAndRestart` is `Terminate` alone, and the whole output satisfies the
    C11 recogniser (all rounds alike, nothing of the cached side after the last `FlushAndRestart`). -/
theorem cache_not_replayed_after_loop_end [DecidableEq α] (ch : Nat → Bool) (nL nR : Nat) (ops : List (Op α))
    (hc : contractL nL nR ops = true) (hd : (run ch nL nR true false ops).2 = .done) :
    (splitRounds (run ch nL nR true false ops).1).2 = [Elem.term]
    ∧ c11Ok true (run ch nL nR true false ops).1 = true :=
  shaped_after_end (run_shaped nL nR ops hc) hd

/-- **No counter underflow.** A contract-respecting history never drives a `usize` counter of
    `process_side` below zero (the model's `panic` outcome). -/
theorem contract_never_panics (ch : Nat → Bool) (nL nR : Nat) (ops : List (Op α))
    (hc : contractL nL nR ops = true) : (run ch nL nR true false ops).2 ≠ .panic :=
  shaped_no_panic (run_shaped nL nR ops hc)

/-! ### The mirror image: RIGHT side cached

  `contractR nL nR h`: the right side (`nR` replicas) sends one iteration and terminates, the left side
  (`nL` replicas) is the loop side. Proof: the model commutes with the exchange of the two sides
  (`State.swap`, `swapOp`, `swapEl`; Lemmas/BinaryStart.lean `select_swap`, `pump_swap`, `runFrom_swap`)
  along every run that satisfies the left-cached invariant — the only asymmetric point of `select`
  (branch order when BOTH sides have ended at the plain-receive branch) is never reached there
  (`inv_sym`), and the unspecified choice of the two-sided `select` is covered by flipping the oracle. -/

theorem cache_replayed_each_round_right (ch : Nat → Bool) (nL nR : Nat) (ops : List (Op α))
    (hc : contractR nL nR ops = true) :
    ∀ r ∈ (splitRounds (run ch nL nR false true ops).1).1,
      presented false r = presented false ((splitRounds (run ch nL nR false true ops).1).1.headD []) :=
  shaped_rounds_equal (run_shaped_right nL nR ops hc)

theorem end_marker_once_each_round_right (ch : Nat → Bool) (nL nR : Nat) (ops : List (Op α))
    (hc : contractR nL nR ops = true) :
    ∀ r ∈ (splitRounds (run ch nL nR false true ops).1).1, markersR r = 1 :=
  shaped_marker_once (run_shaped_right nL nR ops hc) markersR_presented

theorem cache_not_replayed_after_loop_end_right [DecidableEq α] (ch : Nat → Bool) (nL nR : Nat)
    (ops : List (Op α)) (hc : contractR nL nR ops = true) (hd : (run ch nL nR false true ops).2 = .done) :
    (splitRounds (run ch nL nR false true ops).1).2 = [Elem.term]
    ∧ c11Ok false (run ch nL nR false true ops).1 = true :=
  shaped_after_end (run_shaped_right nL nR ops hc) hd

theorem contract_never_panics_right (ch : Nat → Bool) (nL nR : Nat) (ops : List (Op α))
    (hc : contractR nL nR ops = true) : (run ch nL nR false true ops).2 ≠ .panic :=
  shaped_no_panic (run_shaped_right nL nR ops hc)

/-- Non-vacuity: the witnesses below respect the contract. -/
example :
    contractL 1 2 (Op.b true 0 [.item 41, .far, .term] ++ Op.b false 0 [.far] ++ [.enq false 1 [.far]]
        ++ Op.b false 0 [.term] ++ Op.b false 1 [.term] : List (Op Nat)) = true
    ∧ contractL 1 1 (Op.b true 0 [.item 41, .far, .term] ++ Op.b false 0 [.far] ++ Op.b false 0 [.term]
        : List (Op Nat)) = true
    ∧ contractL 1 2 (Op.b true 0 [.item 41, .far, .term] ++ Op.b false 0 [.far] ++ Op.b false 1 [.far]
        ++ Op.b false 1 [.item 5] ++ Op.b false 0 [.far] ++ Op.b false 1 [.far]
        ++ Op.b false 1 [.term] ++ Op.b false 0 [.term] : List (Op Nat)) = true := by
  decide

/-- Non-vacuity of the right-cached theorems, and the unspecified choice: right side cached, the cached
    batch and a loop-side batch are both in their channels when the first two-sided `select` runs; the
    history respects `contractR`, and both resolutions of the choice give a correct (different) output. -/
example :
    let h : List (Op Nat) :=
      [.enq false 0 [.item 41, .far, .term]] ++ Op.b true 0 [.item 5, .far] ++ Op.b true 0 [.item 6, .far]
        ++ Op.b true 0 [.term]
    contractR 1 1 h = true
    ∧ run (fun _ => true) 1 1 false true h =
        ([.item (.left 5), .item .leftEnd, .item (.right 41), .item .rightEnd, .far,
          .item (.left 6), .item .leftEnd, .item (.right 41), .item .rightEnd, .far, .term], .done)
    ∧ run (fun _ => false) 1 1 false true h =
        ([.item (.right 41), .item .rightEnd, .item (.left 5), .item .leftEnd, .far,
          .item (.left 6), .item .leftEnd, .item (.right 41), .item .rightEnd, .far, .term], .done) := by
  decide

/-- Former finding F6 (fixed by 6c83288), now the right output: left side cached with one replica
    (one element `41`), loop side with TWO replicas, one round, the batch that ends the round and
    the first `Terminate` are in the channel together. Nothing follows the `FlushAndRestart` but
    `Terminate`. (Before the fix: `… far, item (left 41), item leftEnd, term`.) -/
example :
    let h : List (Op Nat) :=
      Op.b true 0 [.item 41, .far, .term] ++ Op.b false 0 [.far] ++ [.enq false 1 [.far]]
        ++ Op.b false 0 [.term] ++ Op.b false 1 [.term]
    run (fun _ => true) 1 2 true false h =
      ([.item (.left 41), .item .leftEnd, .item .rightEnd, .far, .term], .done)
    ∧ c11Ok true (run (fun _ => true) 1 2 true false h).1 = true := by
  decide

/-- Former finding F6 with the right side cached (mirror image). -/
example :
    let h : List (Op Nat) :=
      Op.b false 0 [.item 41, .far, .term] ++ Op.b true 0 [.far] ++ [.enq true 1 [.far]]
        ++ Op.b true 0 [.term] ++ Op.b true 1 [.term]
    run (fun _ => true) 2 1 false true h =
      ([.item (.right 41), .item .rightEnd, .item .leftEnd, .far, .term], .done)
    ∧ c11Ok false (run (fun _ => true) 2 1 false true h).1 = true := by
  decide

/-- Former finding F6b (fixed by 14727d5): ONE loop-side replica, every batch is followed by a pull
    up to the receive timeout (the loop side is slower than `max_delay`); the timeout at the round
    boundary no longer loses `first_message`. -/
example :
    let h : List (Op Nat) :=
      Op.b true 0 [.item 41, .far, .term] ++ Op.b false 0 [.far] ++ Op.b false 0 [.term]
    run (fun _ => true) 1 1 true false h =
      ([.item (.left 41), .item .leftEnd, .item .rightEnd, .far, .term], .done)
    ∧ c11Ok true (run (fun _ => true) 1 1 true false h).1 = true := by
  decide

/-- Two loop-side replicas, two rounds, a receive timeout after every batch (also at both round
    boundaries): round 2 presents the cached side exactly as round 1. -/
example :
    let h : List (Op Nat) :=
      Op.b true 0 [.item 41, .far, .term] ++ Op.b false 0 [.far] ++ Op.b false 1 [.far]
        ++ Op.b false 1 [.item 5] ++ Op.b false 0 [.far] ++ Op.b false 1 [.far]
        ++ Op.b false 1 [.term] ++ Op.b false 0 [.term]
    run (fun _ => true) 1 2 true false h =
      ([.item (.left 41), .item .leftEnd, .item .rightEnd, .far,
        .item (.right 5), .item (.left 41), .item .leftEnd, .item .rightEnd, .far, .term], .done)
    ∧ c11Ok true (run (fun _ => true) 1 2 true false h).1 = true := by
  decide

/-- **C11 (the end is propagated once).** For every history from a state whose `Start` has not
    terminated (every parallelism, every interleaving, cached or not): `Terminate` occurs in the
    output at most once, only as the last element, and exactly when the run ended with `Terminate`
    (after which nothing is pulled). -/
theorem cached_terminate_once (ch : Nat → Bool) (st : State α) (h : st.start.missingTerm ≠ 0) (i : Nat)
    (ops : List (Op α)) :
    ((runFrom ch st i ops).2.2.1 ≠ .done ∧ Elem.term ∉ (runFrom ch st i ops).2.1.map (·.2))
    ∨ ((runFrom ch st i ops).2.2.1 = .done
        ∧ ∃ pre, (runFrom ch st i ops).2.1.map (·.2) = pre ++ [Elem.term] ∧ Elem.term ∉ pre) :=
  runFrom_term ops st i h

/-- **C11 (the cache is frozen, `_partial`).** Once the cached left side has received all its
    `Terminate`s a pull of any length leaves the cache as it is (so every later replay hands out the
    same batches). -/
theorem cache_frozen_partial (st : State α) (hc : st.left.cached = true) (ht : st.left.missingTerm = 0)
    (ch : Nat → Bool) (fuel : Nat) : (pump ch fuel st).1.left.cache = st.left.cache :=
  pump_leftDone_cache fuel st ⟨hc, ht, rfl⟩

/-- **C11 (every replay is the whole cache, `_partial`).** In every state in which the receiver is
    about to replay the left cache (cached side terminated, cache full, `k` batches still to
    replay, the loop side not terminated), the next `k` calls of `select` return exactly the
    remaining cached batches, in the order in which they were handed out in round 1, receive from
    no channel, leave the cache and the loop side untouched and end with the cached side counted as
    ended (`missing_flush_and_restart = 0`). Together with `cache_frozen_partial` this is why every
    round that replays presents identical content. Missing for full strength: see the header
    (which rounds replay, and how often — F6/F6b). -/
theorem cache_replayed_each_round_partial (ch : Nat → Bool) (st : State α) (h : ReplayingL st) :
    let k := st.left.cache.length - st.left.cachePointer
    (selectIter ch k st).2 = (st.left.cache.drop st.left.cachePointer).map (Sel.replay true)
    ∧ (selectIter ch k st).1.qL = st.qL ∧ (selectIter ch k st).1.qR = st.qR
    ∧ (selectIter ch k st).1.left.cache = st.left.cache
    ∧ (selectIter ch k st).1.left.cachePointer = st.left.cache.length
    ∧ (selectIter ch k st).1.left.missingFar = 0
    ∧ (selectIter ch k st).1.right = st.right :=
  replayL_whole_cache _ st h rfl

/-- **C09 (merge) / C11: without a cache nothing is lost, duplicated or reordered per side.** For every
    history (any batches, any interleaving, any pulls) all of whose pulls ended in a receive timeout
    (i.e. every prefix of a run before `Terminate`): the payloads sent on a side are exactly, in
    order, the payloads of that side in the output followed by those still waiting in the channel.
    (Per-iteration alignment of the `FlushAndRestart`s is checked by the oracle, not proved.) -/
theorem bstart_nocache_conserves (ch : Nat → Bool) (nL nR : Nat) (ops : List (Op α))
    (hidle : (runFrom ch (init nL nR false false) 0 ops).2.2.1 = .idle) :
    let r := runFrom ch (init nL nR false false) 0 ops
    payloads true (r.2.1.map (·.2)) ++ pendL r.1 = sentPayloads true ops
    ∧ payloads false (r.2.1.map (·.2)) ++ pendR r.1 = sentPayloads false ops := by
  have := runFrom_conserves ops (init nL nR false false) 0 rfl rfl hidle
  simpa [pendL, pendR, init, inPayloads] using this

/-- Non-vacuity of `bstart_nocache_conserves`: two iterations, the left `Terminate` waits in the
    channel while the right side is still in its iteration. -/
example :
    let h : List (Op Nat) :=
      Op.b true 0 [.item 1, .far] ++ [.enq true 0 [.term]] ++ Op.b false 0 [.item 2] ++ Op.b false 0 [.item 3, .far]
    (runFrom (fun _ => true) (init 1 1 false false) 0 h).2.2.1 = .idle
    ∧ (run (fun _ => true) 1 1 false false h).1 =
        [.item (.left 1), .item .leftEnd, .item (.right 2), .item (.right 3), .item .rightEnd, .far] := by
  decide

/-- Non-vacuity / the good case: one loop-side replica, three rounds, no receive timeout at the
    round boundaries: every round presents `41, 42, LeftEnd`, nothing follows the last
    `FlushAndRestart`, `Terminate` once. -/
example :
    let h : List (Op Nat) :=
      Op.b true 0 [.item 41] ++ Op.b false 0 [.item 1] ++ Op.b true 0 [.item 42, .far, .term]
        ++ [.enq false 0 [.far]] ++ Op.b false 0 [.item 2] ++ [.enq false 0 [.far]]
        ++ [.enq false 0 [.item 3, .far]] ++ Op.b false 0 [.term]
    run (fun _ => true) 1 1 true false h =
      ([.item (.left 41), .item (.right 1), .item (.left 42), .item .leftEnd, .item .rightEnd, .far,
        .item (.right 2), .item (.left 41), .item (.left 42), .item .leftEnd, .item .rightEnd, .far,
        .item (.right 3), .item .rightEnd, .item (.left 41), .item (.left 42), .item .leftEnd, .far,
        .term], .done)
    ∧ c11Ok true (run (fun _ => true) 1 1 true false h).1 = true := by
  decide

end Noir.BinaryStart
