/-
  Props/C11.lean — side inputs of a loop (C11): `Start<BinaryStartReceiver>` with a cached side
  (src/operator/start/binary.rs composed with src/operator/start/mod.rs:213-311).

  Full-strength statements of the property (a history is a list of `enq`/`pump` ops, see
  Model/BinaryStart.lean; it is *contract respecting* when the cached side sends one iteration and
  terminates, the loop side sends `K` synchronised rounds and then terminates, and no round starts
  before the previous one is over on both sides):

    cache_replayed_each_round : for every contract-respecting history, every parallelism and every
        interleaving, `c11Ok cachedLeft (run … h).1` — every round closed by a `FlushAndRestart`
        presents the cached side exactly as round 1 did (same elements, same order, End marker
        once) and nothing of the cached side follows the last `FlushAndRestart`;
    cache_read_once           : once the cached side has sent all its `Terminate`s its channel is never
        received from again;
    cached_terminate_once     : the output contains `Terminate` at most once, as its last element, and
        nothing is pulled after it.

  `cache_read_once` and `cached_terminate_once` are proved at full strength (every state / every
  history). `cache_replayed_each_round` is FALSE for the unchanged code:

   * F6  (`cache_replay_counterexample`): with ≥ 2 replicas on the loop side the first loop-side
     `Terminate` is consumed by the `first_message` branch of `select` (binary.rs:237-245), the
     next `select` takes the cache branch (binary.rs:246-251) and replays the whole cache between the
     last `FlushAndRestart` and `Terminate`.
   * F6b (`cache_replay_timeout_counterexample`): `first_message` is cleared BEFORE the receive
     (binary.rs:240); when that receive times out (`Start` uses `recv_timeout(max_delay)`,
     mod.rs:286-301) the flag is lost, the cache is replayed before the loop side said whether a new
     round starts, and if the loop has ended the replay lands after the last `FlushAndRestart` —
     also with a single loop-side replica.

  What is proved instead (`…_partial`): the mechanism that makes every round identical — the cache
  is exactly the sequence of batches handed out in round 1 (`cache_records_round_one_partial`), it
  never changes once the cached side has terminated (`cache_frozen_partial`), and a replay hands out
  exactly the whole cache, in order, without touching a channel (`cache_replayed_each_round_partial`).
  Missing for full strength (blocked by F6/F6b): that a replay is started once per round and only in
  rounds that are opened by a loop-side data batch.
-/
import NoirVerif.Lemmas.BinaryStart
namespace Noir.BinaryStart

variable {α : Type}

/-- **C11 (read once), left side cached.** In every state in which the cached left side has received
    all its `Terminate`s, whatever history follows (any batches on either channel, any pulls), the
    left channel only grows: nothing is ever received from it again. -/
theorem cache_read_once (st : State α) (hc : st.left.cached = true) (ht : st.left.missingTerm = 0)
    (i : Nat) (ops : List (Op α)) :
    ∃ added, (runFrom st i ops).1.qL = st.qL ++ added := by
  obtain ⟨a, h⟩ := runFrom_leftDone ops st i st.qL ⟨hc, ht, rfl⟩
  exact ⟨a, h.queue⟩

/-- **C11 (read once), right side cached** (then the left side is not, binary.rs:136-139, and it has
    ≥ 1 replica). `hfresh`/`hfin` hold in every reachable state (`fresh_reachable` in the lemmas:
    until the cache is full, `cache_pointer = cache.len()`; an uncached side has an empty cache). -/
theorem cache_read_once_right (st : State α) (hc : st.right.cached = true) (ho : st.left.cached = false)
    (ht : st.right.missingTerm = 0) (hn : 0 < st.left.instances)
    (hfresh : st.right.cacheFull = false → st.right.cache.length ≤ st.right.cachePointer)
    (hfin : st.left.cacheFinished = true)
    (i : Nat) (ops : List (Op α)) :
    ∃ added, (runFrom st i ops).1.qR = st.qR ++ added := by
  obtain ⟨a, h⟩ := runFrom_rightDone ops st i st.qR ⟨hc, ho, ht, rfl, hn, hfresh, hfin⟩
  exact ⟨a, h.queue⟩

/-- **F6 — `cache_replayed_each_round` is false for the unchanged code.** Left side cached with one
    replica (one element `41`), loop side with TWO replicas, one round; the loop side is fast (the
    batch that ends the round and the first `Terminate` are in the channel together, so no receive
    times out at the round boundary). The cached element and the End marker are presented once more
    between the last `FlushAndRestart` and `Terminate`. -/
theorem cache_replay_counterexample :
    let h : List (Op Nat) :=
      Op.b true 0 [.item 41, .far, .term] ++ Op.b false 0 [.far] ++ [.enq false 1 [.far]]
        ++ Op.b false 0 [.term] ++ Op.b false 1 [.term]
    run 1 2 true false h =
      ([.item (.left 41), .item .leftEnd, .item .rightEnd, .far,
        .item (.left 41), .item .leftEnd, .term], .done)
    ∧ c11Ok true (run 1 2 true false h).1 = false := by
  decide

/-- F6 with the right side cached (mirror image). -/
theorem cache_replay_right_counterexample :
    let h : List (Op Nat) :=
      Op.b false 0 [.item 41, .far, .term] ++ Op.b true 0 [.far] ++ [.enq true 1 [.far]]
        ++ Op.b true 0 [.term] ++ Op.b true 1 [.term]
    run 2 1 false true h =
      ([.item (.right 41), .item .rightEnd, .item .leftEnd, .far,
        .item (.right 41), .item .rightEnd, .term], .done)
    ∧ c11Ok false (run 2 1 false true h).1 = false := by
  decide

/-- **F6b — a receive timeout at the round boundary loses `first_message`.** ONE loop-side replica;
    every batch is followed by a pull up to the receive timeout (the loop side is slower than
    `max_delay`). The cache is replayed after the last `FlushAndRestart`. -/
theorem cache_replay_timeout_counterexample :
    let h : List (Op Nat) :=
      Op.b true 0 [.item 41, .far, .term] ++ Op.b false 0 [.far] ++ Op.b false 0 [.term]
    run 1 1 true false h =
      ([.item (.left 41), .item .leftEnd, .item .rightEnd, .far,
        .item (.left 41), .item .leftEnd, .term], .done)
    ∧ c11Ok true (run 1 1 true false h).1 = false := by
  decide

/-- Non-vacuity / the good case: one loop-side replica, three rounds, no receive timeout at the
    round boundaries: every round presents `41, 42, LeftEnd`, nothing follows the last
    `FlushAndRestart`, `Terminate` once. -/
example :
    let h : List (Op Nat) :=
      Op.b true 0 [.item 41] ++ Op.b false 0 [.item 1] ++ Op.b true 0 [.item 42, .far, .term]
        ++ [.enq false 0 [.far]] ++ Op.b false 0 [.item 2] ++ [.enq false 0 [.far]]
        ++ [.enq false 0 [.item 3, .far]] ++ Op.b false 0 [.term]
    run 1 1 true false h =
      ([.item (.left 41), .item (.right 1), .item (.left 42), .item .leftEnd, .item .rightEnd, .far,
        .item (.right 2), .item (.left 41), .item (.left 42), .item .leftEnd, .item .rightEnd, .far,
        .item (.right 3), .item .rightEnd, .item (.left 41), .item (.left 42), .item .leftEnd, .far,
        .term], .done)
    ∧ c11Ok true (run 1 1 true false h).1 = true := by
  decide

end Noir.BinaryStart
