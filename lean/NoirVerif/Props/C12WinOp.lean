/-
  Props/C12WinOp.lean — C12 (count windows) for the KEYED `WindowOperator`
  (`stream.key_by(..).window(CountWindow::new(n, s, exact)).<aggregator>`): the per-key statement.

  Models: Model/WindowOp.lean (dispatch of `WindowOperator::next`, mod.rs:173-221),
  Model/CountWindow.lean (`CountWindowManager::process`), Model/CountWindowOp.lean (the manager
  plugged into the dispatch: `CountWindow.mgr`). Lemmas: Lemmas/WindowOp.lean — the generic
  projection theorem `winop_keys_independent` (any manager) and the one-key stream specification
  `CountWindow.spec`. The manager-level theorems are in Props/C12.lean.

  Vocabulary (Lemmas/WindowOp.lean):
  * `proj k es` — what key `k` sees of the input `es`: its data elements with the key stripped,
    and every `Watermark`/`FlushAndRestart`/`Terminate` (no `FlushBatch`);
  * `keyOut k` — selects the results carrying key `k` from the operator's output;
  * `spec c cur s` — the specification of a one-key stream `s`: per iteration (delimited by
    `FlushAndRestart`/`Terminate`) the sliding groups `groups N S` of that iteration's arrivals,
    followed by `endGroup` (nothing in exact mode / nothing left open; else the oldest incomplete
    group `residual N S`), see `spec_iterations` for the closed form;
  * `iterArrivals [] s` — the arrival sequences of the iterations of `s`.
-/
import NoirVerif.Lemmas.WindowOp
namespace Noir.CountWindow
open Noir.WindowOp

variable {α κ : Type}

/-- the groups carried by the results of key `k` in an output stream, in output order -/
def keyGroups [DecidableEq κ] (k : κ) (out : List (Elem (κ × List α))) : List (List α) :=
  (out.filterMap (keyOut k)).map (·.val)

/-- **C12 for a whole one-key stream (manager).** For `1 ≤ S ≤ N`, any number of iterations and
    any `Watermark`/`FlushBatch` noise, the results of a manager started in its initial state are
    exactly `spec`. (Props/C12.lean states this for one noise-free iteration.) -/
theorem countWindow_stream (c : Cfg) (hS : 1 ≤ c.slide) (hSN : c.slide ≤ c.size) (es : List (Elem α)) :
    (run c es).map (·.2.items) = spec c [] es := by
  have h := results_spec c hS hSN es.length es (Nat.le_refl _)
  rw [← runFrom_results c es [] 0, List.map_map] at h
  exact h

/-- closed form of `spec`: complete iterations `it ++ [FlushAndRestart]` (each `it` free of
    `FlushAndRestart`/`Terminate`) followed by an unfinished one -/
theorem spec_iterations (c : Cfg) (its : List (List (Elem α))) (last : List (Elem α))
    (hits : ∀ it ∈ its, NoEnd it) (hlast : NoEnd last) :
    spec c [] (its.flatMap (· ++ [.far]) ++ last) =
      its.flatMap (fun it => groups c.size c.slide (values it) ++
        endGroup c (residual c.size c.slide (values it))) ++ groups c.size c.slide (values last) := by
  induction its with
  | nil =>
    have := spec_segment c last [] [] hlast
    simpa [spec] using this
  | cons it its ih =>
    have ih := ih (fun x hx => hits x (by simp [hx]))
    have h := spec_segment c it [] (Elem.far :: (its.flatMap (· ++ [.far]) ++ last)) (hits it (by simp))
    simp only [List.flatMap_cons, List.append_assoc, List.nil_append, List.cons_append] at *
    rw [h, spec, ih]
    simp only [List.append_assoc]

/-- **C12, keyed (groups, order).** For `1 ≤ S ≤ N`, ANY keyed input (interleaved keys, several
    iterations, watermarks, `FlushBatch`) and every key `k`: the results carrying key `k`, in
    output order, are exactly the specification applied to `k`'s sub-sequence of the input — per
    iteration the sliding groups of `k`'s arrivals of that iteration, then the end-of-iteration
    behaviour of `countWindow_iteration`. Elements of other keys have no influence. -/
theorem cwin_keyed_groups [DecidableEq κ] (c : Cfg) (hS : 1 ≤ c.slide) (hSN : c.slide ≤ c.size)
    (es : List (Elem (κ × α))) (k : κ) :
    keyGroups k (WindowOp.run (mgr c) es) = spec c [] (proj k es) := by
  unfold keyGroups
  rw [winop_keys_independent, solo_eq_results]
  have h := results_spec c hS hSN _ (proj k es) (Nat.le_refl _)
  simpa [List.map_map, Result.toW, Function.comp_def] using h

/-- **C12, keyed (emission time).** The operator is causal and the statement holds for every
    prefix: after the operator has consumed the prefix `pre` of its input, the results of key `k`
    emitted so far are exactly the specification of `k`'s part of `pre`. Hence a group is in the
    output as soon as its `N`-th element has been consumed — before any later input element is
    processed — and never earlier. -/
theorem cwin_keyed_prefix [DecidableEq κ] (c : Cfg) (hS : 1 ≤ c.slide) (hSN : c.slide ≤ c.size)
    (pre suf : List (Elem (κ × α))) (k : κ) :
    (∃ later, WindowOp.run (mgr c) (pre ++ suf) = WindowOp.run (mgr c) pre ++ later) ∧
    keyGroups k (WindowOp.run (mgr c) pre) = spec c [] (proj k pre) :=
  ⟨⟨_, run_append (mgr c) pre suf⟩, cwin_keyed_groups c hS hSN pre k⟩

/-- every data element of the output is `(k, group)` for a key `k` and a group of `k`'s results -/
theorem cwin_keyed_out [DecidableEq κ] (c : Cfg) (es : List (Elem (κ × α))) (k : κ) (g : List α) :
    ((∃ t, Elem.ts (k, g) t ∈ WindowOp.run (mgr c) es) ∨ Elem.item (k, g) ∈ WindowOp.run (mgr c) es) →
    g ∈ keyGroups k (WindowOp.run (mgr c) es) := by
  intro h
  unfold keyGroups
  rw [List.mem_map]
  rcases h with ⟨t, h⟩ | h
  · exact ⟨⟨g, some t⟩, List.mem_filterMap.mpr ⟨_, h, by simp [keyOut]⟩, rfl⟩
  · exact ⟨⟨g, none⟩, List.mem_filterMap.mpr ⟨_, h, by simp [keyOut]⟩, rfl⟩

/-- **C12, keyed (results never mix keys or iterations).** Every result `(k, g)` in the output is
    a contiguous piece of the arrival sequence of key `k` in ONE iteration: `g` contains no element
    of another key and no element of another iteration. -/
theorem cwin_keyed_never_mix [DecidableEq κ] (c : Cfg) (hS : 1 ≤ c.slide) (hSN : c.slide ≤ c.size)
    (es : List (Elem (κ × α))) (k : κ) (g : List α)
    (h : (∃ t, Elem.ts (k, g) t ∈ WindowOp.run (mgr c) es) ∨ Elem.item (k, g) ∈ WindowOp.run (mgr c) es) :
    ∃ a ∈ iterArrivals [] (proj k es), g <:+: a := by
  have := cwin_keyed_out c es k g h
  rw [cwin_keyed_groups c hS hSN] at this
  exact spec_infix c hS hSN _ [] g this

/-- the arrival sequences `iterArrivals [] (proj k es)` consist of payloads that arrived with key `k` -/
theorem iterArrivals_of_key [DecidableEq κ] (es : List (Elem (κ × α))) (k : κ) :
    ∀ a ∈ iterArrivals [] (proj k es), ∀ x ∈ a, Elem.item (k, x) ∈ es ∨ ∃ t, Elem.ts (k, x) t ∈ es := by
  suffices h : ∀ (es : List (Elem (κ × α))) (cur : List α), ∀ a ∈ iterArrivals cur (proj k es), ∀ x ∈ a,
      x ∈ cur ∨ Elem.item (k, x) ∈ es ∨ ∃ t, Elem.ts (k, x) t ∈ es by
    intro a ha x hx
    rcases h es [] a ha x hx with h | h
    · simp at h
    · exact h
  intro es
  induction es with
  | nil =>
    intro cur a ha x hx
    simp only [proj, List.filterMap_nil, iterArrivals, List.mem_singleton] at ha
    subst ha; exact Or.inl hx
  | cons e es ih =>
    intro cur a ha x hx
    have lift : (x ∈ cur ∨ Elem.item (k, x) ∈ es ∨ ∃ t, Elem.ts (k, x) t ∈ es) →
        (x ∈ cur ∨ Elem.item (k, x) ∈ e :: es ∨ ∃ t, Elem.ts (k, x) t ∈ e :: es) := by
      rintro (h | h | ⟨t, h⟩)
      · exact Or.inl h
      · exact Or.inr (Or.inl (by simp [h]))
      · exact Or.inr (Or.inr ⟨t, by simp [h]⟩)
    have ends : a ∈ cur :: iterArrivals [] (proj k es) →
        (x ∈ cur ∨ Elem.item (k, x) ∈ e :: es ∨ ∃ t, Elem.ts (k, x) t ∈ e :: es) := by
      intro ha
      simp only [List.mem_cons] at ha
      rcases ha with rfl | ha
      · exact Or.inl hx
      · rcases ih [] a ha x hx with h | h
        · simp at h
        · exact lift (Or.inr h)
    cases e with
    | item p =>
      obtain ⟨k', y⟩ := p
      by_cases hk : k' = k
      · subst hk
        simp only [proj, List.filterMap_cons, projElem, if_true, iterArrivals] at ha
        rcases ih (cur ++ [y]) a ha x hx with h | h
        · simp only [List.mem_append, List.mem_singleton] at h
          rcases h with h | rfl
          · exact Or.inl h
          · exact Or.inr (Or.inl (by simp))
        · exact lift (Or.inr h)
      · simp only [proj, List.filterMap_cons, projElem, hk, if_false] at ha
        exact lift (ih cur a ha x hx)
    | ts p t =>
      obtain ⟨k', y⟩ := p
      by_cases hk : k' = k
      · subst hk
        simp only [proj, List.filterMap_cons, projElem, if_true, iterArrivals] at ha
        rcases ih (cur ++ [y]) a ha x hx with h | h
        · simp only [List.mem_append, List.mem_singleton] at h
          rcases h with h | rfl
          · exact Or.inl h
          · exact Or.inr (Or.inr ⟨t, by simp⟩)
        · exact lift (Or.inr h)
      · simp only [proj, List.filterMap_cons, projElem, hk, if_false] at ha
        exact lift (ih cur a ha x hx)
    | flushBatch =>
      simp only [proj, List.filterMap_cons, projElem] at ha
      exact lift (ih cur a ha x hx)
    | wm w =>
      simp only [proj, List.filterMap_cons, projElem, iterArrivals] at ha
      exact lift (ih cur a ha x hx)
    | far =>
      simp only [proj, List.filterMap_cons, projElem, iterArrivals] at ha
      exact ends ha
    | term =>
      simp only [proj, List.filterMap_cons, projElem, iterArrivals] at ha
      exact ends ha

/-! ### aggregators on the keyed operator -/

open Noir.WindowAggr in
/-- **C12, keyed (every aggregator sees exactly the group).** For any accumulator triple
    `(init, process, output)` (Model/WindowAggr.lean: `fold`, `sum`, `count`, `min`/`max`(`_by_key`)
    = `foldFirst`, `first`, `last`, `collectVec`), the values carried by the results of key `k` are
    `output (foldl process init g)` for exactly the groups `g` of `k`'s specification, in arrival
    order; closed forms per accumulator: `fold_run`, `sum_run_int`, `count_run`,
    `collectVec_run`, `foldFirst_run`, `first_run`, `last_run`, `max_run_int`, `min_run_int`
    (Props/C12.lean). -/
theorem cwin_keyed_aggregate [DecidableEq κ] {σ β : Type} (a : Acc α σ β) (c : Cfg) (hS : 1 ≤ c.slide)
    (hSN : c.slide ≤ c.size) (es : List (Elem (κ × α))) (k : κ) :
    ((WindowOp.run (mgr c) es).filterMap (keyOut k)).map (fun r => a.run r.val) =
      (spec c [] (proj k es)).map a.run := by
  rw [← cwin_keyed_groups c hS hSN es k]
  simp [keyGroups, List.map_map, Function.comp_def]

/-- every group the operator emits is non-empty: the `expect` in `FoldFirst::output`,
    `First::output`, `Last::output` (fold.rs:85, nth.rs:22, 43) cannot fail -/
theorem cwin_keyed_groups_nonempty [DecidableEq κ] (c : Cfg) (hS : 1 ≤ c.slide) (hSN : c.slide ≤ c.size)
    (es : List (Elem (κ × α))) (k : κ) : ∀ g ∈ keyGroups k (WindowOp.run (mgr c) es), g ≠ [] := by
  rw [cwin_keyed_groups c hS hSN es k]
  exact spec_nonempty c hS hSN _ []

/-! ### panic freedom -/

/-- **C12 (no index panic, every reachable state).** For `1 ≤ S ≤ N`, after ANY input the manager
    is in a state where `process` does not panic on a data element (`itemPanics`, Props/C12.lean:
    no out-of-bounds `update_slot`, no `unwrap` of an empty deque, no division by zero). -/
theorem countWindow_never_panics (c : Cfg) (hS : 1 ≤ c.slide) (hSN : c.slide ≤ c.size) (es : List (Elem α)) :
    itemPanics c (stateAfter c ([] : List (Slot α)) es) = false := by
  obtain ⟨cur, inv⟩ := reachable_inv c hS hSN es.length es (Nat.le_refl _)
  exact (countWindow_no_index_panic c hS hSN _ cur inv).1

/-- **C12 (no index panic, keyed operator).** Every manager the operator holds after ANY keyed
    input is in a state where `process` does not panic on a data element. -/
theorem cwin_op_never_panics [DecidableEq κ] (c : Cfg) (hS : 1 ≤ c.slide) (hSN : c.slide ≤ c.size)
    (es : List (Elem (κ × α))) (k : κ) (s : List (Slot α))
    (h : find k (WindowOp.stateAfter (mgr c) WindowOp.State.init es).windows = some s) :
    itemPanics c s = false := by
  rw [winop_state_independent] at h
  have := soloState_eq c (proj k es) none
  rw [h] at this
  simp only [Option.getD_some, Option.getD_none] at this
  rw [this]
  exact countWindow_never_panics c hS hSN _

/-- Non-vacuity: two interleaved keys, `N = 3`, `S = 2`, non-exact, two iterations, watermark and
    `FlushBatch` noise. Key 0 receives 1..5 | 6, key 1 receives 10,11,12 | 13. -/
example :
    let es : List (Elem (Nat × Nat)) :=
      [.item (0, 1), .item (1, 10), .item (0, 2), .wm 5, .item (1, 11), .item (0, 3), .flushBatch,
       .item (0, 4), .item (1, 12), .item (0, 5), .far, .item (1, 13), .item (0, 6), .far, .term]
    WindowOp.run (mgr ⟨3, 2, false⟩) es =
      [.wm 5, .item (0, [1, 2, 3]), .flushBatch, .item (1, [10, 11, 12]), .item (0, [3, 4, 5]),
       .item (0, [5]), .item (1, [12]), .far, .item (0, [6]), .item (1, [13]), .far, .term] ∧
    keyGroups 0 (WindowOp.run (mgr ⟨3, 2, false⟩) es) = [[1, 2, 3], [3, 4, 5], [5], [6]] ∧
    keyGroups 1 (WindowOp.run (mgr ⟨3, 2, false⟩) es) = [[10, 11, 12], [12], [13]] ∧
    iterArrivals [] (proj 0 es) = [[1, 2, 3, 4, 5], [6], [], []] ∧
    iterArrivals [] (proj 1 es) = [[10, 11, 12], [13], [], []] := by
  decide

end Noir.CountWindow
