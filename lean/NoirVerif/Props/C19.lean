/-
  Props/C19.lean — "All hosts derive the same, well-formed execution graph".

  The model (`Model/Placement.lean`) is a function of the job graph and of the host list only.
  Helper lemmas are in `Lemmas/Placement.lean`; this file has the statements a reader audits.

  Result in one paragraph: placement, global ids, all-to-all links, exactly one consumer per
  producer replica on forward links, port assignment and the independence from host id / map order
  hold. (`forward_exactly_one_consumer` was false before commit 3deb123 — finding F4, see
  Model/Placement.lean — and is proved at full strength for the current code.)
-/
import NoirVerif.Lemmas.Placement
namespace Noir.Placement

/-! ## Placement rule -/

/-- The rule of the property, as a closed form: how many replicas of a block with requirement `r`
    run on host `i` (all cores; `min(n, what is left)` host by host; one per host; one on host 0;
    a local configuration is the single host 0 with `parallelism` cores). -/
def specCount (cfg : Config) (r : Replication) (i : Nat) : Nat :=
  match cfg with
  | .loc p =>
    if i ≠ 0 then 0 else
    match r with
    | .unlimited => p
    | .limited n => min n p
    | .host => 1
    | .one => 1
  | .remote hosts =>
    match hosts[i]? with
    | none => 0
    | some h =>
      match r with
      | .unlimited => h.cores
      | .limited n => min h.cores (n - ((hosts.take i).map (·.cores)).sum)
      | .host => 1
      | .one => if i = 0 then 1 else 0

/-- **C19 (placement).** On every configuration with at least one host, the replicas of a block
    are exactly the coordinates `(block, host i, r)` with `r < specCount i`: the replica ids on a
    host are `0 … count-1` and the per-host counts follow the rule. -/
theorem placement_rule (cfg : Config) (b : Block) (c : Coord)
    (hne : ∀ hosts, cfg = .remote hosts → hosts ≠ []) :
    c ∈ (blockInfo cfg b).replicas ↔ c.block = b.id ∧ c.replica < specCount cfg b.repl c.host := by
  rw [mem_replicas]
  have key : ((blockInfo cfg b).counts[c.host]?).getD 0 = specCount cfg b.repl c.host := by
    simp only [blockInfo, counts, specCount]
    cases cfg with
    | loc p =>
      cases hh : c.host with
      | zero => cases b.repl <;> simp [Replication.clamp, Nat.min_comm]
      | succ k => simp
    | remote hosts =>
      simp only
      cases hr : b.repl with
      | unlimited => simp [remoteCounts]; cases hosts[c.host]? <;> simp
      | limited n =>
        simp only [remoteCounts, limitedCounts_getElem?]
        cases hosts[c.host]? <;> simp
      | host => simp [remoteCounts]; cases hosts[c.host]? <;> simp
      | one =>
        have hne' := hne hosts rfl
        cases hosts with
        | nil => exact absurd rfl hne'
        | cons h hs =>
          simp only [remoteCounts]
          cases hh : c.host with
          | zero => simp
          | succ k => simp; cases hs[k]? <;> simp
  rw [key]; rfl

/-- a `Limited(n)` block has `min(n, total cores)` replicas -/
theorem placement_limited_total (hosts : List Host) (n : Nat) :
    (remoteCounts hosts (.limited n)).sum = min n ((hosts.map (·.cores)).sum) :=
  limitedCounts_sum hosts n

/-- the local configuration: `clamp`, i.e. `min(parallelism, n)` / `parallelism` / 1 / 1 replicas -/
theorem placement_local (p : Nat) (b : Block) :
    (blockInfo (.loc p) b).replicas = (List.range (b.repl.clamp p)).map (fun r => ⟨b.id, 0, r⟩) := by
  simp [blockInfo, counts, BlockInfo.replicas, replicasFrom]

/-! ## Global ids -/

/-- **C19 (global ids).** The replicas of a block are pairwise distinct, every replica gets a global
    index in `[0, #replicas)`, distinct replicas get distinct indices and every index is taken. -/
theorem global_ids_bijective (bi : BlockInfo) :
    bi.replicas.Nodup ∧
    (∀ c ∈ bi.replicas, bi.globalId c < bi.replicas.length) ∧
    (∀ c ∈ bi.replicas, ∀ c' ∈ bi.replicas, bi.globalId c = bi.globalId c' → c = c') ∧
    (∀ g, g < bi.replicas.length → ∃ c ∈ bi.replicas, bi.globalId c = g) := by
  refine ⟨replicas_nodup bi, ?_, ?_, ?_⟩
  · intro c hc; exact List.idxOf_lt_length_iff.mpr hc
  · intro c hc c' hc' h
    unfold BlockInfo.globalId at h
    have h1 := List.getElem_idxOf (List.idxOf_lt_length_iff.mpr hc)
    have h2 := List.getElem_idxOf (List.idxOf_lt_length_iff.mpr hc')
    rw [← h1, ← h2]; simp [h]
  · intro g hg
    exact ⟨bi.replicas[g], List.getElem_mem hg, (replicas_nodup bi).idxOf_getElem g hg⟩

/-- the list printed by the dump: the i-th replica has global id i -/
theorem global_ids_are_positions (bi : BlockInfo) (i : Nat) (h : i < bi.replicas.length) :
    bi.globalId bi.replicas[i] = i := (replicas_nodup bi).idxOf_getElem i h

/-! ## `Replication::intersect` -/

/-- **C19 (requirements form a semilattice).** `intersect` is commutative, associative and
    idempotent (it is the minimum of the chain `One < Host < Limited 1 < Limited 2 < … < Unlimited`). -/
theorem intersect_lattice :
    (∀ a b : Replication, a.intersect b = b.intersect a) ∧
    (∀ a b c : Replication, (a.intersect b).intersect c = a.intersect (b.intersect c)) ∧
    (∀ a : Replication, a.intersect a = a) :=
  ⟨intersect_comm, intersect_assoc, intersect_idem⟩

/-- `Unlimited` is the neutral element: `scheduling.replication(r)` on a fresh block sets `r`. -/
theorem intersect_unlimited (r : Replication) : Replication.unlimited.intersect r = r := by
  cases r <;> rfl

/-- Remark (not a finding: the requirement is documented as "only an upper bound" and the chain
    order puts `Host` below every `Limited n`): `Host ∩ Limited 2 = Host`, and a `Host` block has one
    replica per host — on three hosts that is 3 replicas, more than the `Limited 2` it was
    intersected with. `intersect` is the meet of the chain `One < Host < Limited n < Unlimited`,
    not of the replica counts. -/
example : Replication.host.intersect (.limited 2) = .host ∧
    ((blockInfo (.remote [⟨0, 1, 1⟩, ⟨1, 1, 1⟩, ⟨2, 1, 1⟩]) ⟨0, .host, false⟩).replicas.length = 3) := by
  decide

/-! ## Links -/

/-- **C19 (non-forward links are all-to-all).** If the producer's strategy is not `OnlyOne` and
    the edge is not fragile, every producer replica is linked to every consumer replica, and the
    links of the edge are exactly the product. -/
theorem links_all_to_all_non_forward (from_ to : BlockInfo) (h : from_.onlyOne = false) :
    (∀ f, consumers from_ to false f = to.replicas) ∧
    edgeLinks from_ to false =
      from_.replicas.flatMap (fun f => to.replicas.map fun t => ⟨f, t, false⟩) := by
  refine ⟨fun f => consumers_non_forward from_ to f h, ?_⟩
  unfold edgeLinks
  simp [consumers_non_forward from_ to _ h]

/-- **C19 (forward links), full strength.** On a non-fragile forward edge (producer strategy
    `OnlyOne`) into a non-empty block, every producer replica has exactly one consumer, and it is
    its same-(host, replica) replica whenever that replica exists (otherwise the single replica,
    or — since commit 3deb123 — `sorted_consumers[global_id % k]`). `End`'s
    `assert_eq!(indexes.len(), 1)` therefore holds for every producer replica, and `Start` counts
    the producers of a consumer replica from these very links. -/
theorem forward_exactly_one_consumer (from_ to : BlockInfo) (hoo : from_.onlyOne = true)
    (hne : to.replicas ≠ []) (f : Coord) :
    ∃ t ∈ to.replicas, consumers from_ to false f = [t] ∧
      (partner to f ∈ to.replicas → t = partner to f) := by
  have hfw : (from_.onlyOne || false) = true := by simp [hoo]
  by_cases hp : partner to f ∈ to.replicas
  · exact ⟨partner to f, hp, consumers_partner from_ to false f hfw hp, fun _ => rfl⟩
  · by_cases h1 : to.replicas.length = 1
    · match hr : to.replicas, h1 with
      | [t], _ =>
        refine ⟨t, by simp, ?_, fun h => absurd (hr ▸ h) hp⟩
        rw [consumers_single from_ to false f (by simp [hr]), hr]
    · obtain ⟨hlt, hc⟩ := consumers_orphan from_ to f hoo hp h1 hne
      exact ⟨_, List.getElem_mem hlt, hc, fun h => absurd h hp⟩

/-- which consumer: the partner, the single replica, or the deterministic fallback (a function of
    the producer's global id and of the sorted consumer list only — the same on every host) -/
theorem forward_consumer_choice (from_ to : BlockInfo) (fragile : Bool)
    (hfw : (from_.onlyOne || fragile) = true) (f : Coord) :
    (to.replicas.length = 1 → consumers from_ to fragile f = to.replicas) ∧
    (partner to f ∈ to.replicas → consumers from_ to fragile f = [partner to f]) ∧
    (from_.onlyOne = true → fragile = false → partner to f ∉ to.replicas →
      to.replicas.length ≠ 1 → to.replicas ≠ [] →
      consumers from_ to fragile f = [to.replicas[from_.globalId f % to.replicas.length]?.getD f] ∧
      to.replicas.Pairwise (fun a c => lexLe a.key c.key = true)) := by
  refine ⟨consumers_single from_ to fragile f, consumers_partner from_ to fragile f hfw, ?_⟩
  intro hoo hfr hp h1 hne
  subst hfr
  obtain ⟨hlt, hc⟩ := consumers_orphan from_ to f hoo hp h1 hne
  exact ⟨by rw [hc, List.getElem?_eq_getElem hlt]; rfl, replicas_sorted to⟩

/-- equal layouts (same per-host counts): every producer replica has exactly its partner -/
theorem forward_same_layout (from_ to : BlockInfo) (fragile : Bool)
    (hfw : (from_.onlyOne || fragile) = true) (hl : to.counts = from_.counts) :
    ∀ f ∈ from_.replicas, consumers from_ to fragile f = [partner to f] := by
  intro f hf
  apply consumers_partner from_ to fragile f hfw
  rw [mem_replicas] at hf ⊢
  simpa [partner, hl] using hf.2

/-- **Fragile links** (the output link of `iterate`) are NOT completed by the fallback: the
    producer reaches the single replica, or its same-(host, replica) partner, or nobody. That is
    what the code needs: `Iterate` does not use `End` for this link but builds its own sender to
    `(output block, own host, own replica)` (iterate.rs:219-227); a link to any other replica
    would make that replica wait for a producer that never sends. Through the API both ends of a
    fragile link are `Unlimited` blocks, so the partner always exists (`forward_same_layout`). -/
theorem fragile_link_consumers (from_ to : BlockInfo) (f : Coord) :
    (to.replicas.length = 1 → consumers from_ to true f = to.replicas) ∧
    (partner to f ∈ to.replicas → consumers from_ to true f = [partner to f]) ∧
    (partner to f ∉ to.replicas → to.replicas.length ≠ 1 → consumers from_ to true f = []) :=
  ⟨consumers_single from_ to true f, consumers_partner from_ to true f (by simp),
   consumers_fragile_no_partner from_ to f⟩

/-- the former F4 witness (`Unlimited → Limited(3)` on 4 local cores): producer replica `(0,0,3)`
    (global id 3) now reaches consumer `3 % 3 = 0`; the other three keep their partners -/
example :
    let from_ := blockInfo (.loc 4) ⟨0, .unlimited, true⟩
    let to := blockInfo (.loc 4) ⟨1, .limited 3, false⟩
    from_.replicas.map (consumers from_ to false) = [[⟨1, 0, 0⟩], [⟨1, 0, 1⟩], [⟨1, 0, 2⟩], [⟨1, 0, 0⟩]] := by
  decide

/-- the former multi-host witness (`Host` after `Unlimited` on two 2-core hosts): the replicas
    `(h,1)` (global ids 1 and 3) fall back to consumer `id % 2 = 1`, i.e. `(1,1,0)` -/
example :
    let cfg := Config.remote [⟨0, 9500, 2⟩, ⟨1, 9500, 2⟩]
    let from_ := blockInfo cfg ⟨0, .unlimited, true⟩
    let to := blockInfo cfg ⟨1, .host, false⟩
    from_.replicas.map (consumers from_ to false) = [[⟨1, 0, 0⟩], [⟨1, 1, 0⟩], [⟨1, 1, 0⟩], [⟨1, 1, 0⟩]] := by
  decide

/-! ## Ports -/

/-- **C19 (ports).** The endpoints that get an address are pairwise distinct, each gets the address
    of its host, and on one host the ports are strictly increasing in the (sorted) endpoint order —
    in particular distinct endpoints on one host get distinct ports. -/
theorem ports_injective_per_host (hosts : List Host) (links : List Link) :
    let as := addresses (.remote hosts) links
    (as.map (·.demux)).Nodup ∧
    (∀ a ∈ as, a.addr = addrOf hosts a.demux.host ∧ baseOf hosts a.demux.host ≤ a.port) ∧
    as.Pairwise (fun a b => a.demux.host = b.demux.host → a.port < b.port) := by
  simp only [addresses]
  refine ⟨?_, ?_, assignPorts_increasing hosts _ _⟩
  · rw [assignPorts_demux]; exact demuxCoords_nodup links
  · intro a ha
    have := assignPorts_bounds hosts _ _ a ha
    exact ⟨this.2.1, by have := this.2.2.1; omega⟩

/-- **C19 (no collision).** If any two distinct hosts with the same address have disjoint port
    ranges `[base, base + #endpoints on that host)`, no two endpoints share an `(address, port)`. -/
theorem no_collision (hosts : List Host) (links : List Link)
    (hpre : ∀ h1 h2, h1 ≠ h2 → addrOf hosts h1 = addrOf hosts h2 →
      baseOf hosts h1 + (demuxCoords links).countP (·.host == h1) ≤ baseOf hosts h2 ∨
      baseOf hosts h2 + (demuxCoords links).countP (·.host == h2) ≤ baseOf hosts h1) :
    (addresses (.remote hosts) links).Pairwise (fun a b => (a.addr, a.port) ≠ (b.addr, b.port)) := by
  simp only [addresses]
  have hinc := assignPorts_increasing hosts (demuxCoords links) (fun _ => 0)
  have hb := assignPorts_bounds hosts (demuxCoords links) (fun _ => 0)
  rw [List.pairwise_iff_forall_sublist] at hinc ⊢
  intro a b hab
  have h1 := hinc hab
  have ha := hb a (hab.subset (by simp))
  have hb' := hb b (hab.subset (by simp))
  intro heq
  simp only [Prod.mk.injEq] at heq
  by_cases hh : a.demux.host = b.demux.host
  · have := h1 hh; omega
  · have haddr : addrOf hosts a.demux.host = addrOf hosts b.demux.host := by
      rw [← ha.2.1, ← hb'.2.1]; exact heq.1
    rcases hpre _ _ hh haddr with h | h <;> omega

/-! ## Independence -/

/-- **C19 (same graph on every host) — by construction, NOT a proof about the code.** The model's
    dump is a function of the configuration *without* `host_id` and of the job, so this statement is
    `rfl` on a constant function and carries no weight by itself. The claim "every host derives the
    same graph" is carried by the correspondence check: the `graph` harness builds the same program
    once per `host_id` on the real code and every host's dump must equal this single
    host-independent value (and the oracle requires all hosts' dumps to be identical). -/
theorem graph_independent_of_host_id_by_construction (cfg : Config) (job : Job) (hostId hostId' : Nat) :
    (fun (_ : Nat) => executionGraph cfg job) hostId = (fun (_ : Nat) => executionGraph cfg job) hostId' :=
  rfl

/-- **C19 (independent of hash-map iteration order), job-graph edges.** Permuting the order in
    which the connections of the JOB GRAPH are enumerated (`next_blocks.iter()` and the `Vec`s
    inside) changes neither the sorted link list nor the address assignment. This theorem covers
    permutations of job edges only; the enumeration order of the replicas inside a block is
    `edge_links_independent_of_replica_order` below. What is not covered by a theorem: the order
    of the entries inside `NetworkTopology.next/prev` (`End` sorts its senders, `Start` only counts
    its producers) — the dump hook sorts what it prints. -/
theorem graph_independent_of_map_order (cfg : Config) (infos : List BlockInfo)
    (edges edges' : List Edge) (h : edges.Perm edges') :
    sortLinks (allLinks infos edges) = sortLinks (allLinks infos edges') ∧
    addresses cfg (allLinks infos edges) = addresses cfg (allLinks infos edges') := by
  have hp : (allLinks infos edges).Perm (allLinks infos edges') := List.Perm.flatMap_right _ h
  constructor
  · exact mergeSort_key_eq_of_perm Link.key 7 Link.key_length (fun a b => Link.key_inj) hp
  · cases cfg with
    | loc p => rfl
    | remote hosts =>
      simp only [addresses]
      congr 1
      unfold demuxCoords
      apply mergeSort_key_eq_of_perm Demux.key 3 (fun a => by simp [Demux.key])
        (fun a b => Demux.key_inj)
      -- two duplicate-free lists with the same members
      have hn1 := nodup_dedup ((allLinks infos edges).map demuxOf)
      have hn2 := nodup_dedup ((allLinks infos edges').map demuxOf)
      rw [List.perm_iff_count]
      intro d
      have hm : d ∈ dedup ((allLinks infos edges).map demuxOf) ↔
          d ∈ dedup ((allLinks infos edges').map demuxOf) := by
        rw [mem_dedup, mem_dedup]; exact (hp.map demuxOf).mem_iff
      rw [hn1.count, hn2.count]
      by_cases hd : d ∈ dedup ((allLinks infos edges).map demuxOf)
      · simp [hd, hm.mp hd]
      · have hd' : d ∉ dedup ((allLinks infos edges').map demuxOf) := fun h => hd (hm.mpr h)
        simp [hd, hd']

/-- the links of one job-graph edge when the producer replicas are enumerated in the order `ps`
    and the consumer replicas in the order `cs` (`replicas.values().flatten()` iterates a hash map);
    `sorted` in the fallback is `sort(cs)`, i.e. `to.replicas` whatever the order of `cs` -/
def edgeLinksEnum (from_ to : BlockInfo) (fragile : Bool) (ps cs : List Coord) : List Link :=
  ps.flatMap fun f =>
    ((if orphan from_.onlyOne fragile cs f then
        match to.replicas[from_.globalId f % cs.length]? with
        | some t => [t]
        | none => []
      else []) ++
      cs.filter (connects from_.onlyOne fragile cs.length f)).map fun t => ⟨f, t, fragile⟩

theorem flatMap_perm_pointwise {α β : Type} (f g : α → List β) : ∀ l : List α,
    (∀ a ∈ l, (f a).Perm (g a)) → (l.flatMap f).Perm (l.flatMap g) := by
  intro l
  induction l with
  | nil => intro _; simp
  | cons x xs ih =>
    intro h
    simp only [List.flatMap_cons]
    exact (h x (by simp)).append (ih fun a ha => h a (by simp [ha]))

/-- **C19 (independent of hash-map iteration order), replica enumeration.** Enumerating the
    replicas of the producer block and of the consumer block in any order (the iteration order of
    `SchedulerBlockInfo.replicas`) yields the same sorted links for the edge. -/
theorem edge_links_independent_of_replica_order (from_ to : BlockInfo) (fragile : Bool)
    (ps cs : List Coord) (hps : ps.Perm from_.replicas) (hcs : cs.Perm to.replicas) :
    sortLinks (edgeLinksEnum from_ to fragile ps cs) = sortLinks (edgeLinks from_ to fragile) := by
  apply mergeSort_key_eq_of_perm Link.key 7 Link.key_length (fun a b => Link.key_inj)
  have hlen : cs.length = to.replicas.length := hcs.length_eq
  have hany : ∀ f : Coord, cs.any (fun t => t.host == f.host && t.replica == f.replica) =
      to.replicas.any (fun t => t.host == f.host && t.replica == f.replica) := by
    intro f
    rw [Bool.eq_iff_iff, List.any_eq_true, List.any_eq_true]
    constructor
    · rintro ⟨t, ht, h⟩; exact ⟨t, hcs.mem_iff.mp ht, h⟩
    · rintro ⟨t, ht, h⟩; exact ⟨t, hcs.mem_iff.mpr ht, h⟩
  have step1 : (edgeLinksEnum from_ to fragile ps cs).Perm
      (ps.flatMap fun f => (consumers from_ to fragile f).map fun t => ⟨f, t, fragile⟩) := by
    apply flatMap_perm_pointwise
    intro f _
    apply List.Perm.map
    unfold consumers
    have horph : orphan from_.onlyOne fragile cs f = orphan from_.onlyOne fragile to.replicas f := by
      simp only [orphan, hlen, hany f]
    rw [horph, hlen]
    exact List.Perm.append_left _ (hcs.filter _)
  exact step1.trans (List.Perm.flatMap_right _ hps)

/-! ## Non-vacuity -/

/-- a heterogeneous three-host cluster: `Limited(5)` fills host 0 (2 cores), host 1 (1 core) and
    takes 2 of the 4 cores of host 2 -/
example : (blockInfo (.remote [⟨0, 9500, 2⟩, ⟨1, 9500, 1⟩, ⟨2, 9500, 4⟩]) ⟨7, .limited 5, false⟩).replicas
    = [⟨7, 0, 0⟩, ⟨7, 0, 1⟩, ⟨7, 1, 0⟩, ⟨7, 2, 0⟩, ⟨7, 2, 1⟩] := by decide

/-- forward link with equal layouts: one consumer each -/
example : consumers (blockInfo (.loc 3) ⟨0, .unlimited, true⟩) (blockInfo (.loc 3) ⟨1, .unlimited, false⟩)
    false ⟨0, 0, 2⟩ = [⟨1, 0, 2⟩] := by decide

/-- two hosts sharing one address with disjoint ranges satisfy the precondition of `no_collision` -/
example : (assignPorts [⟨0, 100, 1⟩, ⟨0, 200, 1⟩] (fun _ => 0) [⟨1, 0, 0⟩, ⟨1, 1, 0⟩, ⟨2, 0, 1⟩]).map
    (fun a => (a.addr, a.port)) = [(0, 100), (0, 200), (0, 101)] := by decide

end Noir.Placement
