/-
  Props/C05Zip.lean — `Zip` (src/operator/zip.rs) preserves the stream grammar (C05) and watermark safety
  (C06). Model: `Model/Zip.lean` (`Zip.step` on the stream pulled from the binary start); lemmas:
  `Lemmas/Zip.lean`. The hypothesis `(stateAfter .init es).panicked = false` excludes the documented
  `panic!` of zip.rs:112 (mixing timestamped and plain items — fail-stop, C20), see
  `Noir.Zip.zip_plain_never_panics` in `Props/C09.lean`.
-/
import NoirVerif.Lemmas.Zip
namespace Noir.Zip
open Noir.Join (Bin)

variable {α β : Type}

/-- **C05 for Zip.** If the stream pulled from the binary start is well-formed
    (`((Item|Timestamped|Watermark|FlushBatch)* FlushAndRestart)+ Terminate`) then so is what `Zip`
    returns: `Zip` forwards every `FlushAndRestart` and the `Terminate`, emits pairs only in response
    to data elements, and emits nothing on its own. -/
theorem zip_preserves_grammar (es : List (Elem (Bin α β)))
    (hp : (stateAfter State.init es).panicked = false) (h : grammarOk es = true) :
    grammarOk (run State.init es) = true :=
  run_grammar es State.init false hp h

/-- **C06 for Zip.** If the stream pulled from the binary start is watermark-safe then so is the
    output: a pair is emitted when its LATER element arrives and carries `max ts₁ ts₂`, which is at
    least the timestamp of that element, itself above the last watermark (zip.rs:84-88, 109-110);
    watermarks are forwarded unchanged; the stashes are cleared at `FlushAndRestart`. -/
theorem zip_preserves_wmsafe (es : List (Elem (Bin α β)))
    (hp : (stateAfter State.init es).panicked = false) (h : wmSafeOk es = true) :
    wmSafeOk (run State.init es) = true :=
  run_wmsafe es State.init none inv_init hp h

/-- non-vacuity: an old stashed element (ts 2) is paired after `Watermark(5)` with a newer one (ts 9):
    the pair carries 9 -/
example :
    let es : List (Elem (Bin Nat Nat)) := [.ts (.left 1) 2, .wm 5, .ts (.right 10) 9, .far, .term]
    wmSafeOk es = true ∧ grammarOk es = true ∧
    run State.init es = [.wm 5, .ts (1, 10) 9, .far, .term] ∧
    wmSafeOk (run State.init es) = true ∧ grammarOk (run State.init es) = true := by decide

end Noir.Zip
