/-
  Props/C05WinOp.lean — C05 (stream control protocol) for the windows: the keyed `WindowOperator`
  (`WindowOperator::next`, src/operator/window/mod.rs:173-221; Model/WindowOp.lean), generic in the
  window manager, and the reset behaviour of every manager kind.

  C05: "the built-in stateful operators (folds, joins, windows, reorder, zip) output all results of
  an iteration before forwarding its FlushAndRestart and carry nothing over into the next iteration".

  Generic part (ANY `Mgr`): every unit of output is `results ++ [forwarded control element]`
  (`step_shape`), so control elements are forwarded one-to-one and in order
  (`winop_control_forwarded`), all results produced while an iteration is consumed — including
  those the `FlushAndRestart` itself triggers — precede the forwarded `FlushAndRestart`, and what
  follows it is produced from the operator's state and the following input alone
  (`winop_results_before_far`). The grammar `((item|ts|wm|flushBatch)* far)+ term` is preserved
  (`winop_preserves_grammar`) provided no manager that is *kept* after a `FlushAndRestart` emits a
  result at a directly following `Terminate` (`QuietAfterFar`): such a result would stand between
  the last `FlushAndRestart` and `Terminate`. The hypothesis is necessary (last `example` of the
  generic section) and holds for all manager kinds of /repo that are modelled as `Mgr`
  (count, event-time, transaction).

  "Carry nothing over", per manager kind (what actually holds):
  * event-time (`recycle = ws.is_empty()`): after `FlushAndRestart`/`Terminate` the operator holds NO
    manager (`etwin_op_resets` = `etwin_resets` of Props/C13.lean); the output after the boundary
    is that of a fresh operator on the rest of the input (`etwin_op_next_iteration_fresh`).
  * count (`recycle` = trait default `false`): the managers are KEPT, each with an empty slot
    deque = the initial slot state (`cwin_op_resets`); per key the results after the boundary are
    those of a fresh operator on the rest of the input (`cwin_op_next_iteration_fresh`), so the
    groups of an iteration are computed from that iteration's elements only
    (`cwin_keyed_never_mix`, Props/C12WinOp.lean).
  * session, processing-time (`recycle` = default `false`; session.rs / processing_time.rs do not
    override it): managers are kept, with no open session / no slot, for every clock
    (`session_mgr_resets`, `ptwin_mgr_resets` = `session_resets`, `ptwin_resets` of Props/C14.lean).
    They are NOT instantiated as `Mgr`s here: their `process` reads `Instant::now()` in every call,
    `Mgr.step` has no clock argument, and the dispatch would need a clock reading per manager call
    threaded through `broadcast`; the generic theorems of this file do not depend on the manager,
    and the reset statement is the per-manager one.
  * transaction (`recycle = w.is_none()`): a transaction with a registered `CommitAfter` deadline is
    committed by `FlushAndRestart`; a transaction the user logic has neither committed nor given
    a deadline SURVIVES `FlushAndRestart` and continues in the next iteration
    (`twin_open_transaction_survives_far`). This is what transaction.rs:81-85 does (the
    `Terminate | FlushAndRestart` arm is guarded by `close.is_some()`); a remark and not a C05
    violation (DESIGN.md §10).
-/
import NoirVerif.Lemmas.WindowOp
import NoirVerif.Props.C12WinOp
import NoirVerif.Props.C14

namespace Noir.WindowOp

variable {κ σ α β : Type}

/-- a manager that the operator keeps after `FlushAndRestart` emits nothing at a directly
    following `Terminate` -/
def QuietAfterFar (m : Mgr σ α β) : Prop :=
  ∀ s, m.recycle (m.step s .far).1 = false → (m.step (m.step s .far).1 .term).2 = []

/-- **C05 (grammar), any manager.** A well-formed input stream yields a well-formed output stream. -/
theorem winop_preserves_grammar [DecidableEq κ] (m : Mgr σ α β) (hq : QuietAfterFar m)
    (es : List (Elem (κ × α))) (h : grammarOk es = true) : grammarOk (run m es) = true :=
  runUnits_grammar m hq es State.init false (fun h => by cases h) h

/-- **C05 (control elements are forwarded), any manager, any input.** The control elements of the
    output are exactly those of the input, in order: the `i`-th `FlushAndRestart` of the output is
    the forwarded `i`-th `FlushAndRestart` of the input. -/
theorem winop_control_forwarded [DecidableEq κ] (m : Mgr σ α β) (es : List (Elem (κ × α))) :
    (run m es).filterMap ctrlPart = es.filterMap ctrlPart :=
  runUnits_ctrl m es State.init

/-- **C05 (results before `FlushAndRestart`), any manager, any input.** Everything the operator
    emits while consuming an iteration `pre ++ [far]` — the results of `pre` and the results `ds`
    that the `FlushAndRestart` itself triggers — precedes the forwarded `FlushAndRestart`; what
    follows it is the operator's output on the rest of the input from the state it is in after
    the `FlushAndRestart`. No result of the iteration is emitted after its `FlushAndRestart`. -/
theorem winop_results_before_far [DecidableEq κ] (m : Mgr σ α β) (pre suf : List (Elem (κ × α))) :
    ∃ ds : List (Elem (κ × β)), (∀ o ∈ ds, o.isData = true) ∧
      run m (pre ++ .far :: suf) =
        run m pre ++ ds ++ [.far] ++ (runUnits m (stateAfter m State.init (pre ++ [.far])) suf).flatten := by
  obtain ⟨ds, hds, hsh⟩ := step_shape m (stateAfter m State.init pre) .far
  refine ⟨ds, hds, ?_⟩
  rw [run_append, stateAfter_append]
  simp only [runUnits, stateAfter, List.flatten_cons, hsh, ctrlOf, List.append_assoc]

/-- **C05 (nothing carried over), managers that are always recyclable after `FlushAndRestart`.**
    The output after an iteration boundary is the output of a fresh operator on the rest. -/
theorem winop_fresh_after_far [DecidableEq κ] (m : Mgr σ α β) (hrec : ∀ s, m.recycle (m.step s .far).1 = true)
    (pre suf : List (Elem (κ × α))) :
    run m (pre ++ .far :: suf) = run m (pre ++ [.far]) ++ run m suf := by
  have : pre ++ .far :: suf = (pre ++ [.far]) ++ suf := by simp
  rw [this, run_append, stateAfter_append]
  simp only [stateAfter, run]
  have hw : (step m (stateAfter m State.init pre) .far).1.windows = [] :=
    broadcast_all_recycled m .far hrec _
  cases hst : (step m (stateAfter m State.init pre) .far).1 with
  | mk ws p =>
    rw [hst] at hw; simp only at hw; subst hw
    rw [runUnits_panic_irrel m suf [] p none]; rfl

/-- Non-vacuity of `QuietAfterFar` as a hypothesis: a (hypothetical) manager that emits a result at
    every `Terminate` breaks the grammar — its result stands between `FlushAndRestart` and
    `Terminate`. No manager of /repo behaves like this. -/
example :
    let m : Mgr Unit Nat Nat := ⟨(), fun _ e => ((), match e with | .term => [⟨7, none⟩] | _ => []), fun _ => false, fun _ _ => none⟩
    let es : List (Elem (Nat × Nat)) := [.item (0, 1), .far, .term]
    grammarOk es = true ∧ run m es = [.far, .item (0, 7), .term] ∧ grammarOk (run m es) = false := by
  decide

end Noir.WindowOp

/-! ### count windows -/
namespace Noir.CountWindow
open Noir.WindowOp

variable {α κ : Type}

theorem cwin_quietAfterFar (c : Cfg) : QuietAfterFar (mgr (α := α) c) := by
  intro s _
  simp [mgr_step, process, processEnd]

/-- **C05 (grammar), keyed count windows.** -/
theorem cwin_op_preserves_grammar [DecidableEq κ] (c : Cfg) (es : List (Elem (κ × α)))
    (h : grammarOk es = true) : grammarOk (WindowOp.run (mgr c) es) = true :=
  winop_preserves_grammar (mgr c) (cwin_quietAfterFar c) es h

/-- **C05 (reset), keyed count windows — the state.** After `FlushAndRestart` (or `Terminate`) the
    operator still holds a manager for every key it held before (count managers are never
    recycled), and every one of them has an empty slot deque: the initial slot state. -/
theorem cwin_op_resets [DecidableEq κ] (c : Cfg) (st : WindowOp.State κ (List (Slot α))) :
    (keys (WindowOp.step (mgr c) st .far).1.windows = keys st.windows ∧
      ∀ p ∈ (WindowOp.step (mgr c) st .far).1.windows, p.2 = (mgr (α := α) c).init) ∧
    (keys (WindowOp.step (mgr c) st .term).1.windows = keys st.windows ∧
      ∀ p ∈ (WindowOp.step (mgr c) st .term).1.windows, p.2 = (mgr (α := α) c).init) := by
  have key : ∀ (e : Elem α), (e = .far ∨ e = .term) → ∀ ws : List (κ × List (Slot α)),
      keys (broadcast (mgr c) e ws).1 = keys ws ∧ ∀ p ∈ (broadcast (mgr c) e ws).1, p.2 = [] := by
    intro e he ws
    induction ws with
    | nil => simp [broadcast, keys]
    | cons q rest ih =>
      obtain ⟨k, s⟩ := q
      have hs : (process c s e).1 = [] := by rcases he with rfl | rfl <;> simp [process, processEnd]
      simp only [broadcast, mgr_recycle, mgr_step, Bool.false_eq_true, if_false, keys, List.map_cons, hs]
      refine ⟨by rw [show List.map (·.1) (broadcast (mgr c) e rest).1 = keys (broadcast (mgr c) e rest).1 from rfl, ih.1]; rfl, ?_⟩
      intro p hp
      simp only [List.mem_cons] at hp
      rcases hp with rfl | hp
      · rfl
      · exact ih.2 p hp
  exact ⟨key .far (Or.inl rfl) st.windows, key .term (Or.inr rfl) st.windows⟩

/-- **C05 (reset), keyed count windows — the behaviour.** For every key, the results after an
    iteration boundary are those of a fresh operator run on the rest of the input: the groups of
    the next iteration are computed from that iteration's elements only. -/
theorem cwin_op_next_iteration_fresh [DecidableEq κ] (c : Cfg) (hS : 1 ≤ c.slide) (hSN : c.slide ≤ c.size)
    (pre suf : List (Elem (κ × α))) (k : κ) :
    keyGroups k (WindowOp.run (mgr c) (pre ++ .far :: suf)) =
      keyGroups k (WindowOp.run (mgr c) (pre ++ [.far])) ++ keyGroups k (WindowOp.run (mgr c) suf) := by
  rw [cwin_keyed_groups c hS hSN, cwin_keyed_groups c hS hSN, cwin_keyed_groups c hS hSN]
  have h1 : proj k (pre ++ .far :: suf) = proj k pre ++ .far :: proj k suf := by
    simp [proj, projElem]
  have h2 : proj k (pre ++ [.far]) = proj k pre ++ [.far] := by
    simp [proj, projElem]
  rw [h1, h2, spec_append_far]

/-- Non-vacuity: `N = 2`, tumbling, non-exact; key 0's open group `[3]` is flushed by the
    `FlushAndRestart` (before it), the next iteration starts from nothing. -/
example :
    let es : List (Elem (Nat × Nat)) :=
      [.item (0, 1), .item (1, 10), .item (0, 2), .item (0, 3), .far, .item (0, 4), .item (0, 5), .far, .term]
    grammarOk es = true ∧
    WindowOp.run (mgr ⟨2, 2, false⟩) es =
      [.item (0, [1, 2]), .item (0, [3]), .item (1, [10]), .far, .item (0, [4, 5]), .far, .term] ∧
    grammarOk (WindowOp.run (mgr ⟨2, 2, false⟩) es) = true ∧
    (WindowOp.stateAfter (mgr ⟨2, 2, false⟩) WindowOp.State.init (es.take 5)).windows = [(0, []), (1, [])] := by
  decide

end Noir.CountWindow

/-! ### event-time windows -/
namespace Noir.EventTimeWindow
open Noir.WindowOp

variable {α κ : Type}

theorem etwin_quietAfterFar (c : Cfg) : QuietAfterFar (mgr (α := α) c) := by
  intro s h
  simp [mgr, process, recycle] at h

/-- **C05 (grammar), keyed event-time windows.** -/
theorem etwin_op_preserves_grammar [DecidableEq κ] (c : Cfg) (es : List (Elem (κ × α)))
    (h : grammarOk es = true) : grammarOk (WindowOp.run (mgr c) es) = true :=
  winop_preserves_grammar (mgr c) (etwin_quietAfterFar c) es h

/-- **C05 (reset), keyed event-time windows — the state** (= `etwin_resets`, Props/C13.lean): after
    `FlushAndRestart` (or `Terminate`) the operator holds no manager at all. -/
theorem etwin_op_resets [DecidableEq κ] (c : Cfg) (st : WindowOp.State κ (State α)) :
    (WindowOp.step (mgr c) st .far).1.windows = [] ∧ (WindowOp.step (mgr c) st .term).1.windows = [] :=
  etwin_resets c st

/-- **C05 (reset), keyed event-time windows — the behaviour.** The output after an iteration
    boundary is exactly the output of a fresh operator on the rest of the input. -/
theorem etwin_op_next_iteration_fresh [DecidableEq κ] (c : Cfg) (pre suf : List (Elem (κ × α))) :
    WindowOp.run (mgr c) (pre ++ .far :: suf) = WindowOp.run (mgr c) (pre ++ [.far]) ++ WindowOp.run (mgr c) suf :=
  winop_fresh_after_far (mgr c) (fun s => by simp [mgr, process, recycle]) pre suf

/-- Non-vacuity: the open windows of both keys are emitted before the `FlushAndRestart`. -/
example :
    let es : List (Elem (Nat × Nat)) := [.ts (0, 1) 3, .ts (1, 2) 9, .wm 5, .far, .ts (0, 3) 1, .far, .term]
    grammarOk es = true ∧
    WindowOp.run (mgr ⟨10, 10⟩) es =
      [.wm 5, .ts (0, [(1, 3)]) 13, .ts (1, [(2, 9)]) 19, .far, .ts (0, [(3, 1)]) 11, .far, .term] ∧
    grammarOk (WindowOp.run (mgr ⟨10, 10⟩) es) = true := by
  decide

end Noir.EventTimeWindow

/-! ### transaction windows -/
namespace Noir.TransactionWindow
open Noir.WindowOp

variable {α κ : Type}

theorem twin_quietAfterFar (f : α → TxOp) : QuietAfterFar (mgr f) := by
  intro s h
  cases s with
  | none => simp [mgr, process]
  | some sl =>
    cases hc : sl.close with
    | none => simp [mgr, process, hc]
    | some d => simp [mgr, process, recycle, hc, out] at h

/-- **C05 (grammar), keyed transaction windows.** -/
theorem twin_op_preserves_grammar [DecidableEq κ] (f : α → TxOp) (es : List (Elem (κ × α)))
    (h : grammarOk es = true) : grammarOk (WindowOp.run (mgr f) es) = true :=
  winop_preserves_grammar (mgr f) (twin_quietAfterFar f) es h

/-- **Documented behaviour (a remark, not a C05 violation — DESIGN.md §10).** A transaction that
    the user logic has not committed and that has no `CommitAfter` deadline is neither emitted nor
    dropped by `FlushAndRestart`: the manager keeps it, is not recyclable, and the operator keeps
    the manager; the transaction continues in the next iteration. A transaction WITH a deadline is
    committed by the `FlushAndRestart`. -/
theorem twin_open_transaction_survives_far (f : α → TxOp) (s : Slot α) :
    (s.close = none → process f (some s) .far = (some s, []) ∧ recycle (process f (some s) .far).1 = false) ∧
    (s.close ≠ none → process f (some s) .far = (none, [⟨s.items, none⟩])) := by
  constructor
  · intro h; simp [process, h, recycle]
  · intro h
    cases hc : s.close with
    | none => exact absurd hc h
    | some d => simp [process, hc, out]

/-- …on the keyed operator: elements 1, 2 (iteration 1, `Continue`) and 9 (iteration 2, `Commit`)
    of key 0 end up in ONE result, emitted in the second iteration; key 1's transaction with a
    deadline is committed by the first `FlushAndRestart`, before it. -/
example :
    let f : Nat × Nat → TxOp := fun v => if v.2 = 9 then .commit else if v.2 = 5 then .commitAfter 100 else .continue_
    let es : List (Elem (Nat × (Nat × Nat))) :=
      [.ts (0, (0, 1)) 0, .ts (1, (1, 5)) 1, .ts (0, (0, 2)) 2, .far, .ts (0, (0, 9)) 3, .far, .term]
    grammarOk es = true ∧
    WindowOp.run (mgr f) es =
      [.item (1, [(1, 5)]), .far, .item (0, [(0, 1), (0, 2), (0, 9)]), .far, .term] ∧
    grammarOk (WindowOp.run (mgr f) es) = true ∧
    (WindowOp.stateAfter (mgr f) WindowOp.State.init (es.take 4)).windows = [(0, some ⟨[(0, 1), (0, 2)], none⟩)] := by
  decide

end Noir.TransactionWindow

/-! ### wall-clock managers (not instantiated as `Mgr`: see the header) -/

namespace Noir.SessionWindow

/-- **C05 (reset), session windows, any clock** (= `session_resets`, Props/C14.lean): after
    `FlushAndRestart`/`Terminate` no session is open. The manager is kept (`recycle` default). -/
theorem session_mgr_resets {α : Type} (gap : Nat) (w : State α) (now : Nat) :
    (process gap w now Elem.far).1 = none ∧ (process gap w now Elem.term).1 = none :=
  session_resets gap w now

end Noir.SessionWindow

namespace Noir.ProcTimeWindow

/-- **C05 (reset), processing-time windows, any clock** (= `ptwin_resets`, Props/C14.lean): after
    `FlushAndRestart`/`Terminate` no slot is left. The manager is kept (`recycle` default). -/
theorem ptwin_mgr_resets {α : Type} (c : Cfg) (ws : List (Slot α)) (now : Nat) :
    (process c ws now Elem.far).1 = [] ∧ (process c ws now Elem.term).1 = [] :=
  ptwin_resets c ws now

end Noir.ProcTimeWindow
