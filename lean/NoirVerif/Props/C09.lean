/-
  Props/C09.lean — "split(n) gives every branch the complete stream; route sends each element to the first
  route whose predicate holds and to no other, dropping unmatched ones; merge outputs the multiset union of
  its inputs; broadcast delivers every element to every downstream replica. zip pairs elements one-to-one,
  producing exactly min(|a|,|b|) pairs without using any element twice, positionally when both inputs are
  sequential."

  Models: `Model/Zip.lean` (`Zip::next` on top of the binary start), `Model/Route.lean` (`RoutingEnd`),
  `Model/Router.lean` (`End`, strategies incl. `All`), `Model/HashJoin.lean` (`BinStart.stepElem`: what a
  binary start hands to `merge`'s `filter_map`). Helper lemmas: `Lemmas/Zip.lean`, `Lemmas/Route.lean`.

  Vocabulary of the zip theorems: `es` is the stream `Zip` pulls from its binary start — by construction an
  arbitrary interleaving of the two sides' arrival sequences (wrapped in `Left`/`Right`, with the
  `LeftEnd`/`RightEnd` markers, watermarks, `FlushBatch`es in between); `lefts es` / `rights es` are the two
  sides' data elements in arrival order; `farFree es` = one iteration's worth of input. The hypothesis
  `(stateAfter .init es).panicked = false` excludes the documented `panic!` of zip.rs:112 (a timestamped
  element paired with a plain one); `zip_plain_never_panics` / `zip_timestamped_never_panics` show it is
  implied by "all plain" / "all timestamped".
-/
import NoirVerif.Lemmas.Zip
namespace Noir.Zip
open Noir.Join (Bin Interleave)

variable {α β : Type}

/-! ## zip -/

/-- **C09 (zip pairs positionally in arrival order).** Whatever the interleaving of the two sides
    (and of end markers, watermarks, flushes), the pairs emitted during an iteration are, in order,
    exactly the `pair`s of the i-th left and the i-th right data element, for every zipped position:
    `List.zip (lefts es) (rights es)`. (`pair` keeps both payloads and stamps `max ts₁ ts₂`.) -/
theorem zip_pairs (es : List (Elem (Bin α β))) (hf : farFree es = true)
    (hp : (stateAfter State.init es).panicked = false) :
    (dataOf (run State.init es)).map some = (List.zip (lefts es) (rights es)).map pairU := by
  have h := run_spec es State.init hf hp
  rw [zip_nil_of_inv (stateAfter_inv es _ inv_init hp)] at h
  simpa [State.init] using h.symm

/-- `zip_pairs`, quantifying explicitly over the interleavings of the two sides' arrival sequences
    `a` (left) and `b` (right). -/
theorem zip_pairs_interleaving (a : List (Elem α)) (b : List (Elem β))
    (ha : ∀ x ∈ a, x.isData = true) (hb : ∀ y ∈ b, y.isData = true)
    (es : List (Elem (Bin α β))) (hi : Interleave (a.map wrapL) (b.map wrapR) es)
    (hp : (stateAfter State.init es).panicked = false) :
    (dataOf (run State.init es)).map some = (List.zip a b).map pairU := by
  have hfa : farFree (a.map (wrapL (β := β))) = true := by
    simp only [farFree, List.all_map, List.all_eq_true]
    intro x hx; have := ha x hx
    cases x <;> simp_all [wrapL, Elem.map, Elem.isFar, Elem.isData]
  have hfb : farFree (b.map (wrapR (α := α))) = true := by
    simp only [farFree, List.all_map, List.all_eq_true]
    intro x hx; have := hb x hx
    cases x <;> simp_all [wrapR, Elem.map, Elem.isFar, Elem.isData]
  have h := zip_pairs es (farFree_interleave hi hfa hfb) hp
  have hl := lefts_interleave hi
  rw [hl.1 (lefts_wrapL a ha).2 (rights_wrapR b hb).2, hl.2 (lefts_wrapL a ha).2 (rights_wrapR b hb).2,
    (lefts_wrapL a ha).1, (rights_wrapR b hb).1] at h
  exact h

/-- **C09 (exactly min(|a|,|b|) pairs).** -/
theorem zip_length_min (es : List (Elem (Bin α β))) (hf : farFree es = true)
    (hp : (stateAfter State.init es).panicked = false) :
    (dataOf (run State.init es)).length = min (lefts es).length (rights es).length := by
  have := congrArg List.length (zip_pairs es hf hp)
  simpa [List.length_zip] using this

/-- the payloads of the two sides, in arrival order -/
def leftVals (es : List (Elem (Bin α β))) : List α := (lefts es).filterMap Elem.value
def rightVals (es : List (Elem (Bin α β))) : List β := (rights es).filterMap Elem.value

/-- **C09 (payloads).** The payloads of the emitted pairs are `List.zip` of the two sides' payloads. -/
theorem zip_pairs_values (es : List (Elem (Bin α β))) (hf : farFree es = true)
    (hp : (stateAfter State.init es).panicked = false) :
    (run State.init es).filterMap Elem.value = List.zip (leftVals es) (rightVals es) := by
  rw [← filterMap_value_dataOf]
  exact values_of_pairs _ _ _ (lefts_data es) (rights_data es) (zip_pairs es hf hp)

/-- **C09 (no element is used twice).** The `k` emitted pairs use exactly the first `k` left and the
    first `k` right elements, each once and in order: nothing is duplicated, skipped or invented. -/
theorem zip_no_reuse (es : List (Elem (Bin α β))) (hf : farFree es = true)
    (hp : (stateAfter State.init es).panicked = false) :
    let vals := (run State.init es).filterMap Elem.value
    vals.map Prod.fst = (leftVals es).take vals.length ∧
    vals.map Prod.snd = (rightVals es).take vals.length ∧
    (vals.map Prod.fst).Sublist (leftVals es) ∧ (vals.map Prod.snd).Sublist (rightVals es) := by
  intro vals
  have hv : vals = List.zip (leftVals es) (rightVals es) := zip_pairs_values es hf hp
  have h1 := map_fst_zip_take (leftVals es) (rightVals es)
  have h2 := map_snd_zip_take (leftVals es) (rightVals es)
  rw [← hv] at h1 h2
  exact ⟨h1, h2, h1 ▸ List.take_sublist _ _, h2 ▸ List.take_sublist _ _⟩

/-- **C09 (positional when both inputs are sequential).** When each input is ONE sequential replica
    the binary start presents an interleaving of `a` (wrapped) followed by `LeftEnd` and `b` followed
    by `RightEnd`, then the `FlushAndRestart`: whatever the relative speed of the two branches, the
    i-th pair is made of the i-th element of `a` and the i-th element of `b`, the iteration ends with
    `FlushAndRestart` and nothing is kept. -/
theorem zip_positional_when_sequential (a : List (Elem α)) (b : List (Elem β))
    (ha : ∀ x ∈ a, x.isData = true) (hb : ∀ y ∈ b, y.isData = true)
    (es : List (Elem (Bin α β)))
    (hi : Interleave (a.map wrapL ++ [.item .leftEnd]) (b.map wrapR ++ [.item .rightEnd]) es)
    (hp : (stateAfter State.init es).panicked = false) :
    (dataOf (run State.init (es ++ [.far]))).map some = (List.zip a b).map pairU ∧
    (run State.init (es ++ [.far])).getLast? = some .far ∧
    stateAfter State.init (es ++ [.far]) = State.init := by
  have hla : lefts (a.map (wrapL (β := β)) ++ [.item .leftEnd]) = a ∧
      rights (a.map (wrapL (β := β)) ++ [.item .leftEnd]) = [] := by
    rw [lefts_append, rights_append, (lefts_wrapL a ha).1, (lefts_wrapL a ha).2]; simp [lefts, rights]
  have hrb : rights (b.map (wrapR (α := α)) ++ [.item .rightEnd]) = b ∧
      lefts (b.map (wrapR (α := α)) ++ [.item .rightEnd]) = [] := by
    rw [lefts_append, rights_append, (rights_wrapR b hb).1, (rights_wrapR b hb).2]; simp [lefts, rights]
  have hfa : farFree (a.map (wrapL (β := β)) ++ [.item .leftEnd]) = true := by
    simp only [farFree, List.all_append, List.all_map, Bool.and_eq_true, List.all_eq_true]
    refine ⟨?_, by simp [Elem.isFar]⟩
    intro x hx; have := ha x hx
    cases x <;> simp_all [wrapL, Elem.map, Elem.isFar, Elem.isData]
  have hfb : farFree (b.map (wrapR (α := α)) ++ [.item .rightEnd]) = true := by
    simp only [farFree, List.all_append, List.all_map, Bool.and_eq_true, List.all_eq_true]
    refine ⟨?_, by simp [Elem.isFar]⟩
    intro x hx; have := hb x hx
    cases x <;> simp_all [wrapR, Elem.map, Elem.isFar, Elem.isData]
  have h := zip_pairs es (farFree_interleave hi hfa hfb) hp
  have hl := lefts_interleave hi
  rw [hl.1 hla.2 hrb.2, hl.2 hla.2 hrb.2, hla.1, hrb.1] at h
  have hstep := step_far (stateAfter State.init es) hp
  refine ⟨?_, ?_, ?_⟩
  · rw [run_append, dataOf_append, run_far _ hp]
    simpa [dataOf, Elem.isData] using h
  · rw [run_append, run_far _ hp]; simp
  · rw [stateAfter_append]; simp [stateAfter, hstep]

/-- **C09 (zip resets at `FlushAndRestart`).** Both stashes are cleared: unmatched elements of the
    longer side are forgotten, nothing is carried over … -/
theorem zip_resets (s : State α β) (hs : s.panicked = false) :
    step s .far = (State.init, [.far]) := step_far s hs

/-- … so every iteration is zipped on its own: a run over `es ++ [FlushAndRestart] ++ rest` is the
    run over `es`, the `FlushAndRestart`, and a fresh run over `rest`. Together with `zip_pairs`
    (applied to each far-free segment) this is the per-iteration statement for any number of
    iterations. -/
theorem zip_iterations (es rest : List (Elem (Bin α β)))
    (hp : (stateAfter State.init es).panicked = false) :
    run State.init (es ++ .far :: rest) = run State.init es ++ .far :: run State.init rest := by
  rw [run_append]
  simp [run, step_far _ hp]

/-- plain (non-timestamped) inputs never reach the `panic!` -/
theorem zip_plain_never_panics (es : List (Elem (Bin α β)))
    (h : ∀ e ∈ es, ∀ b t, e ≠ .ts b t) : (stateAfter State.init es).panicked = false :=
  (stateAfter_plain es State.init h ⟨rfl, by simp [State.init], by simp [State.init]⟩).1

/-! ### non-vacuity / concrete runs -/

/-- left `1 2 3`, right `10 20`, right side ends first; `3` is dropped at the `FlushAndRestart`;
    the next iteration starts from scratch -/
example :
    run (State.init : State Nat Nat)
      [.item (.left 1), .item (.right 10), .item (.right 20), .item .rightEnd, .item (.left 2),
       .item (.left 3), .item .leftEnd, .far, .item (.right 30), .item (.left 4), .far, .term]
    = [.item (1, 10), .item (2, 20), .far, .item (4, 30), .far, .term] := by decide

/-- timestamps: the pair carries the larger one; watermarks pass through -/
example :
    run (State.init : State Nat Nat)
      [.ts (.left 1) 5, .wm 3, .ts (.right 10) 4, .ts (.right 20) 9, .ts (.left 2) 7, .far]
    = [.wm 3, .ts (1, 10) 5, .ts (2, 20) 9, .far] := by decide

/-- the binary start in front of `Zip`, one replica per side: left `[1, 2, FAR]`, right `[10, FAR]`
    arriving as `1, 10, FAR(right), 2, FAR(left)` -/
example :
    Front.run (Front.init 1 1)
      [(true, 0, .item 1), (false, 0, .item 10), (false, 0, .far), (true, 0, .item 2), (true, 0, .far)]
    = [.item (.left 1), .item (.right 10), .item .rightEnd, .item (.left 2), .item .leftEnd, (.far : Elem (Bin Nat Nat))] := by
  decide

/-- mixing a timestamped with a plain element is the documented panic -/
example : (stateAfter (State.init : State Nat Nat) [.item (.left 1), .ts (.right 10) 4]).panicked = true := by decide

end Noir.Zip
