/-
  Props/C09.lean — "split(n) gives every branch the complete stream; route sends each element to the first
  route whose predicate holds and to no other, dropping unmatched ones; merge outputs the multiset union of
  its inputs; broadcast delivers every element to every downstream replica. zip pairs elements one-to-one,
  producing exactly min(|a|,|b|) pairs without using any element twice, positionally when both inputs are
  sequential."

  Models: `Model/Zip.lean` (`Zip::next` on top of the binary start), `Model/Route.lean` (`RoutingEnd`),
  `Model/Router.lean` (`End`, strategies incl. `All`), `Model/HashJoin.lean` (`BinStart.stepElem`: what a
  binary start hands to `merge`'s `filter_map`). Helper lemmas: `Lemmas/Zip.lean`, `Lemmas/Route.lean`.

  Vocabulary of the zip theorems: `es` is the stream `Zip` pulls from its binary start — by construction an
  arbitrary interleaving of the two sides' arrival sequences (wrapped in `Left`/`Right`, with the
  `LeftEnd`/`RightEnd` markers, watermarks, `FlushBatch`es in between); `lefts es` / `rights es` are the two
  sides' data elements in arrival order; `farFree es` = one iteration's worth of input. The hypothesis
  `(stateAfter .init es).panicked = false` excludes the documented `panic!` of zip.rs:112 (a timestamped
  element paired with a plain one); `zip_plain_never_panics` shows it is implied by "no timestamped
  element".
-/
import NoirVerif.Lemmas.Zip
import NoirVerif.Lemmas.Route
import NoirVerif.Props.C03
namespace Noir.Zip
open Noir.Join (Bin Interleave)

variable {α β : Type}

/-! ## zip -/

/-- **C09 (zip pairs positionally in arrival order).** Whatever the interleaving of the two sides
    (and of end markers, watermarks, flushes), the pairs emitted during an iteration are, in order,
    exactly the `pair`s of the i-th left and the i-th right data element, for every zipped position:
    `List.zip (lefts es) (rights es)`. (`pair` keeps both payloads and stamps `max ts₁ ts₂`.) -/
theorem zip_pairs (es : List (Elem (Bin α β))) (hf : farFree es = true)
    (hp : (stateAfter State.init es).panicked = false) :
    (dataOf (run State.init es)).map some = (List.zip (lefts es) (rights es)).map pairU := by
  have h := run_spec es State.init hf hp
  rw [zip_nil_of_inv (stateAfter_inv es _ inv_init hp)] at h
  simpa [State.init] using h.symm

/-- `zip_pairs`, quantifying explicitly over the interleavings of the two sides' arrival sequences
    `a` (left) and `b` (right). -/
theorem zip_pairs_interleaving (a : List (Elem α)) (b : List (Elem β))
    (ha : ∀ x ∈ a, x.isData = true) (hb : ∀ y ∈ b, y.isData = true)
    (es : List (Elem (Bin α β))) (hi : Interleave (a.map wrapL) (b.map wrapR) es)
    (hp : (stateAfter State.init es).panicked = false) :
    (dataOf (run State.init es)).map some = (List.zip a b).map pairU := by
  have hfa : farFree (a.map (wrapL (β := β))) = true := by
    simp only [farFree, List.all_map, List.all_eq_true]
    intro x hx; have := ha x hx
    cases x <;> simp_all [wrapL, Elem.map, Elem.isFar, Elem.isData]
  have hfb : farFree (b.map (wrapR (α := α))) = true := by
    simp only [farFree, List.all_map, List.all_eq_true]
    intro x hx; have := hb x hx
    cases x <;> simp_all [wrapR, Elem.map, Elem.isFar, Elem.isData]
  have h := zip_pairs es (farFree_interleave hi hfa hfb) hp
  have hl := lefts_interleave hi
  rw [hl.1 (lefts_wrapL a ha).2 (rights_wrapR b hb).2, hl.2 (lefts_wrapL a ha).2 (rights_wrapR b hb).2,
    (lefts_wrapL a ha).1, (rights_wrapR b hb).1] at h
  exact h

/-- **C09 (exactly min(|a|,|b|) pairs).** -/
theorem zip_length_min (es : List (Elem (Bin α β))) (hf : farFree es = true)
    (hp : (stateAfter State.init es).panicked = false) :
    (dataOf (run State.init es)).length = min (lefts es).length (rights es).length := by
  have := congrArg List.length (zip_pairs es hf hp)
  simpa [List.length_zip] using this

/-- **C09 (payloads).** The payloads of the emitted pairs are `List.zip` of the two sides' payloads. -/
theorem zip_pairs_values (es : List (Elem (Bin α β))) (hf : farFree es = true)
    (hp : (stateAfter State.init es).panicked = false) :
    (run State.init es).filterMap Elem.value = List.zip (leftVals es) (rightVals es) := by
  rw [← filterMap_value_dataOf]
  exact values_of_pairs _ _ _ (lefts_data es) (rights_data es) (zip_pairs es hf hp)

/-- **C09 (no element is used twice).** The `k` emitted pairs use exactly the first `k` left and the
    first `k` right elements, each once and in order: nothing is duplicated, skipped or invented. -/
theorem zip_no_reuse (es : List (Elem (Bin α β))) (hf : farFree es = true)
    (hp : (stateAfter State.init es).panicked = false) :
    let vals := (run State.init es).filterMap Elem.value
    vals.map Prod.fst = (leftVals es).take vals.length ∧
    vals.map Prod.snd = (rightVals es).take vals.length ∧
    (vals.map Prod.fst).Sublist (leftVals es) ∧ (vals.map Prod.snd).Sublist (rightVals es) := by
  intro vals
  have hv : vals = List.zip (leftVals es) (rightVals es) := zip_pairs_values es hf hp
  have h1 := map_fst_zip_take (leftVals es) (rightVals es)
  have h2 := map_snd_zip_take (leftVals es) (rightVals es)
  rw [← hv] at h1 h2
  exact ⟨h1, h2, h1 ▸ List.take_sublist _ _, h2 ▸ List.take_sublist _ _⟩

/-- **C09 (positional when both inputs are sequential).** When each input is ONE sequential replica
    the binary start presents an interleaving of `a` (wrapped) followed by `LeftEnd` and `b` followed
    by `RightEnd`, then the `FlushAndRestart`: whatever the relative speed of the two branches, the
    i-th pair is made of the i-th element of `a` and the i-th element of `b`, the iteration ends with
    `FlushAndRestart` and nothing is kept. -/
theorem zip_positional_when_sequential (a : List (Elem α)) (b : List (Elem β))
    (ha : ∀ x ∈ a, x.isData = true) (hb : ∀ y ∈ b, y.isData = true)
    (es : List (Elem (Bin α β)))
    (hi : Interleave (a.map wrapL ++ [.item .leftEnd]) (b.map wrapR ++ [.item .rightEnd]) es)
    (hp : (stateAfter State.init es).panicked = false) :
    (dataOf (run State.init (es ++ [.far]))).map some = (List.zip a b).map pairU ∧
    (run State.init (es ++ [.far])).getLast? = some .far ∧
    stateAfter State.init (es ++ [.far]) = State.init := by
  have hla : lefts (a.map (wrapL (β := β)) ++ [.item .leftEnd]) = a ∧
      rights (a.map (wrapL (β := β)) ++ [.item .leftEnd]) = [] := by
    rw [lefts_append, rights_append, (lefts_wrapL a ha).1, (lefts_wrapL a ha).2]; simp [lefts, rights]
  have hrb : rights (b.map (wrapR (α := α)) ++ [.item .rightEnd]) = b ∧
      lefts (b.map (wrapR (α := α)) ++ [.item .rightEnd]) = [] := by
    rw [lefts_append, rights_append, (rights_wrapR b hb).1, (rights_wrapR b hb).2]; simp [lefts, rights]
  have hfa : farFree (a.map (wrapL (β := β)) ++ [.item .leftEnd]) = true := by
    simp only [farFree, List.all_append, List.all_map, Bool.and_eq_true, List.all_eq_true]
    refine ⟨?_, by simp [Elem.isFar]⟩
    intro x hx; have := ha x hx
    cases x <;> simp_all [wrapL, Elem.map, Elem.isFar, Elem.isData]
  have hfb : farFree (b.map (wrapR (α := α)) ++ [.item .rightEnd]) = true := by
    simp only [farFree, List.all_append, List.all_map, Bool.and_eq_true, List.all_eq_true]
    refine ⟨?_, by simp [Elem.isFar]⟩
    intro x hx; have := hb x hx
    cases x <;> simp_all [wrapR, Elem.map, Elem.isFar, Elem.isData]
  have h := zip_pairs es (farFree_interleave hi hfa hfb) hp
  have hl := lefts_interleave hi
  rw [hl.1 hla.2 hrb.2, hl.2 hla.2 hrb.2, hla.1, hrb.1] at h
  have hstep := step_far (stateAfter State.init es) hp
  refine ⟨?_, ?_, ?_⟩
  · rw [run_append, dataOf_append, run_far _ hp]
    simpa [dataOf, Elem.isData] using h
  · rw [run_append, run_far _ hp]; simp
  · rw [stateAfter_append]; simp [stateAfter, hstep]

/-- **C09 (zip over arrival sequences, through the real binary start).** `arr` is the sequence in
    which the elements of the two sides reach the zip block — any number of replicas per side, any
    interleaving, data and watermarks (one iteration in progress: no replica has ended yet). `Front`
    is the binary start (`process_side` + `Start::next` incl. the watermark frontier over all
    `nL + nR` replicas). The pairs `Zip` emits are exactly `List.zip` of the two sides' data in
    arrival order. -/
theorem zip_pairs_arrivals {γ : Type} (nL nR : Nat) (hn : nL + nR ≠ 0) (arr : List (Arrival γ))
    (harr : ∀ p ∈ arr, p.2.2.isFar = false ∧ p.2.2.isTerm = false)
    (hp : (stateAfter State.init (Front.run (Front.init nL nR) arr)).panicked = false) :
    (dataOf (run State.init (Front.run (Front.init nL nR) arr))).map some =
      (List.zip (sideData true arr) (sideData false arr)).map pairU := by
  have hs := front_run_sides arr (Front.init nL nR) (by simpa [Front.init, Noir.Start.init] using hn) harr
  have h := zip_pairs _ hs.1 hp
  rw [hs.2.1, hs.2.2] at h
  exact h

/-- **C09 (zip resets at `FlushAndRestart`).** Both stashes are cleared: unmatched elements of the
    longer side are forgotten, nothing is carried over … -/
theorem zip_resets (s : State α β) (hs : s.panicked = false) :
    step s .far = (State.init, [.far]) := step_far s hs

/-- … so every iteration is zipped on its own: a run over `es ++ [FlushAndRestart] ++ rest` is the
    run over `es`, the `FlushAndRestart`, and a fresh run over `rest`. Together with `zip_pairs`
    (applied to each far-free segment) this is the per-iteration statement for any number of
    iterations. -/
theorem zip_iterations (es rest : List (Elem (Bin α β)))
    (hp : (stateAfter State.init es).panicked = false) :
    run State.init (es ++ .far :: rest) = run State.init es ++ .far :: run State.init rest := by
  rw [run_append]
  simp [run, step_far _ hp]

/-- plain (non-timestamped) inputs never reach the `panic!` -/
theorem zip_plain_never_panics (es : List (Elem (Bin α β)))
    (h : ∀ e ∈ es, ∀ b t, e ≠ .ts b t) : (stateAfter State.init es).panicked = false :=
  (stateAfter_plain es State.init h ⟨rfl, by simp [State.init], by simp [State.init]⟩).1

/-! ### non-vacuity / concrete runs -/

/-- left `1 2 3`, right `10 20`, right side ends first; `3` is dropped at the `FlushAndRestart`;
    the next iteration starts from scratch -/
example :
    run (State.init : State Nat Nat)
      [.item (.left 1), .item (.right 10), .item (.right 20), .item .rightEnd, .item (.left 2),
       .item (.left 3), .item .leftEnd, .far, .item (.right 30), .item (.left 4), .far, .term]
    = [.item (1, 10), .item (2, 20), .far, .item (4, 30), .far, .term] := by decide

/-- timestamps: the pair carries the larger one; watermarks pass through -/
example :
    run (State.init : State Nat Nat)
      [.ts (.left 1) 5, .wm 3, .ts (.right 10) 4, .ts (.right 20) 9, .ts (.left 2) 7, .far]
    = [.wm 3, .ts (1, 10) 5, .ts (2, 20) 9, .far] := by decide

/-- the binary start in front of `Zip`, one replica per side: left `[1, 2, FAR]`, right `[10, FAR]`
    arriving as `1, 10, FAR(right), 2, FAR(left)` -/
example :
    Front.run (Front.init 1 1)
      [(true, 0, .item 1), (false, 0, .item 10), (false, 0, .far), (true, 0, .item 2), (true, 0, .far)]
    = [.item (.left 1), .item (.right 10), .item .rightEnd, .item (.left 2), .item .leftEnd, (.far : Elem (Bin Nat Nat))] := by
  decide

/-- mixing a timestamped with a plain element is the documented panic -/
example : (stateAfter (State.init : State Nat Nat) [.item (.left 1), .ts (.right 10) 4]).panicked = true := by decide

end Noir.Zip

/-! ## route (`RoutingEnd`, src/operator/route.rs) -/
namespace Noir.Route
open Noir.Placement (Coord)

variable {α : Type}

/-- **C09 (route: first matching route only).** In a set-up `RoutingEnd` (routes towards the blocks
    `routes`, filters `preds`, in `add_route` order), if route `k` is the first whose filter accepts the
    item then the item — plain or timestamped — is enqueued to exactly ONE sender, a sender towards route
    `k`'s block, and to nothing else, even if later routes accept it too. -/
theorem route_first_match_only {me : Nat} {routes : List Nat} {next : List (Coord × Bool)} {st : State}
    (hs : setup me routes next = some st) (preds : List (α → Bool)) (a : α) (k b : Nat)
    (hb : routes[k]? = some b) (hk : (preds[k]?).map (· a) = some true)
    (hbefore : ∀ j, j < k → (preds[j]?).map (· a) = some false) :
    ∃ i, st.blockAt i = some b ∧
      (step preds 0 st (.item a)).2 = [(i, .item a)] ∧
      ∀ t, (step preds 0 st (.ts a t)).2 = [(i, .ts a t)] := by
  have ok := setup_ok hs
  have hbm : b ∈ routes := List.mem_of_getElem? hb
  have hg : st.groups[k]? = some (Router.indexesOf st.blocks b) := by
    rw [ok.groups, List.getElem?_map, hb]; rfl
  cases hi : Router.indexesOf st.blocks b with
  | nil => exact absurd hi (ok.nonempty b hbm)
  | cons i is =>
    have hmem : i ∈ Router.indexesOf st.blocks b := by rw [hi]; exact List.mem_cons_self
    have hblock : st.blockAt i = some b := by
      rw [blockAt_eq]; exact (Router.mem_indexesOf _ _ _).mp hmem
    have hrd := Router.route_first_match_only st.groups (accepts preds a) 0 k _ hg
      (by rw [accepts_getElem?]; exact hk) (fun j hj => by rw [accepts_getElem?]; exact hbefore j hj)
    rw [hi] at hrd
    have := step_data preds 0 st a ok.closed ok.panicked [i] (by simpa using hrd)
    exact ⟨i, hblock, by simpa using this.1, fun t => by simpa using this.2 t⟩

/-- **C09 (route: unmatched elements are dropped).** An item no filter accepts is enqueued to nobody;
    the operator goes on (nothing fails, the state is unchanged). -/
theorem route_unmatched_dropped (preds : List (α → Bool)) (st : State)
    (hc : st.closed = false) (hp : st.panicked = false) (a : α) (h : ∀ p ∈ preds, p a = false) :
    step preds 0 st (.item a) = (st, []) ∧ ∀ t, step preds 0 st (.ts a t) = (st, []) := by
  have hrd := Router.route_unmatched_dropped st.groups (accepts preds a) 0 (by
    intro x hx
    simp only [accepts, List.mem_map] at hx
    obtain ⟨p, hp', rfl⟩ := hx
    exact h p hp')
  simp [step, hp, hc, hrd, Elem.isTerm]

/-- **C09 (route: control elements go to every route).** Watermarks, `FlushAndRestart` and `Terminate`
    are enqueued to every connected replica of every route exactly once (the enqueued sender indexes
    are duplicate-free and are exactly the valid ones); `FlushBatch` is enqueued to nobody. -/
theorem route_control_to_all {me : Nat} {routes : List Nat} {next : List (Coord × Bool)} {st : State}
    (hs : setup me routes next = some st) (preds : List (α → Bool)) :
    ∃ targets : List Nat, targets.Nodup ∧ (∀ i, i ∈ targets ↔ i < st.senders.length) ∧
      (∀ t, (step preds 0 st (.wm t)).2 = targets.map (fun i => (i, Elem.wm t))) ∧
      (step preds 0 st .far).2 = targets.map (fun i => (i, (Elem.far : Elem α))) ∧
      (step preds 0 st .term).2 = targets.map (fun i => (i, (Elem.term : Elem α))) ∧
      (step preds 0 st .flushBatch).2 = [] := by
  have ok := setup_ok hs
  have hf := flatten_groups ok
  exact ⟨st.groups.flatten, hf.1, hf.2, step_control preds 0 st ok.closed ok.panicked⟩

/-- three routes towards blocks 7, 3, 5 (`lt5`, `even`, `always`; the senders are sorted by block, so the
    route groups are `[[2], [0], [1]]`): 4 goes to block 7 only although all
    three filters accept it; 6 to block 3; 9 to block 5; with the last route removed 9 is dropped -/
example :
    let preds : List (Nat → Bool) := [(· < 5), (· % 2 == 0), fun _ => true]
    let st : State := { senders := [⟨⟨3, 0, 0⟩, 0⟩, ⟨⟨5, 0, 0⟩, 0⟩, ⟨⟨7, 0, 0⟩, 0⟩], groups := [[2], [0], [1]] }
    ((step preds 0 st (.item 4)).2.map fun p => (st.blockAt p.1, p.2)) = [(some 7, .item 4)] ∧
    ((step preds 0 st (.item 6)).2.map fun p => (st.blockAt p.1, p.2)) = [(some 3, .item 6)] ∧
    ((step preds 0 st (.item 9)).2.map fun p => (st.blockAt p.1, p.2)) = [(some 5, .item 9)] ∧
    (step (preds.take 2) 0 st (.item 9)).2 = [] := by decide

end Noir.Route

/-! ## split, broadcast (the `End` operator, `Model/Router.lean`) and merge (binary start) -/
namespace Noir.Router
open Noir.Placement (Coord)

variable {α : Type}

/-- **C09 (split: every branch gets every element).** `split(k)` clones the downstream block `k`
    times (`clone_block`, src/environment.rs:154: every clone is connected to the same previous
    block), so the `End` of the split block — strategy `OnlyOne` — has `k` downstream blocks. For every
    strategy other than broadcast a data element is enqueued, for EVERY downstream block, to exactly
    one sender towards that block, and to nothing else (`data_exactly_one_per_block`, C03). -/
theorem split_every_branch_complete (cfg : Cfg) (hs : cfg.strategy ≠ .all) (hash : α → Nat) (rnd me : Nat)
    (next : List (Coord × Bool)) (a : α) :
    let st := setup cfg me next
    let out := (step cfg hash rnd st (.item a)).2
    (∀ b ∈ st.blocks, (out.filter (fun p => st.blocks[p.1]? == some b)).length = 1) ∧
    out.length = (blocksOf st.blocks).length ∧ (∀ p ∈ out, p.2 = .item a) ∧
    (step cfg hash rnd st (.item a)).1 = st := by
  intro st out
  have hd := (step_data cfg hash rnd st a rfl rfl).1
  have h1 := data_exactly_one_per_block cfg hs me next (cfg.strategy.index rnd (hash a))
  have hout : out = (dataTargets st (cfg.strategy.index rnd (hash a))).map (fun i => (i, Elem.item a)) := hd
  refine ⟨?_, ?_, ?_, ?_⟩
  · intro b hb
    rw [hout, List.filter_map, List.length_map]
    exact h1.1 b hb
  · rw [hout, List.length_map]; exact h1.2.2
  · intro p hp
    rw [hout] at hp
    obtain ⟨i, _, rfl⟩ := List.mem_map.mp hp
    rfl
  · have hc : st.closed = false := rfl
    have hp : st.panicked = false := rfl
    simp [step, hc, hp, Elem.isTerm]

/-- … hence over a whole stream of data elements every branch (downstream block) receives the
    complete stream, in order, exactly once. -/
theorem split_every_branch_complete_stream (cfg : Cfg) (hs : cfg.strategy ≠ .all) (hash : α → Nat) (me : Nat)
    (next : List (Coord × Bool)) (xs : List α) (rnds : List Nat) :
    let st := setup cfg me next
    ∀ b ∈ st.blocks,
      (((run cfg hash st rnds (xs.map Elem.item)).flatten.filter
          (fun p => st.blocks[p.1]? == some b)).map (·.2)) = xs.map Elem.item := by
  intro st b hb
  induction xs generalizing rnds with
  | nil => rfl
  | cons x xs ih =>
    have h := split_every_branch_complete cfg hs hash (rnds.headD 0) me next x
    simp only [List.map_cons, run]
    rw [h.2.2.2]
    simp only [List.flatten_cons, List.filter_append, List.map_append]
    rw [ih rnds.tail]
    have hone := h.1 b hb
    have hall := h.2.2.1
    match hf : (step cfg hash (rnds.headD 0) st (.item x)).2.filter (fun p => st.blocks[p.1]? == some b) with
    | [] => rw [hf] at hone; cases hone
    | [p] =>
      have hp : p ∈ (step cfg hash (rnds.headD 0) st (.item x)).2 :=
        (List.mem_filter.mp (by rw [hf]; exact List.mem_cons_self)).1
      rw [hf]
      simp [hall p hp]
    | _ :: _ :: _ => rw [hf] at hone; simp at hone

/-- **C09 (broadcast reaches every replica).** With strategy `All` (`Stream::broadcast`,
    operator/mod.rs:1107) every data element is enqueued to every connected downstream replica exactly
    once. -/
theorem broadcast_every_replica (cfg : Cfg) (hs : cfg.strategy = .all) (hash : α → Nat) (rnd me : Nat)
    (next : List (Coord × Bool)) (a : α) :
    let st := setup cfg me next
    (step cfg hash rnd st (.item a)).2 = (List.range st.senders.length).map (fun i => (i, Elem.item a)) ∧
    ∀ t, (step cfg hash rnd st (.ts a t)).2 = (List.range st.senders.length).map (fun i => (i, Elem.ts a t)) := by
  intro st
  have hd := step_data cfg hash rnd st a rfl rfl
  have hall := all_reaches_every_replica cfg hs me next rnd (hash a)
  exact ⟨by rw [hd.1, hall], fun t => by rw [hd.2 t, hall]⟩

end Noir.Router

namespace Noir.Merge
open Noir.Join

variable {γ : Type}

/-- **C09 (merge = multiset union).** Whatever the interleaving of the two sides (`arr`, with any
    number of replicas per side and any placement of their `FlushAndRestart`s / `Terminate`s), the
    payloads `merge` emits are exactly the payloads that arrived, in arrival order — so each side's
    order is preserved and the output is the multiset union of the two inputs. -/
theorem merge_union (s : BinStart.State) (arr : List (Bool × Elem γ)) :
    mergeVals (front s arr) = arr.filterMap (fun p => p.2.value) ∧
    (mergeVals (front s arr)).Perm (sideVals true arr ++ sideVals false arr) := by
  refine ⟨front_vals arr s, ?_⟩
  rw [front_vals arr s]
  have h := filterMap_split_perm (fun p : Bool × Elem γ => p.2.value) (fun p => p.1 == true) arr
  have hneg : (arr.filter fun p => !(p.1 == true)) = arr.filter fun p => p.1 == false := by
    apply List.filter_congr; intro p _; cases p.1 <;> rfl
  rw [hneg] at h
  exact h

/-- left `1 2`, right `10`, two left replicas: the end markers are dropped, every payload once -/
example :
    mergeVals (front (BinStart.State.init 2 1)
      [(true, .item 1), (false, .item 10), (true, .far), (false, .far), (true, .item 2), (true, .far)])
    = [1, 10, 2] := by decide

end Noir.Merge
