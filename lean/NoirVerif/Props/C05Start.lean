/-
  Props/C05Start.lean — stream grammar and marker accounting at the block input (simple `Start`,
  src/operator/start/mod.rs:213-300). Serves

  * C05: the sequence a block observes from its `Start` matches
    `((Item|Timestamped|Watermark|FlushBatch)* FlushAndRestart)+ Terminate`; each iteration's data
    is followed by exactly one `FlushAndRestart`, produced only after all data of that iteration
    from all upstream replicas; `Terminate` appears exactly once and last;
  * C04 (assumption A5 of Props/C04.lean): no end-of-stream marker is lost or duplicated — once
    every upstream replica has sent its `Terminate` the `Start` emits exactly one `Terminate`, and
    it emits exactly one `FlushAndRestart` per completed iteration.

  Setting (see Model/Start.lean, Model/StartSpec.lean): `n ≥ 1` upstream replicas; the input is the
  arrival sequence `(r, e)` in the order in which `Start::next` consumes the elements (any
  interleaving of the replicas' batches), plus `timeout` arrivals (the fake `FlushBatch` of a
  receive timeout). `inputOk` is the contract every link has to respect (each upstream replica
  itself sends a well-formed stream, iterations are synchronised, nobody starts a new iteration
  once somebody terminated); `complete` says every replica finally sent `Terminate`.

  FINDING (documented, not hidden — `start_timeout_before_term_counterexample`): a receive timeout
  that fires between the last `FlushAndRestart` and the `Terminate` makes the `Start` emit
  `FlushAndRestart, FlushBatch, Terminate`, which the grammar of C05 as literally stated rejects
  (`FlushBatch` is only allowed inside an iteration). The full-strength grammar theorem therefore
  holds for timeout-free arrival sequences (`start_grammar`) and, with timeouts, under the side
  condition `noIdleTimeout` (`start_grammar_timeouts`): no timeout fires while the input is between
  two iterations. The accounting theorems (`start_far_count`, `start_far_positions`,
  `start_term_once_last`, `start_no_term_before_all_terminated`) hold for arbitrary timeouts.
-/
import NoirVerif.Lemmas.StartGrammar
namespace Noir.Start
open Noir.StartSpec

variable {α : Type}

/-! ## 1. the grammar -/

/-- **C05 (grammar at the block input).** For every number `n ≥ 1` of upstream replicas and every
    contract-respecting arrival interleaving in which every replica finally terminates, the output
    of `Start` is a complete well-formed stream `((item|ts|wm|flushBatch)* far)+ term`. -/
theorem start_grammar (n : Nat) (hn : 1 ≤ n) (arr : List (Nat × Elem α))
    (hin : inputOk n arr = true)
    (hc : complete (inStateAfter (InSt.init n) arr) = true) :
    grammarOk (run n (arr.map (fun p => Arrival.elem p.1 p.2))) = true := by
  have hn0 : (init n).missingTerm ≠ 0 := by simp only [init]; omega
  have hel := elemsOf_ofElems arr
  unfold ofElems at hel
  obtain ⟨_, h2, _⟩ := master (arr.map (fun p => Arrival.elem p.1 p.2)) (init n) (InSt.init n)
    (inv_init n hn) hn0 (by rw [hel]; exact hin)
  rw [hel] at h2
  unfold grammarOk run
  rw [runFrom_map_snd]
  refine (h2 hc).2 false ?_ (noIdleTimeout_ofElems arr _)
  intro _ h; simp [InSt.init] at h

/-- **C05 (grammar, with receive timeouts).** The same for arrival sequences with receive timeouts
    (each outputs a `FlushBatch`), provided no timeout fires while the input is between two
    iterations after the first (`noIdleTimeout`: at a timeout, some replica has sent something in
    the current iteration or no iteration is complete yet). -/
theorem start_grammar_timeouts (n : Nat) (hn : 1 ≤ n) (as : List (Arrival α))
    (hin : inputOk n (elemsOf as) = true)
    (hc : complete (inStateAfter (InSt.init n) (elemsOf as)) = true)
    (hto : noIdleTimeout (InSt.init n) as = true) :
    grammarOk (run n as) = true := by
  have hn0 : (init n).missingTerm ≠ 0 := by simp only [init]; omega
  obtain ⟨_, h2, _⟩ := master as (init n) (InSt.init n) (inv_init n hn) hn0 hin
  unfold grammarOk run
  rw [runFrom_map_snd]
  refine (h2 hc).2 false ?_ hto
  intro _ h; simp [InSt.init] at h

/-- **The side condition cannot be dropped (model = code behaviour, mod.rs:284-300 then :267).**
    One replica sends `FlushAndRestart`; the receive times out; then the replica's `Terminate`
    arrives. The upstream respects the contract and terminates, the `Start` emits
    `FlushAndRestart, FlushBatch, Terminate`, and the literal grammar of C05 rejects this trace
    (a `FlushBatch` between the last `FlushAndRestart` and `Terminate`). -/
theorem start_timeout_before_term_counterexample :
    let as : List (Arrival Nat) := [.elem 0 .far, .timeout, .elem 0 .term]
    inputOk 1 (elemsOf as) = true ∧
    complete (inStateAfter (InSt.init 1) (elemsOf as)) = true ∧
    noIdleTimeout (InSt.init 1) as = false ∧
    run 1 as = [.far, .flushBatch, .term] ∧
    grammarOk (run 1 as) = false := by
  decide

/-! ## 2. `FlushAndRestart`: one per iteration, after all data of the iteration -/

/-- **C05 (a `FlushAndRestart` is produced only after all data of the iteration from all upstream
    replicas).** In a state reachable through contract-respecting arrivals (`Rel`, see
    `rel_reachable` in Props/C17.lean) that has not terminated, a contract-respecting arrival
    `(r, e)` makes the `Start` emit `FlushAndRestart` if and only if `e` is the `FlushAndRestart`
    of replica `r` and every other replica has already ended the iteration (`ended`: its
    `FlushAndRestart` has arrived — after which the contract lets it send nothing but
    `Terminate`). In that case the output of the arrival is exactly `[far]` and the contract's
    count of completed iterations increases by one. -/
theorem start_far_after_all_data {s : State} {sp sp' : InSt} {outW : Option Int} {r : Nat}
    {e : Elem α} (rel : Rel s sp outW) (hT : s.missingTerm ≠ 0) (hin : inStep sp r e = some sp') :
    (Elem.far ∈ (step s (.elem r e)).2 ↔
      (e = .far ∧ ∀ i p, i ≠ r → sp.reps[i]? = some p → p.ended = true)) ∧
    (Elem.far ∈ (step s (.elem r e)).2 →
      (step s (.elem r e)).2 = [.far] ∧ sp'.completed = sp.completed + 1) := by
  by_cases ht : e = .term
  · subst ht
    obtain ⟨_, _, h3⟩ := step_term (α := α) rel hT r
    rw [h3]
    refine ⟨⟨fun h => ?_, fun h => (nomatch h.1)⟩, fun h => ?_⟩
    · split at h <;> simp at h
    · split at h <;> simp at h
  · by_cases hf : e = .far
    · subst hf
      obtain ⟨p, hp, htd, hpe, hguard, hsp'⟩ := inStep_far_inv hin
      obtain ⟨_, _, h3⟩ := step_far (α := α) rel hT hp hpe
      have hiff := all_set_iff (f := fun q : Rep => q.ended)
        (p' := ({ p with dirty := true, ended := true } : Rep)) hp rfl
      rw [h3, hsp']
      by_cases hall : (sp.reps.set r { p with dirty := true, ended := true }).all (·.ended) = true
      · rw [if_pos hall, if_pos hall]
        exact ⟨⟨fun _ => ⟨rfl, hiff.mp hall⟩, fun _ => by simp⟩, fun _ => ⟨rfl, rfl⟩⟩
      · rw [if_neg hall, if_neg hall]
        exact ⟨⟨fun h => (nomatch h), fun h => absurd (hiff.mpr h.2) hall⟩, fun h => (nomatch h)⟩
    · obtain ⟨_, _, h3⟩ := step_nonmarker (α := α) hT r ht hf
      exact ⟨⟨fun h => absurd rfl (h3 _ h).2, fun h => absurd h.1 hf⟩,
        fun h => absurd rfl (h3 _ h).2⟩

/-- **C05/C04 (exactly one `FlushAndRestart` per iteration).** For every contract-respecting
    arrival sequence — with or without timeouts, complete or not — the number of
    `FlushAndRestart` in the output equals the number of iterations completed by the upstream
    replicas together: none is lost, none is duplicated. -/
theorem start_far_count (n : Nat) (hn : 1 ≤ n) (as : List (Arrival α))
    (hin : inputOk n (elemsOf as) = true) :
    (run n as).countP Elem.isFar = (inStateAfter (InSt.init n) (elemsOf as)).completed := by
  have hn0 : (init n).missingTerm ≠ 0 := by simp only [init]; omega
  obtain ⟨h1, _, _⟩ := master as (init n) (InSt.init n) (inv_init n hn) hn0 hin
  unfold run
  rw [runFrom_map_snd]
  simpa [farCount, InSt.init] using h1

/-- **C05 (which arrival produces each `FlushAndRestart`).** The arrival indices to which `Start`'s
    `FlushAndRestart` outputs are attributed are exactly (in order, with multiplicity) the indices
    at which the contract completes an iteration, i.e. at which the `FlushAndRestart` of the last
    replica still missing for that iteration arrives: the k-th `FlushAndRestart` is emitted
    immediately at — not before, not after — the end of the k-th iteration of all upstream
    replicas. -/
theorem start_far_positions (n : Nat) (hn : 1 ≤ n) (as : List (Arrival α))
    (hin : inputOk n (elemsOf as) = true) :
    ((runFrom (init n) 0 as).filter (fun p => p.2.isFar)).map (·.1)
      = completionIdx (InSt.init n) 0 as := by
  have hn0 : (init n).missingTerm ≠ 0 := by simp only [init]; omega
  exact far_positions as (init n) (InSt.init n) 0 (inv_init n hn) hn0 hin

/-! ## 3. `Terminate`: exactly once, last, and only when everybody terminated -/

/-- **C05/C04 (`Terminate` exactly once and last).** If every upstream replica finally terminates,
    the output consists of a `Terminate`-free prefix followed by exactly one `Terminate`
    (arbitrary timeouts allowed). -/
theorem start_term_once_last (n : Nat) (hn : 1 ≤ n) (as : List (Arrival α))
    (hin : inputOk n (elemsOf as) = true)
    (hc : complete (inStateAfter (InSt.init n) (elemsOf as)) = true) :
    ∃ pre, run n as = pre ++ [.term] ∧ ∀ x ∈ pre, x ≠ Elem.term := by
  have hn0 : (init n).missingTerm ≠ 0 := by simp only [init]; omega
  obtain ⟨_, h2, _⟩ := master as (init n) (InSt.init n) (inv_init n hn) hn0 hin
  unfold run
  rw [runFrom_map_snd]
  exact (h2 hc).1

/-- the same in the timeout-free form used by `start_grammar` -/
theorem start_term_once_last_elems (n : Nat) (hn : 1 ≤ n) (arr : List (Nat × Elem α))
    (hin : inputOk n arr = true)
    (hc : complete (inStateAfter (InSt.init n) arr) = true) :
    ∃ pre, run n (arr.map (fun p => Arrival.elem p.1 p.2)) = pre ++ [.term] ∧
      ∀ x ∈ pre, x ≠ Elem.term := by
  have hel := elemsOf_ofElems arr
  unfold ofElems at hel
  exact start_term_once_last n hn _ (by rw [hel]; exact hin) (by rw [hel]; exact hc)

/-- **C05 (`Terminate` is not produced early).** As long as some upstream replica has not
    terminated, the output contains no `Terminate`. -/
theorem start_no_term_before_all_terminated (n : Nat) (hn : 1 ≤ n) (as : List (Arrival α))
    (hin : inputOk n (elemsOf as) = true)
    (hc : complete (inStateAfter (InSt.init n) (elemsOf as)) = false) :
    ∀ x ∈ run n as, x ≠ Elem.term := by
  have hn0 : (init n).missingTerm ≠ 0 := by simp only [init]; omega
  obtain ⟨_, _, h3⟩ := master as (init n) (InSt.init n) (inv_init n hn) hn0 hin
  unfold run
  rw [runFrom_map_snd]
  exact h3 hc

/-! ## non-vacuity -/

/-- Two replicas, two iterations; replica 0 terminates right after its second `FlushAndRestart`,
    before replica 1 has ended the iteration. The history satisfies the hypotheses of
    `start_grammar` / `start_term_once_last`; both `FlushAndRestart` come from the arrival of the
    last replica's marker (indices 3 and 7). -/
example :
    let arr : List (Nat × Elem Nat) :=
      [(0, .item 1), (1, .ts 2 5), (0, .far), (1, .far),
       (1, .item 3), (0, .far), (0, .term), (1, .far), (1, .term)]
    let as := arr.map (fun p => Arrival.elem p.1 p.2)
    inputOk 2 arr = true ∧ complete (inStateAfter (InSt.init 2) arr) = true ∧
    (inStateAfter (InSt.init 2) arr).completed = 2 ∧
    run 2 as = [.item 1, .ts 2 5, .far, .item 3, .far, .term] ∧
    grammarOk (run 2 as) = true ∧
    completionIdx (InSt.init 2) 0 as = [3, 7] := by
  decide

/-- Non-vacuity of `start_grammar_timeouts`: timeouts before the first element and inside an
    iteration are harmless. -/
example :
    let as : List (Arrival Nat) :=
      [.timeout, .elem 0 (.item 1), .timeout, .elem 0 .far, .elem 1 .far, .elem 1 .term, .elem 0 .term]
    inputOk 2 (elemsOf as) = true ∧ complete (inStateAfter (InSt.init 2) (elemsOf as)) = true ∧
    noIdleTimeout (InSt.init 2) as = true ∧
    run 2 as = [.flushBatch, .item 1, .flushBatch, .far, .term] := by
  decide

/-- Non-vacuity of `start_no_term_before_all_terminated`: replica 1 never terminates. -/
example :
    let as : List (Arrival Nat) := [.elem 0 .far, .elem 1 .far, .elem 0 .term]
    inputOk 2 (elemsOf as) = true ∧ complete (inStateAfter (InSt.init 2) (elemsOf as)) = false ∧
    run 2 as = [.far] := by
  decide

end Noir.Start
