/-
  Props/C08Interval.lean — property theorems for the interval-join clause of C08:
  "the interval join outputs exactly the same-key pairs whose timestamps satisfy l-lower ≤ r ≤ l+upper".
  Model: `Model/IntervalJoin.lean` (`IntervalJoin::next` / `advance`, src/operator/interval_join.rs:84-191).
  Vocabulary and helper lemmas: `Lemmas/IntervalJoin.lean` —
    `run` (fold of `step`), `anyPanic` (would an `assert!`/`panic!` fire), `lefts` / `rights` (the
    `(ts, key, l)` / `(key, ts, r)` elements of a trace, arrival order), `pairs` (the `(ts, key, l, r)` tuples of
    an output trace), `stamps` (timestamps carried by data AND watermarks, in order), `isBody`
    (`Timestamped` / `Watermark` / `FlushBatch`), `isOutBody` (`Timestamped` / `FlushBatch`), `specZ` (the
    specification over ℤ), `spec` (the specification with the code's saturating `checked_sub/checked_add`).

  The operator sits behind a `Reorder` (src/operator/mod.rs:1506-1509 and 2529-2531:
  `merge_distinct → Reorder → IntervalJoin`). What the proof needs from it is exactly
  `((0 : Int) :: stamps es).Pairwise (· ≤ ·)`: the timestamps carried by data elements of BOTH sides and by
  watermarks, in arrival order, are non-decreasing (ties allowed) and non-negative (`last_seen` starts at 0 and
  `assert!(ts >= self.last_seen)`, interval_join.rs:165, 175). `intervalJoin_after_reorder` discharges this
  from C16 (`reorder_sorted`) for every watermark-safe input.
-/
import NoirVerif.Lemmas.IntervalJoin
import NoirVerif.Props.C16Reorder
namespace Noir.IntervalJoin

variable {κ α β : Type} [DecidableEq κ]

/-- **C08 (interval join, one iteration).** Let `es` be the body of an iteration (timestamped
    `(key, Left l | Right r)` elements, watermarks, `FlushBatch`es) whose carried timestamps are non-negative
    and non-decreasing in arrival order, all within `i64`, and let the bounds be `i64`s such that
    `l.ts - lower` does not overflow upwards for the left elements (`hsat`; automatic when `0 ≤ lower`,
    see `intervalJoin_correct_nonneg`). Then `IntervalJoin`, started in its initial state on `es` followed
    by `FlushAndRestart`,
    * hits no `assert!` / `panic!`,
    * emits only `Timestamped` tuples and the forwarded `FlushBatch`es, then `FlushAndRestart`,
    * the tuples are — even in this order, a fortiori as a multiset — exactly
      `{ (max l.ts r.ts, key, l, r) | l ∈ Left, r ∈ Right, same key, l.ts - lower ≤ r.ts ≤ l.ts + upper }`
      (`specZ`: one tuple per matching pair of *occurrences*, so every pair exactly once),
    * and ends in its initial state. -/
theorem intervalJoin_correct (lb ub : Int) (es : List (Elem (κ × (α ⊕ β))))
    (hbody : ∀ e ∈ es, isBody e = true)
    (hsorted : ((0 : Int) :: stamps es).Pairwise (· ≤ ·))
    (hi64 : ∀ t ∈ stamps es, t ≤ TS_MAX) (hlb : lb ≤ TS_MAX) (hub : TS_MIN ≤ ub)
    (hsat : ∀ l ∈ lefts es, l.1 - lb ≤ TS_MAX) :
    ∃ outs : List (Elem (κ × α × β)),
      run lb ub State.init (es ++ [.far]) = (State.init, outs ++ [.far])
        ∧ (∀ o ∈ outs, isOutBody o = true)
        ∧ pairs outs = specZ lb ub (lefts es) (rights es)
        ∧ (pairs outs).Perm (specZ lb ub (lefts es) (rights es))
        ∧ anyPanic lb ub (State.init : State κ α β) (es ++ [.far]) = false := by
  have hnn : ∀ t ∈ stamps es, 0 ≤ t := (List.pairwise_cons.mp hsorted).1
  have hL : ∀ l ∈ lefts es, 0 ≤ l.1 ∧ l.1 - lb ≤ TS_MAX :=
    fun l hl => ⟨hnn _ (mem_lefts_stamps es l hl), hsat l hl⟩
  obtain ⟨outs, h1, h2, h3, h4⟩ := run_iteration (lowerMono_of_nosat lb hlb) es hbody hsorted hL
  have h2' : pairs outs = specZ lb ub (lefts es) (rights es) := by
    rw [h2]
    exact spec_eq_specZ lb ub hlb hub _ _ hL (fun r hr => hi64 _ (mem_rights_stamps es r hr))
  exact ⟨outs, h1, h3, h2', h2' ▸ List.Perm.refl _, h4⟩

/-- … in particular for every non-negative `lower` bound (the documented use), with no further condition. -/
theorem intervalJoin_correct_nonneg (lb ub : Int) (es : List (Elem (κ × (α ⊕ β))))
    (hbody : ∀ e ∈ es, isBody e = true)
    (hsorted : ((0 : Int) :: stamps es).Pairwise (· ≤ ·))
    (hi64 : ∀ t ∈ stamps es, t ≤ TS_MAX) (hlb0 : 0 ≤ lb) (hlb : lb ≤ TS_MAX) (hub : TS_MIN ≤ ub) :
    ∃ outs : List (Elem (κ × α × β)),
      run lb ub State.init (es ++ [.far]) = (State.init, outs ++ [.far])
        ∧ (∀ o ∈ outs, isOutBody o = true)
        ∧ pairs outs = specZ lb ub (lefts es) (rights es)
        ∧ (pairs outs).Perm (specZ lb ub (lefts es) (rights es))
        ∧ anyPanic lb ub (State.init : State κ α β) (es ++ [.far]) = false :=
  intervalJoin_correct lb ub es hbody hsorted hi64 hlb hub (fun l hl => by
    have := hi64 _ (mem_lefts_stamps es l hl); omega)

/-- What `specZ` contains (what "the interval join" means). -/
theorem specZ_mem (lb ub : Int) (L : List (Int × κ × α)) (R : List (κ × Int × β)) (o : Int × κ × α × β) :
    o ∈ specZ lb ub L R ↔
      ∃ l ∈ L, ∃ r ∈ R, r.1 = l.2.1 ∧ l.1 - lb ≤ r.2.1 ∧ r.2.1 ≤ l.1 + ub
        ∧ o = (max r.2.1 l.1, l.2.1, l.2.2, r.2.2) := by
  simp only [specZ, List.mem_flatMap, List.mem_map, List.mem_filter, Bool.and_eq_true, decide_eq_true_eq]
  constructor
  · rintro ⟨l, hl, r, ⟨hr, ⟨h1, h2⟩, h3⟩, rfl⟩
    exact ⟨l, hl, r, hr, h1, h2, h3, rfl⟩
  · rintro ⟨l, hl, r, hr, h1, h2, h3, rfl⟩
    exact ⟨l, hl, r, ⟨hr, ⟨h1, h2⟩, h3⟩, rfl⟩

/-- **C08 (interval join, any bounds, the code's own saturating arithmetic).** For arbitrary integer
    bounds, the only thing needed beyond sortedness is that the saturating `lower = checked_sub(l.ts,
    lower_bound).unwrap_or(MIN)` is monotone along the left elements (it is what justifies the eviction
    `pop_front while right_ts < lower`, interval_join.rs:104-110); then the output is `spec`, the
    specification written with the same saturating bounds. -/
theorem intervalJoin_correct_saturating (lb ub : Int) (es : List (Elem (κ × (α ⊕ β))))
    (hbody : ∀ e ∈ es, isBody e = true)
    (hsorted : ((0 : Int) :: stamps es).Pairwise (· ≤ ·))
    (hmono : ∀ l ∈ lefts es, ∀ l' ∈ lefts es, l.1 ≤ l'.1 → lowerOf l.1 lb ≤ lowerOf l'.1 lb) :
    ∃ outs : List (Elem (κ × α × β)),
      run lb ub State.init (es ++ [.far]) = (State.init, outs ++ [.far])
        ∧ (∀ o ∈ outs, isOutBody o = true)
        ∧ pairs outs = spec lb ub (lefts es) (rights es)
        ∧ anyPanic lb ub (State.init : State κ α β) (es ++ [.far]) = false := by
  have hm : LowerMono (fun t => ∃ l ∈ lefts es, l.1 = t) lb := by
    rintro t t' ⟨l, hl, rfl⟩ ⟨l', hl', rfl⟩ hle
    exact hmono l hl l' hl' hle
  obtain ⟨outs, h1, h2, h3, h4⟩ := run_iteration hm es hbody hsorted (fun l hl => ⟨l, hl, rfl⟩)
  exact ⟨outs, h1, h3, h2, h4⟩

/-- **C08 (nothing is carried over).** `FlushAndRestart` puts the operator back into its initial state
    (`left`, `right` empty, `last_seen = 0`) from EVERY state — the two `assert!`s of interval_join.rs:154-155
    hold because `advance` drains `left` completely at a restart and then clears `right` — so every
    iteration is joined on its own. -/
theorem intervalJoin_resets (lb ub : Int) (s : State κ α β) (es rest : List (Elem (κ × (α ⊕ β)))) :
    (step lb ub s .far).1 = State.init
      ∧ (run lb ub s (es ++ [.far])).1 = State.init
      ∧ (run lb ub s ((es ++ [.far]) ++ rest)).2
          = (run lb ub s (es ++ [.far])).2 ++ (run lb ub State.init rest).2 := by
  refine ⟨step_far_resets lb ub s, run_far_resets lb ub s es, ?_⟩
  rw [run_append lb ub s (es ++ [Elem.far]) rest, run_far_resets]

/-- **C08 / C01 (grammar).** Any well-formed stream `((item|ts|wm|flushBatch)* far)+ term` is mapped to a
    well-formed stream (no sortedness needed: the model's `step` is total). -/
theorem intervalJoin_preserves_grammar (lb ub : Int) (es : List (Elem (κ × (α ⊕ β))))
    (h : grammarOk es = true) : grammarOk (run lb ub (State.init : State κ α β) es).2 = true :=
  run_grammar lb ub es State.init false rfl h

/-- **C08 / C06 (watermarks).** The operator *consumes* watermarks (interval_join.rs:174-177 only updates
    `last_seen`) and never emits one; its output is therefore trivially watermark-safe — and carries no
    event-time progress information at all (see the report: downstream event-time operators only make
    progress at `FlushAndRestart`). -/
theorem intervalJoin_preserves_wmsafe (lb ub : Int) (es : List (Elem (κ × (α ⊕ β)))) :
    (∀ o ∈ (run lb ub (State.init : State κ α β) es).2, isWm o = false)
      ∧ wmSafeOk (run lb ub (State.init : State κ α β) es).2 = true :=
  ⟨run_no_wm lb ub es State.init rfl, wmSafeGo_no_wm _ (run_no_wm lb ub es State.init rfl)⟩

/-- **C08 ∘ C16 (the composition `Reorder → IntervalJoin` as built by `interval_join`).** For ANY arrival
    order `xs` of the merged, keyed stream of one iteration that respects the watermark contract (no
    timestamp at or below an earlier watermark; non-negative timestamps within `i64`; no untimestamped
    `Item`s), feeding the output of `Reorder` into `IntervalJoin` yields — as a multiset — exactly the
    interval join of the left and right elements of `xs`, then `FlushAndRestart`; no `assert!` fires. -/
theorem intervalJoin_after_reorder (lb ub : Int) (xs : List (Elem (κ × (α ⊕ β))))
    (hbody : ∀ e ∈ xs, isBody e = true) (hsafe : wmSafeOk xs = true)
    (hnn : ∀ t ∈ stamps xs, 0 ≤ t ∧ t ≤ TS_MAX) (hlb : lb ≤ TS_MAX) (hub : TS_MIN ≤ ub)
    (hsat : ∀ l ∈ lefts xs, l.1 - lb ≤ TS_MAX) :
    ∃ outs : List (Elem (κ × α × β)),
      run lb ub State.init (Reorder.run (xs ++ [.far])) = (State.init, outs ++ [.far])
        ∧ (∀ o ∈ outs, isOutBody o = true)
        ∧ (pairs outs).Perm (specZ lb ub (lefts xs) (rights xs))
        ∧ anyPanic lb ub (State.init : State κ α β) (Reorder.run (xs ++ [.far])) = false := by
  -- the reordered iteration is `ys ++ [far]`
  let ys := (Reorder.runFrom [] xs).2 ++ (Reorder.sort (Reorder.runFrom [] xs).1).map Reorder.emit
  have hrun : Reorder.run (xs ++ [.far]) = ys ++ [.far] := by
    simp [Reorder.run, Reorder.runFrom_append, Reorder.runFrom, Reorder.step, ys]
  have hperm : ys.Perm xs := by
    have := Reorder.reorder_perm xs
    rw [hrun] at this
    exact (List.perm_append_right_iff _).mp this
  have hbodyF : Fold.Body xs := by
    intro e he
    have := hbody e he
    cases e <;> simp_all [isBody, Fold.isBody]
  have hsortedR := Reorder.reorder_sorted xs hbodyF hsafe
  rw [hrun] at hsortedR
  have hst : stamps ys = Reorder.stamps (ys ++ [.far]) := by
    simp [stamps, Reorder.stamps, Elem.timestamp]
  have hstp : (stamps ys).Perm (stamps xs) := hperm.filterMap _
  have hsorted : ((0 : Int) :: stamps ys).Pairwise (· ≤ ·) := by
    refine List.pairwise_cons.mpr ⟨fun t ht => (hnn t (hstp.mem_iff.mp ht)).1, ?_⟩
    rw [hst]; exact hsortedR
  obtain ⟨outs, h1, h2, h3, _, h5⟩ := intervalJoin_correct lb ub ys
    (fun e he => hbody e (hperm.mem_iff.mp he)) hsorted
    (fun t ht => (hnn t (hstp.mem_iff.mp ht)).2) hlb hub
    (fun l hl => hsat l ((lefts_perm hperm).mem_iff.mp hl))
  refine ⟨outs, by rw [hrun]; exact h1, h2, ?_, by rw [hrun]; exact h5⟩
  rw [h3]
  have hlb' : ∀ (L : List (Int × κ × α)) (R : List (κ × Int × β)),
      (∀ l ∈ L, 0 ≤ l.1 ∧ l.1 - lb ≤ TS_MAX) → (∀ r ∈ R, r.2.1 ≤ TS_MAX) →
      specZ lb ub L R = spec lb ub L R := fun L R a b => (spec_eq_specZ lb ub hlb hub L R a b).symm
  rw [hlb' (lefts ys) (rights ys)
      (fun l hl => ⟨(hnn _ (hstp.mem_iff.mp (mem_lefts_stamps ys l hl))).1,
        hsat l ((lefts_perm hperm).mem_iff.mp hl)⟩)
      (fun r hr => (hnn _ (hstp.mem_iff.mp (mem_rights_stamps ys r hr))).2),
    hlb' (lefts xs) (rights xs)
      (fun l hl => ⟨(hnn _ (mem_lefts_stamps xs l hl)).1, hsat l hl⟩)
      (fun r hr => (hnn _ (mem_rights_stamps xs r hr)).2)]
  exact spec_perm lb ub (lefts_perm hperm) (rights_perm hperm)

/-- The side condition `hsat` of `intervalJoin_correct` is needed (only for a NEGATIVE `lower_bound` and
    timestamps next to `i64::MAX`): `left_ts.checked_sub(lower_bound)` overflows UPWARDS, and
    `.unwrap_or(Timestamp::MIN)` (interval_join.rs:87-89) then opens the interval downwards instead of
    making it empty. With `lower = -1`, `upper = 0`, a right element at 5 and a left element at `i64::MAX`
    the operator emits the pair although `MAX + 1 ≤ 5` is false. Replayed on the real operator
    (`ivjoin --replay`, case `sat-1`): `T:(0,(1,100)):9223372036854775807`. -/
theorem intervalJoin_saturation_counterexample :
    let es : List (Elem (Nat × (Nat ⊕ Nat))) := [.ts (0, .inr 100) 5, .ts (0, .inl 1) TS_MAX]
    pairs (run (-1) 0 State.init (es ++ [.far])).2 = [(TS_MAX, 0, 1, 100)]
      ∧ specZ (-1) 0 (lefts es) (rights es) = [] := by
  decide

/-- Non-vacuity: a sorted iteration with ties, a watermark, a `FlushBatch`, two keys, pairs at both closed
    ends of the interval (`lower = 2`, `upper = 1`: `r.ts ∈ [l.ts - 2, l.ts + 1]`), one right element just
    outside, one left element joined only at `FlushAndRestart`; it meets every hypothesis of
    `intervalJoin_correct`, and the run is the one the real operator produces (`ivjoin --replay`). -/
example :
    let es : List (Elem (Nat × (Nat ⊕ Nat))) :=
      [.ts (0, .inr 100) 3, .ts (0, .inl 1) 5, .wm 5, .ts (0, .inr 101) 6, .flushBatch, .ts (0, .inr 102) 7,
       .ts (1, .inr 103) 7, .ts (0, .inl 2) 9]
    (∀ e ∈ es, isBody e = true) ∧ ((0 : Int) :: stamps es).Pairwise (· ≤ ·)
      ∧ (∀ t ∈ stamps es, t ≤ TS_MAX) ∧ (∀ l ∈ lefts es, l.1 - 2 ≤ TS_MAX)
      ∧ (run 2 1 State.init (es ++ [.far])).2
          = [.flushBatch, .ts (0, 1, 100) 5, .ts (0, 1, 101) 6, .ts (0, 2, 102) 9, .far]
      ∧ specZ 2 1 (lefts es) (rights es) = [(5, 0, 1, 100), (6, 0, 1, 101), (9, 0, 2, 102)] := by
  decide

end Noir.IntervalJoin
