/-
  Props/C08Interval.lean — property theorems for the interval-join clause of C08:
  "the interval join outputs exactly the same-key pairs whose timestamps satisfy l-lower ≤ r ≤ l+upper".
  Model: `Model/IntervalJoin.lean` (`IntervalJoin::next` / `advance`, src/operator/interval_join.rs:84-191, as
  of /repo 928fdec: `saturating_sub/saturating_add` bounds, `last_seen` starts at / is reset to `i64::MIN`).
  Vocabulary and helper lemmas: `Lemmas/IntervalJoin.lean` —
    `run` (fold of `step`), `anyPanic` (would an `assert!`/`panic!` fire), `lefts` / `rights` (the
    `(ts, key, l)` / `(key, ts, r)` elements of a trace, arrival order), `pairs` (the `(ts, key, l, r)` tuples of
    an output trace), `stamps` (timestamps carried by data AND watermarks, in order), `isBody`
    (`Timestamped` / `Watermark` / `FlushBatch`), `isOutBody` (`Timestamped` / `FlushBatch`), `spec` (the
    specification with both bounds saturated to i64: `clamp (l.ts - lb) ≤ r.ts ≤ clamp (l.ts + ub)`), `specZ`
    (the specification over ℤ, no saturation).

  Which statement is proved. `intervalJoin_correct` is about `spec`: for ALL bounds and all i64 timestamps the
  output is the join over the *saturated* interval. `spec` and `specZ` coincide (`intervalJoin_correct_int`)
  whenever, for every left element, `l.ts - lb ≤ i64::MAX` and `i64::MIN ≤ l.ts + ub` — overflows in the two
  other directions are harmless — in particular for non-negative bounds; outside of that they differ only on a
  right element at exactly `i64::MAX` (resp. `i64::MIN`), which the saturated interval contains.

  The operator sits behind a `Reorder` (src/operator/mod.rs:1506-1509 and 2529-2531:
  `merge_distinct → Reorder → IntervalJoin`). What the proof needs from it is exactly
  `(stamps es).Pairwise (· ≤ ·)`: the timestamps carried by data elements of BOTH sides and by watermarks, in
  arrival order, are non-decreasing (ties allowed); `intervalJoin_after_reorder` discharges this from C16
  (`reorder_sorted`) for every watermark-safe input. `∀ t ∈ stamps es, TS_MIN ≤ t` only says that timestamps
  are `i64`s (the model's `Int` is unbounded; `last_seen` starts at `i64::MIN`).
-/
import NoirVerif.Lemmas.IntervalJoin
import NoirVerif.Props.C16Reorder
namespace Noir.IntervalJoin

variable {κ α β : Type} [DecidableEq κ]

/-- **C08 (interval join, one iteration).** Let `es` be the body of an iteration (timestamped
    `(key, Left l | Right r)` elements, watermarks, `FlushBatch`es) whose carried timestamps (any `i64`s,
    negative ones included) are non-decreasing in arrival order, and let the bounds be arbitrary. Then
    `IntervalJoin`, started in its initial state on `es` followed by `FlushAndRestart`,
    * hits no `assert!` / `panic!`,
    * emits only `Timestamped` tuples and the forwarded `FlushBatch`es, then `FlushAndRestart`,
    * the tuples are — even in this order, a fortiori as a multiset — exactly
      `{ (max l.ts r.ts, key, l, r) | l ∈ Left, r ∈ Right, same key, sat(l.ts - lower) ≤ r.ts ≤ sat(l.ts + upper) }`
      (`spec`, `sat` = saturation to i64; one tuple per matching pair of *occurrences*, so every pair
      exactly once),
    * and ends in its initial state. -/
theorem intervalJoin_correct (lb ub : Int) (es : List (Elem (κ × (α ⊕ β))))
    (hbody : ∀ e ∈ es, isBody e = true)
    (hsorted : (stamps es).Pairwise (· ≤ ·))
    (hi64 : ∀ t ∈ stamps es, TS_MIN ≤ t) :
    ∃ outs : List (Elem (κ × α × β)),
      run lb ub State.init (es ++ [.far]) = (State.init, outs ++ [.far])
        ∧ (∀ o ∈ outs, isOutBody o = true)
        ∧ pairs outs = spec lb ub (lefts es) (rights es)
        ∧ (pairs outs).Perm (spec lb ub (lefts es) (rights es))
        ∧ anyPanic lb ub (State.init : State κ α β) (es ++ [.far]) = false := by
  obtain ⟨outs, h1, h2, h3, h4⟩ := run_iteration (lowerMono_all lb) es hbody
    (List.pairwise_cons.mpr ⟨hi64, hsorted⟩) (fun _ _ => trivial)
  exact ⟨outs, h1, h3, h2, h2 ▸ List.Perm.refl _, h4⟩

/-- **C08 (interval join, plain integer arithmetic).** If moreover `l.ts - lower` never exceeds `i64::MAX`
    and `l.ts + upper` never falls below `i64::MIN` (`hsat`), the tuples are exactly
    `{ … | l.ts - lower ≤ r.ts ≤ l.ts + upper }` over ℤ (`specZ`). -/
theorem intervalJoin_correct_int (lb ub : Int) (es : List (Elem (κ × (α ⊕ β))))
    (hbody : ∀ e ∈ es, isBody e = true)
    (hsorted : (stamps es).Pairwise (· ≤ ·))
    (hi64 : ∀ t ∈ stamps es, TS_MIN ≤ t ∧ t ≤ TS_MAX)
    (hsat : ∀ l ∈ lefts es, l.1 - lb ≤ TS_MAX ∧ TS_MIN ≤ l.1 + ub) :
    ∃ outs : List (Elem (κ × α × β)),
      run lb ub State.init (es ++ [.far]) = (State.init, outs ++ [.far])
        ∧ (∀ o ∈ outs, isOutBody o = true)
        ∧ pairs outs = specZ lb ub (lefts es) (rights es)
        ∧ (pairs outs).Perm (specZ lb ub (lefts es) (rights es))
        ∧ anyPanic lb ub (State.init : State κ α β) (es ++ [.far]) = false := by
  obtain ⟨outs, h1, h2, h3, _, h5⟩ := intervalJoin_correct lb ub es hbody hsorted (fun t ht => (hi64 t ht).1)
  have h3' : pairs outs = specZ lb ub (lefts es) (rights es) := by
    rw [h3]
    exact spec_eq_specZ lb ub _ _ hsat (fun r hr => hi64 _ (mem_rights_stamps es r hr))
  exact ⟨outs, h1, h2, h3', h3' ▸ List.Perm.refl _, h5⟩

/-- … in particular for non-negative bounds (the documented use), with no further condition. -/
theorem intervalJoin_correct_nonneg (lb ub : Int) (es : List (Elem (κ × (α ⊕ β))))
    (hbody : ∀ e ∈ es, isBody e = true)
    (hsorted : (stamps es).Pairwise (· ≤ ·))
    (hi64 : ∀ t ∈ stamps es, TS_MIN ≤ t ∧ t ≤ TS_MAX) (hlb : 0 ≤ lb) (hub : 0 ≤ ub) :
    ∃ outs : List (Elem (κ × α × β)),
      run lb ub State.init (es ++ [.far]) = (State.init, outs ++ [.far])
        ∧ (∀ o ∈ outs, isOutBody o = true)
        ∧ pairs outs = specZ lb ub (lefts es) (rights es)
        ∧ (pairs outs).Perm (specZ lb ub (lefts es) (rights es))
        ∧ anyPanic lb ub (State.init : State κ α β) (es ++ [.far]) = false :=
  intervalJoin_correct_int lb ub es hbody hsorted hi64 (fun l hl => by
    have := hi64 _ (mem_lefts_stamps es l hl); omega)

/-- What `spec` contains (what "the interval join" means, bounds saturated to i64). -/
theorem spec_mem (lb ub : Int) (L : List (Int × κ × α)) (R : List (κ × Int × β)) (o : Int × κ × α × β) :
    o ∈ spec lb ub L R ↔
      ∃ l ∈ L, ∃ r ∈ R, r.1 = l.2.1 ∧ clamp (l.1 - lb) ≤ r.2.1 ∧ r.2.1 ≤ clamp (l.1 + ub)
        ∧ o = (max r.2.1 l.1, l.2.1, l.2.2, r.2.2) := by
  simp only [spec, lowerOf, upperOf, List.mem_flatMap, List.mem_map, List.mem_filter, Bool.and_eq_true,
    decide_eq_true_eq]
  constructor
  · rintro ⟨l, hl, r, ⟨hr, ⟨h1, h2⟩, h3⟩, rfl⟩
    exact ⟨l, hl, r, hr, h1, of_decide_eq_true h2, of_decide_eq_true h3, rfl⟩
  · rintro ⟨l, hl, r, hr, h1, h2, h3, rfl⟩
    exact ⟨l, hl, r, ⟨hr, ⟨h1, decide_eq_true h2⟩, decide_eq_true h3⟩, rfl⟩

/-- What `specZ` contains (the interval join over ℤ). -/
theorem specZ_mem (lb ub : Int) (L : List (Int × κ × α)) (R : List (κ × Int × β)) (o : Int × κ × α × β) :
    o ∈ specZ lb ub L R ↔
      ∃ l ∈ L, ∃ r ∈ R, r.1 = l.2.1 ∧ l.1 - lb ≤ r.2.1 ∧ r.2.1 ≤ l.1 + ub
        ∧ o = (max r.2.1 l.1, l.2.1, l.2.2, r.2.2) := by
  simp only [specZ, List.mem_flatMap, List.mem_map, List.mem_filter, Bool.and_eq_true, decide_eq_true_eq]
  constructor
  · rintro ⟨l, hl, r, ⟨hr, ⟨h1, h2⟩, h3⟩, rfl⟩
    exact ⟨l, hl, r, hr, h1, h2, h3, rfl⟩
  · rintro ⟨l, hl, r, hr, h1, h2, h3, rfl⟩
    exact ⟨l, hl, r, ⟨hr, ⟨h1, h2⟩, h3⟩, rfl⟩

/-- **C08 (nothing is carried over).** `FlushAndRestart` puts the operator back into its initial state
    (`left`, `right` empty, `last_seen = i64::MIN`) from EVERY state — the two `assert!`s of interval_join.rs:154-155
    hold because `advance` drains `left` completely at a restart and then clears `right` — so every
    iteration is joined on its own. -/
theorem intervalJoin_resets (lb ub : Int) (s : State κ α β) (es rest : List (Elem (κ × (α ⊕ β)))) :
    (step lb ub s .far).1 = State.init
      ∧ (run lb ub s (es ++ [.far])).1 = State.init
      ∧ (run lb ub s ((es ++ [.far]) ++ rest)).2
          = (run lb ub s (es ++ [.far])).2 ++ (run lb ub State.init rest).2 := by
  refine ⟨step_far_resets lb ub s, run_far_resets lb ub s es, ?_⟩
  rw [run_append lb ub s (es ++ [Elem.far]) rest, run_far_resets]

/-- **C08 / C01 (grammar).** Any well-formed stream `((item|ts|wm|flushBatch)* far)+ term` is mapped to a
    well-formed stream (no sortedness needed: the model's `step` is total). -/
theorem intervalJoin_preserves_grammar (lb ub : Int) (es : List (Elem (κ × (α ⊕ β))))
    (h : grammarOk es = true) : grammarOk (run lb ub (State.init : State κ α β) es).2 = true :=
  run_grammar lb ub es State.init false rfl h

/-- **C08 / C06 (watermarks).** The operator *consumes* watermarks (interval_join.rs:174-177 only updates
    `last_seen`) and never emits one; its output is therefore trivially watermark-safe — and carries no
    event-time progress information at all (see the report: downstream event-time operators only make
    progress at `FlushAndRestart`). -/
theorem intervalJoin_preserves_wmsafe (lb ub : Int) (es : List (Elem (κ × (α ⊕ β)))) :
    (∀ o ∈ (run lb ub (State.init : State κ α β) es).2, isWm o = false)
      ∧ wmSafeOk (run lb ub (State.init : State κ α β) es).2 = true :=
  ⟨run_no_wm lb ub es State.init rfl, wmSafeGo_no_wm _ (run_no_wm lb ub es State.init rfl)⟩

/-- **C08 ∘ C16 (the composition `Reorder → IntervalJoin` as built by `interval_join`).** For ANY arrival
    order `xs` of the merged, keyed stream of one iteration that respects the watermark contract (no
    timestamp at or below an earlier watermark; no untimestamped `Item`s; timestamps any `i64`s), feeding
    the output of `Reorder` into `IntervalJoin` yields — as a multiset — exactly the (saturated-interval)
    join of the left and right elements of `xs`, then `FlushAndRestart`; no `assert!` fires. -/
theorem intervalJoin_after_reorder (lb ub : Int) (xs : List (Elem (κ × (α ⊕ β))))
    (hbody : ∀ e ∈ xs, isBody e = true) (hsafe : wmSafeOk xs = true)
    (hi64 : ∀ t ∈ stamps xs, TS_MIN ≤ t) :
    ∃ outs : List (Elem (κ × α × β)),
      run lb ub State.init (Reorder.run (xs ++ [.far])) = (State.init, outs ++ [.far])
        ∧ (∀ o ∈ outs, isOutBody o = true)
        ∧ (pairs outs).Perm (spec lb ub (lefts xs) (rights xs))
        ∧ anyPanic lb ub (State.init : State κ α β) (Reorder.run (xs ++ [.far])) = false := by
  -- the reordered iteration is `ys ++ [far]`
  let ys := (Reorder.runFrom [] xs).2 ++ (Reorder.sort (Reorder.runFrom [] xs).1).map Reorder.emit
  have hrun : Reorder.run (xs ++ [.far]) = ys ++ [.far] := by
    simp [Reorder.run, Reorder.runFrom_append, Reorder.runFrom, Reorder.step, ys]
  have hperm : ys.Perm xs := by
    have := Reorder.reorder_perm xs
    rw [hrun] at this
    exact (List.perm_append_right_iff _).mp this
  have hbodyF : Fold.Body xs := by
    intro e he
    have := hbody e he
    cases e <;> simp_all [isBody, Fold.isBody]
  have hsortedR := Reorder.reorder_sorted xs hbodyF hsafe
  rw [hrun] at hsortedR
  have hst : stamps ys = Reorder.stamps (ys ++ [.far]) := by
    simp [stamps, Reorder.stamps, Elem.timestamp]
  have hstp : (stamps ys).Perm (stamps xs) := hperm.filterMap _
  obtain ⟨outs, h1, h2, h3, _, h5⟩ := intervalJoin_correct lb ub ys
    (fun e he => hbody e (hperm.mem_iff.mp he)) (by rw [hst]; exact hsortedR)
    (fun t ht => hi64 t (hstp.mem_iff.mp ht))
  refine ⟨outs, by rw [hrun]; exact h1, h2, ?_, by rw [hrun]; exact h5⟩
  rw [h3]
  exact spec_perm lb ub (lefts_perm hperm) (rights_perm hperm)

/-- Former witness of the saturation defect (fixed by /repo a398b65; with
    `checked_sub(..).unwrap_or(MIN)` the pair `(1, 100)` was emitted): `lower = -1`, `upper = 0`, a right
    element at 5 and a left element at `i64::MAX`. `MAX + 1` saturates to `MAX`, the interval `[MAX, MAX]`
    does not contain 5: nothing is emitted, `spec` and `specZ` agree (first fixed case of the `ivjoin`
    generator, same output from the real operator). -/
example :
    let es : List (Elem (Nat × (Nat ⊕ Nat))) := [.ts (0, .inr 100) 5, .ts (0, .inl 1) TS_MAX]
    (run (-1) 0 State.init (es ++ [.far])).2 = [.far]
      ∧ spec (-1) 0 (lefts es) (rights es) = [] ∧ specZ (-1) 0 (lefts es) (rights es) = [] := by
  decide

/-- Former witness of the `last_seen = 0` defect (fixed by /repo 928fdec; the first element tripped
    `assert!(ts >= self.last_seen)`): negative timestamps are joined like any others. -/
example :
    let es : List (Elem (Nat × (Nat ⊕ Nat))) := [.ts (0, .inr 100) (-7), .ts (0, .inl 1) (-5), .wm (-5)]
    anyPanic 2 1 (State.init : State Nat Nat Nat) (es ++ [.far]) = false
      ∧ (run 2 1 State.init (es ++ [.far])).2 = [.ts (0, 1, 100) (-5), .far]
      ∧ specZ 2 1 (lefts es) (rights es) = [(-5, 0, 1, 100)] := by
  decide

/-- The one place where the saturated interval and the interval over ℤ differ: `l.ts - lower > i64::MAX`
    and a right element at exactly `i64::MAX` (dually at `i64::MIN`). The operator implements `spec`. -/
example :
    let es : List (Elem (Nat × (Nat ⊕ Nat))) := [.ts (0, .inl 1) TS_MAX, .ts (0, .inr 100) TS_MAX]
    pairs (run (-1) 0 State.init (es ++ [.far])).2 = [(TS_MAX, 0, 1, 100)]
      ∧ spec (-1) 0 (lefts es) (rights es) = [(TS_MAX, 0, 1, 100)]
      ∧ specZ (-1) 0 (lefts es) (rights es) = [] := by
  decide

/-- Non-vacuity: a sorted iteration with ties, a watermark, a `FlushBatch`, two keys, pairs at both closed
    ends of the interval (`lower = 2`, `upper = 1`: `r.ts ∈ [l.ts - 2, l.ts + 1]`), one right element just
    outside, one left element joined only at `FlushAndRestart`, a negative timestamp; it meets every
    hypothesis of `intervalJoin_correct_int`, and the run is the one the real operator produces
    (`ivjoin --replay`). -/
example :
    let es : List (Elem (Nat × (Nat ⊕ Nat))) :=
      [.ts (1, .inr 99) (-4), .ts (0, .inr 100) 3, .ts (0, .inl 1) 5, .wm 5, .ts (0, .inr 101) 6, .flushBatch,
       .ts (0, .inr 102) 7, .ts (1, .inr 103) 7, .ts (0, .inl 2) 9]
    (∀ e ∈ es, isBody e = true) ∧ (stamps es).Pairwise (· ≤ ·)
      ∧ (∀ t ∈ stamps es, TS_MIN ≤ t ∧ t ≤ TS_MAX)
      ∧ (∀ l ∈ lefts es, l.1 - 2 ≤ TS_MAX ∧ TS_MIN ≤ l.1 + 1)
      ∧ (run 2 1 State.init (es ++ [.far])).2
          = [.flushBatch, .ts (0, 1, 100) 5, .ts (0, 1, 101) 6, .ts (0, 2, 102) 9, .far]
      ∧ specZ 2 1 (lefts es) (rights es) = [(5, 0, 1, 100), (6, 0, 1, 101), (9, 0, 2, 102)] := by
  decide

end Noir.IntervalJoin
