/-
  Props/C04Loop.lean — termination (C04) for the CHANNEL CYCLE of an `iterate` loop
  (Model/LoopCycle.lean): why the feedback cycle does not deadlock although every channel on it is
  bounded — and exactly when it does.

  "Every job whose sources are finite terminates … There is no schedule, parallelism, host layout or
   batch mode under which replicas wait on each other forever or an end-of-stream marker is lost,
   including jobs with loops …"

  Setting (`Noir.LoopCycle.Cfg`): ONE replica of an `iterate` loop:
  level 0 = the block `Iterate` + the body operators fused behind it (`f 0`) + `End`; levels
  `1 … k` (`k ≥ 1`) = the further blocks of the body (`f i`), the last one being the feedback block;
  bounded channels `chan 0 … chan k` of capacity `cap ≥ 1` (`chan k` = the channel into
  `Iterate`'s `feedback_receiver`); every send BLOCKS while the target channel is full; a block
  turns ONE received element into the list `f i x` and sends the outputs one at a time;
  `Iterate::next` first DRAINS the feedback channel into the unbounded `feedback_content`
  (iterate.rs:235-237), then returns the next element of the round (`input_stash` in the first
  round, `content` later); the round's `FlushAndRestart` travels the cycle; the leader answers
  `Continue`/`Finished` after it has arrived; `content := feedback_content`. The scheduler is an
  arbitrary list of events (`iter`, `body i`, `leader`).

  Simplifications (see the header of Model/LoopCycle.lean): one replica; a channel slot holds one
  element (batch = element); the whole input is in `input_stash`; stateless per-element body;
  the state path is a counter; `Terminate` (acyclic, Props/C04Sim.lean) is not modelled;
  `replay` has no data cycle (its only cycle is the state path) and is not modelled here.

  FULL-STRENGTH STATEMENT AND WHAT IS TRUE. The statement one would like —
      for every `cap ≥ 1`, `k ≥ 1`, every body `f`, every input, every number of rounds:
      in every reachable non-final state some event is enabled —
  is FALSE, for the model and for the real engine (finding F17): the drain happens only when
  `Iterate::next` is CALLED, and while one pulled element is being expanded by a `flat_map` no call
  happens. `loop_cycle_expanding_body_counterexample` is the witness (by `decide`); the same
  witness with the engine's numbers (`cap = 16`, one element expanded to 34) is in §5, and the
  harness replays it on the real engine (corpus/C04/loopcycle-f17.case: blocked).
  Proved instead: `loop_cycle_progress_partial` — progress inside the envelope `Cfg.Bounded`:
  the operators fused behind `Iterate` turn one element into at most `cap` elements and the later
  blocks into at most one (map, filter, flat_map up to `cap` in the first block). This includes
  every non-expanding body (`loop_cycle_progress_nonexpanding`). The SHARP envelope, also for
  expanding stages in later blocks, is `loop_cycle_progress_product`: if `E i` bounds the expansion
  of level `i` (`E i ≥ 1`) and `E 0 · E 1 · … · E k ≤ cap` — one element of the content becomes at
  most one channel-full of feedback — the cycle cannot jam (`Bounded` is the instance
  `E 0 = cap`, `E 1 = … = E k = 1`); `loop_cycle_progress_envelope` is the weighted form behind it
  (weights `W i = E (i+1) · … · E k`, invariant `InvW.load`: weighted pending sends ≤ weighted free
  slots + one element per body block). The bound is tight in the model: `prod6` with `cap = 6`
  satisfies it, the same body with `cap = 5` jams (§5).
  Conservation (§3) and the decreasing measure (§2) hold for EVERY body and both drain variants.

  SEVERAL REPLICAS. Without a shuffle in the body the cycles of the replicas are independent copies
  of the one modelled here. WITH a shuffle they share channels, and the statement is false even for
  non-expanding bodies (finding F18): `LoopCycleMulti.loop_cycle_shuffle_deadlock_counterexample` (§6,
  Model/LoopCycleMulti.lean: the data phase of one round of `reps` replicas).
-/
import NoirVerif.Lemmas.LoopCycle
namespace Noir.LoopCycle

/-! ## 1. progress -/

/-- **C04 (the cycle always has a hole), partial: bodies inside the envelope `Bounded`.**
    For every capacity `cap ≥ 1`, every number `k ≥ 1` of blocks on the cycle, every number of
    rounds, every input (of any size, in particular far larger than the `(k+1)·cap` slots of the
    cycle) and every body whose first block expands an element to at most `cap` elements and whose
    later blocks do not expand: in every reachable state that is not final some process can take a
    real step. The key invariant (`InvH.hole`): whenever the `Iterate` block is in the middle of
    its sends, the number of outputs it still has to send is at most the number of HOLES of the
    cycle (free channel slots + idle body blocks) — established by the drain in front of every
    `next()` (which empties the feedback channel: `cap` holes) and preserved by every step of the
    body blocks; so when the `Iterate` is blocked in its send, some body block can move.
    The unrestricted statement is false: `loop_cycle_expanding_body_counterexample`. -/
theorem loop_cycle_progress_partial (c : Cfg) (wf : c.WF) (hb : c.Bounded)
    (hdf : c.drainFirst = true) (s : State) (h : Reachable c s) (hnf : ¬ final s) :
    ∃ e, enabled c s e :=
  progress wf (inv_reachable wf h) (invH_reachable wf hb hdf h) hnf

/-- in particular for every non-expanding body (maps and filters in any block), any `cap ≥ 1` -/
theorem loop_cycle_progress_nonexpanding (c : Cfg) (wf : c.WF) (hne : c.NonExpanding)
    (hdf : c.drainFirst = true) (s : State) (h : Reachable c s) (hnf : ¬ final s) :
    ∃ e, enabled c s e :=
  loop_cycle_progress_partial c wf (hne.bounded wf) hdf s h hnf

/-- the hole invariant itself: in every reachable state of a round, what the `Iterate` block still
    has to send fits into the free channel slots plus the idle body blocks -/
theorem loop_cycle_hole_invariant (c : Cfg) (wf : c.WF) (hb : c.Bounded)
    (hdf : c.drainFirst = true) (s : State) (h : Reachable c s) (hrun : s.phase = .run) :
    (s.pend 0).length ≤ holes c s :=
  (invH_reachable wf hb hdf h).hole hrun

/-- **C04 (the safe envelope, weighted form).** `E i` bounds the expansion of level `i`, `W i`
    is a weight with `W (i+1) · E (i+1) ≤ W i` (an element in channel `i` becomes at most
    `W i / W k` elements of feedback) and `W 0 · E 0 ≤ W k · cap`. Invariant (`InvW.load`): in every
    reachable state of a round, Σ `W i · |pend i|` (the weighted sends still to do) is at most
    Σ `W i · (cap − |chan i|)` (the weighted free slots) + Σ_{i<k} `W i` (each body block may hold
    the outputs of one element) — re-established by the drain in front of every `next()`,
    preserved by every send and receive. A state in which everything is full and every block is
    in the middle of its sends violates it. -/
theorem loop_cycle_progress_envelope (c : Cfg) (wf : c.WF) (E W : Nat → Nat)
    (henv : Envelope c E W) (hdf : c.drainFirst = true) (s : State) (h : Reachable c s)
    (hnf : ¬ final s) : ∃ e, enabled c s e :=
  progressW wf henv (inv_reachable wf h) (invW_reachable wf henv hdf h) hnf

/-- **C04 (the safe envelope users can rely on).** If level `i` turns one element into at most
    `E i ≥ 1` elements and the TOTAL expansion of an element on its way round the cycle,
    `E 0 · E 1 · … · E k`, is at most the channel capacity, then for every `k`, every input size
    and every number of rounds the cycle cannot jam: every reachable non-final state has an enabled
    event. (In batches for the real engine: a body that makes at most `CHANNEL_CAPACITY` = 16
    output batches out of one pulled element, all blocks of the cycle together.) -/
theorem loop_cycle_progress_product (c : Cfg) (wf : c.WF) (E : Nat → Nat)
    (hexp : ∀ i a, (c.f i a).length ≤ E i) (hpos : ∀ i, 1 ≤ E i)
    (hprod : prodRange E 0 (c.k + 1) ≤ c.cap) (hdf : c.drainFirst = true) (s : State)
    (h : Reachable c s) (hnf : ¬ final s) : ∃ e, enabled c s e :=
  loop_cycle_progress_envelope c wf E _ (envelope_of_product hexp hpos hprod) hdf s h hnf

/-- … and every fair schedule terminates with the complete output (cf. `loop_cycle_terminates`) -/
theorem loop_cycle_terminates_product (c : Cfg) (wf : c.WF) (E : Nat → Nat)
    (hexp : ∀ i a, (c.f i a).length ≤ E i) (hpos : ∀ i, 1 ≤ E i)
    (hprod : prodRange E 0 (c.k + 1) ≤ c.cap) (hdf : c.drainFirst = true)
    (rounds : List (List Ev)) (hr : ∀ ρ ∈ rounds, Round c ρ)
    (hlen : mu c (init c) ≤ rounds.length) :
    final (run c (init c) rounds.flatten) ∧
    (run c (init c) rounds.flatten).output = some (content c c.rounds) := by
  have henv := envelope_of_product hexp hpos hprod
  have hinv := inv_run wf (inv_init wf) rounds.flatten
  have hf : final (run c (init c) rounds.flatten) := by
    rcases fair_roundsW wf henv hdf rounds hr (inv_init wf) (invW_init c _ _) with h | h
    · exact h
    · apply Classical.byContradiction
      intro hnf
      obtain ⟨e, he⟩ := progressW wf henv hinv (invW_run wf henv hdf (inv_init wf) (invW_init c _ _) _) hnf
      have := mu_step hinv he
      omega
  exact ⟨hf, (hinv.doneOut hf).1⟩

/-- the body block of the model that expands one element to four -/
def expand4 : Cfg where
  cap := 1
  k := 1
  f := fun i a => if i = 0 then [a, a, a, a] else [a]
  rounds := 1
  input := [7]

/-- **The unrestricted progress statement is false (finding F17).** The REAL protocol (drain in
    front of every `next()`), `cap = 1`, one feedback block, a body that turns one element into
    four: after 5 round-robin rounds the `Iterate` block is blocked in the send of the fourth copy,
    the feedback block is blocked in its send into the full feedback channel, and nobody calls
    `next()` — a reachable, non-final state in which no event is enabled. -/
theorem loop_cycle_expanding_body_counterexample :
    expand4.drainFirst = true ∧ expand4.WF ∧
    ∃ s, Reachable expand4 s ∧ ¬ final s ∧ ∀ e, ¬ enabled expand4 s e := by
  refine ⟨rfl, ⟨by decide, by decide, by decide⟩,
    run expand4 (init expand4) (roundRobin expand4 5), reachable_run .init _, by decide, ?_⟩
  exact stuck_iff.mp (by decide)

/-! ## 2. termination -/

/-- **C04 (a measure decreases with every event).** For EVERY body, capacity and drain variant:
    `mu` = (events still caused by the elements to emit, in flight and pending, computed from the
    body functions) + (end-of-round steps of this round) + (the whole cost of the future rounds,
    computed from `content c r = body^r input`) decreases with every real step. -/
theorem loop_cycle_measure_decreases (c : Cfg) (wf : c.WF) (s : State) (h : Reachable c s) (e : Ev)
    (he : enabled c s e) : mu c (step c s e) < mu c s :=
  mu_step (inv_reachable wf h) he

/-- **C04 (every schedule is finite).** Under EVERY schedule the number of real steps is at most
    `mu c (init c)`; a slot given to a blocked or finished process changes nothing. -/
theorem loop_cycle_bounded (c : Cfg) (wf : c.WF) (sched : List Ev) :
    realSteps c (init c) sched ≤ mu c (init c) ∧
    ∀ s e, ¬ enabled c s e → step c s e = s := by
  refine ⟨?_, fun s e he => step_idle he⟩
  have := realSteps_le wf (inv_init wf) sched
  omega

/-- **C04 (every maximal execution ends in the final state)**, inside the envelope. -/
theorem loop_cycle_maximal_final (c : Cfg) (wf : c.WF) (hb : c.Bounded)
    (hdf : c.drainFirst = true) (s : State) (h : Reachable c s) (hmax : ∀ e, ¬ enabled c s e) :
    final s := by
  apply Classical.byContradiction
  intro hnf
  obtain ⟨e, he⟩ := loop_cycle_progress_partial c wf hb hdf s h hnf
  exact hmax e he

/-- **C04 (the loop terminates).** Inside the envelope every FAIR schedule — `mu c (init c)` or
    more rounds, each giving every process (`iter`, `leader`, `body 1 … body k`) at least one slot,
    in any order, with any repetitions — ends in the final state, the output is the content of
    round `rounds` (`body^rounds input`), and further slots change nothing. -/
theorem loop_cycle_terminates (c : Cfg) (wf : c.WF) (hb : c.Bounded) (hdf : c.drainFirst = true)
    (rounds : List (List Ev)) (hr : ∀ ρ ∈ rounds, Round c ρ)
    (hlen : mu c (init c) ≤ rounds.length) :
    final (run c (init c) rounds.flatten) ∧
    (run c (init c) rounds.flatten).output = some (content c c.rounds) ∧
    ∀ more, run c (init c) (rounds.flatten ++ more) = run c (init c) rounds.flatten := by
  have hinv := inv_run wf (inv_init wf) rounds.flatten
  have hf : final (run c (init c) rounds.flatten) := by
    rcases fair_rounds wf hb hdf rounds hr (inv_init wf) (invH_init c) with h | h
    · exact h
    · apply Classical.byContradiction
      intro hnf
      obtain ⟨e, he⟩ := progress wf hinv (invH_run wf hb hdf (inv_init wf) (invH_init c) _) hnf
      have := mu_step hinv he
      omega
  exact ⟨hf, (hinv.doneOut hf).1, fun more => by rw [run_append, final_run hinv hf]⟩

/-- in particular the round-robin schedule -/
theorem loop_cycle_round_robin_terminates (c : Cfg) (wf : c.WF) (hb : c.Bounded)
    (hdf : c.drainFirst = true) (n : Nat) (hn : mu c (init c) ≤ n) :
    final (run c (init c) (roundRobin c n)) := by
  refine (loop_cycle_terminates c wf hb hdf (List.replicate n (events c)) ?_ (by simpa using hn)).1
  intro ρ hρ
  rw [(List.mem_replicate.mp hρ).2]
  exact fun e he => he

/-! ## 3. conservation -/

/-- **C04 (nothing is lost, duplicated or reordered on the cycle).** For EVERY body, capacity,
    schedule and drain variant, in every reachable state:
    * the content of round `r` is `body^r input` (`contents` logs the content at the start of every
      round);
    * what was fed back in round `r` is exactly `body (content of round r)`, in order (`fed` logs
      `feedback_content` at the end of every round);
    * during a round, `feedback_content` followed by everything still in flight (mapped through
      the remaining levels, `up c s k`) is `body (content of the round)` followed by the round's
      `FlushAndRestart`;
    * in the final state `rounds` rounds were fed back and the output is the last one. -/
theorem loop_cycle_feedback_exact (c : Cfg) (wf : c.WF) (s : State) (h : Reachable c s) :
    s.contents = (List.range (s.round + 1)).map (content c) ∧
    s.fed = (List.range s.fed.length).map (fun r => body c (content c r)) ∧
    (s.phase = .run → s.fb ++ up c s c.k = lift (body c (content c s.round)) ++ [Msg.far]) ∧
    (final s → s.fed.length = c.rounds ∧ s.output = some (content c c.rounds)) := by
  have hi := inv_reachable wf h
  refine ⟨hi.contents_eq, ?_, hi.flow, ?_⟩
  · have := hi.fed_eq
    have hl : s.fed.length = s.round + doneBit s := by rw [this]; simp
    rw [hl]; exact this
  · intro hf
    have hd := hi.doneOut hf
    have hl : s.fed.length = s.round + doneBit s := by rw [hi.fed_eq]; simp
    refine ⟨?_, hd.1⟩
    rw [hl]; simp only [doneBit, show s.phase = Phase.done from hf, if_true]; exact hd.2.1

/-- **C04 (the markers): one `FlushAndRestart` per round reaches the leader, and between the
    rounds the cycle is empty.** In every reachable state the number of markers the feedback block
    has sent in this round (in the feedback channel or in `feedback_content`) equals the number on
    the way to the leader plus the leader's answer in the state channel; while the `Iterate` waits
    for the leader and in the final state every channel and every block of the cycle is empty. -/
theorem loop_cycle_marker_accounting (c : Cfg) (wf : c.WF) (s : State) (h : Reachable c s) :
    (s.phase ≠ .done → countFar (s.chan c.k) + countFar s.fb = s.leaderPending + dec s) ∧
    (s.phase ≠ .run → s.toEmit = [] ∧ ∀ i, i ≤ c.k → s.chan i = [] ∧ s.pend i = []) ∧
    (final s → s.leaderPending = 0 ∧ s.decision = none) :=
  ⟨(inv_reachable wf h).acc, (inv_reachable wf h).quiet,
    fun hf => ⟨((inv_reachable wf h).doneOut hf).2.2.1, ((inv_reachable wf h).doneOut hf).2.2.2.1⟩⟩

/-! ## 4. the drain is what the proof rests on -/

/-- a loop whose body is the identity, 6 elements, capacity 1, two rounds; `drainFirst = false`:
    the feedback drain is moved below the replay of `content` -/
def noDrain : Cfg where
  cap := 1
  k := 1
  f := fun _ a => [a]
  rounds := 2
  input := [1, 2, 3, 4, 5, 6]
  drainFirst := false

set_option maxRecDepth 100000 in
/-- **The mutation deadlocks.** With the drain moved below the replay of `content`, a loop with a
    NON-expanding body (the identity) whose content (6 elements) exceeds what the cycle can buffer
    (4: `chan 0`, the feedback block, `chan 1`, the `End` of the `Iterate` block) reaches, in the
    second round, a non-final state in which nothing can move: the `Iterate` block is blocked in
    its send into `chan 0`, the feedback block is blocked in its send into the feedback channel,
    and the feedback channel is never read (24 round-robin rounds). The same configuration with
    the drain in front of every `next()` is inside the envelope of `loop_cycle_progress_partial`
    (next example). -/
theorem loop_cycle_no_drain_deadlocks :
    noDrain.WF ∧ noDrain.NonExpanding ∧
    ∃ s, Reachable noDrain s ∧ s.round = 1 ∧ ¬ final s ∧ ∀ e, ¬ enabled noDrain s e := by
  refine ⟨⟨by decide, by decide, by decide⟩, fun _ _ => Nat.le_refl 1,
    run noDrain (init noDrain) (roundRobin noDrain 24), reachable_run .init _, by decide, by decide, ?_⟩
  exact stuck_iff.mp (by decide)

/-! ## 5. non-vacuity -/

/-- the same loop with the real protocol -/
def withDrain : Cfg := { noDrain with drainFirst := true }

theorem withDrain_wf : withDrain.WF := ⟨by decide, by decide, by decide⟩

theorem withDrain_bounded : withDrain.Bounded := ⟨fun _ => Nat.le_refl 1, fun _ _ _ => Nat.le_refl 1⟩

/-- `loop_cycle_progress_partial`, `loop_cycle_hole_invariant`, `loop_cycle_maximal_final`: the
    hypotheses are met by `withDrain`; after 12 round-robin rounds it is in the middle of the
    second round, not final, and some event is enabled; with the same schedule that deadlocks the
    mutated loop it reaches the final state (34 rounds, 64 real steps ≤ `mu` = 77) with the
    complete output. -/
example :
    (∃ e, enabled withDrain (run withDrain (init withDrain) (roundRobin withDrain 12)) e) ∧
    (run withDrain (init withDrain) (roundRobin withDrain 24)).round = 1 ∧
    stuck withDrain (run withDrain (init withDrain) (roundRobin withDrain 24)) = false ∧
    (run withDrain (init withDrain) (roundRobin withDrain 33)).phase ≠ .done ∧
    (run withDrain (init withDrain) (roundRobin withDrain 34)).phase = .done ∧
    (run withDrain (init withDrain) (roundRobin withDrain 34)).output = some [1, 2, 3, 4, 5, 6] ∧
    realSteps withDrain (init withDrain) (roundRobin withDrain 34) = 64 ∧
    mu withDrain (init withDrain) = 77 :=
  ⟨loop_cycle_progress_partial withDrain withDrain_wf withDrain_bounded rfl _
      (reachable_run .init _) (by decide),
    by decide, by decide, by decide, by decide, by decide, by decide, by decide⟩

/-- `loop_cycle_terminates` / `loop_cycle_round_robin_terminates` applied: 77 round-robin rounds
    reach the final state with the output `body^2 input`. -/
example : final (run withDrain (init withDrain) (roundRobin withDrain 77)) :=
  loop_cycle_round_robin_terminates withDrain withDrain_wf withDrain_bounded rfl 77 (by decide)

/-- A loop that uses the whole envelope: capacity 2, two blocks behind the `Iterate` block, the
    first block duplicates (`≤ cap`), the second drops the multiples of 3, the feedback block is
    the identity; 7 input elements (the cycle has 6 channel slots), 2 rounds. -/
def envelope : Cfg where
  cap := 2
  k := 2
  f := fun i a => if i = 0 then [a, a + 10] else if i = 1 then (if a % 3 = 0 then [] else [a]) else [a]
  rounds := 2
  input := [1, 2, 3, 4, 5, 6, 7]

theorem envelope_wf : envelope.WF := ⟨by decide, by decide, by decide⟩

theorem envelope_bounded : envelope.Bounded := by
  refine ⟨fun a => by simp [envelope], fun i a hi => ?_⟩
  have h0 : i ≠ 0 := by omega
  simp only [envelope, h0, if_false]
  split
  · split <;> simp
  · simp

set_option maxRecDepth 100000 in
/-- `loop_cycle_feedback_exact`, `loop_cycle_measure_decreases`, `loop_cycle_bounded`: the
    round-robin execution of `envelope` is final after 120 rounds (71 suffice); the content of the rounds, the
    feedback of the rounds and the output are the sequential meaning; the measure bounds the real
    steps. -/
example :
    content envelope 1 = [1, 11, 2, 13, 4, 14, 5, 16, 7, 17] ∧
    (let s := run envelope (init envelope) (roundRobin envelope 120)
     s.phase = .done ∧ s.output = some (content envelope 2) ∧
     s.fed = [content envelope 1, content envelope 2] ∧
     s.contents = [envelope.input, content envelope 1]) ∧
    realSteps envelope (init envelope) (roundRobin envelope 120) ≤ mu envelope (init envelope) := by
  decide

/-- a body that expands in TWO blocks (×2 behind `Iterate`, ×3 behind a shuffle), feedback block
    the identity: total expansion 6 -/
def prod6 (cap : Nat) : Cfg where
  cap := cap
  k := 2
  f := fun i a => if i = 0 then [a, a + 10] else if i = 1 then [a, a + 100, a + 200] else [a]
  rounds := 1
  input := [1, 2, 3, 4, 5]

/-- the expansion bounds of `prod6` -/
def prod6E (i : Nat) : Nat := if i = 0 then 2 else if i = 1 then 3 else 1

theorem prod6_exp (cap : Nat) : ∀ i a, ((prod6 cap).f i a).length ≤ prod6E i := by
  intro i a
  simp only [prod6, prod6E]
  split
  · simp
  · split <;> simp

theorem prod6E_pos : ∀ i, 1 ≤ prod6E i := by
  intro i; simp only [prod6E]; split
  · decide
  · split <;> decide

set_option maxRecDepth 100000 in
/-- `loop_cycle_progress_product` / `loop_cycle_terminates_product`: with `cap = 6` the hypotheses
    hold (`2 · 3 · 1 ≤ 6`); the upstream-first execution is not stuck on the way and round-robin
    reaches the final state with all 30 elements. The bound is TIGHT: with `cap = 5` the same body
    reaches, after the 40 steps below, a non-final state in which nothing can move. -/
example :
    prodRange prod6E 0 ((prod6 6).k + 1) ≤ (prod6 6).cap ∧
    (∃ e, enabled (prod6 6) (run (prod6 6) (init (prod6 6)) (roundRobin (prod6 6) 9)) e) ∧
    (let s := run (prod6 6) (init (prod6 6)) (roundRobin (prod6 6) 160)
     s.phase = .done ∧ (s.output.map List.length) = some 30) ∧
    (let s := run (prod6 5) (init (prod6 5))
      [.iter, .iter, .iter, .iter, .iter, .iter, .iter, .iter, .body 1, .iter, .iter, .body 1,
       .body 1, .body 1, .body 1, .iter, .body 1, .body 1, .body 2, .body 1, .body 1, .iter, .iter,
       .body 2, .body 2, .body 1, .body 2, .body 2, .body 1, .body 2, .body 2, .body 1, .body 1,
       .iter, .body 2, .body 2, .body 1, .body 2, .body 2, .body 1]
     stuck (prod6 5) s = true ∧ s.phase = .run) :=
  ⟨by decide,
   loop_cycle_progress_product (prod6 6) ⟨by decide, by decide, by decide⟩ prod6E (prod6_exp 6)
     prod6E_pos (by decide) rfl _ (reachable_run .init _) (by decide),
   by decide, by decide⟩

/-- the counterexample with the engine's numbers: `CHANNEL_CAPACITY = 16`, one feedback block, ONE
    input element expanded to 34 by a `flat_map` fused behind `Iterate`: 16 + 1 + 16 = 33 outputs
    leave the `Iterate` block, the 34th blocks forever (the harness replays this on the real
    engine: `loopcycle 1 fixed1 1 d 34` is blocked, `… d 33` terminates). -/
def engine34 : Cfg where
  cap := 16
  k := 1
  f := fun i a => if i = 0 then List.replicate 34 a else [a]
  rounds := 1
  input := [0]

set_option maxRecDepth 100000 in
example :
    stuck engine34 (run engine34 (init engine34) (roundRobin engine34 35)) = true ∧
    (run engine34 (init engine34) (roundRobin engine34 35)).phase = .run ∧
    ((run engine34 (init engine34) (roundRobin engine34 35)).pend 0).length = 1 ∧
    ((run engine34 (init engine34) (roundRobin engine34 35)).chan 1).length = 16 := by
  decide

end Noir.LoopCycle

/-! ## 6. several replicas coupled by a shuffle: finding F18 -/
namespace Noir.LoopCycleMulti

/-- two replicas, capacity 1, a body that is the IDENTITY behind a shuffle that happens to route
    every element of this round to replica 1 -/
def two : Cfg where
  cap := 1
  reps := 2
  route := fun _ => 1
  input := fun r => if r = 0 then [1, 2, 3] else [4, 5]

/-- **With several replicas and a shuffle in the body the cycle CAN jam, even for a non-expanding
    body (finding F18).** Every replica follows the real protocol (drain in front of every
    `next()`), and each replica alone is inside the envelope of `loop_cycle_progress_partial`. But
    the holes `Iterate 1` creates by draining its feedback channel are filled by the elements
    `Iterate 0` sends into the same pipeline: after 14 steps `Iterate 1` is blocked in its send into
    the full input channel of body block 1 (so it no longer drains), body block 1 is blocked in its
    send into the full feedback channel of `Iterate 1`, and `Iterate 0` has nothing left to do —
    a reachable non-final state in which no event is enabled. On the real engine this needs a
    round with more batches than the buffers of one pipeline and an unlucky interleaving
    (harness: `loopcycle 3 fixed1 4 s.m 2` with 800 elements at replica 0 blocks in about one run
    out of four). -/
theorem loop_cycle_shuffle_deadlock_counterexample :
    ∃ s, Reachable two s ∧ finalB two s = false ∧ ∀ e, ¬ enabled two s e := by
  refine ⟨run two (init two)
    [.iter 1, .iter 1, .body 1, .body 1, .iter 0, .iter 0, .body 1, .iter 0, .iter 0, .iter 0,
     .iter 1, .body 1, .body 1, .iter 0], reachable_run .init _, by decide, ?_⟩
  exact stuck_iff.mp (by decide)

/-- the jam: who waits for whom -/
example :
    let s := run two (init two)
      [.iter 1, .iter 1, .body 1, .body 1, .iter 0, .iter 0, .body 1, .iter 0, .iter 0, .iter 0,
       .iter 1, .body 1, .body 1, .iter 0]
    s.hold 1 = some 5 ∧ s.chanB 1 = [3] ∧ s.bpend 1 = some 2 ∧ s.chanF 1 = [1] ∧ s.fb 1 = [4] ∧
    s.hold 0 = none ∧ s.toEmit 0 = [] := by
  decide

/-- the same elements through ONE replica terminate under the same kind of schedule (and under
    every other one, `loop_cycle_terminates`) -/
example :
    let one : Cfg := { two with reps := 1, input := fun _ => [1, 2, 3, 4, 5] }
    finalB one (run one (init one) ((List.replicate 12 (events one)).flatten)) = true := by
  decide

end Noir.LoopCycleMulti

