/-
  Props/C14Op.lean — C14 "per key": the session / processing-time managers behind the REAL keyed
  dispatch of `WindowOperator::next` (Model/TimeWindowOp.lean, a clock-threaded variant of
  Model/WindowOp.lean; lemmas in Lemmas/TimeWindowOp.lean).

  Input of the operator: `(now, element)` with `now : κ → Nat` — the clock reading the manager of key
  `k` takes if it is called for this element (data: only its key's manager; Watermark /
  FlushAndRestart / Terminate: every manager; FlushBatch: none). `proj k es` is what the manager of `k`
  sees: `k`'s data (key stripped) and all control elements, with `k`'s readings. The per-key theorems
  of Props/C14.lean lift along `timeop_keys_independent`; the clock assumption becomes
  "the readings of one key are non-decreasing" (`Mono (clocks (proj k es))`).
-/
import NoirVerif.Lemmas.TimeWindowOp
import NoirVerif.Props.C14
namespace Noir.TimeWindowOp
open Noir.TimeWin

variable {κ α : Type}

/-- the results of key `k` in the operator's output, in output order, key stripped -/
def keyResults [DecidableEq κ] {β : Type} (k : κ) (out : List (Elem (κ × β))) : List β := out.filterMap (keyOut k)

/-- the data elements of key `k` in arrival order, key stripped -/
def keyValues [DecidableEq κ] (k : κ) (es : List ((κ → Nat) × Elem (κ × α))) : List α :=
  es.filterMap fun p => match p.2 with
    | .item (k', x) => if k' = k then some x else none
    | .ts (k', x) _ => if k' = k then some x else none
    | _ => none

/-- no end-of-iteration marker among the operator's input elements -/
def NoEndOp (es : List ((κ → Nat) × Elem (κ × α))) : Prop := ∀ p ∈ es, p.2 ≠ Elem.far ∧ p.2 ≠ Elem.term

theorem sessionMgr_idle (gap : Nat) : Idle (sessionMgr α gap) := by
  intro now e he
  cases e <;> simp [Elem.isData] at he <;> simp [sessionMgr, SessionWindow.process, SessionWindow.expire]

theorem ptwinMgr_idle (c : ProcTimeWindow.Cfg) : Idle (ptwinMgr α c) := by
  intro now e he
  cases e <;> simp [Elem.isData] at he <;>
    simp [ptwinMgr, ProcTimeWindow.process, ProcTimeWindow.drainOld, ProcTimeWindow.drainAll]

/-- **Per-key projection (any clock-reading manager that is idle while fresh).** The results carrying
    key `k` are, in order, the results of ONE manager instance fed with `k`'s data and all
    Watermark / FlushAndRestart / Terminate elements — control elements reach every manager, other
    keys' data and FlushBatch reach none — with the clock readings that manager took. -/
theorem timeop_keys_independent [DecidableEq κ] {σ β : Type} (m : TMgr σ α β) (hidle : Idle m)
    (es : List ((κ → Nat) × Elem (κ × α))) (k : κ) :
    keyResults k (run m es) = soloRun m m.init (proj k es) ∧
    mgrOf m k (stateAfter m [] es) = soloState m m.init (proj k es) := by
  obtain ⟨h1, h2⟩ := runUnits_key m hidle k es [] (by simp [NoDupKeys, keys])
  exact ⟨by rw [keyResults, run, filterMap_flatten, h1]; rfl, by rw [h2]; rfl⟩

/-- what `proj` keeps (control elements reach all managers; FlushBatch and foreign data none) -/
theorem timeop_proj_spec [DecidableEq κ] (k k' : κ) (x : α) (t w : Int) :
    projElem k (Elem.wm w : Elem (κ × α)) = some (.wm w) ∧
    projElem k (Elem.far : Elem (κ × α)) = some .far ∧
    projElem k (Elem.term : Elem (κ × α)) = some .term ∧
    projElem k (Elem.flushBatch : Elem (κ × α)) = none ∧
    projElem k (Elem.item (k', x)) = (if k' = k then some (.item x) else none) ∧
    projElem k (Elem.ts (k', x) t) = (if k' = k then some (.ts x t) else none) :=
  ⟨rfl, rfl, rfl, rfl, rfl, rfl⟩

theorem soloRun_session (gap : Nat) : ∀ (es : List (Nat × Elem α)) (w : SessionWindow.State α),
    soloRun (sessionMgr α gap) w es = SessionWindow.outputs gap w es ∧
    soloState (sessionMgr α gap) w es = SessionWindow.stateAfter gap w es := by
  intro es
  induction es with
  | nil => intro w; exact ⟨rfl, rfl⟩
  | cons p es ih =>
    intro w; obtain ⟨now, e⟩ := p
    obtain ⟨h1, h2⟩ := ih (SessionWindow.process gap w now e).1
    exact ⟨by rw [SessionWindow.outputs_cons, ← h1]; rfl, by simp only [soloState, SessionWindow.stateAfter]; exact h2⟩

theorem soloRun_ptwin (c : ProcTimeWindow.Cfg) : ∀ (es : List (Nat × Elem α)) (ws : List (ProcTimeWindow.Slot α)),
    soloRun (ptwinMgr α c) ws es = ProcTimeWindow.outputs c ws es ∧
    soloState (ptwinMgr α c) ws es = ProcTimeWindow.stateAfter c ws es := by
  intro es
  induction es with
  | nil => intro ws; exact ⟨rfl, rfl⟩
  | cons p es ih =>
    intro ws; obtain ⟨now, e⟩ := p
    obtain ⟨h1, h2⟩ := ih (ProcTimeWindow.process c ws now e).1
    exact ⟨by simp only [soloRun, ProcTimeWindow.outputs]; rw [← h1]; rfl,
      by simp only [soloState, ProcTimeWindow.stateAfter]; exact h2⟩

theorem values_proj [DecidableEq κ] (k : κ) (es : List ((κ → Nat) × Elem (κ × α))) :
    values (proj k es) = keyValues k es := by
  induction es with
  | nil => rfl
  | cons p es ih =>
    obtain ⟨now, e⟩ := p
    simp only [proj, keyValues, List.filterMap_cons] at ih ⊢
    cases e with
    | item q => obtain ⟨k', x⟩ := q; by_cases hk : k' = k <;> simp [projElem, hk, values, Elem.value] at ih ⊢ <;> exact ih
    | ts q t => obtain ⟨k', x⟩ := q; by_cases hk : k' = k <;> simp [projElem, hk, values, Elem.value] at ih ⊢ <;> exact ih
    | wm w => simp [projElem, values, Elem.value] at ih ⊢; exact ih
    | flushBatch => simp [projElem, values, Elem.value] at ih ⊢; exact ih
    | term => simp [projElem, values, Elem.value] at ih ⊢; exact ih
    | far => simp [projElem, values, Elem.value] at ih ⊢; exact ih

theorem proj_append [DecidableEq κ] (k : κ) (a b : List ((κ → Nat) × Elem (κ × α))) :
    proj k (a ++ b) = proj k a ++ proj k b := by simp [proj]

theorem proj_end [DecidableEq κ] (k : κ) (now : κ → Nat) (e : Elem (κ × α)) (he : e = Elem.far ∨ e = Elem.term) :
    ∃ e' : Elem α, (e' = Elem.far ∨ e' = Elem.term) ∧ proj k [(now, e)] = [(now k, e')] := by
  rcases he with rfl | rfl
  · exact ⟨.far, Or.inl rfl, rfl⟩
  · exact ⟨.term, Or.inr rfl, rfl⟩

theorem noEnd_proj [DecidableEq κ] (k : κ) (es : List ((κ → Nat) × Elem (κ × α))) (h : NoEndOp es) :
    NoEnd (proj k es) := by
  intro q hq
  simp only [proj, List.mem_filterMap] at hq
  obtain ⟨p, hp, hq⟩ := hq
  obtain ⟨h1, h2⟩ := h p hp
  obtain ⟨now, e⟩ := p
  cases e with
  | item r => obtain ⟨k', x⟩ := r; by_cases hk : k' = k <;> simp [projElem, hk] at hq; subst hq; simp
  | ts r t => obtain ⟨k', x⟩ := r; by_cases hk : k' = k <;> simp [projElem, hk] at hq; subst hq; simp
  | wm w => simp [projElem] at hq; subst hq; simp
  | flushBatch => simp [projElem] at hq
  | term => exact absurd rfl h2
  | far => exact absurd rfl h1

/-! ## Session windows behind the keyed operator -/

/-- **C14, per key (session windows partition each key's elements).** Any interleaving of keys, any
    clock (no assumption at all), control elements anywhere: for every key `k`, the results carrying
    `k` concatenated in output order, followed by `k`'s still open session, are exactly `k`'s
    elements in arrival order; no result is empty. -/
theorem session_op_partition [DecidableEq κ] (gap : Nat) (es : List ((κ → Nat) × Elem (κ × α))) (k : κ) :
    (keyResults k (run (sessionMgr α gap) es)).flatten ++
      SessionWindow.pending (mgrOf (sessionMgr α gap) k (stateAfter (sessionMgr α gap) [] es)) = keyValues k es ∧
    ∀ r ∈ keyResults k (run (sessionMgr α gap) es), r ≠ [] := by
  obtain ⟨h1, h2⟩ := timeop_keys_independent (sessionMgr α gap) (sessionMgr_idle gap) es k
  obtain ⟨s1, s2⟩ := soloRun_session gap (proj k es) none
  have hp := SessionWindow.session_partition gap (proj k es)
  rw [h1, h2]
  show (soloRun (sessionMgr α gap) none _).flatten ++ SessionWindow.pending (soloState (sessionMgr α gap) none _) = _ ∧ _
  rw [s1, s2, ← values_proj]
  exact ⟨hp.1, fun r hr => hp.2 r (by rw [← s1]; exact hr)⟩

/-- **C14, per key, one whole iteration.** After the end marker every key's results concatenate to
    that key's elements and no key has an open session. -/
theorem session_op_iteration [DecidableEq κ] (gap : Nat) (es : List ((κ → Nat) × Elem (κ × α)))
    (now : κ → Nat) (e : Elem (κ × α)) (he : e = Elem.far ∨ e = Elem.term) (k : κ) :
    (keyResults k (run (sessionMgr α gap) (es ++ [(now, e)]))).flatten = keyValues k es ∧
    mgrOf (sessionMgr α gap) k (stateAfter (sessionMgr α gap) [] (es ++ [(now, e)])) = none := by
  obtain ⟨h1, h2⟩ := timeop_keys_independent (sessionMgr α gap) (sessionMgr_idle gap) (es ++ [(now, e)]) k
  obtain ⟨e', he', hpe⟩ := proj_end k now e he
  rw [proj_append, hpe] at h1 h2
  obtain ⟨s1, s2⟩ := soloRun_session gap (proj k es ++ [(now k, e')]) none
  obtain ⟨p1, _, p3⟩ := SessionWindow.session_iteration_partition gap (now k) (proj k es) e' he'
  rw [h1, h2]
  show (soloRun (sessionMgr α gap) none _).flatten = _ ∧ soloState (sessionMgr α gap) none _ = _
  rw [s1, s2, p1, p3, values_proj]
  exact ⟨rfl, rfl⟩

/-- **C14, per key (where the sessions of a key split).** If the clock readings taken by the manager
    of `k` are non-decreasing, the results of `k` in an iteration are the maximal runs of `k`'s elements
    with inter-arrival clock difference `≤ gap` (split iff `> gap`, strict) — whatever the other keys
    do. Other keys' *data* never closes `k`'s session; a control element (which the traffic of any
    key may cause) can only make an already expired session of `k` come out earlier. -/
theorem session_op_split_iff_gap [DecidableEq κ] (gap : Nat) (es : List ((κ → Nat) × Elem (κ × α)))
    (now : κ → Nat) (e : Elem (κ × α)) (he : e = Elem.far ∨ e = Elem.term) (k : κ)
    (hne : NoEndOp es) (hm : Mono (clocks (proj k es) ++ [now k])) :
    keyResults k (run (sessionMgr α gap) (es ++ [(now, e)])) = SessionWindow.groups gap (timed (proj k es)) := by
  obtain ⟨h1, _⟩ := timeop_keys_independent (sessionMgr α gap) (sessionMgr_idle gap) (es ++ [(now, e)]) k
  obtain ⟨e', he', hpe⟩ := proj_end k now e he
  rw [proj_append, hpe] at h1
  rw [h1]
  show soloRun (sessionMgr α gap) none _ = _
  rw [(soloRun_session gap _ none).1]
  exact SessionWindow.session_split_iff_gap gap (now k) (proj k es) e' he' (noEnd_proj k es hne) hm

/-- The scenario "a key's session is emitted only because of a control element caused by another
    key's traffic": gap 10; key 1 gets `a` at clock 0; key 2 gets `b` at 15 (this does not touch key 1's
    manager); a Watermark at 16 reaches every manager: key 1's session has expired (16 - 0 > 10) and
    comes out before the Watermark is forwarded, key 2's (16 - 15 ≤ 10) stays open until the end. -/
example : run (sessionMgr Nat 10)
    [(fun _ => 0, Elem.ts ((1 : Nat), 100) 0), (fun _ => 15, .ts (2, 200) 15), (fun _ => 16, .wm 15),
     (fun _ => 17, .ts (1, 101) 17), (fun _ => 18, .far)]
    = [.item (1, [100]), .wm 15, .item (1, [101]), .item (2, [200]), .far] := by decide

/-! ## Processing-time windows behind the keyed operator -/

/-- **C14, per key (results are non-empty subsequences of the key's elements).** Any configuration,
    any clock. -/
theorem ptwin_op_order_kept [DecidableEq κ] (c : ProcTimeWindow.Cfg) (es : List ((κ → Nat) × Elem (κ × α))) (k : κ) :
    ∀ r ∈ keyResults k (run (ptwinMgr α c) es), r ≠ [] ∧ r.Sublist (keyValues k es) := by
  obtain ⟨h1, _⟩ := timeop_keys_independent (ptwinMgr α c) (ptwinMgr_idle c) es k
  rw [h1]
  show ∀ r ∈ soloRun (ptwinMgr α c) [] _, _
  rw [(soloRun_ptwin c _ []).1, ← values_proj]
  intro r hr
  exact ⟨ProcTimeWindow.ptwin_no_empty_output c _ r hr, ProcTimeWindow.ptwin_order_kept c _ r hr⟩

/-- **C14, per key (tumbling windows partition each key's elements).** `slide = size ≥ 1`, the
    readings of `k`'s manager non-decreasing: the results carrying `k`, concatenated in output order,
    followed by what `k`'s manager still holds, are `k`'s elements in arrival order. -/
theorem ptwin_op_tumbling_partition [DecidableEq κ] (c : ProcTimeWindow.Cfg) (hsz : 1 ≤ c.size)
    (hts : c.slide = c.size) (es : List ((κ → Nat) × Elem (κ × α))) (k : κ)
    (hm : Mono (clocks (proj k es))) :
    (keyResults k (run (ptwinMgr α c) es)).flatten ++
      ProcTimeWindow.content (mgrOf (ptwinMgr α c) k (stateAfter (ptwinMgr α c) [] es)) = keyValues k es := by
  obtain ⟨h1, h2⟩ := timeop_keys_independent (ptwinMgr α c) (ptwinMgr_idle c) es k
  rw [h1, h2]
  show (soloRun (ptwinMgr α c) [] _).flatten ++ ProcTimeWindow.content (soloState (ptwinMgr α c) [] _) = _
  rw [(soloRun_ptwin c _ []).1, (soloRun_ptwin c _ []).2, ← values_proj]
  exact ProcTimeWindow.ptwin_tumbling_partition c hsz hts (proj k es) hm

/-- **C14, per key, one whole iteration (tumbling).** -/
theorem ptwin_op_tumbling_iteration [DecidableEq κ] (c : ProcTimeWindow.Cfg) (hsz : 1 ≤ c.size)
    (hts : c.slide = c.size) (es : List ((κ → Nat) × Elem (κ × α)))
    (now : κ → Nat) (e : Elem (κ × α)) (he : e = Elem.far ∨ e = Elem.term) (k : κ)
    (hm : Mono (clocks (proj k es) ++ [now k])) :
    (keyResults k (run (ptwinMgr α c) (es ++ [(now, e)]))).flatten = keyValues k es ∧
    mgrOf (ptwinMgr α c) k (stateAfter (ptwinMgr α c) [] (es ++ [(now, e)])) = [] := by
  obtain ⟨h1, h2⟩ := timeop_keys_independent (ptwinMgr α c) (ptwinMgr_idle c) (es ++ [(now, e)]) k
  obtain ⟨e', he', hpe⟩ := proj_end k now e he
  rw [proj_append, hpe] at h1 h2
  obtain ⟨p1, p2⟩ := ProcTimeWindow.ptwin_tumbling_iteration c hsz hts (proj k es) (now k) e' he' hm
  rw [h1, h2]
  show (soloRun (ptwinMgr α c) [] _).flatten = _ ∧ soloState (ptwinMgr α c) [] _ = _
  rw [(soloRun_ptwin c _ []).1, (soloRun_ptwin c _ []).2, p1, p2, values_proj]
  exact ⟨rfl, rfl⟩

/-- **C14, per key (sliding cover).** `1 ≤ slide ≤ size`, `k`'s readings non-decreasing, one whole
    iteration: every value occurs in the results of `k` at least as often as among `k`'s elements and
    at most `ceil(size/slide)` times as often. -/
theorem ptwin_op_sliding_cover [DecidableEq κ] [DecidableEq α] (c : ProcTimeWindow.Cfg) (hs : 1 ≤ c.slide)
    (hss : c.slide ≤ c.size) (es : List ((κ → Nat) × Elem (κ × α)))
    (now : κ → Nat) (e : Elem (κ × α)) (he : e = Elem.far ∨ e = Elem.term) (k : κ)
    (hm : Mono (clocks (proj k es) ++ [now k])) (y : α) :
    (keyValues k es).count y ≤ (keyResults k (run (ptwinMgr α c) (es ++ [(now, e)]))).flatten.count y ∧
    (keyResults k (run (ptwinMgr α c) (es ++ [(now, e)]))).flatten.count y
      ≤ (c.size + c.slide - 1) / c.slide * (keyValues k es).count y := by
  obtain ⟨h1, _⟩ := timeop_keys_independent (ptwinMgr α c) (ptwinMgr_idle c) (es ++ [(now, e)]) k
  obtain ⟨e', he', hpe⟩ := proj_end k now e he
  rw [proj_append, hpe] at h1
  rw [h1]
  show _ ≤ (soloRun (ptwinMgr α c) [] _).flatten.count y ∧ (soloRun (ptwinMgr α c) [] _).flatten.count y ≤ _
  rw [(soloRun_ptwin c _ []).1, ← values_proj]
  exact ProcTimeWindow.ptwin_sliding_cover c hs hss (proj k es) (now k) e' he' hm y

/-- two interleaved keys, tumbling size 10: each key's windows are anchored at its own first element -/
example : run (ptwinMgr Nat ⟨10, 10⟩)
    [(fun _ => 0, Elem.item ((1 : Nat), 100)), (fun _ => 4, .item (2, 200)), (fun _ => 9, .item (1, 101)),
     (fun _ => 12, .item (2, 201)), (fun _ => 15, .item (1, 102)), (fun _ => 16, .far)]
    = [.item (1, [100, 101]), .item (1, [102]), .item (2, [200, 201]), .far] := by decide

end Noir.TimeWindowOp
