/-
  Props/C02.lean — property theorems for C02 (every link delivers each element exactly once and in
  order). Helper lemmas live in Lemmas/{Batcher,Framing,Link}.lean; this file contains only the
  statements a reader should audit.

  Three layers (DESIGN.md §5 C02):
  * `Batcher`  — what a producer hands to its `NetworkSender`, batch by batch;
  * `Framing`  — the byte format of a multiplexed TCP connection;
  * `Link`     — the pipeline of FIFO stages (batcher → [mux → TCP → demux →] local channel) shared by
                 several producers and consumers, under an arbitrary schedule of stage moves.
-/
import NoirVerif.Lemmas.Batcher
import NoirVerif.Lemmas.Framing
import NoirVerif.Lemmas.Link

/-! ## Batcher -/
namespace Noir.Batcher

variable {α : Type}

/-- **C02 (batcher conserves the stream).** For every mode, every clock behaviour (the `elapsed`
    flags) and every sequence of `enqueue`/`flush`/`end` calls on a fresh batcher: the batches
    sent so far, concatenated, followed by the buffer, are exactly the enqueued elements in order
    (nothing lost, duplicated, reordered); no empty batch is ever sent; `Single` sends singletons
    and buffers nothing. (`ops` is arbitrary, so this is a statement about every reachable state.) -/
theorem batcher_conserve (m : Mode) (ops : List (Op α)) :
    (run m [] ops).2.flatten ++ (run m [] ops).1 = enqueued ops ∧
    (∀ b ∈ (run m [] ops).2, b ≠ []) ∧
    (m = .single → (run m [] ops).1 = [] ∧ ∀ b ∈ (run m [] ops).2, b.length = 1) := by
  refine ⟨by simpa using run_conserve m ops [] (fun _ => rfl), run_nonempty m ops [], ?_⟩
  intro hm
  subst hm
  obtain ⟨h1, h2⟩ := run_bound (α := α) .single (by simp [Mode.maxSize]) ops [] rfl
  refine ⟨h1, ?_⟩
  intro b hb
  have := h2 b hb
  have hne := run_nonempty .single ops [] b hb
  simp only [Mode.maxSize] at this
  cases b with
  | nil => exact absurd rfl hne
  | cons x xs => simp at this ⊢; exact this

/-- **C02 (nothing is withheld after a flush).** After `flush` or `end` the buffer is empty, hence
    (with `batcher_conserve`) everything enqueued so far has been sent. -/
theorem batcher_flush_complete (m : Mode) (ops : List (Op α)) (last : Op α)
    (hl : last = .flush ∨ last = .end_) :
    (run m [] (ops ++ [last])).1 = [] ∧
    (run m [] (ops ++ [last])).2.flatten = enqueued ops := by
  have hc := run_conserve m (ops ++ [last]) [] (fun _ => rfl)
  have hb : (run m [] (ops ++ [last])).1 = [] := by
    have : ∀ (ops : List (Op α)) (buf : List α), (run m buf (ops ++ [last])).1 = [] := by
      intro ops
      induction ops with
      | nil =>
        intro buf
        rcases hl with rfl | rfl
        · simp [run, step, flush_fst]
        · simp [run, step, end_fst]
      | cons op ops ih => intro buf; simpa [run] using ih _
    exact this ops []
  refine ⟨hb, ?_⟩
  rw [hb] at hc
  have he : enqueued (ops ++ [last]) = enqueued ops := by
    have : ∀ ops : List (Op α), enqueued (ops ++ [last]) = enqueued ops := by
      intro ops
      induction ops with
      | nil => rcases hl with rfl | rfl <;> rfl
      | cons op ops ih => rw [List.cons_append, enqueued_cons, ih, ← enqueued_cons]
    exact this ops
  simpa [he] using hc

/-- `End::next` leaves nothing in the batcher after `FlushBatch`, `FlushAndRestart`, `Terminate`. -/
theorem end_flushes_on_control (m : Mode) (buf : List (Elem α)) (el : Bool) (e : Elem α)
    (he : e = .flushBatch ∨ e = .far ∨ e = .term) :
    (run m buf (opsOfElem el e)).1 = [] := by
  rcases he with rfl | rfl | rfl <;> simp [opsOfElem, run, step, flush_fst, end_fst]

/-- **C02 (batch sizes).** With batch size `n ≥ 1` (`Fixed n` / `Adaptive n`; 1 for `Single`), in
    every reachable state the buffer holds fewer than `n` elements and every batch sent has
    between 1 and `n` elements. -/
theorem batcher_size_bound (m : Mode) (hn : 1 ≤ m.maxSize) (ops : List (Op α)) :
    (run m [] ops).1.length < m.maxSize ∧
    ∀ b ∈ (run m [] ops).2, 1 ≤ b.length ∧ b.length ≤ m.maxSize := by
  obtain ⟨h1, h2⟩ := run_bound m hn ops ([] : List α) (bufOk_nil m hn)
  refine ⟨?_, fun b hb => ⟨?_, h2 b hb⟩⟩
  · cases m <;> simp_all [BufOk, Mode.maxSize]
  · have := run_nonempty m ops [] b hb
    cases b with
    | nil => exact absurd rfl this
    | cons x xs => simp

/-- Under `Fixed n` a batch is cut by `enqueue` only when it is full: an `enqueue` sends nothing,
    or exactly the `n` buffered elements. Shorter batches come from `flush`/`end` only. -/
theorem batcher_fixed_full (n : Nat) (buf : List α) (h : buf.length < n) (e : α) (el : Bool) :
    (enqueue (.fixed n) buf e el).2 = [] ∨
    (buf.length + 1 = n ∧ enqueue (.fixed n) buf e el = ([], [buf ++ [e]])) :=
  fixed_enqueue_full n buf h e el

/-- Non-vacuity: `Fixed 2`, five elements with a flush in between. -/
example : run (.fixed 2) [] [.enqueue 1 false, .enqueue 2 false, .enqueue 3 false, .flush,
    .enqueue 4 false, .enqueue 5 true, .end_] = ([], [[1, 2], [3], [4, 5]]) := by decide

/-- Non-vacuity: `Adaptive 3` flushes early when the timer elapsed. -/
example : run (.adaptive 3) [] [.enqueue 1 false, .enqueue 2 true, .enqueue 3 false]
    = ([3], [[1, 2]]) := by decide

end Noir.Batcher

/-! ## Framing -/
namespace Noir.Framing

/-- **C02 (header).** Decoding an encoded header gives the header back, for all values that fit the
    Rust field types (`u32`, `u64`, `u64`). -/
theorem header_roundtrip (h : Header) (hv : h.Valid) : decodeHeader (encodeHeader h) = h :=
  decode_encode h hv

/-- The encoded header has exactly `HEADER_SIZE` bytes, where `HEADER_SIZE` is the constant
    extracted from `src/network/sync/remote.rs` on every run (so `remote_recv`'s
    `read_exact(&mut [0u8; HEADER_SIZE])` reads exactly the header). -/
theorem header_length (h : Header) : (encodeHeader h).length = Noir.Consts.HEADER_SIZE := by
  rw [encodeHeader_length, header_size_eq]

/-- **C02 (framing).** Any sequence of frames (payloads shorter than 2³² bytes, ids `u64`) written
    back to back on one connection is read back as exactly the same sequence — same routing tags,
    same payload bytes, same order — with nothing left over. -/
theorem frame_roundtrip (fs : List Frame) (hv : ∀ f ∈ fs, f.Valid) :
    deframe (fs.flatMap frame) = (fs, []) := by
  induction fs with
  | nil => simp [deframe_short]
  | cons f fs ih =>
    rw [List.flatMap_cons, deframe_frame_append f (hv f (by simp)),
      ih (fun g hg => hv g (by simp [hg]))]

/-- Same with trailing bytes that are too short to be a header: they are left untouched. -/
theorem frame_roundtrip_rest (fs : List Frame) (hv : ∀ f ∈ fs, f.Valid) (rest : List UInt8)
    (hr : rest.length < Noir.Consts.HEADER_SIZE) :
    deframe (fs.flatMap frame ++ rest) = (fs, rest) := by
  rw [header_size_eq] at hr
  induction fs with
  | nil => simp [deframe_short _ hr]
  | cons f fs ih =>
    rw [List.flatMap_cons, List.append_assoc, deframe_frame_append f (hv f (by simp)),
      ih (fun g hg => hv g (by simp [hg]))]

/-- **C02 (partial arrival — `read_exact` over arbitrarily chunked reads).** When only the first `k`
    bytes of a framed stream have arrived (for any `k`: TCP may cut anywhere, inside a header or a
    payload), what `remote_recv` has decoded is exactly the first `j` frames for some `j` — never a
    corrupted, shifted or later frame — the undecoded rest is the arrived part of frame `j`, and it
    is a strict prefix of it (every complete frame has been decoded). -/
theorem deframe_prefix (fs : List Frame) (hv : ∀ f ∈ fs, f.Valid) (k : Nat) :
    ∃ j, j ≤ fs.length ∧
      (deframe ((fs.flatMap frame).take k)).1 = fs.take j ∧
      (fs.take j).flatMap frame ++ (deframe ((fs.flatMap frame).take k)).2 = (fs.flatMap frame).take k ∧
      (∀ hj : j < fs.length, (deframe ((fs.flatMap frame).take k)).2.length < (frame fs[j]).length) :=
  deframe_take fs hv k

/-- Non-vacuity: two frames for different replicas. -/
example : deframe (frame ⟨1, 7, [10, 20, 30]⟩ ++ frame ⟨0, 7, []⟩) =
    ([⟨1, 7, [10, 20, 30]⟩, ⟨0, 7, []⟩], []) := by
  have h := frame_roundtrip [⟨1, 7, [10, 20, 30]⟩, ⟨0, 7, []⟩]
    (by intro f hf; simp at hf; rcases hf with rfl | rfl <;> simp [Frame.Valid, Frame.header, Header.Valid])
  simpa using h

end Noir.Framing

/-! ## Link -/
namespace Noir.Link

variable {ε : Type}

/-- **C02 (demultiplexing).** The endpoint the demux thread rebuilds from its own `DemuxCoord` and
    the header's `(replica_id, sender_block_id)` is the endpoint the message was sent to; and
    within one demultiplexer two different endpoints never share a tag. -/
theorem demux_routes_to_tag (c : Endpoint) :
    rebuild (demuxOf c) (tagOf c) = c ∧
    ∀ c', demuxOf c' = demuxOf c → tagOf c' = tagOf c → c' = c := by
  refine ⟨rebuild_tag c, ?_⟩
  intro c' h1 h2
  rw [← rebuild_tag c', h1, h2, rebuild_tag]

/-- **C02 (link invariant).** In every state reachable from the empty network under ANY schedule
    of stage moves (batcher calls of any producer, mux writes, demux reads, consumer receives,
    consumers dropping their receiver, in any interleaving, with any batch mode per producer), for
    every producer `p` and consumer endpoint `c`:
    what `c` has received from `p`, followed by what was discarded because `c`'s receiver was gone
    (demultiplexer.rs:179), followed by what is in flight from `p` to `c` (oldest first: `c`'s local
    channel, the TCP stream, the mux queue, `p`'s batcher), is exactly the sequence `p` emitted
    towards `c`; every queue only holds messages leading to their destination (`Routed`): nothing
    addressed to `c` is in, or is delivered from, a queue leading elsewhere; and nothing is ever
    discarded for a consumer that still holds its receiver. -/
theorem link_prefix (mode : Coord → Batcher.Mode) (mvs : List (Move ε)) :
    let s := run mode (State.init : State ε) mvs
    (∀ p c, deliveredFrom s p c ++ droppedFrom s p c ++ inflight s p c = s.emitted p c) ∧ Routed s ∧
    (∀ c, s.gone c = false → s.dropped c = []) := by
  have h := run_inv mode mvs _ (inv_init (ε := ε) mode)
  exact ⟨h.bal, h.routed, h.alive⟩

/-- **C02 (no loss/duplication/reordering, stated on the consumer side).** At any time, for every
    consumer (alive or gone), what `c` has received from `p` is a prefix of what `p` emitted towards
    `c`. -/
theorem link_delivered_prefix (mode : Coord → Batcher.Mode) (mvs : List (Move ε)) (p : Coord)
    (c : Endpoint) :
    let s := run mode (State.init : State ε) mvs
    deliveredFrom s p c <+: s.emitted p c := by
  intro s
  exact ⟨droppedFrom s p c ++ inflight s p c, by
    rw [← List.append_assoc]; exact (link_prefix mode mvs).1 p c⟩

/-- **C02 (no misdelivery).** Nothing addressed to endpoint `c` is ever received by another
    endpoint `c'`. -/
theorem link_no_misdelivery (mode : Coord → Batcher.Mode) (mvs : List (Move ε)) (p : Coord)
    (c c' : Endpoint) (hne : c' ≠ c) :
    proj p c ((run mode (State.init : State ε) mvs).delivered c') = [] := by
  have h := (link_prefix mode mvs).2.1
  apply proj_eq_nil
  intro m hm ⟨_, h2⟩
  exact hne ((h.delivered c' m hm).symm.trans h2)

/-- **C02 (the only loss is towards a receiver that is gone).** If anything addressed to `c` was
    discarded, `c` had dropped its receiver. -/
theorem link_drop_only_when_gone (mode : Coord → Batcher.Mode) (mvs : List (Move ε)) (p : Coord)
    (c : Endpoint) (hd : droppedFrom (run mode (State.init : State ε) mvs) p c ≠ []) :
    (run mode (State.init : State ε) mvs).gone c = true := by
  cases hg : (run mode (State.init : State ε) mvs).gone c with
  | true => rfl
  | false =>
    have := (link_prefix mode mvs).2.2 c hg
    simp [droppedFrom, this] at hd

/-- **C02 (exactness).** When nothing is in flight any more (all queues and batcher buffers empty),
    every consumer endpoint that still holds its receiver has received from every producer exactly
    the sequence that producer emitted towards it. (In the engine a consumer drops its receiver only
    after `Terminate` from every producer of the endpoint, the last element of each link; see
    Model/Link.lean.) -/
theorem link_exact_at_quiescence (mode : Coord → Batcher.Mode) (mvs : List (Move ε))
    (hq : Quiescent (run mode (State.init : State ε) mvs)) (p : Coord) (c : Endpoint)
    (halive : (run mode (State.init : State ε) mvs).gone c = false) :
    deliveredFrom (run mode (State.init : State ε) mvs) p c
      = (run mode (State.init : State ε) mvs).emitted p c := by
  have h := (link_prefix mode mvs).1 p c
  have hd := (link_prefix mode mvs).2.2 c halive
  obtain ⟨h1, h2, h3, h4⟩ := hq
  simpa [inflight, droppedFrom, hd, h1, h2, h3, h4] using h

/-- Accounting at quiescence for any consumer: received followed by discarded is what was emitted. -/
theorem link_accounting_at_quiescence (mode : Coord → Batcher.Mode) (mvs : List (Move ε))
    (hq : Quiescent (run mode (State.init : State ε) mvs)) (p : Coord) (c : Endpoint) :
    deliveredFrom (run mode (State.init : State ε) mvs) p c
      ++ droppedFrom (run mode (State.init : State ε) mvs) p c
      = (run mode (State.init : State ε) mvs).emitted p c := by
  have h := (link_prefix mode mvs).1 p c
  obtain ⟨h1, h2, h3, h4⟩ := hq
  simpa [inflight, h1, h2, h3, h4] using h

/-- The ghost `emitted` is what it says: a batcher move that is enabled appends exactly the element
    it enqueues, a direct send that is enabled appends exactly its batch; no other move touches it. -/
theorem emitted_step (mode : Coord → Batcher.Mode) (s : State ε) (mv : Move ε) (p : Coord)
    (c : Endpoint) :
    (step mode s mv).emitted p c = s.emitted p c ∨
    (∃ e el, mv = .batcher p c (.enqueue e el) ∧ (step mode s mv).emitted p c = s.emitted p c ++ [e]) ∨
    (∃ body, mv = .send p c body ∧ (step mode s mv).emitted p c = s.emitted p c ++ body) := by
  cases mv with
  | send p0 c0 body =>
    simp only [step]
    split
    · have hs : ∀ (s1 : State ε) (bs : List (List ε)), (sendTo s1 p0 c0 bs).emitted = s1.emitted := by
        intro s1 bs; unfold sendTo; split <;> rfl
      rw [hs]
      simp only [upd2]
      by_cases hpc : p = p0 ∧ c = c0
      · obtain ⟨rfl, rfl⟩ := hpc
        right; right; exact ⟨body, rfl, by simp⟩
      · left; simp [hpc]
    · left; rfl
  | muxSend k => left; simp only [step]; split <;> rfl
  | demux k =>
    left; simp only [step]
    split
    · rfl
    · split
      · rfl
      · split <;> rfl
  | recv c0 =>
    left; simp only [step]
    split
    · rfl
    · split <;> rfl
  | leave c0 => left; simp only [step]; split <;> rfl
  | batcher p0 c0 op =>
    simp only [step]
    split
    · have hs : ∀ (s1 : State ε) (bs : List (List ε)), (sendTo s1 p0 c0 bs).emitted = s1.emitted := by
        intro s1 bs; unfold sendTo; split <;> rfl
      rw [hs]
      simp only [upd2]
      by_cases hpc : p = p0 ∧ c = c0
      · obtain ⟨rfl, rfl⟩ := hpc
        cases op with
        | enqueue e el => right; left; exact ⟨e, el, rfl, by simp [Batcher.enqueued]⟩
        | flush => left; simp [Batcher.enqueued]
        | end_ => left; simp [Batcher.enqueued]
      · left; simp [hpc]
    · left; rfl

/-- Non-vacuity: two producers on different hosts (one local to the consumer, one remote) send to
    the same endpoint with `Fixed 2` / `Single`; after this schedule the network is quiescent and
    the consumer has received each producer's elements in order. -/
example :
    let p1 : Coord := ⟨0, 0, 0⟩
    let p2 : Coord := ⟨0, 1, 0⟩
    let c : Endpoint := ⟨1, 0, 0, 0⟩
    let mode : Coord → Batcher.Mode := fun p => if p.host = 0 then .fixed 2 else .single
    let s := run mode (State.init : State Nat)
      [.batcher p2 c (.enqueue 10 false), .batcher p1 c (.enqueue 1 false), .muxSend (connOf p2 c),
       .batcher p1 c (.enqueue 2 false), .batcher p2 c (.enqueue 11 false), .demux (connOf p2 c),
       .recv c, .muxSend (connOf p2 c), .recv c, .demux (connOf p2 c), .recv c]
    deliveredFrom s p1 c = [1, 2] ∧ deliveredFrom s p2 c = [10, 11] ∧
    s.chan c = [] ∧ s.mux (connOf p2 c) = [] ∧ s.wire (connOf p2 c) = [] := by
  decide

/-- Non-vacuity of the drop branch: a remote consumer drops its receiver while a message is still
    on the TCP stream; the demux thread discards it. What was received stays a prefix. -/
example :
    let p : Coord := ⟨0, 1, 0⟩
    let c : Endpoint := ⟨1, 0, 0, 0⟩
    let s := run (fun _ => .single) (State.init : State Nat)
      [.batcher p c (.enqueue 10 false), .muxSend (connOf p c), .demux (connOf p c), .recv c,
       .batcher p c (.enqueue 11 false), .muxSend (connOf p c), .leave c, .demux (connOf p c)]
    deliveredFrom s p c = [10] ∧ droppedFrom s p c = [11] ∧ s.emitted p c = [10, 11] := by
  decide

/-- Non-vacuity of direct sends (the `mux` harness): two senders interleave whole batches, one of
    them empty, towards two endpoints of the same demultiplexer over one connection. -/
example :
    let p1 : Coord := ⟨0, 1, 0⟩
    let p2 : Coord := ⟨0, 1, 1⟩
    let c1 : Endpoint := ⟨1, 0, 0, 0⟩
    let c2 : Endpoint := ⟨1, 0, 5, 0⟩
    let k := connOf p1 c1
    let s := run (fun _ => .single) (State.init : State Nat)
      [.send p1 c1 [1, 2], .send p2 c2 [], .send p2 c1 [7], .muxSend k, .muxSend k, .send p1 c1 [3],
       .muxSend k, .demux k, .demux k, .demux k, .muxSend k, .demux k, .recv c1, .recv c1, .recv c1, .recv c2]
    connOf p2 c2 = k ∧ deliveredFrom s p1 c1 = [1, 2, 3] ∧ deliveredFrom s p2 c1 = [7] ∧
    (s.delivered c2).map (·.body) = [[]] ∧ (s.delivered c1).map (·.body) = [[1, 2], [7], [3]] := by
  decide

end Noir.Link
