/-
  Props/C13Twin.lean — run-level theorems for transaction windows (C13: "transaction windows commit
  exactly as the user logic dictates"). Model: Model/TransactionWindow.lean; keyed dispatch:
  Model/WindowOp.lean with the generic per-key projection `winop_keys_independent`
  (Lemmas/WindowOp.lean). The one-step semantics is `twin_commit_semantics` (Props/C13.lean), the
  remark about open transactions surviving `FlushAndRestart` is
  `twin_open_transaction_survives_far` (Props/C05WinOp.lean).
-/
import NoirVerif.Lemmas.WindowOp
namespace Noir.TransactionWindow
open Noir.WindowOp

variable {α κ : Type}

/-- a registered deadline `d`: watermarks `≤ d` do nothing, the first watermark `w > d` commits
    (strictly: `close < ts`, transaction.rs:76) -/
theorem run_deadline_wm (f : α → TxOp) (items : List α) (d : Int) (ws : List Int) (w : Int) (i : Nat)
    (hws : ∀ v ∈ ws, v ≤ d) (hw : d < w) :
    runFrom f (some ⟨items, some d⟩) i (ws.map (fun v => Elem.wm v) ++ [.wm w]) =
      [(i + ws.length, ⟨items, none⟩)] := by
  rw [run_wms_before f items d ws i _ hws]
  simp [runFrom, process, hw, out]

/-- … and the end of the iteration commits it whatever the watermarks were -/
theorem run_deadline_far (f : α → TxOp) (items : List α) (d : Int) (ws : List Int) (i : Nat)
    (hws : ∀ v ∈ ws, v ≤ d) :
    runFrom f (some ⟨items, some d⟩) i (ws.map (fun v => Elem.wm v) ++ [.far]) =
      [(i + ws.length, ⟨items, none⟩)] := by
  rw [run_wms_before f items d ws i _ hws]
  simp [runFrom, process, out]

/-- from a closed window, `Continue` elements `xs` followed by an element `y` with
    `CommitAfter(d)` emit nothing and leave the window `xs ++ [y]` open with deadline `d` -/
theorem run_until_deadline (f : α → TxOp) (xs : List (α × Int)) (y : α) (t d : Int) (rest : List (Elem α))
    (hx : ∀ p ∈ xs, f p.1 = .continue_) (hy : f y = .commitAfter d) :
    run f (xs.map (fun p => Elem.ts p.1 p.2) ++ .ts y t :: rest) =
      runFrom f (some ⟨xs.map (·.1) ++ [y], some d⟩) (xs.length + 1) rest := by
  cases xs with
  | nil => simp [run, runFrom, process, hy]
  | cons p xs =>
    have hp : f p.1 = .continue_ := hx p (by simp)
    simp only [run, List.map_cons, List.cons_append, runFrom, process, hp, List.map_nil, List.nil_append]
    rw [run_continue f xs _ _ _ _ (fun q hq => hx q (by simp [hq]))]
    simp only [runFrom, process, hy, List.map_nil, List.nil_append, List.length_cons]
    have h1 : 0 + 1 + xs.length + 1 = xs.length + 1 + 1 := by omega
    rw [h1]
    simp

/-- **C13 (transaction windows, `CommitAfter`, what the code does).** From a closed window:
    `Continue` elements `xs`, then an element `y` whose command is `CommitAfter(d)`, then any
    watermarks `≤ d`, then a watermark `w > d`. Exactly one result is emitted — `xs ++ [y]` in
    arrival order, untimestamped — and it is emitted at that first watermark STRICTLY greater
    than `d` (a watermark equal to `d` does not commit). -/
theorem twin_commit_after (f : α → TxOp) (xs : List (α × Int)) (y : α) (t d : Int) (ws : List Int) (w : Int)
    (hx : ∀ p ∈ xs, f p.1 = .continue_) (hy : f y = .commitAfter d)
    (hws : ∀ v ∈ ws, v ≤ d) (hw : d < w) :
    run f (xs.map (fun p => Elem.ts p.1 p.2) ++ .ts y t :: (ws.map (fun v => Elem.wm v) ++ [.wm w])) =
      [(xs.length + 1 + ws.length, ⟨xs.map (·.1) ++ [y], none⟩)] := by
  rw [run_until_deadline f xs y t d _ hx hy, run_deadline_wm f _ d ws w _ hws hw]

/-- **C13 (transaction windows, `CommitAfter` at the end of the iteration).** If no watermark
    greater than `d` arrives, the window is committed by `FlushAndRestart` (same for `Terminate`,
    `twin_commit_semantics`). -/
theorem twin_commit_after_far (f : α → TxOp) (xs : List (α × Int)) (y : α) (t d : Int) (ws : List Int)
    (hx : ∀ p ∈ xs, f p.1 = .continue_) (hy : f y = .commitAfter d) (hws : ∀ v ∈ ws, v ≤ d) :
    run f (xs.map (fun p => Elem.ts p.1 p.2) ++ .ts y t :: (ws.map (fun v => Elem.wm v) ++ [.far])) =
      [(xs.length + 1 + ws.length, ⟨xs.map (·.1) ++ [y], none⟩)] := by
  rw [run_until_deadline f xs y t d _ hx hy, run_deadline_far f _ d ws _ hws]

/-! ### keyed operator -/

/-- The solo instance of the generic projection (manager re-created from `init` after it was
    recycled) is, for transaction windows, just the manager itself: `init` is "no window" and the
    manager is recyclable exactly when it has no window. -/
theorem recycle_getD (x : State α) :
    (if recycle x = true then (none : Option (State α)) else some x).getD none = x := by
  cases x <;> simp [recycle]

theorem twin_solo_step (f : α → TxOp) (o : Option (State α)) (e : Elem α) :
    (soloStep (mgr f) o e).2 = (process f (o.getD none) e).2 ∧
    (soloStep (mgr f) o e).1.getD none = (process f (o.getD none) e).1 := by
  cases e with
  | item x => cases o <;> simp [soloStep, mgr, process]
  | ts x t => cases o <;> simp [soloStep, mgr]
  | flushBatch => cases o <;> simp [soloStep, process]
  | wm w =>
    cases o with
    | none => simp [soloStep, process]
    | some s =>
      simp only [soloStep, mgr, Option.getD_some]
      exact ⟨trivial, recycle_getD _⟩
  | term =>
    cases o with
    | none => simp [soloStep, process]
    | some s =>
      simp only [soloStep, mgr, Option.getD_some]
      exact ⟨trivial, recycle_getD _⟩
  | far =>
    cases o with
    | none => simp [soloStep, process]
    | some s =>
      simp only [soloStep, mgr, Option.getD_some]
      exact ⟨trivial, recycle_getD _⟩

theorem twin_solo (f : α → TxOp) : ∀ (es : List (Elem α)) (o : Option (State α)),
    soloRun (mgr f) o es = results f (o.getD none) es := by
  intro es
  induction es with
  | nil => intros; rfl
  | cons e es ih =>
    intro o
    obtain ⟨h1, h2⟩ := twin_solo_step f o e
    simp only [soloRun, results, h1, ih, h2]

/-- **C13 (transaction windows, keyed).** For any user logic and any keyed input, the results the
    `WindowOperator` emits for key `k` — in output order — are exactly the results of ONE
    transaction-window manager fed with `k`'s elements and the control elements: transactions of
    different keys never mix and do not influence each other (the commit rules
    `twin_transaction_commit`, `twin_commit_after`, `twin_commit_semantics` apply per key). -/
theorem twin_keyed [DecidableEq κ] (f : α → TxOp) (es : List (Elem (κ × α))) (k : κ) :
    (WindowOp.run (mgr f) es).filterMap (keyOut k) = results f none (proj k es) := by
  rw [winop_keys_independent, twin_solo]; rfl

/-- two interleaved keys: key 0 commits `[1, 3]` by `Commit`; key 1 registers deadline 5 with its
    first element, is not committed by `Watermark(5)` and is committed by `Watermark(6)` -/
example :
    let f : Nat × Nat → TxOp := fun v => if v.2 = 3 then .commit else if v.2 = 2 then .commitAfter 5 else .continue_
    let es : List (Elem (Nat × (Nat × Nat))) :=
      [.ts (0, (0, 1)) 0, .ts (1, (1, 2)) 1, .wm 5, .ts (0, (0, 3)) 6, .ts (1, (1, 4)) 6, .wm 6, .far, .term]
    WindowOp.run (mgr f) es =
      [.wm 5, .item (0, [(0, 1), (0, 3)]), .item (1, [(1, 2), (1, 4)]), .wm 6, .far, .term] ∧
    results f none (proj 1 es) = [⟨[(1, 2), (1, 4)], none⟩] := by
  decide

end Noir.TransactionWindow
