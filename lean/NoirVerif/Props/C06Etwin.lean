/-
  Props/C06Etwin.lean — watermark safety of the keyed event-time `WindowOperator` (C06, shared
  with C13). Model: Model/EventTimeWindow.lean + Model/WindowOp.lean (after the fix of F3:
  windows fire on `end <= watermark`, /repo commit 6022f0c). Lemmas: Lemmas/EventTimeWindow.lean
  (`Above`, `op_wmsafe`).
-/
import NoirVerif.Lemmas.EventTimeWindow
namespace Noir.EventTimeWindow
open Noir.WindowOp

variable {α κ : Type}

/-- **C06 (event-time windows preserve watermark safety).** For all `size`, `slide > 0` (including
    `slide > size`), any number of keys and iterations: if the keyed input of the `WindowOperator`
    is watermark-safe, so is its output. Results are stamped with their window end; a window is
    emitted by the first watermark `w ≥ end`, *before* that watermark is forwarded, and every
    non-empty open window ends after the last forwarded watermark (invariant `Above`), so no result
    is stamped at or before a watermark that precedes it. -/
theorem etwin_preserves_wmsafe [DecidableEq κ] (c : Cfg) (hS : 0 < c.slide)
    (es : List (Elem (κ × α))) (h : wmSafeOk es = true) :
    wmSafeOk (WindowOp.run (mgr c) es) = true := by
  apply op_wmsafe c hS es none WindowOp.State.init _ h
  intro p hp; simp [WindowOp.State.init] at hp

/-- **Boundary `ts = last watermark`.** `alloc_windows` asserts `ts >= last_watermark`, i.e. the code
    accepts an element stamped exactly the last watermark although the engine's contract (C06,
    `wmSafeOk`) requires it to be strictly later. Such an input is a contract violation of the
    *upstream*; nevertheless the operator's output stays (strictly) watermark-safe: under the lax
    contract `wmSafeLaxOk` (elements `≥`, watermarks `>` the last watermark) every result is stamped
    strictly after the last forwarded watermark. -/
theorem etwin_preserves_wmsafe_lax [DecidableEq κ] (c : Cfg) (hS : 0 < c.slide)
    (es : List (Elem (κ × α))) (h : wmSafeLaxOk es = true) :
    wmSafeOk (WindowOp.run (mgr c) es) = true := by
  apply op_wmsafe_lax c hS es none WindowOp.State.init _ h
  intro p hp; simp [WindowOp.State.init] at hp

/-- the boundary on a concrete trace: `Timestamped(_, 13)` after `Watermark(13)` is accepted
    (no panic), lands in the window [13, 23) and is emitted stamped 23 -/
example :
    let es : List (Elem (Nat × Nat)) := [.ts (0, 1) 3, .wm 13, .ts (0, 2) 13, .far, .term]
    wmSafeOk es = false ∧ wmSafeLaxOk es = true ∧
    (WindowOp.stateAfter (mgr ⟨10, 10⟩) WindowOp.State.init es).panic = none ∧
    WindowOp.run (mgr ⟨10, 10⟩) es = [.ts (0, [(1, 3)]) 13, .wm 13, .ts (0, [(2, 13)]) 23, .far, .term] := by
  decide

/-- the invariant behind it, one step: after `Watermark(w)` every open window ends after `w`,
    and what `Watermark(w)` emits is stamped `≤ w` but after the previous watermark `g` -/
theorem etwin_watermark_step (c : Cfg) (hS : 0 < c.slide) (g : Option Int) (st : State α) (w : Int)
    (inv : Inv c (fun _ => True) st) (ha : Above g st) :
    Above (some w) (process c st (.wm w)).1 ∧
    ∀ r ∈ (process c st (.wm w)).2, ∃ stop, r.ts = some stop ∧ ∀ w0, g = some w0 → w0 < stop :=
  ⟨above_wm c hS _ st w inv, out_above c g st (.wm w) ha⟩

/-- Non-vacuity and regression (former F3 witness plus a second key and a second iteration). -/
example :
    let es : List (Elem (Nat × Nat)) :=
      [.ts (0, 1) 3, .ts (1, 2) 9, .wm 13, .ts (1, 3) 14, .wm 14, .far, .ts (0, 4) 2, .wm 12, .far, .term]
    wmSafeOk es = true ∧
    WindowOp.run (mgr ⟨10, 10⟩) es =
      [.ts (0, [(1, 3)]) 13, .wm 13, .wm 14, .ts (1, [(2, 9), (3, 14)]) 19, .far,
       .ts (0, [(4, 2)]) 12, .wm 12, .far, .term] ∧
    wmSafeOk (WindowOp.run (mgr ⟨10, 10⟩) es) = true := by
  decide

end Noir.EventTimeWindow
