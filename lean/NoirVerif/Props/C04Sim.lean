/-
  Props/C04Sim.lean — termination (C04), layer 2: the executable network simulator
  `Noir.NetSim` (Model/NetSim.lean) of an acyclic job made of unary blocks satisfies the
  assumptions A1–A6 of layer 1 (Props/C04.lean) in every reachable state; hence every execution
  terminates, no replica waits forever, no `Terminate` is lost or duplicated and every sink
  publishes exactly once.

  "Every job whose sources are finite terminates … each sink's output handle yields its complete
   result exactly once. There is no schedule … under which replicas wait on each other forever or an
   end-of-stream marker is lost."

  Setting (`Noir.NetSim.Job`, `Job.WF`): blocks `0 … nblocks-1` in topological order, block `b` has
  `replicas b ≥ 1` replicas and is a source (`prev b = none`; replica `r` emits the finite list
  `input b r`, then `FlushAndRestart`, then `Terminate`) or has exactly one upstream block
  `prev b < b`; any number of downstream blocks (fan-out / split). Every replica is a process;
  one bounded FIFO of capacity `cap > 0` (`CHANNEL_CAPACITY` by default) per consumer replica,
  shared by all replicas of its upstream block; a process receives one element, runs
  `Noir.Start.step` on it and does the sends of `End::next` one at a time, each blocking while the
  target channel is full; data goes to ONE replica per downstream block chosen by an ARBITRARY
  routing oracle `route` (a function of sender, target block, element and the sender's element
  counter — every theorem holds for every oracle), `Watermark` / `FlushAndRestart` / `Terminate` go
  to EVERY replica of every downstream block. The scheduler is an arbitrary list of process ids.

  Not covered (see Model/NetSim.lean): blocks with two upstream blocks (binary start — it refuses
  one side temporarily, A4 of layer 1), loops, batching (batch mode `Single`; C02 covers the
  grouping of elements into batches), stateful operator chains (the chain is the identity),
  receive timeouts (they only create `FlushBatch`, which is never sent).
-/
import NoirVerif.Lemmas.NetSim
import NoirVerif.Props.C04
namespace Noir.NetSim
open Noir

/-! ## 1. reachable states are well-formed layer-1 configurations -/

/-- **C04 layer 2 (A1–A6 are invariants).** Every reachable state of the simulator, read as a
    layer-1 configuration (`toConfig`: status `finished` / `runnable` / `sendBlocked ch` /
    `recvBlocked [ch]` per replica, length / capacity / consumer / producers per channel, rank =
    block index), satisfies the assumptions of `Net.no_deadlock_config`:
    A1–A3 by the channel semantics (A3: a replica that has pulled `Terminate` has received the
    `Terminate` of every producer, and a producer sends nothing after its `Terminate`), A4 because a
    unary `Start` never refuses its only channel, A5 by the `Terminate` accounting
    (`missing_terminate` = `Terminate`s in the channel + `Terminate`s the producers still owe),
    A6 by the topological order. -/
theorem netsim_wellformed (j : Job) (wf : j.WF) (s : State) (h : Reachable j s) :
    Net.WellFormed (toConfig j s) :=
  wellFormed_of_inv wf (inv_reachable wf h)

/-- The `Terminate` accounting behind A5, stated on its own: in every reachable state, for every
    replica `(b, r)` of a non-source block, `Start`'s `missing_terminate` equals the number of
    `Terminate`s waiting in its channel plus the number of `Terminate`s its producers still have to
    send to it (`owes` = 1 for a producer that has not pulled `Terminate` yet, else the number of
    pending `Terminate` sends towards `(b, r)`): no end-of-stream marker is lost or duplicated. -/
theorem netsim_terminate_accounting (j : Job) (wf : j.WF) (s : State) (h : Reachable j s)
    (b r pb : Nat) (hv : j.valid b r) (hp : j.prev b = some pb) :
    (s.proc b r).start.missingTerm
      = countTerm (s.chan b r) + sumTo (j.replicas pb) (fun q => owes j s pb q b r) :=
  (inv_reachable wf h).termAcc b r pb hv hp

/-! ## 2. progress -/

/-- **C04 (no schedule makes replicas wait on each other forever).** In every reachable state that
    is not final some replica can take a real step (corollary of `netsim_wellformed` and
    `Net.no_deadlock_config`). -/
theorem netsim_progress (j : Job) (wf : j.WF) (s : State) (h : Reachable j s)
    (hnf : ¬ final j s) : ∃ b r, enabled j s b r := by
  apply Classical.byContradiction
  intro hno
  apply Net.no_deadlock_config (toConfig j s) (netsim_wellformed j wf s h)
  constructor
  · intro p hp hr
    obtain ⟨hv, hst⟩ := cfg_status_inv j s hp (by rw [hr]; intro h; cases h)
    rw [hst] at hr
    exact hno ⟨_, _, hv, hr⟩
  · intro hall
    apply hnf
    intro b r hv
    rw [← cfg_status_valid j s hv]
    exact hall _ (pid_lt j hv)

/-- A slot given to a replica that is not enabled (blocked, finished, or not a replica) changes
    nothing; in particular the final state is absorbing. -/
theorem netsim_blocked_step_noop (j : Job) (s : State) (b r : Nat) (h : ¬ enabled j s b r) :
    step j s b r = s :=
  step_idle h

/-! ## 3. termination -/

/-- **C04 (a measure decreases on every real step).** `mu` = remaining source elements + pending
    sends + elements in flight, each weighted by the number of steps it can still cause downstream
    (`W b = 1 + 2 · Σ_{c downstream of b} replicas c · (1 + W c)`; the factor 2: one received
    element can make `Start` yield two, a stashed watermark and the element). -/
theorem netsim_measure_decreases (j : Job) (wf : j.WF) (s : State) (h : Reachable j s) (b r : Nat)
    (he : enabled j s b r) : mu j (step j s b r) < mu j s :=
  mu_step wf (inv_reachable wf h) he

/-- **C04 (every execution has bounded length).** Under EVERY schedule the number of real steps is
    at most `mu j (init j)`. -/
theorem netsim_bounded (j : Job) (wf : j.WF) (sched : List (Nat × Nat)) :
    realSteps j (init j) sched ≤ mu j (init j) := by
  have := realSteps_le wf (inv_init wf) sched
  omega

/-- **C04 (every maximal execution ends in the final state).** A reachable state in which no
    replica is enabled is final: every replica has forwarded (a sink: consumed) `Terminate`. -/
theorem netsim_maximal_final (j : Job) (wf : j.WF) (s : State) (h : Reachable j s)
    (hmax : ∀ b r, ¬ enabled j s b r) : final j s := by
  apply Classical.byContradiction
  intro hnf
  obtain ⟨b, r, he⟩ := netsim_progress j wf s h hnf
  exact hmax b r he

/-- **C04 (every finite job terminates).** Every FAIR schedule — `mu j (init j)` or more rounds,
    each of which gives every replica at least one slot, in any order and with any repetitions —
    ends in the final state, and further slots change nothing. -/
theorem netsim_terminates (j : Job) (wf : j.WF) (rounds : List (List (Nat × Nat)))
    (hr : ∀ ρ ∈ rounds, Round j ρ) (hlen : mu j (init j) ≤ rounds.length) :
    final j (run j (init j) rounds.flatten) ∧
    ∀ more, run j (init j) (rounds.flatten ++ more) = run j (init j) rounds.flatten := by
  have hf : final j (run j (init j) rounds.flatten) := by
    rcases fair_rounds wf rounds hr (inv_init wf) with h | h
    · exact h
    · exact mu_zero_final wf (inv_run wf (inv_init wf) _) (by omega)
  exact ⟨hf, fun more => by rw [run_append, final_run hf]⟩

/-- in particular the round-robin schedule terminates -/
theorem netsim_round_robin_terminates (j : Job) (wf : j.WF) (k : Nat) (hk : mu j (init j) ≤ k) :
    final j (run j (init j) (roundRobin j k)) := by
  refine (netsim_terminates j wf (List.replicate k (allPids j)) ?_ (by simpa using hk)).1
  intro ρ hρ
  rw [(List.mem_replicate.mp hρ).2]
  exact fun b r hv => mem_allPids hv

/-! ## 4. every sink completes exactly once -/

/-- **C04 (each sink publishes exactly once).** `published` counts the `Terminate`s that reached the
    end of a replica's chain (for a sink: the number of times `collect_vec` published its result).
    It is never more than one, and in the final state it is exactly one — for every replica of
    every block, in particular every sink replica. -/
theorem netsim_sinks_complete_once (j : Job) (wf : j.WF) (s : State) (h : Reachable j s)
    (b r : Nat) (hv : j.valid b r) :
    (s.proc b r).published ≤ 1 ∧ (final j s → (s.proc b r).published = 1) :=
  ⟨published_le_one (inv_reachable wf h) hv, fun hf => final_published (inv_reachable wf h) hf hv⟩

/-- **C04 (each sink yields its COMPLETE result): conservation along every link.** In the final
    state, for every link `b → c` the multiset of data elements (items and timestamped items)
    handed to the chains of the replicas of `c` equals the multiset handed to the chains of the
    replicas of `b`: whatever the routing oracle did, nothing was lost in a channel or a pending
    send and nothing was duplicated. (`blockLog j s b` = concatenation of the ghost logs of the
    replicas of `b`; for a sink block this is what its replicas consumed.) -/
theorem netsim_link_conservation (j : Job) (wf : j.WF) (s : State) (h : Reachable j s)
    (hf : final j s) (b c : Nat) (hc : c < j.nblocks) (hp : j.prev c = some b) :
    (dataOf (blockLog j s c)).Perm (dataOf (blockLog j s b)) :=
  final_link_perm wf (inv_reachable wf h) (inv2_reachable wf h) hf hc hp

/-- **C04 (each sink yields its complete result).** As every block is unary, every block `c` — in
    particular every sink — has exactly one source block `a` among its ancestors (`Upstream`), and
    in the final state the multiset of data elements consumed by the replicas of `c` is exactly
    the multiset of data elements in the inputs of the replicas of `a`. (With fan-out, each
    downstream branch of a block gets its own copy — `End` sends every element to every downstream
    block — so this holds for every sink separately.) -/
theorem netsim_sinks_complete (j : Job) (wf : j.WF) (s : State) (h : Reachable j s)
    (hf : final j s) (c : Nat) (hc : c < j.nblocks) :
    ∃ a, a < j.nblocks ∧ j.prev a = none ∧ Upstream j a c ∧
      (dataOf (blockLog j s c)).Perm
        ((List.range (j.replicas a)).flatMap fun r => dataOf (j.input a r)) :=
  final_conservation wf (inv_reachable wf h) (inv2_reachable wf h) hf c hc

/-! ## 5. non-vacuity -/

/-- A linear job `0 → 1 → 2` with 2 × 3 × 1 replicas; each source replica emits 20 items
    (more than `CHANNEL_CAPACITY = 16`); data is routed round-robin. -/
def job3 : Job where
  nblocks := 3
  replicas := fun b => if b = 0 then 2 else if b = 1 then 3 else 1
  prev := fun b => if b = 0 then none else some (b - 1)
  input := fun _ r => (List.range 20).map fun i => Elem.item (100 * r + i)
  route := fun _ _ _ _ k => k

theorem job3_wf : job3.WF := by
  refine ⟨by decide, ?_, ?_, ?_⟩
  · intro b hb
    have : b < 3 := hb
    simp only [job3]; split <;> (try split) <;> omega
  · intro b p hb hp
    simp only [job3] at hp
    split at hp
    · cases hp
    · injection hp with hp; omega
  · intro b r e he
    simp only [job3, List.mem_map] at he
    obtain ⟨i, _, rfl⟩ := he
    intro h; cases h

set_option maxRecDepth 100000 in
/-- The job is well-formed, its capacity is the real one, and 50 round-robin rounds (240 real
    steps) reach the final state, in which the sink has published once and has consumed all 40
    items, one `FlushAndRestart` and one `Terminate`. -/
example :
    job3.cap = Consts.CHANNEL_CAPACITY ∧
    finalB job3 (run job3 (init job3) (roundRobin job3 49)) = false ∧
    finalB job3 (run job3 (init job3) (roundRobin job3 50)) = true ∧
    realSteps job3 (init job3) (roundRobin job3 50) = 240 ∧
    ((run job3 (init job3) (roundRobin job3 50)).proc 2 0).published = 1 ∧
    ((run job3 (init job3) (roundRobin job3 50)).proc 2 0).log.length = 42 := by
  decide

set_option maxRecDepth 100000 in
/-- Back-pressure is really exercised: when only the two source replicas are scheduled, replica
    `(0,0)` finishes (26 sends fit), replica `(0,1)` ends up blocked on the full channel of
    `(1,0)` (layer-1 process `1 * 3 + 0`), whose consumer is runnable — the configuration is
    well-formed and not stuck. -/
example :
    let starve : List (Nat × Nat) := List.replicate 60 (0, 0) ++ List.replicate 60 (0, 1)
    let s := run job3 (init job3) starve
    (s.chan 1 0).length = 16 ∧ (s.chan 1 1).length = 16 ∧
    status job3 s 0 0 = .finished ∧ status job3 s 0 1 = .sendBlocked 3 ∧
    status job3 s 1 0 = .runnable ∧ status job3 s 2 0 = .recvBlocked [6] := by
  decide

/-- A job with fan-out: source block 0 (2 replicas) feeds blocks 1 (2 replicas) and 2 (a sink with
    3 replicas); block 1 feeds the sink block 3 (1 replica). Each source replica emits 15
    timestamped items and 3 watermarks; data is routed by value (`GroupBy`-like). -/
def jobSplit : Job where
  nblocks := 4
  replicas := fun b => if b = 0 then 2 else if b = 1 then 2 else if b = 2 then 3 else 1
  prev := fun b => if b = 0 then none else if b = 3 then some 1 else some 0
  input := fun _ r => (List.range 18).map fun i =>
    if i % 6 = 5 then Elem.wm (Int.ofNat i) else Elem.ts (100 * r + i) (Int.ofNat i)
  route := fun _ _ _ e _ => match e with | .ts a _ => a | _ => 0

theorem jobSplit_wf : jobSplit.WF := by
  refine ⟨by decide, ?_, ?_, ?_⟩
  · intro b hb
    have : b < 4 := hb
    simp only [jobSplit]; split <;> (try split) <;> (try split) <;> omega
  · intro b p hb hp
    simp only [jobSplit] at hp
    split at hp
    · cases hp
    · split at hp <;> (injection hp with hp; omega)
  · intro b r e he
    simp only [jobSplit, List.mem_map] at he
    obtain ⟨i, _, rfl⟩ := he
    split <;> (intro h; cases h)

set_option maxRecDepth 100000 in
/-- 76 round-robin rounds (340 real steps) reach the final state; all four sink replicas have
    published exactly once and both sink blocks have consumed all 30 data elements. -/
example :
    finalB jobSplit (run jobSplit (init jobSplit) (roundRobin jobSplit 75)) = false ∧
    (let s := run jobSplit (init jobSplit) (roundRobin jobSplit 76)
     finalB jobSplit s = true ∧
     (List.range 3).map (fun r => (s.proc 2 r).published) = [1, 1, 1] ∧
     (s.proc 3 0).published = 1 ∧
     (dataOf (blockLog jobSplit s 2)).length = 30 ∧ (dataOf (blockLog jobSplit s 3)).length = 30) := by
  decide

end Noir.NetSim
