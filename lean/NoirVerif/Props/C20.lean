/-
  Props/C20.lean — fail-stop (C20): theorems on the crash model of an acyclic job.
-/
import NoirVerif.Model.Crash
namespace Noir.Crash

theorem upd_same (s : State) (p : Nat) (v : St) : upd s p v p = v := by simp [upd]
theorem upd_other (s : State) (p q : Nat) (v : St) (h : q ≠ p) : upd s p v q = s q := by simp [upd, h]

/-- `done` is final: a step never changes a non-running process -/
theorem step_stable (net : Net) (s s' : State) (h : Step net s s') (q : Nat) (hq : s q ≠ .running) :
    s' q = s q := by
  cases h with
  | crash p _ hr => by_cases h : q = p; (subst h; exact absurd hr hq); exact upd_other s p q _ h
  | finish p _ hr _ => by_cases h : q = p; (subst h; exact absurd hr hq); exact upd_other s p q _ h
  | failRecv p _ hr _ _ => by_cases h : q = p; (subst h; exact absurd hr hq); exact upd_other s p q _ h
  | failSend p c _ _ hr _ _ => by_cases h : q = p; (subst h; exact absurd hr hq); exact upd_other s p q _ h

/-- a process that is `done` after a step either was `done` before or just finished with all its
    direct upstream replicas `done` -/
theorem step_done (net : Net) (s s' : State) (h : Step net s s') (p : Nat) (hp : s' p = .done) :
    s p = .done ∨ (∀ q ∈ net.up p, s q = .done) := by
  cases h with
  | crash p' _ hr =>
    by_cases h : p = p'
    · subst h; simp [upd] at hp
    · left; rw [upd_other s p' p _ h] at hp; exact hp
  | finish p' _ hr hup =>
    by_cases h : p = p'
    · subst h; right; exact hup
    · left; rw [upd_other s p' p _ h] at hp; exact hp
  | failRecv p' _ hr _ _ =>
    by_cases h : p = p'
    · subst h; simp [upd] at hp
    · left; rw [upd_other s p' p _ h] at hp; exact hp
  | failSend p' c _ _ hr _ _ =>
    by_cases h : p = p'
    · subst h; simp [upd] at hp
    · left; rw [upd_other s p' p _ h] at hp; exact hp

/-- one-step-upstream version of the invariant -/
theorem done_direct_upstream (net : Net) (s : State) (hr : Reach net s) :
    ∀ p, s p = .done → ∀ q ∈ net.up p, s q = .done := by
  induction hr with
  | init => intro p hp; simp [init] at hp
  | step s s' _ hstep ih =>
    intro p hp q hq
    rcases step_done net s s' hstep p hp with h | h
    · have := ih p h q hq
      rw [step_stable net s s' hstep q (by rw [this]; decide)]; exact this
    · have := h q hq
      rw [step_stable net s s' hstep q (by rw [this]; decide)]; exact this

/-- **C20 (a Terminate certifies a clean upstream).** In every reachable state, if a replica has
    emitted `Terminate` (is `done`) then every replica transitively upstream of it is `done`:
    none of them crashed. -/
theorem term_implies_upstream_clean (net : Net) (s : State) (hr : Reach net s) (p q : Nat)
    (hp : s p = .done) (hup : UpStar net q p) : s q = .done := by
  revert hp
  induction hup with
  | direct p hq => intro hp; exact done_direct_upstream net s hr p hp _ hq
  | trans q p _ hq ih => intro hp; exact ih (done_direct_upstream net s hr p hp q hq)

/-- **C20 (no result is published downstream of a crash).** A sink replica publishes only when
    it is `done`; if any replica upstream of it has crashed it never is. -/
theorem no_publish_downstream_of_crash (net : Net) (s : State) (hr : Reach net s) (p q : Nat)
    (hq : s q = .crashed) (hup : UpStar net q p) : s p ≠ .done := by
  intro hp
  have := term_implies_upstream_clean net s hr p q hp hup
  rw [hq] at this; cases this

/-- a crash is permanent and so is its effect: once `q` crashed, in every later reachable state
    `q` is still crashed -/
theorem crashed_forever (net : Net) (s s' : State) (h : Step net s s') (q : Nat) (hq : s q = .crashed) :
    s' q = .crashed := by
  rw [step_stable net s s' h q (by rw [hq]; decide)]; exact hq

/-- **C20 (nobody blocks forever, 1): a state in which no transition is possible has no running
    worker.** Every worker of an acyclic job has either finished or unwound. -/
theorem terminal_resolved (net : Net) (ok : net.Ok) (s : State)
    (hterm : ∀ s', ¬ Step net s s') : ∀ p, p < net.n → s p ≠ .running := by
  suffices h : ∀ k p, p < net.n → net.rank p = k → s p ≠ .running by
    intro p hp; exact h _ p hp rfl
  intro k
  induction k using Nat.strongRecOn with
  | _ k ih =>
    intro p hp hk hrun
    have hup : ∀ q ∈ net.up p, s q ≠ .running := by
      intro q hq
      exact ih (net.rank q) (by rw [← hk]; exact ok.acyclic p q hq) q (ok.inRange p q hp hq) rfl
    by_cases hall : ∀ q ∈ net.up p, s q = .done
    · exact hterm _ (Step.finish s p hp hrun hall)
    · have : ∃ q ∈ net.up p, s q = .crashed := by
        apply Classical.byContradiction
        intro hno
        apply hall
        intro q hq
        cases hs : s q with
        | running => exact absurd hs (hup q hq)
        | done => rfl
        | crashed => exact absurd ⟨q, hq, hs⟩ hno
      exact hterm _ (Step.failRecv s p hp hrun hup this)

theorem runningCount_upd_le (s : State) (p : Nat) (v : St) (hv : v ≠ .running) (k : Nat) :
    runningCount (upd s p v) k ≤ runningCount s k := by
  induction k with
  | zero => simp [runningCount]
  | succ k ih =>
    simp only [runningCount]
    by_cases h : k = p
    · subst h; simp [upd, hv]; omega
    · simp only [upd, h, if_false]; omega

theorem runningCount_upd_lt (s : State) (p : Nat) (v : St) (hv : v ≠ .running) (hr : s p = .running)
    (k : Nat) (hk : p < k) : runningCount (upd s p v) k < runningCount s k := by
  induction k with
  | zero => omega
  | succ k ih =>
    simp only [runningCount]
    by_cases h : k = p
    · subst h
      have := runningCount_upd_le s k v hv k
      simp [upd, hv, hr]; omega
    · have := ih (by omega)
      simp only [upd, h, if_false]; omega

/-- **C20 (nobody blocks forever, 2): every step stops one more worker**, so every execution has at
    most `n` steps and ends in a terminal state, where by `terminal_resolved` all workers have
    stopped and by `no_publish_downstream_of_crash` everything downstream of a crash has crashed. -/
theorem step_decreases (net : Net) (s s' : State) (h : Step net s s') :
    runningCount s' net.n < runningCount s net.n := by
  cases h with
  | crash p hp hr => exact runningCount_upd_lt s p _ (by decide) hr net.n hp
  | finish p hp hr _ => exact runningCount_upd_lt s p _ (by decide) hr net.n hp
  | failRecv p hp hr _ _ => exact runningCount_upd_lt s p _ (by decide) hr net.n hp
  | failSend p c hp _ hr _ _ => exact runningCount_upd_lt s p _ (by decide) hr net.n hp

/-- **C20 (downstream of a crash everything fails).** In a reachable terminal state every replica
    downstream of a crashed one has crashed (not finished, not still running): `execute_blocking`
    fails on every host that runs it (the scheduler joins and unwraps every local worker). -/
theorem downstream_fails (net : Net) (ok : net.Ok) (s : State) (hr : Reach net s)
    (hterm : ∀ s', ¬ Step net s s') (p q : Nat) (hp : p < net.n) (hq : s q = .crashed)
    (hup : UpStar net q p) : s p = .crashed := by
  have h1 := terminal_resolved net ok s hterm p hp
  have h2 := no_publish_downstream_of_crash net s hr p q hq hup
  cases hs : s p with
  | running => exact absurd hs h1
  | done => exact absurd hs h2
  | crashed => rfl

/-- Non-vacuity: a pipeline `0 → 1 → 2`; worker 1 crashes, worker 0 has already finished; then
    worker 2 fails its receive; the final state is terminal and 2 (downstream) is crashed while
    0 (upstream, finished before) is done. -/
example :
    let net : Net := { n := 3, up := fun p => if p = 0 then [] else [p - 1], rank := fun p => p }
    let s1 := upd init 0 .done
    let s2 := upd s1 1 .crashed
    let s3 := upd s2 2 .crashed
    Step net init s1 ∧ Step net s1 s2 ∧ Step net s2 s3 := by
  refine ⟨?_, ?_, ?_⟩
  · exact Step.finish _ 0 (by decide) rfl (by intro q hq; simp at hq)
  · exact Step.crash _ 1 (by decide) (by simp [upd, init])
  · refine Step.failRecv _ 2 (by decide) (by simp [upd, init]) ?_ ?_
    · intro q hq; simp at hq; subst hq; simp [upd]
    · exact ⟨1, by simp, by simp [upd]⟩

end Noir.Crash
