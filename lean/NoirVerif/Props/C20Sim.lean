/-
  Props/C20Sim.lean — fail-stop (C20) at the MESSAGE level: the network simulator of C04 layer 2
  (`Noir.NetSim`: every replica of an acyclic job of unary blocks is a process, bounded channels,
  the real `Start` model as receive step, `End`'s blocking sends, arbitrary routing oracle and
  scheduler) extended with crashes (`Noir.NetSimCrash`, Model/NetSimCrash.lean):

  * `crash b r`   — a panic in any running replica at any time: it stops for good, its incoming
                    queue is dropped, its outgoing channels lose that producer;
  * **failRecv**  — a live replica whose queue is empty and all of whose producers are gone
                    (finished or crashed) crashes: `recv()` returns `Err` → `expect` panics
                    (src/operator/start/simple.rs:62-65; the timed receive of
                    src/operator/start/mod.rs:320-338 turns `Disconnected` into the timeout
                    `FlushBatch` and the following blocking `recv` panics);
  * **failSend**  — a live replica whose next send goes to a crashed consumer crashes
                    (`send(..).unwrap()`, src/block/batcher.rs:90/107/117).

  "a panic in any replica makes execute_blocking fail on every host running it; no sink downstream
   of the failure publishes a (partial) result as if it were complete"

  The abstract model of Props/C20.lean ASSUMES (rule `finish`) that a worker emits `Terminate` only
  when all its direct upstream replicas have. Here that is a theorem
  (`crash_sim_terminate_needs_all_upstream`), and `crash_sim_refines_abstract` maps every event of
  the message-level model to a transition of the abstract one (or a stutter).

  One correction of the informal statement that the message level forces: a replica can crash
  AFTER it has pulled `Terminate`, while `End` is still forwarding it (e.g. its `Terminate` reached
  consumer 0, then the send to the crashed consumer 1 panics). Consumer 0 then legitimately
  completes — it received the complete stream of that producer. So "no upstream replica has
  crashed" reads: no upstream replica has crashed BEFORE pulling `Terminate` (`absSt = done`:
  every transitive upstream replica has handed its complete input to its chain); see the example
  after `crash_sim_terminate_needs_all_upstream` for the late crash.

  Proof idea (Lemmas/NetSimCrash.lean): every reachable state has a crash-free SHADOW execution
  of `NetSim` with the same process states and the same queues for all live replicas (in the
  shadow the dead replicas are just never scheduled again), so all invariants of C04 layer 2
  (`Terminate` accounting, FIFO order, conservation) carry over.
  Simplifications: those of Model/NetSim.lean (unary blocks, batch mode `Single`, identity chain,
  no loops); flume's disconnect semantics are trusted.
-/
import NoirVerif.Lemmas.NetSimCrash
import NoirVerif.Props.C04Sim
import NoirVerif.Props.C20
namespace Noir.NetSimCrash
open Noir Noir.NetSim

/-! ## 1. `Terminate` certifies a complete upstream -/

/-- **C20, message level (the premise of the abstract `finish` rule is a theorem).** In every
    reachable state, if replica `(c, i)` has emitted `Terminate` (its `Start` has yielded it:
    `done`), then
    * it has received the `Terminate` of EVERY direct upstream replica `(pb, q)`: that replica has
      pulled `Terminate` itself, its `Terminate` towards `(c, i)` is no longer pending
      (`tcount … = 0`), and the input queue of `(c, i)` is empty — it was sent and consumed
      (`Start.missingTerm` counted all of them down to 0);
    * every TRANSITIVE upstream replica has pulled `Terminate` (`absSt = done`): none of them
      crashed before completing its stream. -/
theorem crash_sim_terminate_needs_all_upstream (j : Job) (wf : j.WF) (s : State)
    (h : Reachable j s) (c i : Nat) (hv : j.valid c i) (hd : done j c (s.net.proc c i) = true) :
    (∀ pb, j.prev c = some pb → ∀ q, q < j.replicas pb →
        done j pb (s.net.proc pb q) = true ∧ tcount c i (s.net.proc pb q).pending = 0) ∧
    s.net.chan c i = [] ∧
    (∀ a u, UpRep j a u c i → done j a (s.net.proc a u) = true ∧ absSt j s a u = .done) := by
  refine ⟨fun pb hp => done_direct_up wf h hv hp hd, done_chan_nil wf h hv hd, ?_⟩
  intro a u hup
  have hda := done_trans_up wf h hup hv hd
  exact ⟨hda, by simp [absSt, uprep_valid wf hup hv, hda]⟩

/-- Contrapositive: downstream of a replica that crashed before pulling `Terminate` nobody ever
    emits `Terminate`. -/
theorem crash_sim_no_terminate_downstream_of_crash (j : Job) (wf : j.WF) (s : State)
    (h : Reachable j s) (a u c i : Nat) (hv : j.valid c i) (hup : UpRep j a u c i)
    (hd : done j a (s.net.proc a u) = false) : done j c (s.net.proc c i) = false :=
  downstream_not_done wf h hup hv hd

/-! ## 2. no partial result is published -/

/-- **C20, message level (no sink publishes a partial result).** `published` counts the
    `Terminate`s that reached the end of a replica's chain — for a sink replica the number of times
    `collect_vec` published its result (src/operator/sink/collect_vec.rs:60-65). If replica
    `(c, i)` has published, then
    * every transitive upstream replica has pulled `Terminate` — nobody upstream crashed before
      handing its complete input to its chain — and
    * what it published is COMPLETE: there is a final state `tf` of a crash-free execution of the
      same job (`NetSim.Reachable`, `NetSim.final`: the setting of C04, where
      `netsim_sinks_complete` holds) in which `(c, i)` has consumed exactly the same sequence.
      (With an arbitrary routing oracle and scheduler "the complete result of replica `i`" is only
      defined relative to an execution; `tf` is the crash-free continuation of this one.) -/
theorem crash_sim_no_partial_publish (j : Job) (wf : j.WF) (s : State) (h : Reachable j s)
    (c i : Nat) (hv : j.valid c i) (hpub : 1 ≤ (s.net.proc c i).published) :
    (∀ a u, UpRep j a u c i → done j a (s.net.proc a u) = true ∧ absSt j s a u = .done) ∧
    ∃ tf, NetSim.Reachable j tf ∧ NetSim.final j tf ∧
      (tf.proc c i).log = (s.net.proc c i).log := by
  have hd := published_done wf h hv hpub
  refine ⟨(crash_sim_terminate_needs_all_upstream j wf s h c i hv hd).2.2, ?_⟩
  obtain ⟨tf, h1, h2, h3⟩ := completion wf h
  exact ⟨tf, h1, h2, h3 c i hd⟩

/-- **C20 (a published result is the complete multiset).** If all replicas of block `c` — in
    particular of a sink — have published, the multiset of data elements they consumed is exactly
    the multiset of data elements in the inputs of the source block `a` above `c`, whatever
    crashed elsewhere (other branches of a fan-out, or producers that crashed after forwarding
    their `Terminate` to `c`). -/
theorem crash_sim_publish_complete (j : Job) (wf : j.WF) (s : State) (h : Reachable j s)
    (c : Nat) (hc : c < j.nblocks)
    (hpub : ∀ i, i < j.replicas c → 1 ≤ (s.net.proc c i).published) :
    ∃ a, a < j.nblocks ∧ j.prev a = none ∧ Upstream j a c ∧
      (dataOf (blockLog j s.net c)).Perm
        ((List.range (j.replicas a)).flatMap fun r => dataOf (j.input a r)) := by
  obtain ⟨tf, h1, h2, h3⟩ := completion wf h
  obtain ⟨a, ha, hpa, hup, hperm⟩ := netsim_sinks_complete j wf tf h1 h2 c hc
  refine ⟨a, ha, hpa, hup, ?_⟩
  have : blockLog j s.net c = blockLog j tf c := by
    unfold blockLog
    apply flatMap_congr'
    intro r hr
    have hr := List.mem_range.mp hr
    exact (h3 c r (published_done wf h ⟨hc, hr⟩ (hpub r hr))).symm
  rw [this]; exact hperm

/-- A sink publishes at most once, crash or not. -/
theorem crash_sim_publish_once (j : Job) (wf : j.WF) (s : State) (h : Reachable j s)
    (c i : Nat) (hv : j.valid c i) : (s.net.proc c i).published ≤ 1 := by
  rw [published_iff_done wf h hv]; split <;> omega

/-! ## 3. no hang: downstream of a crash everything fails -/

/-- **C20, message level (everything downstream of a crash fails; nobody hangs).** In a
    reachable TERMINAL state (no scheduler slot is enabled: `Terminal`)
    * every replica has either finished or crashed — nobody is left running or blocked on a
      receive or a send for ever, so every worker thread can be joined, and
    * if `(a, u)` crashed before pulling `Terminate`, every replica `(c, i)` transitively
      downstream of it has crashed and has published nothing: `execute_blocking` fails on every
      host running one of them (the scheduler joins and unwraps every local worker). -/
theorem crash_sim_all_fail (j : Job) (wf : j.WF) (s : State) (h : Reachable j s)
    (hterm : Terminal j s) :
    (∀ b r, j.valid b r → s.crashed b r = true ∨ finished j s b r = true) ∧
    (∀ a u c i, s.crashed a u = true → done j a (s.net.proc a u) = false → UpRep j a u c i →
      j.valid c i →
      s.crashed c i = true ∧ done j c (s.net.proc c i) = false ∧ (s.net.proc c i).published = 0) := by
  refine ⟨terminal_resolved wf h hterm, ?_⟩
  intro a u c i _ hd hup hv
  have hdc := downstream_not_done wf h hup hv hd
  refine ⟨?_, hdc, by rw [published_iff_done wf h hv, hdc]; rfl⟩
  rcases terminal_resolved wf h hterm c i hv with h1 | h1
  · exact h1
  · simp [finished, hdc] at h1

/-- `Terminal` means what it says: a slot given to a replica that is not enabled changes nothing
    (and `terminalB` decides it). -/
theorem crash_sim_blocked_slot_noop (j : Job) (s : State) (b r : Nat)
    (h : enabled j s b r = false) : step false j s (.run b r) = s :=
  not_enabled_noop h

/-- … and conversely a slot given to an enabled replica does change the state, so `Terminal` is
    exactly "no scheduler slot changes the state". -/
theorem crash_sim_terminal_iff (j : Job) (s : State) :
    Terminal j s ↔ ∀ b r, step false j s (.run b r) = s :=
  terminal_iff_noop

/-- Failures are never spurious: a receive can only fail (queue empty, every producer gone, still
    waiting for `Terminate`s) when one of the producers has CRASHED — producers that all finished
    cleanly have delivered all their `Terminate`s. (A send fails only into a crashed consumer by
    definition of the model.) -/
theorem crash_sim_failRecv_needs_crash (j : Job) (wf : j.WF) (s : State) (h : Reachable j s)
    (b r pb : Nat) (hv : j.valid b r) (hc : s.crashed b r = false) (hp : j.prev b = some pb)
    (hd : done j b (s.net.proc b r) = false) (hch : s.net.chan b r = [])
    (hdis : disconnected j s pb = true) : anyCrashed j s pb = true :=
  failRecv_has_crashed_producer wf h hv hc hp hd hch hdis

/-- The model is a conservative extension of the simulator of C04: a run without `crash` events is
    step by step a run of `NetSim` under the same schedule — no receive and no send ever fails,
    nobody crashes — so all of Props/C04Sim.lean (termination, exactly-once publication,
    conservation) applies to it unchanged. -/
theorem crash_sim_no_crash_is_netsim (j : Job) (wf : j.WF) (sched : List (Nat × Nat)) :
    (run false j (init j) (sched.map fun p => Ev.run p.1 p.2)).net
        = NetSim.run j (NetSim.init j) sched ∧
    ∀ b r, (run false j (init j) (sched.map fun p => Ev.run p.1 p.2)).crashed b r = false :=
  no_crash_run wf .init (fun _ _ => rfl) sched

/-! ## 4. the abstract fail-stop model is refined -/

/-- **C20 (refinement).** Project a state of the message-level model to the abstract model of
    Model/Crash.lean (`proj`: process `pid j b r`; `done` = has pulled `Terminate`, `crashed` =
    crashed before that, `running` otherwise; `absNet`: the direct upstream replicas of a replica
    are all replicas of its upstream block). Every event — a scheduler slot (send, receive, source
    emission, failSend, failRecv) or a crash — is a transition of the abstract model or a stutter.
    The step in which a replica pulls `Terminate` maps to the abstract `finish`, whose premise is
    discharged by `crash_sim_terminate_needs_all_upstream`; crashes of any origin map to the
    abstract `crash` (which is unconditional); a crash after `Terminate` was pulled is a stutter. -/
theorem crash_sim_refines_abstract (j : Job) (wf : j.WF) (s : State) (h : Reachable j s) (ev : Ev) :
    proj j (step false j s ev) = proj j s ∨
    Crash.Step (absNet j) (proj j s) (proj j (step false j s ev)) :=
  proj_step wf h ev

/-- Hence the projection of every reachable state is reachable in the abstract model, whose network
    is well-formed … -/
theorem crash_sim_reach_abstract (j : Job) (wf : j.WF) (s : State) (h : Reachable j s) :
    (absNet j).Ok ∧ Crash.Reach (absNet j) (proj j s) :=
  ⟨absNet_ok wf, reach_abs wf h⟩

/-- … and the theorems of Props/C20.lean hold for the message-level model, e.g.
    `term_implies_upstream_clean` and `no_publish_downstream_of_crash`. -/
theorem crash_sim_abstract_c20 (j : Job) (wf : j.WF) (s : State) (h : Reachable j s) (p q : Nat)
    (hup : Crash.UpStar (absNet j) q p) :
    (proj j s p = .done → proj j s q = .done) ∧ (proj j s q = .crashed → proj j s p ≠ .done) :=
  ⟨fun hp => Crash.term_implies_upstream_clean _ _ (reach_abs wf h) p q hp hup,
   fun hq => Crash.no_publish_downstream_of_crash _ _ (reach_abs wf h) p q hq hup⟩

/-! ## 5. non-vacuity and the mutant -/

/-- a pipeline `0 → 1 → 2`, one replica each; the source emits three items -/
def jobLine : Job where
  nblocks := 3
  replicas := fun _ => 1
  prev := fun b => if b = 0 then none else some (b - 1)
  input := fun _ _ => [Elem.item 1, Elem.item 2, Elem.item 3]
  route := fun _ _ _ _ k => k

theorem jobLine_wf : jobLine.WF := by
  refine ⟨by decide, ?_, ?_, ?_⟩
  · intro b _; exact Nat.le_refl 1
  · intro b p hb hp
    simp only [jobLine] at hp
    split at hp
    · cases hp
    · injection hp with hp; omega
  · intro b r e he
    simp only [jobLine, List.mem_cons, List.not_mem_nil, or_false] at he
    rcases he with rfl | rfl | rfl <;> (intro h; cases h)

/-- item 1 travels to the sink; then replica `(1,0)` panics; the sink drains its queue and fails
    its receive; the source fails its next send -/
def lineEvs : List Ev :=
  [.run 0 0, .run 0 0, .run 1 0, .run 1 0, .crash 1 0, .run 2 0, .run 2 0, .run 0 0, .run 0 0]

/-- a source (1 replica, two items) feeding a sink block with 2 replicas, round-robin routing -/
def jobFan : Job where
  nblocks := 2
  replicas := fun b => if b = 0 then 1 else 2
  prev := fun b => if b = 0 then none else some 0
  input := fun _ _ => [Elem.item 1, Elem.item 2]
  route := fun _ _ _ _ k => k

theorem jobFan_wf : jobFan.WF := by
  refine ⟨by decide, ?_, ?_, ?_⟩
  · intro b _; simp only [jobFan]; split <;> omega
  · intro b p hb hp
    simp only [jobFan] at hp
    split at hp
    · cases hp
    · injection hp with hp; omega
  · intro b r e he
    simp only [jobFan, List.mem_cons, List.not_mem_nil, or_false] at he
    rcases he with rfl | rfl <;> (intro h; cases h)

/-- the source does everything except its very last send (`Terminate` to sink replica 1) and then
    panics — a LATE crash; sink replica 0 receives item 1, `FlushAndRestart`, `Terminate`; sink
    replica 1 receives item 2, `FlushAndRestart` and then fails its receive -/
def fanEvs : List Ev :=
  List.replicate 9 (.run 0 0) ++ [.crash 0 0] ++ List.replicate 3 (.run 1 0) ++ List.replicate 3 (.run 1 1)

set_option maxRecDepth 100000 in
/-- Non-vacuity of `crash_sim_all_fail` (and of the contrapositive of 1): the run `lineEvs` of
    `jobLine` contains a crash of `(1,0)` before its `Terminate`, ends in a terminal state, the
    downstream sink `(2,0)` has crashed (by failRecv) having consumed item 1 and published
    nothing, and the upstream source has crashed too (failSend). -/
example :
    let s := run false jobLine (init jobLine) lineEvs
    Reachable jobLine s ∧ Terminal jobLine s ∧ UpRep jobLine 1 0 2 0 ∧
    s.crashed 1 0 = true ∧ done jobLine 1 (s.net.proc 1 0) = false ∧
    s.crashed 2 0 = true ∧ (s.net.proc 2 0).log = [Elem.item 1] ∧ (s.net.proc 2 0).published = 0 ∧
    s.crashed 0 0 = true :=
  ⟨reachable_run .init _, terminalB_iff.mp (by decide), .direct rfl (by decide),
    by decide, by decide, by decide, by decide, by decide, by decide⟩

set_option maxRecDepth 100000 in
/-- Non-vacuity of `crash_sim_terminate_needs_all_upstream`, `crash_sim_no_partial_publish` and
    `crash_sim_publish_once`, and the LATE CRASH: in the run `fanEvs` of `jobFan` sink replica
    `(1,0)` has pulled `Terminate` and published (its complete share: item 1) although its
    upstream replica `(0,0)` HAS crashed — after pulling `Terminate`, while forwarding it
    (`absSt = done`). Sink replica `(1,1)`, which never got that `Terminate`, has crashed and
    published nothing. The state is terminal: nobody hangs. So the literal statement "no upstream
    replica has crashed" is false at the message level; "no upstream replica crashed before its
    `Terminate`" is the theorem. -/
example :
    let s := run false jobFan (init jobFan) fanEvs
    Reachable jobFan s ∧ Terminal jobFan s ∧ UpRep jobFan 0 0 1 0 ∧
    done jobFan 1 (s.net.proc 1 0) = true ∧ (s.net.proc 1 0).published = 1 ∧
    (s.net.proc 1 0).log = [Elem.item 1, Elem.far, Elem.term] ∧ s.crashed 1 0 = false ∧
    s.crashed 0 0 = true ∧ absSt jobFan s 0 0 = .done ∧
    s.crashed 1 1 = true ∧ (s.net.proc 1 1).published = 0 :=
  ⟨reachable_run .init _, terminalB_iff.mp (by decide), .direct rfl (by decide),
    by decide, by decide, by decide, by decide, by decide, by decide, by decide, by decide⟩

/-- a source feeding two sink blocks (fan-out), one replica each -/
def jobTee : Job where
  nblocks := 3
  replicas := fun _ => 1
  prev := fun b => if b = 0 then none else some 0
  input := fun _ _ => [Elem.item 1, Elem.item 2]
  route := fun _ _ _ _ k => k

theorem jobTee_wf : jobTee.WF := by
  refine ⟨by decide, ?_, ?_, ?_⟩
  · intro b _; exact Nat.le_refl 1
  · intro b p hb hp
    simp only [jobTee] at hp
    split at hp
    · cases hp
    · injection hp with hp; omega
  · intro b r e he
    simp only [jobTee, List.mem_cons, List.not_mem_nil, or_false] at he
    rcases he with rfl | rfl <;> (intro h; cases h)

/-- the source does all its 12 steps but the last (`Terminate` to sink block 2) and panics; sink
    `(1,0)` receives everything; sink `(2,0)` receives the two items and `FlushAndRestart` and then
    fails its receive -/
def teeEvs : List Ev :=
  List.replicate 11 (.run 0 0) ++ [.crash 0 0] ++ List.replicate 4 (.run 1 0) ++ List.replicate 4 (.run 2 0)

set_option maxRecDepth 100000 in
/-- Non-vacuity of `crash_sim_publish_complete` in a run with a crash: every replica of sink block
    1 has published — the complete input of the source — while the source (late) and the other
    sink have crashed; the state is terminal. -/
example :
    let s := run false jobTee (init jobTee) teeEvs
    Reachable jobTee s ∧ Terminal jobTee s ∧
    (∀ i, i < jobTee.replicas 1 → 1 ≤ (s.net.proc 1 i).published) ∧
    dataOf (blockLog jobTee s.net 1) = [Elem.item 1, Elem.item 2] ∧
    s.crashed 0 0 = true ∧ s.crashed 2 0 = true ∧ (s.net.proc 2 0).published = 0 :=
  ⟨reachable_run .init _, terminalB_iff.mp (by decide), by decide, by decide, by decide, by decide,
    by decide⟩

set_option maxRecDepth 100000 in
/-- Non-vacuity of `crash_sim_abstract_c20`, `crash_sim_blocked_slot_noop`: in the final state of
    `lineEvs` abstract process 1 (`= pid jobLine 1 0`) is `crashed` and directly upstream of
    process 2, which is `crashed` too (not `done`); the crashed replica is not enabled. -/
example :
    let s := run false jobLine (init jobLine) lineEvs
    Crash.UpStar (absNet jobLine) 1 2 ∧ proj jobLine s 1 = .crashed ∧ proj jobLine s 2 = .crashed ∧
    enabled jobLine s 1 0 = false :=
  ⟨.direct _ _ (by decide), by decide, by decide, by decide⟩

set_option maxRecDepth 100000 in
/-- Non-vacuity of `crash_sim_refines_abstract`: the crash of `(1,0)` in `jobLine` (abstract
    process `pid = 1`) is a genuine abstract transition (`running → crashed`), the failing receive
    of the sink (process 2) likewise, and the receive in which the sink of `jobFan` pulls
    `Terminate` is a genuine `running → done`. -/
example :
    (let s := run false jobLine (init jobLine) (lineEvs.take 4)
     proj jobLine s 1 = .running ∧ proj jobLine (step false jobLine s (.crash 1 0)) 1 = .crashed) ∧
    (let s := run false jobLine (init jobLine) (lineEvs.take 6)
     proj jobLine s 2 = .running ∧ proj jobLine (step false jobLine s (.run 2 0)) 2 = .crashed) ∧
    (let s := run false jobFan (init jobFan) (fanEvs.take 12)
     proj jobFan s 2 = .running ∧ proj jobFan (step false jobFan s (.run 1 0)) 2 = .done) := by
  decide

set_option maxRecDepth 100000 in
/-- Non-vacuity of `crash_sim_failRecv_needs_crash`: right before the sink of `jobLine` fails its
    receive its queue is empty, its channel is disconnected, and its producer has crashed. -/
example :
    let s := run false jobLine (init jobLine) (lineEvs.take 6)
    s.crashed 2 0 = false ∧ done jobLine 2 (s.net.proc 2 0) = false ∧ s.net.chan 2 0 = [] ∧
    disconnected jobLine s 1 = true ∧ anyCrashed jobLine s 1 = true ∧ enabled jobLine s 2 0 = true := by
  decide

/-- a source and a sink, one replica each; the source emits three items -/
def jobPair : Job where
  nblocks := 2
  replicas := fun _ => 1
  prev := fun b => if b = 0 then none else some 0
  input := fun _ _ => [Elem.item 1, Elem.item 2, Elem.item 3]
  route := fun _ _ _ _ k => k

/-- the source sends item 1 and panics; the sink receives item 1 and finds its channel
    disconnected -/
def pairEvs : List Ev := [.run 0 0, .run 0 0, .crash 0 0, .run 1 0, .run 1 0]

set_option maxRecDepth 100000 in
/-- **The mutant `Disconnected ⇒ Terminate` publishes a partial result.** If a receiver treats
    "queue empty and all producers gone" as end-of-stream (`eos = true`: `Start` yields
    `Terminate` instead of panicking — the realistic regression in the timed receive of
    src/operator/start/mod.rs:320-331, where `Disconnected` is already lumped with `Timeout`),
    then after `pairEvs` the sink has PUBLISHED, having consumed only item 1 of the three items of
    its source, which crashed before pulling `Terminate` — the conclusions of
    `crash_sim_terminate_needs_all_upstream` and `crash_sim_no_partial_publish` fail. Under the
    unmutated model the same events leave the sink crashed with nothing published. -/
theorem crash_sim_disconnect_as_eos_counterexample :
    (let s := run true jobPair (init jobPair) pairEvs
     (s.net.proc 1 0).published = 1 ∧ done jobPair 1 (s.net.proc 1 0) = true ∧
     s.crashed 1 0 = false ∧ dataOf (s.net.proc 1 0).log = [Elem.item 1] ∧
     dataOf (jobPair.input 0 0) = [Elem.item 1, Elem.item 2, Elem.item 3] ∧
     s.crashed 0 0 = true ∧ done jobPair 0 (s.net.proc 0 0) = false ∧ absSt jobPair s 0 0 = .crashed) ∧
    (let s := run false jobPair (init jobPair) pairEvs
     (s.net.proc 1 0).published = 0 ∧ s.crashed 1 0 = true ∧ terminalB jobPair s = true) := by
  decide

end Noir.NetSimCrash
