/-
  Props/C10.lean — property theorems for C10 (loops compute the sequential fixed point).
  Models: Model/Leader.lean (IterationLeader), Model/StateLock.lean (IterationStateLock + the Start's
  generation wait), Model/LoopProto.lean (the distributed protocol of one loop; the nested instance),
  Model/SeqLoop.lean (sequential reference semantics). Helper lemmas: Lemmas/Loop.lean.
-/
import NoirVerif.Lemmas.Loop
namespace Noir.Leader

variable {σ δ : Type}

/-! ## The leader -/

/-- Within a round (fewer deltas than still missing) the leader emits nothing; the deltas are folded
    into its state in arrival order. -/
theorem leader_silent_within_round (c : Cfg σ δ) (st : St σ) (ds : List δ)
    (hd : st.done = false) (hl : ds.length < st.missing) :
    (runDeltas c st ds).2 = [] ∧ (runDeltas c st ds).1.state = ds.foldl c.global st.state := by
  rw [run_within_round c ds st hd hl]; simp

/-- **C10 `leader_round`.** At the start of round `k = idx + 1` (nothing of the round received yet),
    after exactly `n` deltas `ds` (in arrival order) the leader has produced exactly one broadcast
    `(continue?, S_k)` with `S_k = (cond (foldl global S_{k-1} ds)).2` and
    `continue ⇔ (cond …).1 ∧ k < max`. If the loop continues nothing else is emitted and the leader is
    at the start of round `k + 1` with state `S_k`; otherwise see `leader_result_once_and_reset`. -/
theorem leader_round (c : Cfg σ δ) (st : St σ) (ds : List δ) (hn : 1 ≤ c.n)
    (hd : st.done = false) (hm : st.missing = c.n) (hl : ds.length = c.n) :
    let r := c.cond (ds.foldl c.global st.state)
    let k := st.idx + 1
    let cont := r.1 && decide (k < c.maxIter)
    runDeltas c st ds =
      if cont then ({ st with state := r.2, idx := k, missing := c.n }, [.feedback true r.2])
      else ({ st with state := c.init, idx := 0, missing := c.n },
            [.feedback false c.init, .elem (.item r.2), .elem .far]) := by
  intro r k cont
  obtain ⟨ds', d, rfl⟩ : ∃ ds' d, ds = ds' ++ [d] := by
    cases h : ds.reverse with
    | nil => simp at h; subst h; simp at hl; omega
    | cons d t => exact ⟨t.reverse, d, by rw [← List.reverse_reverse ds, h]; simp⟩
  have hl' : ds'.length < st.missing := by simp at hl; omega
  rw [runDeltas_append, run_within_round c ds' st hd hl']
  simp only [List.nil_append]
  have e := run_last c { st with state := ds'.foldl c.global st.state, missing := st.missing - ds'.length } d
    hd (by simp at hl ⊢; omega)
  rw [e]
  have hr : c.cond (c.global (ds'.foldl c.global st.state) d) = r := by
    simp [r, List.foldl_append]
  simp only [endRound, hr]
  show (if cont = true then _ else _) = _
  cases hc : cont <;> simp [k]

/-- **C10 `leader_result_once_and_reset`.** When round `k` ends the loop (condition false or bound
    reached) the leader broadcasts `(false, initial state)` — the ALREADY RESET state —, then
    returns `Item(S_final)` exactly once followed by `FlushAndRestart`; its `iteration_index` is 0 and
    its state the initial state again, ready for the next execution of the loop (nested loops). -/
theorem leader_result_once_and_reset (c : Cfg σ δ) (st : St σ) (ds : List δ) (hn : 1 ≤ c.n)
    (hd : st.done = false) (hm : st.missing = c.n) (hl : ds.length = c.n)
    (hstop : ((c.cond (ds.foldl c.global st.state)).1 && decide (st.idx + 1 < c.maxIter)) = false) :
    (runDeltas c st ds).2 =
      [.feedback false c.init, .elem (.item (c.cond (ds.foldl c.global st.state)).2), .elem .far] ∧
    (runDeltas c st ds).1 = { Leader.init c with terms := st.terms } := by
  have := leader_round c st ds hn hd hm hl
  simp only [hstop] at this
  rw [this]
  simp [Leader.init, hd]

/-- **C10 `leader_order_independent`.** If `global_fold` is right-commutative, the broadcast state
    (and everything else the leader does in the round) does not depend on the arrival order of the
    round's deltas. -/
theorem leader_order_independent (c : Cfg σ δ)
    (hg : ∀ s a b, c.global (c.global s a) b = c.global (c.global s b) a)
    (st : St σ) (ds ds' : List δ) (hp : ds.Perm ds') (hn : 1 ≤ c.n)
    (hd : st.done = false) (hm : st.missing = c.n) (hl : ds.length = c.n) :
    runDeltas c st ds = runDeltas c st ds' := by
  have h1 := leader_round c st ds hn hd hm hl
  have h2 := leader_round c st ds' hn hd hm (by rw [← hp.length_eq]; exact hl)
  simp only at h1 h2
  rw [h1, h2, foldl_perm c.global hg hp]

/-- Noise (`FlushBatch`, `FlushAndRestart`) never changes the leader (leader.rs:148). -/
theorem leader_ignores_noise (c : Cfg σ δ) (st : St σ) :
    step c st .far = (st, []) ∧ step c st .flushBatch = (st, []) := by
  simp [step]

/-- non-vacuity: two replicas, bound 2, sum: rounds `[1,2]`, `[3,4]` -/
example :
    (runDeltas (σ := Nat) (δ := Nat) ⟨0, 2, 2, (· + ·), fun s => (true, s)⟩
      (Leader.init ⟨0, 2, 2, (· + ·), fun s => (true, s)⟩) [1, 2, 3, 4]).2
    = [.feedback true 3, .feedback false 0, .elem (.item 10), .elem .far] := by decide

end Noir.Leader

namespace Noir.StateLock

/-! ## The generation lock -/

/-- **C10 `lock_generation_counts_rounds`.** After any sequence of `lock`/`unlock` calls none of
    which panicked, `generation = 2·(number of unlocks = rounds completed on this host) + (1 if locked)`. -/
theorem lock_generation_counts_rounds (ops : List Op) (l : Lock) (h : runOps Lock.new ops = some l) :
    l.gen = 2 * unlocks ops + (if l.locked then 1 else 0) := by
  have := runOps_gen ops Lock.new l h
  simp only [Lock.new, Nat.zero_div, Nat.zero_add] at this
  unfold Lock.locked
  split <;> rename_i h2 <;> simp at h2 <;> omega

/-- `lock` is idempotent until `unlock` is called (mod.rs:170) -/
theorem lock_idempotent (l : Lock) : l.lock.lock = l.lock := by
  unfold Lock.lock
  split
  · rename_i h; simp at h
    have : ¬ ((l.gen + 1) % 2 == 0) = true := by simp; omega
    simp [this]
  · rfl

/-- `unlock` succeeds exactly on a locked lock (otherwise the `assert_eq!` panics, mod.rs:184) -/
theorem unlock_requires_locked (l : Lock) : l.unlock.isSome = l.locked := by
  unfold Lock.unlock Lock.locked
  split <;> simp_all

/-- The `Start` of a body block lets the first element after its `fars`-th `FlushAndRestart` pass
    iff at least `fars` rounds were completed (state swapped + unlocked) on its host; the lock bit is
    irrelevant for it. -/
theorem start_passes_iff (l : Lock) (fars : Nat) :
    l.passes (startGeneration fars) = true ↔ fars ≤ l.gen / 2 := by
  unfold Lock.passes startGeneration
  rw [decide_eq_true_iff]
  omega

end Noir.StateLock

namespace Noir.LoopProto

variable {Host Head Body End : Type} [DecidableEq Host] [DecidableEq Head] [DecidableEq Body] [DecidableEq End]

/-! ## The protocol of one loop (any number of hosts and replicas, every interleaving, arbitrary delays)

`Reachable L s`: `s` is reachable from the initial state by the transitions of Model/LoopProto.lean.
The loop has at least one head replica `r0`, one body replica `b0` (a block behind a `Start` that
holds the loop's lock) and one `IterationEnd` replica `e0`. -/

/-- **I1.** The leader has completed round `K` only after every body replica emitted the
    `FlushAndRestart` of round `K` (it has finished evaluating the body for that round). -/
theorem loopProto_I1 (L : Layout Host Head Body End) (r0 : Head) (b0 : Body) (e0 : End)
    {s : St Host Head Body End} (h : Reachable L s) : ∀ b, s.K ≤ s.fars b := by
  intro b
  have inv := inv_reachable L r0 b0 h
  have := inv.K_le_got e0
  have := inv.got_le_sent e0
  have := inv.sent_le_fars e0 b
  omega

/-- **I2.** On every host the state cell holds the state of broadcast number `sidx h` with
    `syncs h ≤ sidx h ≤ syncs h + 1` (`syncs h` = completed lock/unlock cycles, generation =
    `2·syncs h` or `2·syncs h + 1`); it is ahead of `syncs h` only between the local leader's write and
    its `unlock`; and it never holds a state the leader has not broadcast yet (`sidx h ≤ K`). -/
theorem loopProto_I2 (L : Layout Host Head Body End) (r0 : Head) (b0 : Body)
    {s : St Host Head Body End} (h : Reachable L s) :
    ∀ host, s.sidx host ≤ s.K ∧ s.syncs host ≤ s.sidx host ∧ s.sidx host ≤ s.syncs host + 1 ∧
      (s.sidx host = s.syncs host + 1 →
        s.phase (L.leaderOf host) = .atBarrier ∨ s.phase (L.leaderOf host) = .released) := by
  intro host
  have inv := inv_reachable L r0 b0 h
  have h1 := inv.sidx_fb host
  have h2 := inv.fb_le_K (L.leaderOf host)
  have ha := inv.syncs_a host
  have hb := inv.syncs_b host
  cases hp : s.phase (L.leaderOf host) with
  | emitting => have := ha (Or.inl hp); refine ⟨by omega, by omega, by omega, fun _ => by omega⟩
  | waiting => have := ha (Or.inr hp); refine ⟨by omega, by omega, by omega, fun _ => by omega⟩
  | atBarrier => have := hb (Or.inl hp); exact ⟨by omega, by omega, by omega, fun _ => Or.inl rfl⟩
  | released => have := hb (Or.inr hp); exact ⟨by omega, by omega, by omega, fun _ => Or.inr rfl⟩

/-- **I3 = C10 `state_read_is_previous_round`.** In every reachable state, a body replica `b` that
    has let the first element after its `fars b`-th `FlushAndRestart` pass — i.e. that is processing
    data of round `k = fars b + 1` — finds in its host's state cell exactly the state of broadcast
    number `k - 1 = fars b` (the initial state for `k = 1`): never an older, never a newer one. By
    `leader_round` that broadcast carries `S_{k-1}`. -/
theorem state_read_is_previous_round (L : Layout Host Head Body End) (r0 : Head) (b0 : Body) (e0 : End)
    {s : St Host Head Body End} (h : Reachable L s) (b : Body) (hp : s.passed b = true) :
    s.sidx (L.hostOfBody b) = s.fars b := by
  have inv := inv_reachable L r0 b0 h
  have h1 := inv.passed_sync b hp
  have h2 := (loopProto_I2 L r0 b0 h (L.hostOfBody b))
  have h3 := loopProto_I1 L r0 b0 e0 h b
  omega

/-- **`state_read_is_previous_round` for the head's own block.** Body operators chained directly
    to the `Replay`/`Iterate` (no `Start` in between) are evaluated by the head thread while it is
    `emitting`; while head replica `r` emits round `k = round r + 1` its host's state cell holds the
    state of broadcast number `k - 1 = round r` — even if `r` is not the local leader and whatever the
    other hosts and replicas are doing (barrier + I1). -/
theorem head_block_read_is_previous_round (L : Layout Host Head Body End) (b0 : Body) (e0 : End)
    {s : St Host Head Body End} (h : Reachable L s) (r : Head) (hp : s.phase r = .emitting) :
    s.sidx (L.hostOfHead r) = s.round r := by
  have inv := inv_reachable L r b0 h
  have bi := barInv_reachable L h
  have h1 := inv.sidx_fb (L.hostOfHead r)
  have h2 := (inv.round_fb r).2 (by rw [hp]; decide)
  have h3 := bi.bar_a r (by rw [hp]; decide)
  by_cases hl : s.phase (L.leaderOf (L.hostOfHead r)) = .atBarrier
  · -- the local leader already wrote broadcast `round r + 1`: impossible while `r` is still emitting
    have h4 := bi.bar_b _ hl
    rw [L.leader_host] at h4
    have h5 := inv.fb_le_K (L.leaderOf (L.hostOfHead r))
    have := inv.K_le_got e0
    have := inv.got_le_sent e0
    have := inv.sent_le_fars e0 b0
    have := inv.fars_le_round b0 r
    omega
  · have h4 := bi.bar_a _ hl
    rw [L.leader_host] at h4
    omega

/-- the state cell is never written while some body replica of that host is inside a round: a write
    of broadcast `j` on host `h` needs `K ≥ j`, hence every body replica has already emitted the
    `FlushAndRestart` of round `j` (no data race between `set` and `get`, iteration/mod.rs:60-80) -/
theorem no_write_during_round (L : Layout Host Head Body End) (r0 : Head) (b0 : Body) (e0 : End)
    {s : St Host Head Body End} (h : Reachable L s) (r : Head) (hw : s.phase r = .waiting) (hk : s.fb r < s.K)
    (b : Body) : s.fb r + 1 ≤ s.fars b := by
  have := loopProto_I1 L r0 b0 e0 h b
  omega

/-- non-vacuity: a reachable state with a body replica inside a round -/
example : ∃ s : St Unit Unit Unit Unit,
    Reachable ⟨id, id, id, fun _ => rfl, [()], by simp, by simp⟩ s ∧ s.passed () = true :=
  ⟨_, .step .init (.bodyPass init () rfl (Nat.le_refl _)), by simp [upd]⟩

/-! ## Nested loops (F9) -/

/-- **F9 `nested_outer_state_stale_counterexample`.** Full-strength statement that FAILS: "a replica
    of the inner body processing data of outer round k reads the outer state S_{k-1}". In the two-level
    instance (2 hosts, inner body behind a shuffle, its `Start` waits only for the INNER lock —
    `iteration_ctx.last()`, stream.rs:160) the schedule `f9Schedule` is executable and ends with host
    1's inner-body replica reading host 1's OUTER state cell (still broadcast 0) while processing host
    0's data of outer round 1. Confirmed on the real engine by the `loops` harness (nested n1, 2 hosts). -/
theorem nested_outer_state_stale_counterexample :
    (Nested.exec 1 false (Nested.ninit 2) Nested.f9Schedule).map Nested.anyStale = some true := by
  decide

/-- Candidate fix (the body `Start` waits for the lock of EVERY enclosing loop): full statement
    "`∀ schedule s, exec I true (ninit H) schedule = some s → anyStale s = false`" is NOT proved; only
    that the fixed guard rejects the witness schedule at its last step. -/
theorem nested_fix_no_stale_partial :
    Nested.exec 1 true (Nested.ninit 2) Nested.f9Schedule = none ∧
    (Nested.exec 1 true (Nested.ninit 2) (Nested.f9Schedule.take 11)).map Nested.anyStale = some false := by
  decide

end Noir.LoopProto

namespace Noir.IterEnd

/-- **C10 `iterationEnd_one_delta_per_round`.** The local fold in front of `IterationEnd` yields at
    most one element per round; `IterationEnd` sends exactly one delta per `FlushAndRestart`: that
    element, or `Default::default()` when no element arrived (iteration_end.rs:93-106), and is ready
    for the next round. -/
theorem iterationEnd_one_delta_per_round {δ : Type} (delta0 : δ) (ds : List δ) (hl : ds.length ≤ 1) :
    run delta0 false (ds.map Elem.item ++ [.far]) = (false, [.item (ds.headD delta0)]) := by
  match ds, hl with
  | [], _ => simp [run, step]
  | [d], _ => simp [run, step]

end Noir.IterEnd

namespace Noir.SeqLoop
open Noir.Leader

variable {σ δ α : Type}

/-! ## The single loop computes the sequential semantics -/

/-- one round of the closed loop, in terms of the loop's own functions -/
theorem closed_round (l : Loop σ δ α) (n : Nat) (hn : 1 ≤ n)
    (split : List α → List (List α)) (hsplit : ∀ xs, (split xs).length = n)
    (st : Leader.St σ) (inp : List α) (hd : st.done = false) (hm : st.missing = n) :
    let T := foldRound l st.state (split (l.body st.state inp))
    runDeltas (cfgOf l n) st (deltas l (split (l.body st.state inp))) =
      if ((l.cond T).1 && decide (st.idx + 1 < l.maxIter)) = true then
        ({ st with state := (l.cond T).2, idx := st.idx + 1, missing := n }, [.feedback true (l.cond T).2])
      else ({ st with state := l.init, idx := 0, missing := n },
            [.feedback false l.init, .elem (.item (l.cond T).2), .elem .far]) := by
  have hlen : (deltas l (split (l.body st.state inp))).length = (cfgOf l n).n := by
    simp [deltas, hsplit, cfgOf]
  exact leader_round (cfgOf l n) st (deltas l (split (l.body st.state inp))) hn hd hm hlen

theorem closedLoop_rounds (l : Loop σ δ α) (n : Nat) (hn : 1 ≤ n) (feed : Bool)
    (split : List α → List (List α)) (hsplit : ∀ xs, (split xs).length = n) :
    ∀ (rem fuel : Nat) (st : Leader.St σ) (inp : List α),
      st.done = false → st.missing = n → rem = l.maxIter - 1 - st.idx → rem < fuel →
      closedLoop l n feed split fuel st st.state inp =
        expectOuts l.init (rounds l feed split rem st.state inp) := by
  intro rem
  induction rem with
  | zero =>
    intro fuel st inp hd hm hrem hf
    obtain ⟨fuel', rfl⟩ : ∃ f, fuel = f + 1 := ⟨fuel - 1, by omega⟩
    have hr := closed_round l n hn split hsplit st inp hd hm
    simp only at hr
    have hnc : decide (st.idx + 1 < l.maxIter) = false := decide_eq_false (by omega)
    rw [hnc, Bool.and_false] at hr
    simp only [Bool.false_eq_true, if_false] at hr
    simp only [closedLoop, hr, rounds, expectOuts]
  | succ rem ih =>
    intro fuel st inp hd hm hrem hf
    obtain ⟨fuel', rfl⟩ : ∃ f, fuel = f + 1 := ⟨fuel - 1, by omega⟩
    have hr := closed_round l n hn split hsplit st inp hd hm
    simp only at hr
    have hnc : decide (st.idx + 1 < l.maxIter) = true := decide_eq_true (by omega)
    rw [hnc, Bool.and_true] at hr
    cases hc : (l.cond (foldRound l st.state (split (l.body st.state inp)))).1 with
    | false =>
      rw [hc] at hr
      simp only [Bool.false_eq_true, if_false] at hr
      simp only [closedLoop, hr, rounds, hc, expectOuts, Bool.false_eq_true, if_false]
    | true =>
      rw [hc] at hr
      simp only [if_true] at hr
      have := ih fuel' { st with state := (l.cond (foldRound l st.state (split (l.body st.state inp)))).2, idx := st.idx + 1, missing := n }
        (if feed then l.body st.state inp else inp) hd rfl (by simp only; omega) (by omega)
      simp only at this
      simp only [closedLoop, hr, rounds, hc, if_true, this]
      cases hrs : rounds l feed split rem (l.cond (foldRound l st.state (split (l.body st.state inp)))).2
          (if feed then l.body st.state inp else inp) with
      | nil => exact absurd hrs (rounds_ne_nil l feed split rem _ _)
      | cons p ps => simp [expectOuts]


/-- **C10 `loop_seq`.** With every replica evaluating the body of a round against the last broadcast
    state (`state_read_is_previous_round`) and one delta per end replica and round
    (`iterationEnd_one_delta_per_round`), the leader's actions over the whole loop are exactly those of
    the sequential semantics: `(true, S_k)` after every round but the last, where `S_k` are the states
    of `SeqLoop.trace`; the loop stops exactly when the condition returns false or the bound is
    reached; then `(false, init)`, `Item(S_final)`, `FlushAndRestart`. Holds for `replay`
    (`feed = false`) and `iterate` (`feed = true`, round k+1 is fed round k's output). -/
theorem loop_seq (l : Loop σ δ α) (n : Nat) (hn : 1 ≤ n) (feed : Bool)
    (split : List α → List (List α)) (hsplit : ∀ xs, (split xs).length = n) (input : List α) :
    closedLoop l n feed split (l.maxIter + 1) (Leader.init (cfgOf l n)) l.init input =
      expectOuts l.init (trace l feed split input) := by
  have := closedLoop_rounds l n hn feed split hsplit (l.maxIter - 1) (l.maxIter + 1)
    (Leader.init (cfgOf l n)) input rfl rfl (by simp [Leader.init]) (by omega)
  exact this

/-- the stream of the loop's result: exactly `Item(seqReplay …)` (resp. the state component of
    `seqIterate`) followed by `FlushAndRestart` -/
theorem loop_seq_result (l : Loop σ δ α) (n : Nat) (hn : 1 ≤ n) (feed : Bool)
    (split : List α → List (List α)) (hsplit : ∀ xs, (split xs).length = n) (input : List α) :
    returned (closedLoop l n feed split (l.maxIter + 1) (Leader.init (cfgOf l n)) l.init input) =
      [.item (lastD (trace l feed split input) (l.init, [])).1, .far] := by
  rw [loop_seq l n hn feed split hsplit input]
  exact expectOuts_returned l.init (l.init, []) _ (rounds_ne_nil l feed split _ _ _)

/-- non-vacuity: replay of `[1,2,3]` with body `x ↦ x + S`, sum folds, bound 3, condition true, 2 end
    replicas: states 0 → 6 → 30 → 126 -/
example :
    seqReplay (σ := Nat) (δ := Nat) (α := Nat)
      ⟨0, 3, fun S xs => xs.map (· + S), 0, (· + ·), (· + ·), fun s => (true, s)⟩
      (fun xs => [xs.take 1, xs.drop 1]) [1, 2, 3] = 126 := by decide

end Noir.SeqLoop
