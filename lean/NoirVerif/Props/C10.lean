/-
  Props/C10.lean — property theorems for C10 (loops compute the sequential fixed point).
  Models: Model/Leader.lean (IterationLeader), Model/StateLock.lean (IterationStateLock + the Start's
  generation wait), Model/LoopProto.lean (the distributed protocol of one loop; the nested instance),
  Model/SeqLoop.lean (sequential reference semantics). Helper lemmas: Lemmas/Loop.lean.
-/
import NoirVerif.Lemmas.Loop
namespace Noir.Leader

variable {σ δ : Type}

/-! ## The leader -/

/-- Within a round (fewer deltas than still missing) the leader emits nothing; the deltas are folded
    into its state in arrival order. -/
theorem leader_silent_within_round (c : Cfg σ δ) (st : St σ) (ds : List δ)
    (hd : st.done = false) (hl : ds.length < st.missing) :
    (runDeltas c st ds).2 = [] ∧ (runDeltas c st ds).1.state = ds.foldl c.global st.state := by
  rw [run_within_round c ds st hd hl]; simp

/-- **C10 `leader_round`.** At the start of round `k = idx + 1` (nothing of the round received yet),
    after exactly `n` deltas `ds` (in arrival order) the leader has produced exactly one broadcast
    `(continue?, S_k)` with `S_k = (cond (foldl global S_{k-1} ds)).2` and
    `continue ⇔ (cond …).1 ∧ k < max`. If the loop continues nothing else is emitted and the leader is
    at the start of round `k + 1` with state `S_k`; otherwise see `leader_result_once_and_reset`. -/
theorem leader_round (c : Cfg σ δ) (st : St σ) (ds : List δ) (hn : 1 ≤ c.n)
    (hd : st.done = false) (hm : st.missing = c.n) (hl : ds.length = c.n) :
    let r := c.cond (ds.foldl c.global st.state)
    let k := st.idx + 1
    let cont := r.1 && decide (k < c.maxIter)
    runDeltas c st ds =
      if cont then ({ st with state := r.2, idx := k, missing := c.n }, [.feedback true r.2])
      else ({ st with state := c.init, idx := 0, missing := c.n },
            [.feedback false c.init, .elem (.item r.2), .elem .far]) := by
  intro r k cont
  obtain ⟨ds', d, rfl⟩ : ∃ ds' d, ds = ds' ++ [d] := by
    cases h : ds.reverse with
    | nil => simp at h; subst h; simp at hl; omega
    | cons d t => exact ⟨t.reverse, d, by rw [← List.reverse_reverse ds, h]; simp⟩
  have hl' : ds'.length < st.missing := by simp at hl; omega
  rw [runDeltas_append, run_within_round c ds' st hd hl']
  simp only [List.nil_append]
  have e := run_last c { st with state := ds'.foldl c.global st.state, missing := st.missing - ds'.length } d
    hd (by simp at hl ⊢; omega)
  rw [e]
  have hr : c.cond (c.global (ds'.foldl c.global st.state) d) = r := by
    simp [r, List.foldl_append]
  simp only [endRound, hr]
  show (if cont = true then _ else _) = _
  cases hc : cont <;> simp [k]

/-- **C10 `leader_result_once_and_reset`.** When round `k` ends the loop (condition false or bound
    reached) the leader broadcasts `(false, initial state)` — the ALREADY RESET state —, then
    returns `Item(S_final)` exactly once followed by `FlushAndRestart`; its `iteration_index` is 0 and
    its state the initial state again, ready for the next execution of the loop (nested loops). -/
theorem leader_result_once_and_reset (c : Cfg σ δ) (st : St σ) (ds : List δ) (hn : 1 ≤ c.n)
    (hd : st.done = false) (hm : st.missing = c.n) (hl : ds.length = c.n)
    (hstop : ((c.cond (ds.foldl c.global st.state)).1 && decide (st.idx + 1 < c.maxIter)) = false) :
    (runDeltas c st ds).2 =
      [.feedback false c.init, .elem (.item (c.cond (ds.foldl c.global st.state)).2), .elem .far] ∧
    (runDeltas c st ds).1 = { Leader.init c with terms := st.terms } := by
  have := leader_round c st ds hn hd hm hl
  simp only [hstop] at this
  rw [this]
  simp [Leader.init, hd]

/-- **C10 `leader_order_independent`.** If `global_fold` is right-commutative, the broadcast state
    (and everything else the leader does in the round) does not depend on the arrival order of the
    round's deltas. -/
theorem leader_order_independent (c : Cfg σ δ)
    (hg : ∀ s a b, c.global (c.global s a) b = c.global (c.global s b) a)
    (st : St σ) (ds ds' : List δ) (hp : ds.Perm ds') (hn : 1 ≤ c.n)
    (hd : st.done = false) (hm : st.missing = c.n) (hl : ds.length = c.n) :
    runDeltas c st ds = runDeltas c st ds' := by
  have h1 := leader_round c st ds hn hd hm hl
  have h2 := leader_round c st ds' hn hd hm (by rw [← hp.length_eq]; exact hl)
  simp only at h1 h2
  rw [h1, h2, foldl_perm c.global hg hp]

/-- Noise (`FlushBatch`, `FlushAndRestart`) never changes the leader (leader.rs:148). -/
theorem leader_ignores_noise (c : Cfg σ δ) (st : St σ) :
    step c st .far = (st, []) ∧ step c st .flushBatch = (st, []) := by
  simp [step]

/-- non-vacuity: two replicas, bound 2, sum: rounds `[1,2]`, `[3,4]` -/
example :
    (runDeltas (σ := Nat) (δ := Nat) ⟨0, 2, 2, (· + ·), fun s => (true, s)⟩
      (Leader.init ⟨0, 2, 2, (· + ·), fun s => (true, s)⟩) [1, 2, 3, 4]).2
    = [.feedback true 3, .feedback false 0, .elem (.item 10), .elem .far] := by decide

end Noir.Leader

namespace Noir.StateLock

/-! ## The generation lock -/

/-- **C10 `lock_generation_counts_rounds`.** After any sequence of `lock`/`unlock` calls none of
    which panicked, `generation = 2·(number of unlocks = rounds completed on this host) + (1 if locked)`. -/
theorem lock_generation_counts_rounds (ops : List Op) (l : Lock) (h : runOps Lock.new ops = some l) :
    l.gen = 2 * unlocks ops + (if l.locked then 1 else 0) := by
  have := runOps_gen ops Lock.new l h
  simp only [Lock.new, Nat.zero_div, Nat.zero_add] at this
  unfold Lock.locked
  split <;> rename_i h2 <;> simp at h2 <;> omega

/-- `lock` is idempotent until `unlock` is called (mod.rs:170) -/
theorem lock_idempotent (l : Lock) : l.lock.lock = l.lock := by
  unfold Lock.lock
  split
  · rename_i h; simp at h
    have : ¬ ((l.gen + 1) % 2 == 0) = true := by simp; omega
    simp [this]
  · rfl

/-- `unlock` succeeds exactly on a locked lock (otherwise the `assert_eq!` panics, mod.rs:184) -/
theorem unlock_requires_locked (l : Lock) : l.unlock.isSome = l.locked := by
  unfold Lock.unlock Lock.locked
  split <;> simp_all

/-- The `Start` of a body block lets the first element after its `fars`-th `FlushAndRestart` pass
    iff at least `fars` rounds were completed (state swapped + unlocked) on its host; the lock bit is
    irrelevant for it. -/
theorem start_passes_iff (l : Lock) (fars : Nat) :
    l.passes (startGeneration fars) = true ↔ fars ≤ l.gen / 2 := by
  unfold Lock.passes startGeneration
  rw [decide_eq_true_iff]
  omega

end Noir.StateLock
