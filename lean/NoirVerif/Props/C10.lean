/-
  Props/C10.lean — property theorems for C10 (loops compute the sequential fixed point).
  Models: Model/Leader.lean (IterationLeader, IterationEnd, Replay, Iterate), Model/StateLock.lean (IterationStateLock + the Start's
  generation wait), Model/LoopProto.lean (the distributed protocol of one loop; the nested instance),
  Model/SeqLoop.lean (sequential reference semantics). Helper lemmas: Lemmas/Loop.lean.
-/
import NoirVerif.Lemmas.Loop
namespace Noir.Leader

variable {σ δ : Type}

/-! ## The leader -/

/-- Within a round (fewer deltas than still missing) the leader emits nothing; the deltas are folded
    into its state in arrival order. -/
theorem leader_silent_within_round (c : Cfg σ δ) (st : St σ) (ds : List δ)
    (hd : st.done = false) (hl : ds.length < st.missing) :
    (runDeltas c st ds).2 = [] ∧ (runDeltas c st ds).1.state = ds.foldl c.global st.state := by
  rw [run_within_round c ds st hd hl]; simp

/-- **C10 `leader_round`.** At the start of round `k = idx + 1` (nothing of the round received yet),
    after exactly `n` deltas `ds` (in arrival order) the leader has produced exactly one broadcast
    `(continue?, S_k)` with `S_k = (cond (foldl global S_{k-1} ds)).2` and
    `continue ⇔ (cond …).1 ∧ k < max`. If the loop continues nothing else is emitted and the leader is
    at the start of round `k + 1` with state `S_k`; otherwise see `leader_result_once_and_reset`. -/
theorem leader_round (c : Cfg σ δ) (st : St σ) (ds : List δ) (hn : 1 ≤ c.n)
    (hd : st.done = false) (hm : st.missing = c.n) (hl : ds.length = c.n) :
    let r := c.cond (ds.foldl c.global st.state)
    let k := st.idx + 1
    let cont := r.1 && decide (k < c.maxIter)
    runDeltas c st ds =
      if cont then ({ st with state := r.2, idx := k, missing := c.n }, [.feedback true r.2])
      else ({ st with state := c.init, idx := 0, missing := c.n },
            [.feedback false c.init, .elem (.item r.2), .elem .far]) := by
  intro r k cont
  obtain ⟨ds', d, rfl⟩ : ∃ ds' d, ds = ds' ++ [d] := by
    cases h : ds.reverse with
    | nil => simp at h; subst h; simp at hl; omega
    | cons d t => exact ⟨t.reverse, d, by rw [← List.reverse_reverse ds, h]; simp⟩
  have hl' : ds'.length < st.missing := by simp at hl; omega
  rw [runDeltas_append, run_within_round c ds' st hd hl']
  simp only [List.nil_append]
  have e := run_last c { st with state := ds'.foldl c.global st.state, missing := st.missing - ds'.length } d
    hd (by simp at hl ⊢; omega)
  rw [e]
  have hr : c.cond (c.global (ds'.foldl c.global st.state) d) = r := by
    simp [r, List.foldl_append]
  simp only [endRound, hr]
  show (if cont = true then _ else _) = _
  cases hc : cont <;> simp [k]

/-- **C10 `leader_result_once_and_reset`.** When round `k` ends the loop (condition false or bound
    reached) the leader broadcasts `(false, initial state)` — the ALREADY RESET state —, then
    returns `Item(S_final)` exactly once followed by `FlushAndRestart`; its `iteration_index` is 0 and
    its state the initial state again, ready for the next execution of the loop (nested loops). -/
theorem leader_result_once_and_reset (c : Cfg σ δ) (st : St σ) (ds : List δ) (hn : 1 ≤ c.n)
    (hd : st.done = false) (hm : st.missing = c.n) (hl : ds.length = c.n)
    (hstop : ((c.cond (ds.foldl c.global st.state)).1 && decide (st.idx + 1 < c.maxIter)) = false) :
    (runDeltas c st ds).2 =
      [.feedback false c.init, .elem (.item (c.cond (ds.foldl c.global st.state)).2), .elem .far] ∧
    (runDeltas c st ds).1 = { Leader.init c with terms := st.terms } := by
  have := leader_round c st ds hn hd hm hl
  simp only [hstop] at this
  rw [this]
  simp [Leader.init, hd]

/-- **C10 `leader_order_independent`.** If `global_fold` is right-commutative, the broadcast state
    (and everything else the leader does in the round) does not depend on the arrival order of the
    round's deltas. -/
theorem leader_order_independent (c : Cfg σ δ)
    (hg : ∀ s a b, c.global (c.global s a) b = c.global (c.global s b) a)
    (st : St σ) (ds ds' : List δ) (hp : ds.Perm ds') (hn : 1 ≤ c.n)
    (hd : st.done = false) (hm : st.missing = c.n) (hl : ds.length = c.n) :
    runDeltas c st ds = runDeltas c st ds' := by
  have h1 := leader_round c st ds hn hd hm hl
  have h2 := leader_round c st ds' hn hd hm (by rw [← hp.length_eq]; exact hl)
  simp only at h1 h2
  rw [h1, h2, foldl_perm c.global hg hp]

/-- Noise (`FlushBatch`, `FlushAndRestart`) never changes the leader (leader.rs:148). -/
theorem leader_ignores_noise (c : Cfg σ δ) (st : St σ) :
    step c st .far = (st, []) ∧ step c st .flushBatch = (st, []) := by
  simp [step]

/-- non-vacuity: two replicas, bound 2, sum: rounds `[1,2]`, `[3,4]` -/
example :
    (runDeltas (σ := Nat) (δ := Nat) ⟨0, 2, 2, (· + ·), fun s => (true, s)⟩
      (Leader.init ⟨0, 2, 2, (· + ·), fun s => (true, s)⟩) [1, 2, 3, 4]).2
    = [.feedback true 3, .feedback false 0, .elem (.item 10), .elem .far] := by decide

end Noir.Leader

namespace Noir.StateLock

/-! ## The generation lock -/

/-- **C10 `lock_generation_counts_rounds`.** After any sequence of `lock`/`unlock` calls none of
    which panicked, `generation = 2·(number of unlocks = rounds completed on this host) + (1 if locked)`. -/
theorem lock_generation_counts_rounds (ops : List Op) (l : Lock) (h : runOps Lock.new ops = some l) :
    l.gen = 2 * unlocks ops + (if l.locked then 1 else 0) := by
  have := runOps_gen ops Lock.new l h
  simp only [Lock.new, Nat.zero_div, Nat.zero_add] at this
  unfold Lock.locked
  split <;> rename_i h2 <;> simp at h2 <;> omega

/-- `lock` is idempotent until `unlock` is called (mod.rs:170) -/
theorem lock_idempotent (l : Lock) : l.lock.lock = l.lock := by
  unfold Lock.lock
  split
  · rename_i h; simp at h
    have : ¬ ((l.gen + 1) % 2 == 0) = true := by simp; omega
    simp [this]
  · rfl

/-- `unlock` succeeds exactly on a locked lock (otherwise the `assert_eq!` panics, mod.rs:184) -/
theorem unlock_requires_locked (l : Lock) : l.unlock.isSome = l.locked := by
  unfold Lock.unlock Lock.locked
  split <;> simp_all

/-- The `Start` of a body block lets the first element after its `fars`-th `FlushAndRestart` pass
    iff at least `fars` rounds were completed (state swapped + unlocked) on its host; the lock bit is
    irrelevant for it. -/
theorem start_passes_iff (l : Lock) (fars : Nat) :
    l.passes (startGeneration fars) = true ↔ fars ≤ l.gen / 2 := by
  unfold Lock.passes startGeneration
  rw [decide_eq_true_iff]
  omega

end Noir.StateLock

namespace Noir.LoopProto

variable {Host Head Body End : Type} [DecidableEq Host] [DecidableEq Head] [DecidableEq Body] [DecidableEq End]

/-! ## The protocol of one loop (any number of hosts and replicas, every interleaving, arbitrary delays)

`Reachable L s`: `s` is reachable from the initial state by the transitions of Model/LoopProto.lean.
The loop has at least one head replica `r0`, one body replica `b0` (a block behind a `Start` that
holds the loop's lock) and one `IterationEnd` replica `e0`. -/

/-- **I1.** The leader has completed round `K` only after every body replica emitted the
    `FlushAndRestart` of round `K` (it has finished evaluating the body for that round). -/
theorem loopProto_I1 (L : Layout Host Head Body End) (r0 : Head) (b0 : Body) (e0 : End)
    {s : St Host Head Body End} (h : Reachable L s) : ∀ b, s.K ≤ s.fars b := by
  intro b
  have inv := inv_reachable L r0 b0 h
  have := inv.K_le_got e0
  have := inv.got_le_sent e0
  have := inv.sent_le_fars e0 b
  omega

/-- **I2.** On every host the state cell holds the state of broadcast number `sidx h` with
    `syncs h ≤ sidx h ≤ syncs h + 1` (`syncs h` = completed lock/unlock cycles, generation =
    `2·syncs h` or `2·syncs h + 1`); it is ahead of `syncs h` only between the local leader's write and
    its `unlock`; and it never holds a state the leader has not broadcast yet (`sidx h ≤ K`). -/
theorem loopProto_I2 (L : Layout Host Head Body End) (r0 : Head) (b0 : Body)
    {s : St Host Head Body End} (h : Reachable L s) :
    ∀ host, s.sidx host ≤ s.K ∧ s.syncs host ≤ s.sidx host ∧ s.sidx host ≤ s.syncs host + 1 ∧
      (s.sidx host = s.syncs host + 1 →
        s.phase (L.leaderOf host) = .atBarrier ∨ s.phase (L.leaderOf host) = .released) := by
  intro host
  have inv := inv_reachable L r0 b0 h
  have h1 := inv.sidx_fb host
  have h2 := inv.fb_le_K (L.leaderOf host)
  have ha := inv.syncs_a host
  have hb := inv.syncs_b host
  cases hp : s.phase (L.leaderOf host) with
  | emitting => have := ha (Or.inl hp); refine ⟨by omega, by omega, by omega, fun _ => by omega⟩
  | waiting => have := ha (Or.inr hp); refine ⟨by omega, by omega, by omega, fun _ => by omega⟩
  | atBarrier => have := hb (Or.inl hp); exact ⟨by omega, by omega, by omega, fun _ => Or.inl rfl⟩
  | released => have := hb (Or.inr hp); exact ⟨by omega, by omega, by omega, fun _ => Or.inr rfl⟩

/-- **I3 = C10 `state_read_is_previous_round`.** In every reachable state, a body replica `b` that
    has let the first element after its `fars b`-th `FlushAndRestart` pass — i.e. that is processing
    data of round `k = fars b + 1` — finds in its host's state cell exactly the state of broadcast
    number `k - 1 = fars b` (the initial state for `k = 1`): never an older, never a newer one. By
    `leader_round` that broadcast carries `S_{k-1}`. -/
theorem state_read_is_previous_round (L : Layout Host Head Body End) (r0 : Head) (b0 : Body) (e0 : End)
    {s : St Host Head Body End} (h : Reachable L s) (b : Body) (hp : s.passed b = true) :
    s.sidx (L.hostOfBody b) = s.fars b := by
  have inv := inv_reachable L r0 b0 h
  have h1 := inv.passed_sync b hp
  have h2 := (loopProto_I2 L r0 b0 h (L.hostOfBody b))
  have h3 := loopProto_I1 L r0 b0 e0 h b
  omega

/-- **`state_read_is_previous_round` for the head's own block.** Body operators chained directly
    to the `Replay`/`Iterate` (no `Start` in between) are evaluated by the head thread while it is
    `emitting`; while head replica `r` emits round `k = round r + 1` its host's state cell holds the
    state of broadcast number `k - 1 = round r` — even if `r` is not the local leader and whatever the
    other hosts and replicas are doing (barrier + I1). -/
theorem head_block_read_is_previous_round (L : Layout Host Head Body End) (b0 : Body) (e0 : End)
    {s : St Host Head Body End} (h : Reachable L s) (r : Head) (hp : s.phase r = .emitting) :
    s.sidx (L.hostOfHead r) = s.round r := by
  have inv := inv_reachable L r b0 h
  have bi := barInv_reachable L h
  have h1 := inv.sidx_fb (L.hostOfHead r)
  have h2 := (inv.round_fb r).2 (by rw [hp]; decide)
  have h3 := bi.bar_a r (by rw [hp]; decide)
  by_cases hl : s.phase (L.leaderOf (L.hostOfHead r)) = .atBarrier
  · -- the local leader already wrote broadcast `round r + 1`: impossible while `r` is still emitting
    have h4 := bi.bar_b _ hl
    rw [L.leader_host] at h4
    have h5 := inv.fb_le_K (L.leaderOf (L.hostOfHead r))
    have := inv.K_le_got e0
    have := inv.got_le_sent e0
    have := inv.sent_le_fars e0 b0
    have := inv.fars_le_round b0 r
    omega
  · have h4 := bi.bar_a _ hl
    rw [L.leader_host] at h4
    omega

/-- the state cell is never written while some body replica of that host is inside a round: a write
    of broadcast `j` on host `h` needs `K ≥ j`, hence every body replica has already emitted the
    `FlushAndRestart` of round `j` (no data race between `set` and `get`, iteration/mod.rs:60-80) -/
theorem no_write_during_round (L : Layout Host Head Body End) (r0 : Head) (b0 : Body) (e0 : End)
    {s : St Host Head Body End} (h : Reachable L s) (r : Head) (hw : s.phase r = .waiting) (hk : s.fb r < s.K)
    (b : Body) : s.fb r + 1 ≤ s.fars b := by
  have := loopProto_I1 L r0 b0 e0 h b
  omega

/-- non-vacuity: a reachable state with a body replica inside a round -/
example : ∃ s : St Unit Unit Unit Unit,
    Reachable ⟨id, id, id, fun _ => rfl, [()], by simp, by simp⟩ s ∧ s.passed () = true :=
  ⟨_, .step .init (.bodyPass init () rfl (Nat.le_refl _)), by simp [upd]⟩

/-! ## Nested loops (F9) -/

/-- **F9 `nested_outer_state_stale_counterexample`.** Full-strength statement that FAILS: "a replica
    of the inner body processing data of outer round k reads the outer state S_{k-1}". In the two-level
    instance (2 hosts, inner body behind a shuffle, its `Start` waits only for the INNER lock —
    `iteration_ctx.last()`, stream.rs:160) the schedule `f9Schedule` is executable and ends with host
    1's inner-body replica reading host 1's OUTER state cell (still broadcast 0) while processing host
    0's data of outer round 1. Confirmed on the real engine by the `loops` harness (nested n1, 2 hosts). -/
theorem nested_outer_state_stale_counterexample :
    (Nested.exec 1 false (Nested.ninit 2) Nested.f9Schedule).map Nested.anyStale = some true := by
  decide

/-- No host is exempt (in particular not the one the outer leader runs on: its loop heads receive the
    feedback through the same `wait_sync_state` path): the same schedule with the two hosts exchanged
    ends with HOST 0's inner-body replica reading host 0's stale outer cell while processing host 1's
    data of outer round 1. Observed on the real engine (corpus/C10/loops-f9-leader-host.case). -/
theorem nested_outer_state_stale_leader_host_counterexample :
    ((Nested.exec 1 false (Nested.ninit 2)
      [.bodyPass 0 0, .bodyPass 1 0, .headFar 0, .headFar 1, .bodyFar 0, .bodyFar 1,
       .innerBroadcast, .outerBroadcast, .headRecvInner 1, .headRecvOuter 1, .headRecvInner 0,
       .bodyPass 0 1]).map fun s => s.hosts.map (·.stale)) = some [true, false] := by
  decide

/-- Candidate fix (the body `Start` waits for the lock of EVERY enclosing loop): full statement
    "`∀ schedule s, exec I true (ninit H) schedule = some s → anyStale s = false`" is NOT proved; only
    that the fixed guard rejects the witness schedule at its last step. -/
theorem nested_fix_no_stale_partial :
    Nested.exec 1 true (Nested.ninit 2) Nested.f9Schedule = none ∧
    (Nested.exec 1 true (Nested.ninit 2) (Nested.f9Schedule.take 11)).map Nested.anyStale = some false := by
  decide

end Noir.LoopProto

namespace Noir.IterEnd

/-- **C10 `iterationEnd_one_delta_per_round`.** The local fold in front of `IterationEnd` yields at
    most one element per round; `IterationEnd` sends exactly one delta per `FlushAndRestart`: that
    element, or `Default::default()` when no element arrived (iteration_end.rs:93-106), and is ready
    for the next round. -/
theorem iterationEnd_one_delta_per_round {δ : Type} (delta0 : δ) (ds : List δ) (hl : ds.length ≤ 1) :
    run delta0 false (ds.map Elem.item ++ [.far]) = (false, [.item (ds.headD delta0)]) := by
  match ds, hl with
  | [], _ => simp [run, step]
  | [d], _ => simp [run, step]

end Noir.IterEnd

namespace Noir.SeqLoop
open Noir.Leader

variable {σ δ α : Type}

/-! ## The single loop computes the sequential semantics -/

/-- one round of the closed loop, in terms of the loop's own functions -/
theorem closed_round (l : Loop σ δ α) (n : Nat) (hn : 1 ≤ n)
    (split : List α → List (List α)) (hsplit : ∀ xs, (split xs).length = n)
    (st : Leader.St σ) (inp : List α) (hd : st.done = false) (hm : st.missing = n) :
    let T := foldRound l st.state (split (l.body st.state inp))
    runDeltas (cfgOf l n) st (deltas l (split (l.body st.state inp))) =
      if ((l.cond T).1 && decide (st.idx + 1 < l.maxIter)) = true then
        ({ st with state := (l.cond T).2, idx := st.idx + 1, missing := n }, [.feedback true (l.cond T).2])
      else ({ st with state := l.init, idx := 0, missing := n },
            [.feedback false l.init, .elem (.item (l.cond T).2), .elem .far]) := by
  have hlen : (deltas l (split (l.body st.state inp))).length = (cfgOf l n).n := by
    simp [deltas, hsplit, cfgOf]
  exact leader_round (cfgOf l n) st (deltas l (split (l.body st.state inp))) hn hd hm hlen

theorem closedLoop_rounds (l : Loop σ δ α) (n : Nat) (hn : 1 ≤ n) (feed : Bool)
    (split : List α → List (List α)) (hsplit : ∀ xs, (split xs).length = n) :
    ∀ (rem fuel : Nat) (st : Leader.St σ) (inp : List α),
      st.done = false → st.missing = n → rem = l.maxIter - 1 - st.idx → rem < fuel →
      closedLoop l n feed split fuel st st.state inp =
        expectOuts l.init (rounds l feed split rem st.state inp) := by
  intro rem
  induction rem with
  | zero =>
    intro fuel st inp hd hm hrem hf
    obtain ⟨fuel', rfl⟩ : ∃ f, fuel = f + 1 := ⟨fuel - 1, by omega⟩
    have hr := closed_round l n hn split hsplit st inp hd hm
    simp only at hr
    have hnc : decide (st.idx + 1 < l.maxIter) = false := decide_eq_false (by omega)
    rw [hnc, Bool.and_false] at hr
    simp only [Bool.false_eq_true, if_false] at hr
    simp only [closedLoop, hr, rounds, expectOuts]
  | succ rem ih =>
    intro fuel st inp hd hm hrem hf
    obtain ⟨fuel', rfl⟩ : ∃ f, fuel = f + 1 := ⟨fuel - 1, by omega⟩
    have hr := closed_round l n hn split hsplit st inp hd hm
    simp only at hr
    have hnc : decide (st.idx + 1 < l.maxIter) = true := decide_eq_true (by omega)
    rw [hnc, Bool.and_true] at hr
    cases hc : (l.cond (foldRound l st.state (split (l.body st.state inp)))).1 with
    | false =>
      rw [hc] at hr
      simp only [Bool.false_eq_true, if_false] at hr
      simp only [closedLoop, hr, rounds, hc, expectOuts, Bool.false_eq_true, if_false]
    | true =>
      rw [hc] at hr
      simp only [if_true] at hr
      have := ih fuel' { st with state := (l.cond (foldRound l st.state (split (l.body st.state inp)))).2, idx := st.idx + 1, missing := n }
        (if feed then l.body st.state inp else inp) hd rfl (by simp only; omega) (by omega)
      simp only at this
      simp only [closedLoop, hr, rounds, hc, if_true, this]
      cases hrs : rounds l feed split rem (l.cond (foldRound l st.state (split (l.body st.state inp)))).2
          (if feed then l.body st.state inp else inp) with
      | nil => exact absurd hrs (rounds_ne_nil l feed split rem _ _)
      | cons p ps => simp [expectOuts]


/-- **C10 `loop_seq`.** With every replica evaluating the body of a round against the last broadcast
    state (`state_read_is_previous_round`) and one delta per end replica and round
    (`iterationEnd_one_delta_per_round`), the leader's actions over the whole loop are exactly those of
    the sequential semantics: `(true, S_k)` after every round but the last, where `S_k` are the states
    of `SeqLoop.trace`; the loop stops exactly when the condition returns false or the bound is
    reached; then `(false, init)`, `Item(S_final)`, `FlushAndRestart`. Holds for `replay`
    (`feed = false`) and `iterate` (`feed = true`, round k+1 is fed round k's output). -/
theorem loop_seq (l : Loop σ δ α) (n : Nat) (hn : 1 ≤ n) (feed : Bool)
    (split : List α → List (List α)) (hsplit : ∀ xs, (split xs).length = n) (input : List α) :
    closedLoop l n feed split (l.maxIter + 1) (Leader.init (cfgOf l n)) l.init input =
      expectOuts l.init (trace l feed split input) := by
  have := closedLoop_rounds l n hn feed split hsplit (l.maxIter - 1) (l.maxIter + 1)
    (Leader.init (cfgOf l n)) input rfl rfl (by simp [Leader.init]) (by omega)
  exact this

/-- the stream of the loop's result: exactly `Item(seqReplay …)` (resp. the state component of
    `seqIterate`) followed by `FlushAndRestart` -/
theorem loop_seq_result (l : Loop σ δ α) (n : Nat) (hn : 1 ≤ n) (feed : Bool)
    (split : List α → List (List α)) (hsplit : ∀ xs, (split xs).length = n) (input : List α) :
    returned (closedLoop l n feed split (l.maxIter + 1) (Leader.init (cfgOf l n)) l.init input) =
      [.item (lastD (trace l feed split input) (l.init, [])).1, .far] := by
  rw [loop_seq l n hn feed split hsplit input]
  exact expectOuts_returned l.init (l.init, []) _ (rounds_ne_nil l feed split _ _ _)

/-- non-vacuity: replay of `[1,2,3]` with body `x ↦ x + S`, sum folds, bound 3, condition true, 2 end
    replicas: states 0 → 6 → 30 → 126 -/
example :
    seqReplay (σ := Nat) (δ := Nat) (α := Nat)
      ⟨0, 3, fun S xs => xs.map (· + S), 0, (· + ·), (· + ·), fun s => (true, s)⟩
      (fun xs => [xs.take 1, xs.drop 1]) [1, 2, 3] = 126 := by decide

end Noir.SeqLoop

namespace Noir.LoopProto.Nested

/-! ## Nested loops: what does hold -/

/-- **`nested_single_host_no_stale`.** On ONE host (e.g. `RuntimeConfig::local(n)`) no schedule of the
    two-level instance reaches a stale read of the outer state, whatever the inner body does: all
    heads share the host's outer state cell and data of outer round `k` only exists after the host's
    outer head consumed feedback `k`. (This is why F9 needs at least two hosts.) -/
theorem nested_single_host_no_stale (I : Nat) (sched : List Act) (s : NSt)
    (h : exec I false (ninit 1) sched = some s) : anyStale s = false :=
  good_no_stale s (good_exec I false sched (ninit 1) s h (good_init 1) (Or.inr (by simp [ninit])))

/-- **`nested_no_inner_shuffle_no_stale`.** For any number of hosts: if the inner body has no shuffle
    (every inner-body replica only receives the data of its own host's head: `bodyPass h h`), no schedule
    reaches a stale read of the outer state. -/
theorem nested_no_inner_shuffle_no_stale (I H : Nat) (sched : List Act) (s : NSt)
    (hloc : ∀ a ∈ sched, localOnly a = true)
    (h : exec I false (ninit H) sched = some s) : anyStale s = false :=
  good_no_stale s (good_exec I false sched (ninit H) s h (good_init H) (Or.inl hloc))

/-- non-vacuity of the two statements: a two-round schedule on one host that is executable -/
example : (exec 1 false (ninit 1)
    [.bodyPass 0 0, .headFar 0, .bodyFar 0, .innerBroadcast, .outerBroadcast, .headRecvInner 0,
     .headRecvOuter 0, .bodyPass 0 0]).map anyStale = some false := by decide

end Noir.LoopProto.Nested

namespace Noir.Replay

variable {α : Type}

/-! ## The loop heads -/

/-- **C10 `replay_refeeds_input`.** In the first round `Replay` forwards and records its input; in
    every later round (`(Continue, _)` from the leader) it hands the body exactly the recorded content
    again — the same elements in the same order, ending with the `FlushAndRestart` — and is unchanged. -/
theorem replay_refeeds_input (xs : List α) :
    run (init : St α) (xs.map (fun x => Ev.input (Elem.item x)) ++ [.input .far]) =
      (⟨xs.map Elem.item ++ [.far], true⟩, xs.map (fun x => Act.emit (Elem.item x)) ++ [.lock, .emit .far]) ∧
    ∀ st : St α, st.inputFinished = true →
      (step st (.state true)).1 = st ∧ emitted (step st (.state true)).2 = st.content := by
  constructor
  · have h1 := run_input xs (init : St α) rfl
    have : ∀ (st : St α) (es fs : List (Ev α)), run st (es ++ fs) =
        ((run (run st es).1 fs).1, (run st es).2 ++ (run (run st es).1 fs).2) := by
      intro st es
      induction es generalizing st with
      | nil => intro fs; simp [run]
      | cons e es ih => intro fs; simp only [List.cons_append, run]; rw [ih]; simp [List.append_assoc]
    rw [this, h1]
    simp [run, step, init]
  · intro st h
    constructor
    · simp [step, h]
    · simp only [step, h, Bool.not_true, Bool.false_eq_true, if_false, if_true]
      show emitted (Act.sync :: acts st.content) = st.content
      have := emitted_acts st.content
      simpa [emitted] using this

/-- when the loop finishes `Replay` forgets the content and waits for input again: it is in its
    initial state (replay.rs:192-196), ready for the next outer round -/
theorem replay_cleared_on_finish (st : St α) (h : st.inputFinished = true) :
    step st (.state false) = (init, [.sync]) := by
  simp [step, h, init]

end Noir.Replay

namespace Noir.Iterate

variable {α : Type}

/-- **C10 `iterate_feeds_back`.** Between two rounds (`mid`: input ended, everything handed out), once
    the complete output `F` of round k (ending with its `FlushAndRestart`) has come back and the
    leader said `Continue`, `Iterate` hands the body exactly `F` — round k's output is round k+1's
    input —, sends nothing to the output, and is between two rounds again. The leader's message may
    arrive before or after the feedback. -/
theorem iterate_feeds_back (F : List (Elem α)) (hF : (F.getLast?.map Elem.isFar).getD false = true) :
    (∀ evs, evs = [Ev.feedback F, .state true] ∨ evs = [Ev.state true, .feedback F] →
      (run mid evs).1 = mid ∧ emitted (run mid evs).2 = F ∧ outputs (run mid evs).2 = []) := by
  intro evs h
  have key : run (mid : St α) evs = (mid, .sync :: acts F) := by
    rcases h with h | h <;> subst h
    · simpa using round_feedback_then_state F hF true
    · simpa using round_state_then_feedback F hF true
  rw [key]
  refine ⟨rfl, ?_, ?_⟩
  · have := emitted_acts F; simpa [emitted] using this
  · have := outputs_acts F; simpa [outputs] using this

/-- **C10 `iterate_emits_last_round`.** When the leader says `Finished`, the complete output `F` of the
    last round is sent, as one batch, to the output block and NOT handed to the body again; `Iterate`
    is in its initial state, ready for the next execution of the loop. -/
theorem iterate_emits_last_round (F : List (Elem α)) (hF : (F.getLast?.map Elem.isFar).getD false = true) :
    (∀ evs, evs = [Ev.feedback F, .state false] ∨ evs = [Ev.state false, .feedback F] →
      (run mid evs).1 = init ∧ emitted (run mid evs).2 = [] ∧ outputs (run mid evs).2 = [F]) := by
  intro evs h
  have key : run (mid : St α) evs = (init, [.sync, .out F]) := by
    rcases h with h | h <;> subst h
    · simpa using round_feedback_then_state F hF false
    · simpa using round_state_then_feedback F hF false
  rw [key]
  simp [emitted, outputs]

/-- non-vacuity: first round (the outside input passes through), one fed-back round, final round -/
example : (run (init : St Nat) [.input [.item 1, .item 2, .far], .feedback [.item 5], .feedback [.far], .state true,
      .feedback [.item 9, .far], .state false]).2 =
    [.emit (.item 1), .emit (.item 2), .lock, .emit .far, .sync, .emit (.item 5), .lock, .emit .far,
     .sync, .out [.item 9, .far]] := by decide

end Noir.Iterate

namespace Noir.Leader

/-- **`inner_restarts_clean`.** After an execution of a loop has finished, all three parties are back
    in their initial configuration, so the next outer round runs the inner loop from scratch:
    the leader (state = initial state, `iteration_index = 0`), `Replay` (content cleared, reading
    input again) and `Iterate`; the host's lock has gone through whole lock/unlock cycles only, i.e.
    it is unlocked and its generation is `2·(rounds so far)`, which is exactly the generation the
    body `Start`s wait for after that many `FlushAndRestart`s. -/
theorem inner_restarts_clean {σ δ α : Type} (c : Cfg σ δ) (st : St σ) (ds : List δ) (hn : 1 ≤ c.n)
    (hd : st.done = false) (hm : st.missing = c.n) (hl : ds.length = c.n)
    (hstop : ((c.cond (ds.foldl c.global st.state)).1 && decide (st.idx + 1 < c.maxIter)) = false)
    (rst : Replay.St α) (hr : rst.inputFinished = true)
    (F : List (Elem α)) (hF : (F.getLast?.map Elem.isFar).getD false = true) (rounds : Nat) :
    (runDeltas c st ds).1 = { Leader.init c with terms := st.terms } ∧
    (Replay.step rst (.state false)).1 = Replay.init ∧
    (Iterate.run Iterate.mid [.feedback F, .state false]).1 = Iterate.init ∧
    StateLock.runOps StateLock.Lock.new ((List.replicate rounds [StateLock.Op.lock, .unlock]).flatten) =
      some ⟨StateLock.startGeneration rounds⟩ := by
  refine ⟨(leader_result_once_and_reset c st ds hn hd hm hl hstop).2, ?_, ?_, ?_⟩
  · rw [Replay.replay_cleared_on_finish rst hr]
  · exact (Iterate.iterate_emits_last_round F hF _ (Or.inl rfl)).1
  · have : ∀ (k g : Nat), g % 2 = 0 →
        StateLock.runOps ⟨g⟩ ((List.replicate k [StateLock.Op.lock, .unlock]).flatten) = some ⟨g + 2 * k⟩ := by
      intro k
      induction k with
      | zero => intro g _; simp [StateLock.runOps]
      | succ k ih =>
        intro g hg
        have h1 : (g + 1) % 2 = 1 := by omega
        simp only [List.replicate_succ, List.flatten_cons, List.cons_append, List.nil_append,
          StateLock.runOps, StateLock.Lock.lock, StateLock.Lock.unlock, hg, h1, beq_self_eq_true, if_true]
        rw [ih (g + 1 + 1) (by omega)]
        congr 2; omega
    have := this rounds 0 rfl
    simpa [StateLock.Lock.new, StateLock.startGeneration] using this

end Noir.Leader

namespace Noir.LoopProto

variable {Host Head Body End σ δ α : Type} [DecidableEq Host] [DecidableEq Head] [DecidableEq Body] [DecidableEq End]

/-! ## Composition: the protocol computes the sequential semantics

`DReachable L D s`: reachable states of the data-carrying refinement of `LoopProto`
(Model/LoopProto.lean: cells hold values, body replicas record what they read, `IterationEnd`
replicas send `foldl localFold delta0 (body stateRead part)`, the leader folds in arrival order and
applies `loop_condition`). `seqS L D k` is the sequential state after `k` rounds
(`SeqLoop.foldRound` + `loop_condition`). -/

/-- **C10 `loopProto_computes_seq`** (one theorem for "every replica evaluates round k against
    `S_{k-1}` AND the state is the sequential one"). For a right-commutative `global_fold`, any number
    of hosts/replicas, every interleaving and all message delays, in every reachable state:
    * every broadcast `j` the leader has made carries the sequential state `S_j`;
    * at a round boundary the leader's own state is `S_K`;
    * a body replica processing data of round `k = fars b + 1` has READ the value `S_{k-1}`;
    * every host's state cell holds `S_j` for the broadcast `j` it was last written with. -/
theorem loopProto_computes_seq (L : Layout Host Head Body End) (D : DataCfg Body End σ δ α)
    (hcomm : ∀ s a b, D.loop.global (D.loop.global s a) b = D.loop.global (D.loop.global s b) a)
    (r0 : Head) (b0 : Body) (e0 : End)
    {s : DSt Host Head Body End σ δ} (h : DReachable L D s) :
    (∀ j, j ≤ s.base.K → s.hist j = seqS L D j) ∧
    (s.recvd = [] → s.lstate = seqS L D s.base.K) ∧
    (∀ b, s.base.passed b = true → s.readSt b = seqS L D (s.base.fars b)) ∧
    (∀ host, s.cell host = seqS L D (s.base.sidx host)) := by
  have inv := dinv_reachable L D hcomm r0 b0 e0 h
  have bi := inv_reachable L r0 b0 (dreach_base L D h)
  refine ⟨inv.hist_seq, ?_, ?_, ?_⟩
  · intro hr
    rw [inv.lstate_fold, hr]
    exact inv.hist_seq _ (Nat.le_refl _)
  · intro b hp
    rw [inv.read_hist b hp]
    have h0 := sidx_eq_fars L e0 bi b hp
    have h1 := bi.sidx_fb (L.hostOfBody b)
    have h2 := bi.fb_le_K (L.leaderOf (L.hostOfBody b))
    exact inv.hist_seq _ (by omega)
  · intro host
    rw [inv.cell_hist host]
    have h1 := bi.sidx_fb host
    have h2 := bi.fb_le_K (L.leaderOf host)
    exact inv.hist_seq _ (by omega)

/-- the data refinement refines `LoopProto`: its reachable states project to reachable states, so
    I1–I3 and `state_read_is_previous_round` apply to them -/
theorem data_refines_proto (L : Layout Host Head Body End) (D : DataCfg Body End σ δ α)
    {s : DSt Host Head Body End σ δ} (h : DReachable L D s) : Reachable L s.base :=
  dreach_base L D h

/-- `seqS` is the state sequence of the sequential reference `SeqLoop.rounds` (`replay`), for any
    `split` that distributes a round's output over the end replicas the way the replicas produce it -/
theorem seqS_is_sequential_rounds (L : Layout Host Head Body End) (D : DataCfg Body End σ δ α)
    (split : List α → List (List α)) (input : List α)
    (hsplit : ∀ S, split (D.loop.body S input) = L.ends.map fun e => D.loop.body S (D.part (D.bodyOf e)))
    (k : Nat) (S : σ) (hk : (SeqLoop.states D.loop false split input)[k]? = some S) : S = seqS L D k := by
  cases k with
  | zero => simp [SeqLoop.states] at hk; rw [← hk]; rfl
  | succ k =>
    simp only [SeqLoop.states, List.getElem?_cons_succ, List.getElem?_map, Option.map_eq_some_iff] at hk
    obtain ⟨p, hp, rfl⟩ := hk
    have := rounds_states_eq_seqS L D split input hsplit k (D.loop.maxIter - 1) 0 p hp
    simpa using this

/-- non-vacuity: one host, one replica of everything, `body S xs = xs.map (· + S)`, sum folds: a
    reachable state of the data refinement after the first broadcast; it carries `S_1 = 6` -/
example : seqS (σ := Nat) (δ := Nat) (α := Nat)
    (⟨id, id, id, fun _ => rfl, [()], by simp, by simp⟩ : Layout Unit Unit Unit Unit)
    ⟨⟨0, 3, fun S xs => xs.map (· + S), 0, (· + ·), (· + ·), fun s => (true, s)⟩, id, fun _ => [1, 2, 3]⟩ 2 = 30 := by
  decide

end Noir.LoopProto
