/-
  Props/C01.lean — property theorems for C01 (deployment transparency).
  Model: `Model/Pipe.lean` (`seqEval`, `parEval cfg orc`), lemmas: `Lemmas/Pipe.lean`.

  Vocabulary: a distributed stream is `D = List (List V)` (one list per replica); its content is the
  multiset `d.flatten` (statements use `List.Perm`).  `exchange n choice c` is an all-to-all link into
  `n` replicas: element `i` goes to replica `choice i x % n` (ARBITRARY choice function: random routing,
  hash routing, source partitioning) and every consumer sees its share in an ARBITRARY order
  (`permBy c`, which reaches every permutation: a superset of the batch interleavings of a real
  link).  `Coloc h d`: every element of replica `j` has `h key % #replicas = j` (equal keys are
  co-located).  Replica counts are parameters everywhere; batch modes do not appear (C02: batching
  is invisible at element-sequence level).

  The composition theorem `parEval_perm_seqEval` covers jobs (arbitrary DAGs: fan-out = several
  references to one node, fan-in = `merge`, several sinks) built from: sources (`iter`, `par`),
  `map` / `filter` / `flat_map`, `shuffle`, `replication`, `repartition_by`, `group_by`, keyed
  `map` / `filter` / `fold`, `unkey`, `drop_key`, global `fold`, `reduce`, `fold_assoc` (two-phase), `merge`,
  `route`, sinks.  `OrderInsensitive` (= `orderInsensitive job = true`) EXCLUDES:
    * count windows and `zip` (order sensitive: they observe the arrival order, which is schedule
      dependent after any fan-in; the generator only uses them on single-producer paths),
    * `key_by` (no repartitioning: a following keyed fold is deployment dependent unless the stream
      has one replica) and the keyed join (needs co-partitioning of two streams),
    * `replay` / `iterate` (evaluated by `seqEval`, exercised end to end; no parallel theorem),
    * stages whose stage law is proved below but which are not yet wired into the composition proof:
      `reduce_assoc`, keyed `reduce`, `group_by_fold/reduce/sum/count` (`keyed_twoPhase`), joins (`join_copartitioned`,
      `join_broadcastRight`), `broadcast` (`route_conserves_broadcast`).
  Non-commutative user folds are outside the function library altogether (every `Agg` is
  right-commutative: `agg_rightComm`).

  FULL STATEMENT (C01): for every job of the operator algebra, every input, every parallelism / host
  layout / batch mode / schedule, each sink receives the multiset `seqEval` assigns to it.  Proved
  here for the fragment above on the model (`parEval_perm_seqEval`); the remaining operators and the
  step from real threads / TCP to the model's routing-and-merge abstraction are covered by the
  sampled end-to-end correspondence (component `e2e`) and by C02/C03/C05.
-/
import NoirVerif.Lemmas.Pipe

namespace Noir.Pipe
open List

/-! ### Stage laws -/

/-- **route_conserves**: over an all-to-all link the union of what the consumers receive is what was
    sent — for every replica count `n ≥ 1`, routing choice and arrival order. -/
theorem route_conserves (n : Nat) (choice : Nat → V → Nat) (c : Nat → Nat) (d : D) (hn : 0 < n) :
    (exchange n choice c d).flatten.Perm d.flatten ∧ (exchange n choice c d).length = n :=
  ⟨exchange_perm n choice c d hn, length_exchange n choice c d⟩

/-- **route_conserves (`all`)**: a broadcast link delivers `n` copies. -/
theorem route_conserves_broadcast (n : Nat) (c : Nat → Nat) (d : D) :
    (broadcast n c d).flatten.Perm (replicate n d.flatten).flatten ∧ (broadcast n c d).length = n :=
  ⟨broadcast_perm n c d, by simp [broadcast]⟩

/-- **route_conserves (source partitioning)**: any assignment of the elements of a parallel source to
    `n ≥ 1` replicas is a partition. -/
theorem route_conserves_partition (n : Nat) (choice : Nat → V → Nat) (xs : List V) (hn : 0 < n) :
    (routeInto n choice 0 xs (replicate n [])).flatten.Perm xs := by
  simpa using flatten_routeInto n choice 0 xs (replicate n []) hn (by simp)

/-- **stateless_distributes**: `map` / `filter` / `flat_map` applied per replica, then unioned, is
    the stage applied to the union. -/
theorem stateless_distributes (d : D) (f : V → V) (p : V → Bool) (g : V → List V) :
    (d.map (List.map f)).flatten = d.flatten.map f ∧
    (d.map (List.filter p)).flatten = d.flatten.filter p ∧
    (d.map (List.flatMap g)).flatten = d.flatten.flatMap g :=
  ⟨flatten_map_hom (List.map f) rfl (by simp) d,
   flatten_map_hom (List.filter p) rfl (by simp) d,
   flatten_map_hom (List.flatMap g) rfl (by simp) d⟩

/-- **groupBy_copartitions**: after hash routing — with ANY hash function, replica count and arrival
    order — two elements with equal keys are on the same replica. -/
theorem groupBy_copartitions (h : V → Nat) (n : Nat) (c : Nat → Nat) (d : D) :
    Coloc h (exchange n (fun _ v => h v.fst) c d) ∧
    ∀ (i j : Nat) (li lj : List V) (p q : V), (exchange n (fun _ v => h v.fst) c d)[i]? = some li →
      (exchange n (fun _ v => h v.fst) c d)[j]? = some lj → p ∈ li → q ∈ lj → p.fst = q.fst → i = j := by
  refine ⟨coloc_exchange h n c d, ?_⟩
  intro i j li lj p q hi hj hp hq hpq
  have h1 := coloc_exchange h n c d i li hi p hp
  have h2 := coloc_exchange h n c d j lj hj q hq
  rw [hpq] at h1; omega

/-- every aggregation of the library is order-insensitive (right-commutative) -/
theorem agg_rightComm (g : Agg) (a x y : Int) : g.loc (g.loc a x) y = g.loc (g.loc a y) x :=
  loc_rightComm g a x y

/-- **keyedFold_parallel**: the per-replica keyed fold of a key-co-located partition, unioned, is the
    keyed fold of the whole stream; and the keyed fold does not depend on the arrival order. -/
theorem keyedFold_parallel (h : V → Nat) (g : Agg) (d : D) (hc : Coloc h d) (sv : List V)
    (hp : d.flatten.Perm sv) :
    (d.map (keyedFoldS g)).flatten = keyedFoldS g d.flatten ∧
    (d.map (keyedFoldS g)).flatten.Perm (keyedFoldS g sv) ∧
    Coloc h (d.map (keyedFoldS g)) :=
  ⟨flatten_map_keyedFoldS g d hc,
   by rw [flatten_map_keyedFoldS g d hc]; exact keyedFoldS_perm g hp,
   coloc_map _ d hc (keyedFoldS_keys g)⟩

/-- **twoPhase_eq_shuffleThenFold (global)**: local folds per replica (a replica without elements
    sends nothing), partial results gathered in any order and combined with the global function =
    the fold of the whole stream; for every partition. (Own proof; the general statement for
    arbitrary `RightComm`/`Compat` functions is `Noir.Fold.twoPhase_eq` in Props/C07.) -/
theorem twoPhase_eq_shuffleThenFold (g : Agg) (c : Nat → Nat) (d : D) :
    combineS g (permBy c (d.map (foldS g)).flatten) = foldS g d.flatten :=
  combine_partials g c d

/-- **twoPhase_eq_shuffleThenFold (keyed, per key)**: for every key, combining the per-replica
    partial accumulators of that key (in any order) gives the fold of all its values — what
    `group_by_fold` / `group_by_reduce` / `group_by_sum` / `group_by_count` compute after shuffling
    the partials by key. -/
theorem keyed_twoPhase (g : Agg) (k : V) (parts : D) (ps : List Int)
    (hps : ps.Perm (parts.map fun p => F g (projs (valsOf k p)))) :
    ps.foldl g.glob 0 = F g (projs (valsOf k parts.flatten)) := by
  rw [foldl_glob_perm g hps 0]
  have := twoPhase_sum g (parts.map fun p => projs (valsOf k p))
  simp only [map_map, Function.comp_def] at this
  rw [this, projs_valsOf_flatten]

/-- **join_broadcastRight**: with the right side broadcast to every replica, the union of the
    per-replica inner / left joins is the join of the whole left side with the right side. -/
theorem join_broadcastRight (v : JVar) (hv : v ≠ .outer) (k1 k2 : V → V) (x : D) (rs : List V) :
    (x.map fun l => joinS v k1 k2 l rs).flatten = joinS v k1 k2 x.flatten rs := by
  apply flatten_map_hom (fun l => joinS v k1 k2 l rs)
  · cases v <;> simp [joinS] at hv ⊢
  · intro a b
    cases v <;> simp [joinS] at hv ⊢

/-- **join_copartitioned**: if both inputs are partitioned by the same hash of their join keys
    (`CoPart h key n 0 d`: every element of replica `j` has `h (key e) % n = j`) over equally many
    replicas, the union of the per-replica relational joins (inner, left or outer) is the relational
    join of the whole inputs. -/
theorem join_copartitioned (h : V → Nat) (v : JVar) (k1 k2 : V → V) (n : Nat) (x y : D)
    (hl : x.length = y.length) (hx : CoPart h k1 n 0 x) (hy : CoPart h k2 n 0 y) :
    (zipWith (joinS v k1 k2) x y).flatten.Perm (joinS v k1 k2 x.flatten y.flatten) :=
  join_copart h v k1 k2 n 0 x y hl hx hy

/-- **merge_union**: a binary forward connection followed by any interleaving delivers the union. -/
theorem merge_union (c : Nat → Nat) (x y : D) :
    ((zipAppend x y).map (permBy c)).flatten.Perm (x.flatten ++ y.flatten) :=
  (flatten_map_perm (permBy_perm c) _).trans (zipAppend_perm x y)

/-- **split_copies**: every branch of a split receives the whole stream. -/
theorem split_copies (n : Nat) (d : D) : ∀ b ∈ replicate n d, b.flatten.Perm d.flatten := by
  intro b hb
  rw [(mem_replicate.mp hb).2]

/-! ### Composition -/

/-- **parEval_perm_seqEval**: for every job of the order-insensitive fragment (any DAG, any input —
    the sources are part of the job), every replica-count parameter and every schedule (hash
    function, routing choices, arrival orders), the parallel evaluator delivers to the same sinks,
    in the same order of sinks, a permutation of what the sequential evaluator delivers. -/
theorem parEval_perm_seqEval (job : Job) (hj : orderInsensitive job = true) (cfg : Cfg) (o : Orc) :
    All2 (fun p s => p.1 = s.1 ∧ p.2.Perm s.2) (parEval cfg o job) (seqEval job) :=
  all2_sinks (run_rel cfg o job hj).2

/-- **parEval_config_independent**: any two deployments / schedules give the same sink multisets. -/
theorem parEval_config_independent (job : Job) (hj : orderInsensitive job = true)
    (cfg cfg' : Cfg) (o o' : Orc) :
    All2 (fun p q => p.1 = q.1 ∧ p.2.Perm q.2) (parEval cfg o job) (parEval cfg' o' job) :=
  all2_perm_trans (parEval_perm_seqEval job hj cfg o) (parEval_perm_seqEval job hj cfg' o')

/-! ### Non-vacuity -/

/-- a diamond with a shuffle, a keyed fold, a two-phase global fold and two sinks -/
def exampleJob : Job :=
  [⟨0, .iter [.int 3, .int 4, .int 5, .int 6, .int 7]⟩,
   ⟨1, .shuffle ⟨0, 0⟩⟩,
   ⟨2, .map ⟨1, 0⟩ .add 1⟩,
   ⟨3, .groupBy ⟨2, 0⟩ .kmod 2⟩,
   ⟨4, .kfold ⟨3, 0⟩ .sum⟩,
   ⟨5, .unkey ⟨4, 0⟩⟩,
   ⟨6, .foldA ⟨2, 0⟩ .max⟩,
   ⟨7, .merge ⟨5, 0⟩ ⟨6, 0⟩⟩,
   ⟨8, .sink ⟨7, 0⟩⟩,
   ⟨9, .sink ⟨2, 0⟩⟩]

def exampleOrc : Orc := ⟨fun v => v.proj.toNat + 1, fun id i => id + 2 * i, fun id i => id * i + 1⟩

example : orderInsensitive exampleJob = true := by decide

example : seqEval exampleJob =
    [(8, [V.pair (.int 0) (.int 18), V.pair (.int 1) (.int 12), .int 8]),
     (9, [.int 4, .int 5, .int 6, .int 7, .int 8])] := by decide


/-- the parallel run on 3 replicas really permutes (and agrees as a multiset, by the theorem) -/
example : parEval ⟨3⟩ exampleOrc exampleJob =
    [(8, [V.pair (.int 1) (.int 12), V.pair (.int 0) (.int 18), .int 8]),
     (9, [.int 6, .int 4, .int 7, .int 5, .int 8])] := by decide

/-- non-vacuity of `join_copartitioned`: two replicas, keys 0/2 on replica 0 and 1/3 on replica 1 -/
example : CoPart (fun v => v.proj.toNat) id 2 0 [[.int 0, .int 2], [.int 1, .int 3]] := by
  intro j l hj p hp
  match j, hj with
  | 0, hj => simp at hj; subst hj; simp at hp; rcases hp with rfl | rfl <;> decide
  | 1, hj => simp at hj; subst hj; simp at hp; rcases hp with rfl | rfl <;> decide
  | j + 2, hj => simp at hj

example : Coloc (fun v => v.proj.toNat) [[V.pair (.int 0) (.int 5), V.pair (.int 2) (.int 1)], [V.pair (.int 1) (.int 7)]] := by
  intro j l hj p hp
  match j, hj with
  | 0, hj => simp at hj; subst hj; simp at hp; rcases hp with rfl | rfl <;> decide
  | 1, hj => simp at hj; subst hj; simp at hp; subst hp; decide
  | j + 2, hj => simp at hj

end Noir.Pipe
