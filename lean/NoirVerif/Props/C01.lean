/-
  Props/C01.lean — property theorems for C01 (deployment transparency).
  Model: `Model/Pipe.lean` (`seqEval`, `parEval cfg orc`), lemmas: `Lemmas/Pipe.lean`.

  Vocabulary: a distributed stream is `D = List (List V)` (one list per replica); its content is the
  multiset `d.flatten` (statements use `List.Perm`).  `exchange n choice c` is an all-to-all link into
  `n` replicas: element `i` goes to replica `choice i x % n` (ARBITRARY choice function: random routing,
  hash routing, source partitioning) and every consumer sees its share in an ARBITRARY order
  (`permBy c`, which reaches every permutation: a superset of the batch interleavings of a real
  link).  `Coloc h d`: every element of replica `j` has `h key % #replicas = j` (equal keys are
  co-located).  Replica counts are parameters everywhere; batch modes do not appear (C02: batching
  is invisible at element-sequence level).

  The composition theorem (`parEval_perm_seqEval_covered`, `parEval_perm_seqEval`) holds for arbitrary
  DAGs (fan-out = several references to one node, fan-in = `merge` / joins, several sinks) and is stated
  per sink: a sink is covered iff no stage upstream of it is outside the theorem; the exact list of
  covered node kinds stands next to the theorem (section "Composition").  NOT covered: count windows
  with an order-sensitive aggregate and `zip` (they observe the arrival order, which is schedule
  dependent after any fan-in; the generator only uses them on single-producer paths; windows with the
  counting aggregate ARE covered: `countWindow_cnt_orderInsensitive`), the keyed join, a keyed fold /
  reduce of a keyed stream that is not co-located (`key_by` of a multi-replica stream) and
  `broadcast` + a non-idempotent reduction (both genuinely deployment dependent).  Loops are covered:
  `replay_iterate_seq`.  Non-commutative user folds are outside the function library altogether (every
  `Agg` is right-commutative: `agg_rightComm`).

  FULL STATEMENT (C01): for every job of the operator algebra, every input, every parallelism / host
  layout / batch mode / schedule, each sink receives the multiset `seqEval` assigns to it.  Proved
  here on the model for every covered sink (`parEval_perm_seqEval_covered`); windows / zip / keyed join and the
  step from real threads / TCP to the model's routing-and-merge abstraction are covered by the
  sampled end-to-end correspondence (component `e2e`) and by C02/C03/C05.
-/
import NoirVerif.Lemmas.Pipe

namespace Noir.Pipe
open List

/-! ### Stage laws -/

/-- **route_conserves**: over an all-to-all link the union of what the consumers receive is what was
    sent — for every replica count `n ≥ 1`, routing choice and arrival order. -/
theorem route_conserves (n : Nat) (choice : Nat → V → Nat) (c : Nat → Nat) (d : D) (hn : 0 < n) :
    (exchange n choice c d).flatten.Perm d.flatten ∧ (exchange n choice c d).length = n :=
  ⟨exchange_perm n choice c d hn, length_exchange n choice c d⟩

/-- **route_conserves (`all`)**: a broadcast link delivers `n` copies. -/
theorem route_conserves_broadcast (n : Nat) (c : Nat → Nat) (d : D) :
    (broadcast n c d).flatten.Perm (replicate n d.flatten).flatten ∧ (broadcast n c d).length = n :=
  ⟨broadcast_perm n c d, by simp [broadcast]⟩

/-- **route_conserves (source partitioning)**: any assignment of the elements of a parallel source to
    `n ≥ 1` replicas is a partition. -/
theorem route_conserves_partition (n : Nat) (choice : Nat → V → Nat) (xs : List V) (hn : 0 < n) :
    (routeInto n choice 0 xs (replicate n [])).flatten.Perm xs := by
  simpa using flatten_routeInto n choice 0 xs (replicate n []) hn (by simp)

/-- **stateless_distributes**: `map` / `filter` / `flat_map` applied per replica, then unioned, is
    the stage applied to the union. -/
theorem stateless_distributes (d : D) (f : V → V) (p : V → Bool) (g : V → List V) :
    (d.map (List.map f)).flatten = d.flatten.map f ∧
    (d.map (List.filter p)).flatten = d.flatten.filter p ∧
    (d.map (List.flatMap g)).flatten = d.flatten.flatMap g :=
  ⟨flatten_map_hom (List.map f) rfl (by simp) d,
   flatten_map_hom (List.filter p) rfl (by simp) d,
   flatten_map_hom (List.flatMap g) rfl (by simp) d⟩

/-- **groupBy_copartitions**: after hash routing — with ANY hash function, replica count and arrival
    order — two elements with equal keys are on the same replica. -/
theorem groupBy_copartitions (h : V → Nat) (n : Nat) (c : Nat → Nat) (d : D) :
    Coloc h (exchange n (fun _ v => h v.fst) c d) ∧
    ∀ (i j : Nat) (li lj : List V) (p q : V), (exchange n (fun _ v => h v.fst) c d)[i]? = some li →
      (exchange n (fun _ v => h v.fst) c d)[j]? = some lj → p ∈ li → q ∈ lj → p.fst = q.fst → i = j := by
  refine ⟨coloc_exchange h n c d, ?_⟩
  intro i j li lj p q hi hj hp hq hpq
  have h1 := coloc_exchange h n c d i li hi p hp
  have h2 := coloc_exchange h n c d j lj hj q hq
  rw [hpq] at h1; omega

/-- every aggregation of the library is order-insensitive (right-commutative) -/
theorem agg_rightComm (g : Agg) (a x y : Int) : g.loc (g.loc a x) y = g.loc (g.loc a y) x :=
  loc_rightComm g a x y

/-- **keyedFold_parallel**: the per-replica keyed fold of a key-co-located partition, unioned, is the
    keyed fold of the whole stream; and the keyed fold does not depend on the arrival order. -/
theorem keyedFold_parallel (h : V → Nat) (g : Agg) (d : D) (hc : Coloc h d) (sv : List V)
    (hp : d.flatten.Perm sv) :
    (d.map (keyedFoldS g)).flatten = keyedFoldS g d.flatten ∧
    (d.map (keyedFoldS g)).flatten.Perm (keyedFoldS g sv) ∧
    Coloc h (d.map (keyedFoldS g)) :=
  ⟨flatten_map_keyedFoldS g d hc,
   by rw [flatten_map_keyedFoldS g d hc]; exact keyedFoldS_perm g hp,
   coloc_map _ d hc (keyedFoldS_keys g)⟩

/-- **twoPhase_eq_shuffleThenFold (global)**: local folds per replica (a replica without elements
    sends nothing), partial results gathered in any order and combined with the global function =
    the fold of the whole stream; for every partition. (Own proof; the general statement for
    arbitrary `RightComm`/`Compat` functions is `Noir.Fold.twoPhase_eq` in Props/C07.) -/
theorem twoPhase_eq_shuffleThenFold (g : Agg) (c : Nat → Nat) (d : D) :
    combineS g (permBy c (d.map (foldS g)).flatten) = foldS g d.flatten :=
  combine_partials g c d

/-- **twoPhase_eq_shuffleThenFold (keyed, per key)**: for every key, combining the per-replica
    partial accumulators of that key (in any order) gives the fold of all its values — what
    `group_by_fold` / `group_by_reduce` / `group_by_sum` / `group_by_count` compute after shuffling
    the partials by key. -/
theorem keyed_twoPhase (g : Agg) (k : V) (parts : D) (ps : List Int)
    (hps : ps.Perm (parts.map fun p => F g (projs (valsOf k p)))) :
    ps.foldl g.glob 0 = F g (projs (valsOf k parts.flatten)) := by
  rw [foldl_glob_perm g hps 0]
  have := twoPhase_sum g (parts.map fun p => projs (valsOf k p))
  simp only [map_map, Function.comp_def] at this
  rw [this, projs_valsOf_flatten]

/-- **join_broadcastRight**: with the right side broadcast to every replica, the union of the
    per-replica inner / left joins is the join of the whole left side with the right side. -/
theorem join_broadcastRight (v : JVar) (hv : v ≠ .outer) (k1 k2 : V → V) (x : D) (rs : List V) :
    (x.map fun l => joinS v k1 k2 l rs).flatten = joinS v k1 k2 x.flatten rs :=
  flatten_map_join_right v hv k1 k2 x rs

/-- **join_copartitioned**: if both inputs are partitioned by the same hash of their join keys
    (`CoPart h key n 0 d`: every element of replica `j` has `h (key e) % n = j`) over equally many
    replicas, the union of the per-replica relational joins (inner, left or outer) is the relational
    join of the whole inputs. -/
theorem join_copartitioned (h : V → Nat) (v : JVar) (k1 k2 : V → V) (n : Nat) (x y : D)
    (hl : x.length = y.length) (hx : CoPart h k1 n 0 x) (hy : CoPart h k2 n 0 y) :
    (zipWith (joinS v k1 k2) x y).flatten.Perm (joinS v k1 k2 x.flatten y.flatten) :=
  join_copart h v k1 k2 n 0 x y hl hx hy

/-- **keyedJoin_copartitioned** (`KeyedStream::join` / `join_outer`: forward connections, no shuffle):
    if the two keyed inputs are co-located by the SAME hash of their keys over equally many replicas —
    whatever code path established that (`group_by`, a two-phase aggregator, a hash-shipped join) —
    the union of the per-replica keyed joins is the keyed join of the whole streams. If the two paths
    used different hash functions the hypothesis fails, and so does the engine (seeds C01-3 / C03-3). -/
theorem keyedJoin_copartitioned (h : V → Nat) (v : JVar) (x y : D) (hl : x.length = y.length)
    (hx : Coloc h x) (hy : Coloc h y) :
    (zipWith (keyedJoinS v) x y).flatten.Perm (keyedJoinS v x.flatten y.flatten) :=
  keyedJoin_copart h v x y hl hx hy

/-- **keyedMerge_copartitioned** (`KeyedStream::merge`): the union of two keyed streams co-located
    by the same hash is co-located, so a following keyed fold / reduce is the keyed fold of the union. -/
theorem keyedMerge_copartitioned (h : V → Nat) (c : Nat → Nat) (g : Agg) (x y : D)
    (hl : x.length = y.length) (hx : Coloc h x) (hy : Coloc h y) :
    Coloc h ((zipAppend x y).map (permBy c)) ∧
    ((zipAppend x y).map (permBy c)).flatten.Perm (x.flatten ++ y.flatten) ∧
    (((zipAppend x y).map (permBy c)).map (keyedFoldS g)).flatten.Perm (keyedFoldS g (x.flatten ++ y.flatten)) := by
  obtain ⟨h1, h2⟩ := keyedMerge_copart h c x y hl hx hy
  exact ⟨h1, h2, (keyedFold_parallel h g _ h1 _ h2).2.1⟩

/-- **merge_union**: a binary forward connection followed by any interleaving delivers the union. -/
theorem merge_union (c : Nat → Nat) (x y : D) :
    ((zipAppend x y).map (permBy c)).flatten.Perm (x.flatten ++ y.flatten) :=
  (flatten_map_perm (permBy_perm c) _).trans (zipAppend_perm x y)

/-- **split_copies**: every branch of a split receives the whole stream. -/
theorem split_copies (n : Nat) (d : D) : ∀ b ∈ replicate n d, b.flatten.Perm d.flatten := by
  intro b hb
  rw [(mem_replicate.mp hb).2]

/-! ### Further stage laws (two-phase reductions, keyed two-phase stages, broadcast, loops) -/

/-- **copartition by any key function**: hash routing by `h (key e)` puts every element on replica
    `h (key e) % n` — the hypothesis of `join_copartitioned`, for both inputs of a hash-shipped join. -/
theorem exchange_copartitions (h : V → Nat) (key : V → V) (n : Nat) (c : Nat → Nat) (d : D) :
    CoPart h key n 0 (exchange n (fun _ v => h (key v)) c d) :=
  copart_exchange h key n c d

/-- **reduce_assoc**: reduce every replica, gather the partial results in any order, reduce again =
    the reduction of the whole stream. -/
theorem reduceAssoc_twoPhase (g : Agg) (c : Nat → Nat) (d : D) :
    reduceS g (permBy c (d.map (reduceS g)).flatten) = reduceS g d.flatten :=
  reduce_partials g c d

/-- **group_by_fold / group_by_sum / group_by_count as a stage**: keyed local fold per producer
    replica, union, keyed combination = keyed fold of the union (any partition). -/
theorem groupByFold_twoPhase (g : Agg) (parts : D) :
    (keyedCombineS g (parts.map (keyedFoldS g)).flatten).Perm (keyedFoldS g parts.flatten) := by
  have e1 : keyedFoldS g = keyedGen (ψFold g) := funext (keyedFoldS_gen g)
  have e2 : keyedCombineS g = keyedGen (ψComb g) := funext (keyedCombineS_gen g)
  rw [e1, e2]
  exact keyedGen_twoPhase (keyedFn_fold g) (ψFold_ne g) (fold_law g) parts

/-- **group_by_reduce as a stage**. -/
theorem groupByReduce_twoPhase (g : Agg) (parts : D) :
    (keyedReduceS g (parts.map (keyedReduceS g)).flatten).Perm (keyedReduceS g parts.flatten) := by
  have e1 : keyedReduceS g = keyedGen (ψRed g) := funext (keyedReduceS_gen g)
  rw [e1]
  exact keyedGen_twoPhase (keyedFn_red g) (ψRed_ne g) (red_law g) parts

/-- **broadcast**: a sink (or any per-replica identity stage) behind a broadcast link sees every
    element once per replica of the consumer block — `cfg.count .u` copies on deployment `cfg`; the
    result is therefore deployment dependent unless an idempotent stage follows
    (`broadcast_idempotent`). -/
theorem broadcast_sink_copies (cfg : Cfg) (c c' : Nat → Nat) (d : D) :
    (gather c' (broadcast (cfg.count .u) c d)).flatten.Perm (replicate (cfg.count .u) d.flatten).flatten :=
  (gather_perm c' _).trans (broadcast_perm _ c d)

/-- **broadcast + idempotent reduction** (`min` / `max`): independent of the replica count. -/
theorem broadcast_idempotent (g : Agg) (hg : (g == .min || g == .max) = true) (cfg : Cfg)
    (c c' : Nat → Nat) (d : D) :
    reduceS g (permBy c' ((broadcast (cfg.count .u) c d).map (reduceS g)).flatten) = reduceS g d.flatten :=
  reduce_broadcast g hg _ (count_pos cfg .u) c c' d

/-- the relational join respects multiset equality of its inputs (arrival orders do not matter) -/
theorem join_orderInsensitive (v : JVar) (k1 k2 : V → V) {ls ls' rs rs' : List V} (hl : ls.Perm ls')
    (hr : rs.Perm rs') : (joinS v k1 k2 ls rs).Perm (joinS v k1 k2 ls' rs') :=
  joinS_perm v k1 k2 hl hr

/-- **count windows with the counting aggregate are order insensitive**: per key, the multiset of
    window results depends only on the number of that key's elements (so it is the same for every
    arrival order, hence for every deployment once equal keys are co-located). -/
theorem countWindow_cnt_orderInsensitive (n s : Nat) {l l' : List V} (h : l.Perm l') :
    (keyedWinS n s .cnt l).Perm (keyedWinS n s .cnt l') := by
  rw [keyedWinS_gen, keyedWinS_gen]
  exact keyedGen_perm (keyedFn_win n s) h

/-- **count windows (cnt) in parallel**: per-replica windows of a key-co-located partition, unioned =
    windows of the whole keyed stream. -/
theorem countWindow_cnt_parallel (h : V → Nat) (n s : Nat) (d : D) (hc : Coloc h d) :
    (d.map (keyedWinS n s .cnt)).flatten = keyedWinS n s .cnt d.flatten := by
  have ew : keyedWinS n s .cnt = keyedGen (ψWin n s) := funext (keyedWinS_gen n s)
  rw [ew]
  exact flatten_map_keyedGen d hc

/-- **replay_seq / iterate_seq**: for EVERY loop specification (bodies are linear chains of `map`,
    `filter`, `flat_map`, `shuffle`, state-reading `map`, `group_by_sum + drop_key`, `group_by_fold`,
    `group_by + count windows (cnt)`, `reduce`, inner hash join with / merge of the loop's side input,
    and nested `replay` / `iterate` — the latter continuing the enclosing body with its state stream,
    its items stream (the elements of the last inner round, per outer round) or both —, to any depth), every replica count `n ≥ 1`, every schedule, every
    distribution `x` (at least one replica) of the input `y` and `sp` of the side input `ss` (the same
    multiset every round: the cached side of binary.rs): the parallel loop protocol — each round the
    body runs on the distributed stream, every replica of the last body block folds its share with
    the local function (an empty replica sends the default), the leader folds the deltas in arrival
    order with the global function — ends in the SAME state as the sequential loop (so it runs the
    same number of rounds), and with `feedback = true` (`iterate`) delivers the same multiset of
    items. The local / global pair is any aggregation of the library (`loc`/`glob`, two-phase
    compatible: `F_append`). -/
theorem replay_iterate_seq (feedback : Bool) (n : Nat) (hn : 0 < n) (o : Orc) (id fuel : Nat)
    (sp : D) (ss : List V) (hsne : sp ≠ []) (hsp : sp.flatten.Perm ss)
    (l : LoopSpec) (x : D) (y : List V) (hne : x ≠ []) (hp : x.flatten.Perm y) :
    (l.parRun feedback n o id fuel sp x).1 = (l.run feedback fuel ss y).1 ∧
    (l.parRun feedback n o id fuel sp x).2.flatten.Perm (l.run feedback fuel ss y).2 :=
  ⟨(loopSpec_rel feedback n hn o id fuel sp ss hsne hsp l x y hne hp).1,
   (loopSpec_rel feedback n hn o id fuel sp ss hsne hsp l x y hne hp).2.2⟩

/-! ### Composition

Node kinds COVERED by the composition theorem (a sink is covered iff every stage upstream of it is):
  sources `iter`, `par`; `map`, `filter`, `fmap`; `shuffle`; `repl` (any replication — the model
  treats it as an all-to-all link; `Replication::Host` = `cfg.hosts` replicas); `repart`; `bcast` with
  `min`/`max`; `groupBy`; `keyBy`; `kmap`, `kfilter`; `kfold`, `kreduce`, `kwin` with the aggregate `cnt`
  (on a co-located keyed stream: after `groupBy`, a `group_by_*`
  stage, a hash join, or `keyBy` of a single-replica stream); `unkey`, `dropKey`; `fold`, `foldA`,
  `reduce`, `reduceA`; `gbFold`, `gbReduce`, `gbSum`, `gbCount`; `merge`; `join` inner/left/outer ×
  ship hash, inner/left × ship broadcast-right (any local algorithm: the model is the relational
  join); `route`; `replay`, `iterate` with or without a side input (all body stages: stateless,
  `shuffle`, `addst`, `gbsum`, `gbfold`, `gbwin`, `reduce`, `joinside`, `mergeside`, nested `replay` /
  `iterate` / `iteritems` / `iterboth`); `sink`.
NOT covered (their output is tagged `ok := false`, and so is everything downstream): `kwin` with an
  aggregate other than `cnt` and `zip` (order sensitive), `kjoin` / `kmerge` (forward keyed join / merge: need equal replica
  counts of two streams co-located by the same hash, not tracked by the tags; their stage laws are
  `keyedJoin_copartitioned` / `keyedMerge_copartitioned`), `kfold`/`kreduce` of a keyed stream that is not
  co-located (`keyBy` of a multi-replica stream — genuinely deployment dependent), `bcast` with a
  non-idempotent reduction (genuinely deployment dependent: `broadcast_sink_copies`), broadcast-right
  + outer (not offered by the API).
The tags are computed by `tagRun` (the sequential evaluator paired with `Tag`s);
`orderInsensitive job` = all sinks covered, `coveredSinks job` lists them. -/

/-- **parEval_perm_seqEval (per sink)**: for EVERY job (any DAG, any input), every replica-count
    parameter and every schedule, the parallel evaluator delivers to the same sinks in the same
    order, and every covered sink receives a permutation of its sequential value. -/
theorem parEval_perm_seqEval_covered (job : Job) (cfg : Cfg) (o : Orc) :
    All2 (fun p ts => p.1 = ts.1 ∧ (ts.2.1.ok = true → p.2.Perm ts.2.2)) (parEval cfg o job)
      (tagRun job).sinks ∧
    (tagRun job).sinks.map (fun ts => (ts.1, ts.2.2)) = seqEval job := by
  constructor
  · have h := (par_tag_rel cfg o job).2
    unfold parEval
    apply All2.map_left
    exact h.imp fun x y hr => ⟨hr.1, hr.2⟩
  · have h := (tag_seq_rel job).2
    apply all2_eq_map
    exact h.imp fun x y hr => by
      obtain ⟨h1, h2⟩ := hr
      simp only [ProjS] at h2
      exact Prod.ext h1 h2

/-- **parEval_perm_seqEval**: if every sink of the job is covered (`orderInsensitive job`, decidable),
    then for every replica-count parameter and every schedule (hash function, routing choices,
    arrival orders, order of the state deltas) the parallel evaluator delivers to the same sinks, in
    the same order of sinks, a permutation of what the sequential evaluator delivers. -/
theorem parEval_perm_seqEval (job : Job) (hj : orderInsensitive job = true) (cfg : Cfg) (o : Orc) :
    All2 (fun p s => p.1 = s.1 ∧ p.2.Perm s.2) (parEval cfg o job) (seqEval job) := by
  obtain ⟨h1, h2⟩ := parEval_perm_seqEval_covered job cfg o
  rw [← h2]
  apply All2.map_right
  apply h1.imp_mem
  intro p ts hts hr
  have hok : ts.2.1.ok = true := by
    have := List.all_eq_true.mp hj ts hts
    simpa using this
  exact ⟨hr.1, hr.2 hok⟩

/-- **parEval_config_independent**: any two deployments / schedules give the same sink multisets. -/
theorem parEval_config_independent (job : Job) (hj : orderInsensitive job = true)
    (cfg cfg' : Cfg) (o o' : Orc) :
    All2 (fun p q => p.1 = q.1 ∧ p.2.Perm q.2) (parEval cfg o job) (parEval cfg' o' job) :=
  (parEval_perm_seqEval job hj cfg o).comp
    ((parEval_perm_seqEval job hj cfg' o').flip) fun _ _ _ h1 h2 =>
      ⟨h1.1.trans h2.1.symm, h1.2.trans h2.2.symm⟩

/-! ### Non-vacuity -/

/-- a diamond with a shuffle, a keyed fold, a two-phase global fold and two sinks -/
def exampleJob : Job :=
  [⟨0, .iter [.int 3, .int 4, .int 5, .int 6, .int 7]⟩,
   ⟨1, .shuffle ⟨0, 0⟩⟩,
   ⟨2, .map ⟨1, 0⟩ .add 1⟩,
   ⟨3, .groupBy ⟨2, 0⟩ .kmod 2⟩,
   ⟨4, .kfold ⟨3, 0⟩ .sum⟩,
   ⟨5, .unkey ⟨4, 0⟩⟩,
   ⟨6, .foldA ⟨2, 0⟩ .max⟩,
   ⟨7, .merge ⟨5, 0⟩ ⟨6, 0⟩⟩,
   ⟨8, .sink ⟨7, 0⟩⟩,
   ⟨9, .sink ⟨2, 0⟩⟩]

def exampleOrc : Orc := ⟨fun v => v.proj.toNat + 1, fun id i => id + 2 * i, fun id i => id * i + 1⟩

example : orderInsensitive exampleJob = true := by decide

example : seqEval exampleJob =
    [(8, [V.pair (.int 0) (.int 18), V.pair (.int 1) (.int 12), .int 8]),
     (9, [.int 4, .int 5, .int 6, .int 7, .int 8])] := by decide


/-- the parallel run on 3 replicas really permutes (and agrees as a multiset, by the theorem) -/
example : parEval ⟨3, 1⟩ exampleOrc exampleJob =
    [(8, [V.pair (.int 1) (.int 12), V.pair (.int 0) (.int 18), .int 8]),
     (9, [.int 6, .int 4, .int 7, .int 5, .int 8])] := by decide

/-- joins, keyed reductions, a keyed two-phase stage, a loop with a nested-free body, `key_by` of a
    single-replica stream (covered) and of a shuffled stream followed by a keyed fold (not covered) -/
def exampleJob2 : Job :=
  [⟨0, .iter [.int 3, .int 4, .int 5, .int 6]⟩,
   ⟨1, .par 0 6⟩,
   ⟨2, .join ⟨0, 0⟩ ⟨1, 0⟩ .left .hash .kmod 3 .kmod 3⟩,
   ⟨3, .kreduce ⟨2, 0⟩ .max⟩,
   ⟨4, .sink ⟨3, 0⟩⟩,
   ⟨5, .gbSum ⟨1, 0⟩ .kmod 2⟩,
   ⟨6, .sink ⟨5, 0⟩⟩,
   ⟨7, .replay ⟨1, 0⟩ (some ⟨0, 0⟩) (.mk 2 1 .sum .true 0 [.addst 5, .shuffle, .gbwin .kmod 2 2 2, .mergeside])⟩,
   ⟨8, .sink ⟨7, 0⟩⟩,
   ⟨9, .keyBy ⟨0, 0⟩ .kmod 2⟩,
   ⟨10, .kfold ⟨9, 0⟩ .cnt⟩,
   ⟨11, .sink ⟨10, 0⟩⟩,
   ⟨12, .shuffle ⟨0, 0⟩⟩,
   ⟨13, .keyBy ⟨12, 0⟩ .kmod 2⟩,
   ⟨14, .kfold ⟨13, 0⟩ .cnt⟩,
   ⟨15, .sink ⟨14, 0⟩⟩]

example : coveredSinks exampleJob2 = [4, 6, 8, 11] := by decide
example : orderInsensitive exampleJob2 = false := by decide

/-- the uncovered sink 15 really is deployment dependent: on 2 replicas the keyed fold after `key_by`
    of a shuffled stream reports a key once per replica that holds it -/
example : ((parEval ⟨2, 1⟩ ⟨fun v => v.proj.toNat, fun _ i => i / 2, fun _ _ => 0⟩ exampleJob2).filter
      (·.1 == 15)).map (·.2.length) = [4] ∧
    ((seqEval exampleJob2).filter (·.1 == 15)).map (·.2.length) = [2] := by decide

/-- non-vacuity of `join_copartitioned`: two replicas, keys 0/2 on replica 0 and 1/3 on replica 1 -/
example : CoPart (fun v => v.proj.toNat) id 2 0 [[.int 0, .int 2], [.int 1, .int 3]] := by
  intro j l hj p hp
  match j, hj with
  | 0, hj => simp at hj; subst hj; simp at hp; rcases hp with rfl | rfl <;> decide
  | 1, hj => simp at hj; subst hj; simp at hp; rcases hp with rfl | rfl <;> decide
  | j + 2, hj => simp at hj

example : Coloc (fun v => v.proj.toNat) [[V.pair (.int 0) (.int 5), V.pair (.int 2) (.int 1)], [V.pair (.int 1) (.int 7)]] := by
  intro j l hj p hp
  match j, hj with
  | 0, hj => simp at hj; subst hj; simp at hp; rcases hp with rfl | rfl <;> decide
  | 1, hj => simp at hj; subst hj; simp at hp; subst hp; decide
  | j + 2, hj => simp at hj

end Noir.Pipe
