/-
  Props/C08.lean — property theorems for C08 (joins). Models: Model/HashJoin.lean (JoinLocalHash, relJoin,
  Interleave, binary start end-marker injection), Model/KeyedJoin.lean, Model/SortMergeJoin.lean.
  Helper lemmas: Lemmas/HashJoin.lean, Lemmas/KeyedJoin.lean, Lemmas/JoinShip.lean, Lemmas/SortMergeJoin.lean.
-/
import NoirVerif.Lemmas.HashJoin
import NoirVerif.Lemmas.KeyedJoin
import NoirVerif.Lemmas.JoinShip
import NoirVerif.Lemmas.SortMergeJoin
import NoirVerif.Model.IntervalJoin
namespace Noir.Join

variable {κ α β : Type} [DecidableEq κ]

/-- **C08 (local hash join).** For every variant, every pair of input multisets (given as the arrival
    orders `L`, `R` of the two sides) and *every* interleaving of `L ++ [LeftEnd]` with
    `R ++ [RightEnd]` — i.e. every relative arrival order of the elements and of the two end markers —
    `JoinLocalHash` started in its initial state emits exactly the relational join: every matching pair
    once, plus (left/outer) every unmatched left element once padded with `None`, plus (outer) every
    unmatched right element once padded with `None`. -/
theorem hashJoin_correct (v : Variant) (kl : α → κ) (kr : β → κ) (L : List α) (R : List β)
    (tr : List (Bin α β))
    (h : Interleave (L.map Bin.left ++ [Bin.leftEnd]) (R.map Bin.right ++ [Bin.rightEnd]) tr) :
    (HashJoin.run v kl kr tr).Perm (relJoin v kl kr L R) := by
  have := (HashJoin.feed_interleaving v kl kr tr false false [] L [] R (fun h => by cases h)
    (fun h => by cases h) h).1
  simpa [HashJoin.run, HashJoin.partialJoin, pairs, HashJoin.stateOf_init, unmatchedL, unmatchedR] using this

/-- **C08 (nothing is carried over).** After any such iteration the six `assert!`s of the
    `FlushAndRestart` arm hold (the operator does not panic) and the `FlushAndRestart` puts the operator
    back into its initial state, so the next iteration is joined on its own. -/
theorem hashJoin_resets (v : Variant) (kl : α → κ) (kr : β → κ) (L : List α) (R : List β)
    (tr : List (Bin α β))
    (h : Interleave (L.map Bin.left ++ [Bin.leftEnd]) (R.map Bin.right ++ [Bin.rightEnd]) tr) :
    let s := HashJoin.stateAfterBin v kl kr HashJoin.State.init tr
    HashJoin.farOk s = true ∧ HashJoin.step v kl kr s .far = (HashJoin.State.init, [.far]) := by
  have := (HashJoin.feed_interleaving v kl kr tr false false [] L [] R (fun h => by cases h)
    (fun h => by cases h) h).2
  rw [HashJoin.stateOf_init] at this
  simp only [this]
  simp [HashJoin.farOk, HashJoin.step, HashJoin.stateOf, HashJoin.State.init, HashJoin.Side.empty]

/-- **C08 (one whole iteration on the stream level).** Feeding `JoinLocalHash` the items of any such
    interleaving followed by `FlushAndRestart` yields the join tuples (a permutation of `relJoin`), then
    `FlushAndRestart`; no element hits a panic branch; the operator is back in its initial state. -/
theorem hashJoin_iteration (v : Variant) (kl : α → κ) (kr : β → κ) (L : List α) (R : List β)
    (tr : List (Bin α β))
    (h : Interleave (L.map Bin.left ++ [Bin.leftEnd]) (R.map Bin.right ++ [Bin.rightEnd]) tr) :
    let es := tr.map Elem.item ++ [Elem.far]
    HashJoin.runElems v kl kr HashJoin.State.init es = (HashJoin.run v kl kr tr).map Elem.item ++ [Elem.far]
      ∧ (HashJoin.run v kl kr tr).Perm (relJoin v kl kr L R)
      ∧ HashJoin.anyPanic v kl kr HashJoin.State.init es = false
      ∧ HashJoin.stateAfter v kl kr HashJoin.State.init es = HashJoin.State.init := by
  obtain ⟨r1, r2, r3⟩ := HashJoin.runElems_items v kl kr tr [Elem.far] HashJoin.State.init
  obtain ⟨f1, f2⟩ := hashJoin_resets v kl kr L R tr h
  refine ⟨?_, hashJoin_correct v kl kr L R tr h, ?_, ?_⟩
  · rw [r1]; simp [HashJoin.runElems, HashJoin.run, f2]
  · rw [r3]; simp [HashJoin.anyPanic, HashJoin.panics, f1]
  · rw [r2]; simp [HashJoin.stateAfter, f2]

/-- `relJoin` written out: membership characterisation (what "the relational join" means). -/
theorem relJoin_mem (v : Variant) (kl : α → κ) (kr : β → κ) (L : List α) (R : List β) (o : Out κ α β) :
    o ∈ relJoin v kl kr L R ↔
      (∃ l ∈ L, ∃ r ∈ R, kr r = kl l ∧ o = (kl l, some l, some r))
      ∨ (v.leftOuter = true ∧ ∃ l ∈ L, (∀ r ∈ R, kr r ≠ kl l) ∧ o = (kl l, some l, none))
      ∨ (v.rightOuter = true ∧ ∃ r ∈ R, (∀ l ∈ L, kl l ≠ kr r) ∧ o = (kr r, none, some r)) := by
  cases v <;>
    simp [relJoin, Variant.leftOuter, Variant.rightOuter, mem_pairs, mem_unmatchedL, mem_unmatchedR]


/-! ### Keyed-stream joins -/

/-- **C08 (`KeyedStream::join_outer`, `JoinKeyedOuter`).** For every interleaving, the output is the
    full-outer relational join on the stream key, with the key stripped from the joined values. -/
theorem keyedJoin_outer_correct (L : List (κ × α)) (R : List (κ × β)) (tr : List (Bin (κ × α) (κ × β)))
    (h : Interleave (L.map Bin.left ++ [Bin.leftEnd]) (R.map Bin.right ++ [Bin.rightEnd]) tr) :
    (KeyedJoin.outerRun tr).Perm ((relJoin .outer Prod.fst Prod.fst L R).map KeyedJoin.strip) := by
  rw [KeyedJoin.outerRun, KeyedJoin.outerFeed_eq]
  exact (hashJoin_correct .outer Prod.fst Prod.fst L R tr h).map _

/-- **C08 (`KeyedStream::join`, `JoinKeyedInner`).** For every interleaving, the output is the inner
    relational join on the stream key; at the end both maps are empty (the `assert!`s of the
    `FlushAndRestart` arm hold) and the `FlushAndRestart` restores the initial state. -/
theorem keyedJoin_correct (L : List (κ × α)) (R : List (κ × β)) (tr : List (Bin (κ × α) (κ × β)))
    (h : Interleave (L.map Bin.left ++ [Bin.leftEnd]) (R.map Bin.right ++ [Bin.rightEnd]) tr) :
    (KeyedJoin.innerRun tr).Perm (KeyedJoin.relJoinInner L R)
      ∧ KeyedJoin.innerFarOk (KeyedJoin.innerStateAfter KeyedJoin.InnerState.init tr) = true
      ∧ KeyedJoin.innerFar (KeyedJoin.innerStateAfter KeyedJoin.InnerState.init tr)
          = KeyedJoin.InnerState.init := by
  obtain ⟨h1, h2⟩ := KeyedJoin.inner_feed_interleaving tr KeyedJoin.InnerState.init false false [] L [] R
    KeyedJoin.innerInv_init (fun h => by cases h) (fun h => by cases h) h
  obtain ⟨hl, hr⟩ := h2.done rfl rfl
  refine ⟨by simpa [KeyedJoin.innerRun, KeyedJoin.relJoinInner] using h1, ?_, ?_⟩
  · simp [KeyedJoin.innerFarOk, hl, hr]
  · have e1 := h2.lend; have e2 := h2.rend
    cases hs : KeyedJoin.innerStateAfter KeyedJoin.InnerState.init tr with
    | mk l r le re =>
      rw [hs] at hl hr e1 e2
      simp only at hl hr e1 e2
      subst hl hr
      simp [KeyedJoin.innerFar, KeyedJoin.InnerState.init]

/-- the keyed inner join is the inner `relJoin` with the key stripped -/
theorem relJoinInner_eq (L : List (κ × α)) (R : List (κ × β)) :
    KeyedJoin.relJoinInner L R
      = (relJoin .inner Prod.fst Prod.fst L R).filterMap fun o =>
          match o with
          | (k, some l, some r) => some (k, l.2, r.2)
          | _ => none := by
  simp only [KeyedJoin.relJoinInner, relJoin, Variant.leftOuter, Variant.rightOuter, pairs,
    Bool.false_eq_true, if_false, List.append_nil]
  induction L with
  | nil => rfl
  | cons l L ih =>
    simp only [List.flatMap_cons, List.filterMap_append, ih]
    congr 1
    simp [List.filterMap_map, Function.comp_def]

/-! ### Sort-merge join -/

/-- **C08 (local sort-merge join).** For every variant and every interleaving, `JoinLocalSortMerge`
    (keys ordered, here `Int`) emits exactly the relational join — all of it when the second end
    marker arrives (descending merge of the two sorted vectors with the `last_left_key` test deciding
    which right elements are unmatched) —, the `assert!`s of the `FlushAndRestart` arm hold, and
    `FlushAndRestart` restores the initial state. -/
theorem sortMergeJoin_correct (v : Variant) (kl : α → Int) (kr : β → Int) (L : List α) (R : List β)
    (tr : List (Bin α β))
    (h : Interleave (L.map Bin.left ++ [Bin.leftEnd]) (R.map Bin.right ++ [Bin.rightEnd]) tr) :
    (SortMerge.run v kl kr tr).Perm (relJoin v kl kr L R)
      ∧ SortMerge.farOk (SortMerge.stateAfterBin v kl kr SortMerge.State.init tr) = true
      ∧ SortMerge.far (SortMerge.stateAfterBin v kl kr SortMerge.State.init tr) = SortMerge.State.init := by
  have hinit : SortMerge.smStateOf kl kr false false ([] : List α) ([] : List β) = SortMerge.State.init := by
    simp [SortMerge.smStateOf, SortMerge.State.init]
  obtain ⟨h1, h2, h3⟩ := SortMerge.feed_interleaving v kl kr tr false false [] L [] R rfl
    (fun h => by cases h) (fun h => by cases h) h
  rw [hinit] at h1 h2 h3
  refine ⟨?_, h2, h3⟩
  rw [SortMerge.run, h1]
  simpa using SortMerge.finalOut_perm v kl kr L R

/-- Non-vacuity (sort-merge, outer, duplicate and one-sided keys, left side ending first). -/
example :
    SortMerge.run .outer (fun x : Int × Nat => x.1) (fun x : Int × Nat => x.1)
      [.left (1, 20), .right (1, 10), .left (2, 21), .leftEnd, .right (3, 11), .right (1, 12), .rightEnd]
      = [(3, none, some (3, 11)), (2, some (2, 21), none), (1, some (1, 20), some (1, 12)),
         (1, some (1, 20), some (1, 10))] := by
  decide

/-! ### Interval join: the theorems (`intervalJoin_correct`, `intervalJoin_correct_int`, `intervalJoin_after_reorder`,
    `intervalJoin_resets`, `intervalJoin_preserves_grammar/_wmsafe`) are in `Props/C08Interval.lean`. -/

/-- Non-vacuity of the interval-join model against its specification on a boundary instance
    (`lower = 2`, `upper = 1`: `r.ts ∈ [l.ts - 2, l.ts + 1]`; pairs at both closed ends, one just outside). -/
example :
    let es : List (Elem (Nat × (Nat ⊕ Nat))) :=
      [.ts (0, .inr 100) 3, .ts (0, .inl 1) 5, .ts (0, .inr 101) 6, .ts (0, .inr 102) 7, .ts (1, .inr 103) 7, .far]
    (es.foldl (fun (acc : IntervalJoin.State Nat Nat Nat × List (Elem (Nat × Nat × Nat))) e =>
        let r := IntervalJoin.step 2 1 acc.1 e; (r.1, acc.2 ++ r.2)) (IntervalJoin.State.init, [])).2
      = [.ts (0, 1, 100) 5, .ts (0, 1, 101) 6, .far]
    ∧ IntervalJoin.spec 2 1 [(5, 0, 1)] [(0, 3, 100), (0, 6, 101), (0, 7, 102), (1, 7, 103)]
      = [(5, 0, 1, 100), (6, 0, 1, 101)] := by
  decide

/-! ### Shipping -/

/-- **C08 (hash shipping co-partitions).** When both inputs are partitioned among `n` replicas by a
    function of the key (`NextStrategy::group_by(keyer)` on both sides, ship.rs:76), the union over the
    replicas of the per-replica joins is the join of the whole inputs — for all three variants. -/
theorem hashShip_copartitions (v : Variant) (kl : α → κ) (kr : β → κ) (n : Nat) (h : κ → Nat)
    (hn : ∀ k, h k < n) (L : List α) (R : List β) :
    (relJoin v kl kr L R).Perm
      ((List.range n).flatMap fun i =>
        relJoin v kl kr (L.filter fun l => decide (h (kl l) = i)) (R.filter fun r => decide (h (kr r) = i))) :=
  relJoin_copartition kl kr v h n L R (fun l _ => hn (kl l)) (fun r _ => hn (kr r))

/-- **C08 (broadcast-right shipping).** When the left input is split arbitrarily among the replicas
    (`parts`) and every replica receives the whole right input (`NextStrategy::all()`, ship.rs:131), the
    union of the per-replica inner (resp. left) joins is the inner (resp. left) join of the whole
    inputs. -/
theorem broadcastRight_union (v : Variant) (hv : v = .inner ∨ v = .left) (kl : α → κ) (kr : β → κ)
    (L : List α) (R : List β) (parts : List (List α)) (hp : L.Perm parts.flatten) :
    (relJoin v kl kr L R).Perm (parts.flatMap fun P => relJoin v kl kr P R) :=
  broadcastRight_union_aux kl kr v (by rcases hv with rfl | rfl <;> rfl) L R parts hp

/-- why `ship_broadcast_right` offers no `outer()`: with two replicas, a right element matched on one
    replica is reported unmatched by the other. -/
example :
    ¬ (relJoin .outer id id [1, 2] [1]).Perm
        ([[1], [2]].flatMap fun P => relJoin .outer (id : Nat → Nat) (id : Nat → Nat) P [1]) := by
  intro h
  have := h.length_eq
  revert this
  decide

/-- Non-vacuity: an outer join with duplicate keys, one-sided keys and the right side ending first. -/
example :
    HashJoin.run .outer (fun x : Nat × Nat => x.1) (fun x : Nat × Nat => x.1)
      [.right (1, 10), .left (1, 20), .rightEnd, .left (2, 21), .left (1, 22), .leftEnd]
      = [(1, some (1, 20), some (1, 10)), (2, some (2, 21), none), (1, some (1, 22), some (1, 10))] := by
  decide

example :
    Interleave ([(1, 20), (2, 21), (1, 22)].map Bin.left ++ [Bin.leftEnd])
      ([(1, 10)].map Bin.right ++ [Bin.rightEnd])
      ([.right (1, 10), .left (1, 20), .rightEnd, .left (2, 21), .left (1, 22), .leftEnd] :
        List (Bin (Nat × Nat) (Nat × Nat))) :=
  .right (.left (.right (.left (.left (.left .nil)))))

end Noir.Join
