/-
  Props/C08.lean — property theorems for C08 (joins). Models: Model/HashJoin.lean (JoinLocalHash, relJoin,
  Interleave, binary start end-marker injection), Model/KeyedJoin.lean, Model/SortMergeJoin.lean.
  Helper lemmas: Lemmas/HashJoin.lean, Lemmas/KeyedJoin.lean, Lemmas/JoinShip.lean, Lemmas/SortMergeJoin.lean.
-/
import NoirVerif.Lemmas.HashJoin
namespace Noir.Join

variable {κ α β : Type} [DecidableEq κ]

/-- **C08 (local hash join).** For every variant, every pair of input multisets (given as the arrival
    orders `L`, `R` of the two sides) and *every* interleaving of `L ++ [LeftEnd]` with
    `R ++ [RightEnd]` — i.e. every relative arrival order of the elements and of the two end markers —
    `JoinLocalHash` started in its initial state emits exactly the relational join: every matching pair
    once, plus (left/outer) every unmatched left element once padded with `None`, plus (outer) every
    unmatched right element once padded with `None`. -/
theorem hashJoin_correct (v : Variant) (kl : α → κ) (kr : β → κ) (L : List α) (R : List β)
    (tr : List (Bin α β))
    (h : Interleave (L.map Bin.left ++ [Bin.leftEnd]) (R.map Bin.right ++ [Bin.rightEnd]) tr) :
    (HashJoin.run v kl kr tr).Perm (relJoin v kl kr L R) := by
  have := (HashJoin.feed_interleaving v kl kr tr false false [] L [] R (fun h => by cases h)
    (fun h => by cases h) h).1
  simpa [HashJoin.run, HashJoin.partialJoin, pairs, HashJoin.stateOf_init, unmatchedL, unmatchedR] using this

/-- **C08 (nothing is carried over).** After any such iteration the six `assert!`s of the
    `FlushAndRestart` arm hold (the operator does not panic) and the `FlushAndRestart` puts the operator
    back into its initial state, so the next iteration is joined on its own. -/
theorem hashJoin_resets (v : Variant) (kl : α → κ) (kr : β → κ) (L : List α) (R : List β)
    (tr : List (Bin α β))
    (h : Interleave (L.map Bin.left ++ [Bin.leftEnd]) (R.map Bin.right ++ [Bin.rightEnd]) tr) :
    let s := HashJoin.stateAfterBin v kl kr HashJoin.State.init tr
    HashJoin.farOk s = true ∧ HashJoin.step v kl kr s .far = (HashJoin.State.init, [.far]) := by
  have := (HashJoin.feed_interleaving v kl kr tr false false [] L [] R (fun h => by cases h)
    (fun h => by cases h) h).2
  rw [HashJoin.stateOf_init] at this
  simp only [this]
  simp [HashJoin.farOk, HashJoin.step, HashJoin.stateOf, HashJoin.State.init, HashJoin.Side.empty]

/-- `relJoin` written out: membership characterisation (what "the relational join" means). -/
theorem relJoin_mem (v : Variant) (kl : α → κ) (kr : β → κ) (L : List α) (R : List β) (o : Out κ α β) :
    o ∈ relJoin v kl kr L R ↔
      (∃ l ∈ L, ∃ r ∈ R, kr r = kl l ∧ o = (kl l, some l, some r))
      ∨ (v.leftOuter = true ∧ ∃ l ∈ L, (∀ r ∈ R, kr r ≠ kl l) ∧ o = (kl l, some l, none))
      ∨ (v.rightOuter = true ∧ ∃ r ∈ R, (∀ l ∈ L, kl l ≠ kr r) ∧ o = (kr r, none, some r)) := by
  cases v <;>
    simp [relJoin, Variant.leftOuter, Variant.rightOuter, mem_pairs, mem_unmatchedL, mem_unmatchedR]

/-- Non-vacuity: an outer join with duplicate keys, one-sided keys and the right side ending first. -/
example :
    HashJoin.run .outer (fun x : Nat × Nat => x.1) (fun x : Nat × Nat => x.1)
      [.right (1, 10), .left (1, 20), .rightEnd, .left (2, 21), .left (1, 22), .leftEnd]
      = [(1, some (1, 20), some (1, 10)), (2, some (2, 21), none), (1, some (1, 22), some (1, 10))] := by
  decide

example :
    Interleave ([(1, 20), (2, 21), (1, 22)].map Bin.left ++ [Bin.leftEnd])
      ([(1, 10)].map Bin.right ++ [Bin.rightEnd])
      ([.right (1, 10), .left (1, 20), .rightEnd, .left (2, 21), .left (1, 22), .leftEnd] :
        List (Bin (Nat × Nat) (Nat × Nat))) :=
  .right (.left (.right (.left (.left (.left .nil)))))

end Noir.Join
