/-
  Props/C13.lean — property theorems for C13 (event-time and transaction windows).
  Helper lemmas live in Lemmas/EventTimeWindow.lean; models in Model/EventTimeWindow.lean,
  Model/TransactionWindow.lean, Model/WindowOp.lean (keyed dispatch of `WindowOperator`).

  C13: "Every event-time window result is computed from elements of one key whose timestamps lie
  inside one interval of the window length; a tumbling window assigns every element that is not
  late with respect to the watermark to exactly one result (a sliding window to at least one and at
  most ceil(size/slide)), independently of arrival order. A result is emitted no earlier than a
  watermark reaching its window end (or the end of the iteration) and no later than the first
  watermark beyond it, and transaction windows commit exactly as the user logic dictates."

  Throughout, `0 < slide` (and `0 < size` where needed) are the assertions of
  `EventTimeWindow::sliding/tumbling`. The models follow /repo after the fixes of F2 (backward
  allocation of windows, commit c425a6d) and F3 (windows fire on `end <= watermark`, commit 6022f0c);
  the former counterexamples are kept as positive regression `example`s at the end.
  Watermark safety of the operator's output (`etwin_preserves_wmsafe`) is in Props/C06Etwin.lean.
-/
import NoirVerif.Lemmas.EventTimeWindow
namespace Noir.EventTimeWindow
open Noir.WindowOp

variable {α κ : Type}

/-! ### one key, one interval -/

/-- **C13 (one interval, manager).** Every result of a manager, on any input whatsoever, is
    non-empty, is stamped with the end `start + size` of an interval, and consists of elements
    that were fed to this manager with a timestamp in `[start, start + size)`. -/
theorem etwin_one_interval (c : Cfg) (hS : 0 < c.slide) (es : List (Elem α)) :
    ∀ p ∈ run c es, ∃ start : Int, p.2.ts = some (start + c.size) ∧ p.2.val ≠ [] ∧
      ∀ q ∈ p.2.val, Elem.ts q.1 q.2 ∈ es ∧ start ≤ q.2 ∧ q.2 < start + c.size := by
  intro p hp
  obtain ⟨s, hok, ha, hr⟩ := runFrom_out c hS (fun q => Elem.ts q.1 q.2 ∈ es) es State.init 0
    (inv_init c _) (fun x t h => h) p hp
  refine ⟨s.start, by rw [hr, hok.span], ?_, ?_⟩
  · rw [hr]; have := hok.act; rw [ha] at this
    intro h; simp only at h; rw [h] at this; simp at this
  · intro q hq
    rw [hr] at hq
    have h1 := hok.inside q hq
    have h2 := hok.span
    exact ⟨hok.q q hq, h1.1, by omega⟩

/-- **C13 (one key, one interval, keyed operator).** Every data element the `WindowOperator`
    emits, on any keyed input whatsoever, is `Timestamped((k, items), start + size)` with `items`
    non-empty, and every element of `items` arrived *with key `k`* and a timestamp in
    `[start, start + size)`. No `Item` is ever emitted. -/
theorem etwin_op_one_key_one_interval [DecidableEq κ] (c : Cfg) (hS : 0 < c.slide)
    (es : List (Elem (κ × α))) :
    ∀ o ∈ WindowOp.run (mgr c) es,
      match o with
      | .ts (k, items) t => ∃ start : Int, t = start + c.size ∧ items ≠ [] ∧
          ∀ q ∈ items, Elem.ts (k, q.1) q.2 ∈ es ∧ start ≤ q.2 ∧ q.2 < start + c.size
      | .item _ => False
      | _ => True := by
  intro o ho
  simp only [WindowOp.run, List.mem_flatten] at ho
  obtain ⟨u, hu, hou⟩ := ho
  have := op_runUnits_good c hS es es WindowOp.State.init (fun e h => h) (by simp [WindowOp.State.init]) u hu o hou
  cases o with
  | ts p t => obtain ⟨k, items⟩ := p; exact this
  | item p => exact this
  | _ => trivial

/-! ### nothing is carried over -/

/-- **C13 (reset, manager).** After `FlushAndRestart`/`Terminate` a manager has no open slot and is
    recyclable. (Its `last_watermark` field is *not* reset — harmless, because the operator drops
    the manager, see `etwin_resets`.) -/
theorem etwin_manager_drained (c : Cfg) (st : State α) :
    (process c st .far).1.ws = [] ∧ recycle (process c st .far).1 = true ∧
    (process c st .term).1.ws = [] ∧ recycle (process c st .term).1 = true := by
  simp [process, recycle]

/-- **C13 (reset, keyed operator).** After `FlushAndRestart` (or `Terminate`) the operator holds no
    manager at all: its state is the initial one, so no slot, anchor or watermark of an iteration
    survives into the next. -/
theorem etwin_resets [DecidableEq κ] (c : Cfg) (st : WindowOp.State κ (State α)) :
    (WindowOp.step (mgr c) st .far).1.windows = [] ∧ (WindowOp.step (mgr c) st .term).1.windows = [] := by
  constructor
  · exact broadcast_all_recycled (mgr c) .far (fun s => by simp [mgr, process, recycle]) st.windows
  · exact broadcast_all_recycled (mgr c) .term (fun s => by simp [mgr, process, recycle]) st.windows

/-! ### assignment: exactly the allocated slots that contain the timestamp -/

/-- **C13 (assignment).** On any reachable state, `skip_while end ≤ ts; take_while start ≤ ts`
    appends the arriving element exactly once to every allocated slot whose interval
    `[start, end)` contains its timestamp, and touches no other slot. Nothing is emitted. -/
theorem etwin_assignment (c : Cfg) (hS : 0 < c.slide) (st : State α) (inv : Inv c (fun _ => True) st)
    (x : α) (t : Int) :
    (process c st (.ts x t)).2 = [] ∧
    (process c st (.ts x t)).1.ws =
      (alloc c st.lw t st.ws).map (fun s => if s.start ≤ t ∧ t < s.stop then s.update x t else s) := by
  obtain ⟨hok, hs⟩ := alloc_inv c hS _ st.lw t st.ws inv.ok inv.sorted
  refine ⟨rfl, ?_⟩
  simp only [process]
  rw [assign_eq_map c hS x t _ (fun s h => (hok s h).span) hs]
  apply List.map_congr_left
  intro s _
  simp [contains]

/-- the reachable states satisfy the invariant used above -/
theorem etwin_reachable_inv (c : Cfg) (hS : 0 < c.slide) (es : List (Elem α)) :
    Inv c (fun _ => True) (stateAfter c State.init es) :=
  inv_stateAfter c hS _ es State.init (inv_init c _) (fun _ _ _ => trivial)

/-! ### exactly one / at least one / at most ⌈size/slide⌉

  Stated for one iteration `es ++ [far]` of one key: `es` is any watermark-safe sequence
  (`wmSafeOk`: no arrival at or before a previous watermark, watermarks increase) without a
  `FlushAndRestart` inside — any arrival order, any placement of the watermarks. -/

/-- **C13 (no duplicates, at most ⌈size/slide⌉; unconditional).** For any input, the items of all
    results of an iteration are the arrivals, each repeated at most `⌈size/slide⌉` times — at most
    once for a tumbling window. -/
theorem etwin_no_dup (c : Cfg) (hS : 0 < c.slide) (hN : 0 < c.size) (es : List (Elem α)) :
    ∃ as, (outItems (results c State.init (es ++ [.far]))).Perm as ∧
      Multi 0 (ceilSlots c) (dataOf es) as ∧
      (c.slide = c.size → Multi 0 1 (dataOf es) as) := by
  refine ⟨assigned c State.init (es ++ [.far]), results_far_conserve c hS es, ?_, ?_⟩
  · have := assigned_multi0 c hS (fun _ => True) (ceilSlots c) (fun t ws h1 h2 => hits_le_ceilSlots c hS hN t ws h1 h2)
      (es ++ [.far]) State.init (inv_init c _) (fun _ _ _ => trivial)
    rwa [dataOf_snoc_far] at this
  · intro hT
    have := assigned_multi0 c hS (fun _ => True) 1 (fun t ws h1 h2 => hits_le_one c hT t ws h1 h2)
      (es ++ [.far]) State.init (inv_init c _) (fun _ _ _ => trivial)
    rwa [dataOf_snoc_far] at this

/-- **C13 (tumbling: exactly one).** For a tumbling window and any watermark-safe iteration, the
    items of all results are a permutation of the arrivals: every element that is not late is in
    exactly one result, whatever the arrival order and the placement of the watermarks. -/
theorem etwin_tumbling_exactly_one (c : Cfg) (hN : 0 < c.size) (hT : c.slide = c.size)
    (es : List (Elem α)) (hfar : ∀ e ∈ es, e ≠ .far) (hw : wmSafeOk es = true) :
    (outItems (results c State.init (es ++ [.far]))).Perm (dataOf es) := by
  have hS : 0 < c.slide := by omega
  have hg : Guarded c State.init es := guarded_of_wmSafe c es State.init hfar hw
  have hm := assigned_multi c hS (by omega) (fun _ => True) 1 (fun t ws h1 h2 => hits_le_one c hT t ws h1 h2)
    (es ++ [.far]) State.init (inv_init c _) (covers_init c) (guarded_snoc_far c es _ hg) (fun _ _ _ => trivial)
  have := multi_one _ _ hm
  rw [dataOf_snoc_far] at this
  rw [← this]
  exact results_far_conserve c hS es

/-- **C13 (sliding: between 1 and ⌈size/slide⌉).** For `slide ≤ size` and any watermark-safe
    iteration, every arrival is in at least one and at most `⌈size/slide⌉` results.
    (For `slide > size` the windows leave gaps: an arrival may legitimately be in no result; only
    the upper bound of `etwin_no_dup` holds.) -/
theorem etwin_sliding_cover (c : Cfg) (hS : 0 < c.slide) (hSN : c.slide ≤ c.size)
    (es : List (Elem α)) (hfar : ∀ e ∈ es, e ≠ .far) (hw : wmSafeOk es = true) :
    ∃ as, (outItems (results c State.init (es ++ [.far]))).Perm as ∧
      Multi 1 (ceilSlots c) (dataOf es) as := by
  have hg : Guarded c State.init es := guarded_of_wmSafe c es State.init hfar hw
  refine ⟨assigned c State.init (es ++ [.far]), results_far_conserve c hS es, ?_⟩
  have := assigned_multi c hS hSN (fun _ => True) (ceilSlots c)
    (fun t ws h1 h2 => hits_le_ceilSlots c hS (by omega) t ws h1 h2)
    (es ++ [.far]) State.init (inv_init c _) (covers_init c) (guarded_snoc_far c es _ hg) (fun _ _ _ => trivial)
  rwa [dataOf_snoc_far] at this

/-- Non-vacuity: out-of-order arrivals (3 after 5 — the former F2 witness —, 17 after 21), a
    watermark equal to a window end, an idle gap (windows stay aligned to the first anchor 5). -/
example :
    let es : List (Elem Nat) := [.ts 1 5, .ts 2 3, .ts 3 7, .wm 15, .ts 4 31, .wm 16, .ts 5 27]
    wmSafeOk es = true ∧ (∀ e ∈ es, e ≠ .far) ∧
    (run ⟨10, 10⟩ (es ++ [.far])).map (fun p => (p.1, p.2.val, p.2.ts)) =
      [(3, [(2, 3)], some 5), (3, [(1, 5), (3, 7)], some 15), (7, [(4, 31), (5, 27)], some 35)] := by
  decide

/-- `⌈size/slide⌉` for the configurations of the unit tests: sliding(5,4) → 2, tumbling → 1 -/
example : ceilSlots ⟨5, 4⟩ = 2 ∧ ceilSlots ⟨10, 10⟩ = 1 ∧ ceilSlots ⟨7, 2⟩ = 4 := by decide

/-! ### when results are emitted -/

/-- **C13 (fire bounds, one step — what the code does).** On a reachable state:
    a data element emits nothing; `Watermark(w)` emits exactly the non-empty slots with
    `end ≤ w`, in slot order, stamped with their end, and afterwards no slot with `end ≤ w` is open
    while every slot with `end > w` still is — so a window is emitted exactly at the first
    watermark that reaches its end; `FlushAndRestart`/`Terminate` emit every non-empty slot and
    close all. -/
theorem etwin_fire_bounds (c : Cfg) (hS : 0 < c.slide) (st : State α) (inv : Inv c (fun _ => True) st) :
    (∀ x t, (process c st (.ts x t)).2 = []) ∧
    (∀ w, (process c st (.wm w)).2 = emit (st.ws.filter (fun s => decide (s.stop ≤ w))) ∧
          (process c st (.wm w)).1.ws = st.ws.filter (fun s => !decide (s.stop ≤ w))) ∧
    ((process c st .far).2 = emit st.ws ∧ (process c st .far).1.ws = []) ∧
    ((process c st .term).2 = emit st.ws ∧ (process c st .term).1.ws = []) := by
  refine ⟨fun _ _ => rfl, ?_, ⟨rfl, rfl⟩, ⟨rfl, rfl⟩⟩
  intro w
  obtain ⟨h1, h2⟩ := takeWhile_eq_filter c hS w st.ws (fun s h => (inv.ok s h).span) inv.sorted
  simp only [process]
  exact ⟨by rw [h1], h2⟩

/-- **C13 (fire bounds, whole run).** Every result of a run is emitted while processing either a
    watermark that has reached its stamp (= its window end, `end ≤ w`), or
    `FlushAndRestart`/`Terminate` — never on a data element, never before a watermark has reached
    its end. -/
theorem etwin_fire_bounds_run (c : Cfg) (es : List (Elem α)) :
    ∀ p ∈ run c es,
      es[p.1]? = some .far ∨ es[p.1]? = some .term ∨
      ∃ w stop, es[p.1]? = some (.wm w) ∧ p.2.ts = some stop ∧ stop ≤ w := by
  intro p hp
  obtain ⟨j, hj, h⟩ := runFrom_fire c es State.init 0 p hp
  have : p.1 = j := by omega
  rw [this]; exact h

/-- **C13 (fire bounds, whole run, upper bound).** If the `i`-th element of a run is
    `Watermark(w)`, then every non-empty window with `end ≤ w` that is open when it arrives is
    emitted *at index `i`* (i.e. — `WindowOperator` buffers results before the control element —
    before `Watermark(w)` is forwarded), and afterwards no window with `end ≤ w` is open.
    Together with `etwin_fire_bounds_run`: a window is emitted exactly at the first watermark
    `w ≥ end` that follows its creation, or at the end of the iteration. -/
theorem etwin_fire_bounds_run_upper (c : Cfg) (hS : 0 < c.slide) (es : List (Elem α)) (i : Nat) (w : Int)
    (h : es[i]? = some (.wm w)) :
    (∀ s ∈ (stateAfter c State.init (es.take i)).ws, s.active = true → s.stop ≤ w →
        (i, (⟨s.items, some s.stop⟩ : Res α)) ∈ run c es) ∧
    (∀ s ∈ (stateAfter c State.init (es.take (i + 1))).ws, w < s.stop) := by
  have inv := etwin_reachable_inv c hS (es.take i)
  obtain ⟨h1, h2⟩ := (etwin_fire_bounds c hS _ inv).2.1 w
  constructor
  · intro s hs hact hle
    have hr : (⟨s.items, some s.stop⟩ : Res α) ∈ (process c (stateAfter c State.init (es.take i)) (.wm w)).2 := by
      rw [h1]
      simp only [emit, List.mem_map, List.mem_filter]
      exact ⟨s, ⟨⟨hs, by simpa using hle⟩, hact⟩, rfl⟩
    have := mem_runFrom_of_step c es State.init 0 i (.wm w) _ h hr
    simpa [run] using this
  · intro s hs
    rw [stateAfter_take_succ c es State.init i (.wm w) h, h2, List.mem_filter] at hs
    have := hs.2
    simp at this
    omega

/-! ### regression examples: the witnesses of the two defects that were fixed in /repo -/

/-- Former F2 witness (`tumbling(10)`, timestamps 5, 3, 7, no watermark). Before commit c425a6d the
    element with timestamp 3 was in no result; now a window [-5, 5) is allocated backwards for it. -/
example :
    let es : List (Elem Nat) := [.ts 1 5, .ts 2 3, .ts 3 7, .far]
    (run ⟨10, 10⟩ es).map (fun p => (p.1, p.2.val, p.2.ts)) =
      [(3, [(2, 3)], some 5), (3, [(1, 5), (3, 7)], some 15)] ∧
    (∃ p ∈ run ⟨10, 10⟩ es, (2, 3) ∈ p.2.val) ∧
    (∃ p ∈ run ⟨10, 5⟩ es, (2, 3) ∈ p.2.val) := by
  decide

/-- Former F3 witness (`tumbling(10)`, `Timestamped(1, 3)`, `Watermark(13)`, `Watermark(14)`).
    Before commit 6022f0c the operator forwarded `Watermark(13)` and emitted the result stamped 13
    afterwards; now the result precedes the watermark and the output is watermark-safe. -/
example :
    let es : List (Elem (Nat × Nat)) := [.ts (0, 1) 3, .wm 13, .wm 14, .far, .term]
    WindowOp.run (mgr ⟨10, 10⟩) es = [.ts (0, [(1, 3)]) 13, .wm 13, .wm 14, .far, .term] ∧
    wmSafeOk (WindowOp.run (mgr ⟨10, 10⟩) es) = true := by
  decide

end Noir.EventTimeWindow

/-! ### transaction windows -/
namespace Noir.TransactionWindow
open Noir.WindowOp

variable {α : Type}

/-- **C13 (transaction windows, one step).** The window of a key accumulates every timestamped
    element (`items ++ [x]`, where `items` is the open window's content or `[]`), and then:
    `Commit` emits exactly that content (untimestamped) and closes the window; `Discard` closes it
    without output; `CommitAfter(d)` (re)registers the deadline `d`; `Continue` keeps window and
    deadline. A watermark `w` commits iff a deadline `d < w` is registered; the end of the
    iteration / stream commits iff a deadline is registered, and otherwise leaves the window
    open (it is NOT dropped at `FlushAndRestart`). -/
theorem twin_commit_semantics (f : α → TxOp) (st : State α) :
    (∀ x t,
      let items := (match st with | some s => s.items | none => []) ++ [x]
      process f st (.ts x t) =
        match f x with
        | .commit => (none, [⟨items, none⟩])
        | .discard => (none, [])
        | .commitAfter d => (some ⟨items, some d⟩, [])
        | .continue_ => (some ⟨items, closeOf st⟩, [])) ∧
    (∀ w, process f st (.wm w) =
      match st, closeOf st with
      | some s, some d => if d < w then (none, [⟨s.items, none⟩]) else (st, [])
      | _, _ => (st, [])) ∧
    (process f st .far = process f st .term) ∧
    (process f st .far =
      match st, closeOf st with
      | some s, some _ => (none, [⟨s.items, none⟩])
      | _, _ => (st, [])) := by
  refine ⟨?_, ?_, rfl, ?_⟩
  · intro x t
    cases st with
    | none => simp only [process, closeOf]; cases f x <;> simp [out]
    | some s => simp only [process, closeOf]; cases f x <;> simp [out]
  · intro w
    cases st with
    | none => simp [process]
    | some s =>
      cases hc : s.close with
      | none => simp [process, closeOf, hc]
      | some d => simp [process, closeOf, hc, out]
  · cases st with
    | none => simp [process]
    | some s =>
      cases hc : s.close with
      | none => simp [process, closeOf, hc]
      | some d => simp [process, closeOf, hc, out]

/-- **C13 (transaction windows, a whole transaction).** From a closed window, `Continue` elements
    `xs` followed by a `Commit` element `y` produce exactly one result, `xs ++ [y]` in arrival
    order, at the `Commit` element, and the window is closed again. -/
theorem twin_transaction_commit (f : α → TxOp) (xs : List (α × Int)) (y : α) (t : Int)
    (hx : ∀ p ∈ xs, f p.1 = .continue_) (hy : f y = .commit) :
    run f (xs.map (fun p => Elem.ts p.1 p.2) ++ [.ts y t]) = [(xs.length, ⟨xs.map (·.1) ++ [y], none⟩)] := by
  cases xs with
  | nil => simp [run, runFrom, process, hy, out]
  | cons p xs =>
    have hp : f p.1 = .continue_ := hx p (by simp)
    simp only [run, List.map_cons, List.cons_append, runFrom, process, hp, List.map_nil, List.nil_append]
    rw [run_continue f xs _ _ _ _ (fun q hq => hx q (by simp [hq]))]
    simp [runFrom, process, hy, out]
    omega

/-- non-vacuity / a concrete trace: Continue, CommitAfter(5), Watermark(5) (does not fire: `5 < 5`
    is false), Continue, Watermark(6) (fires: the three elements so far), Discard (closes the new window silently). -/
example :
    let f : Nat → TxOp := fun v => if v = 2 then .commitAfter 5 else if v = 9 then .discard else .continue_
    (run f [.ts 1 0, .ts 2 1, .wm 5, .ts 3 6, .wm 6, .ts 9 7, .far]).map (fun p => (p.1, p.2.val))
      = [(4, [1, 2, 3])] := by
  decide

end Noir.TransactionWindow
