/-
  Props/C13.lean — property theorems for C13 (event-time and transaction windows).
  Helper lemmas live in Lemmas/EventTimeWindow.lean; models in Model/EventTimeWindow.lean,
  Model/TransactionWindow.lean, Model/WindowOp.lean (keyed dispatch of `WindowOperator`).

  C13: "Every event-time window result is computed from elements of one key whose timestamps lie
  inside one interval of the window length; a tumbling window assigns every element that is not
  late with respect to the watermark to exactly one result (a sliding window to at least one and at
  most ceil(size/slide)), independently of arrival order. A result is emitted no earlier than a
  watermark reaching its window end (or the end of the iteration) and no later than the first
  watermark beyond it, and transaction windows commit exactly as the user logic dictates."

  Throughout, `0 < slide` (and `0 < size` where needed) are the assertions of
  `EventTimeWindow::sliding/tumbling`.
-/
import NoirVerif.Lemmas.EventTimeWindow
namespace Noir.EventTimeWindow
open Noir.WindowOp

variable {α κ : Type}

/-! ### one key, one interval -/

/-- **C13 (one interval, manager).** Every result of a manager, on any input whatsoever, is
    non-empty, is stamped with the end `start + size` of an interval, and consists of elements
    that were fed to this manager with a timestamp in `[start, start + size)`. -/
theorem etwin_one_interval (c : Cfg) (hS : 0 < c.slide) (es : List (Elem α)) :
    ∀ p ∈ run c es, ∃ start : Int, p.2.ts = some (start + c.size) ∧ p.2.val ≠ [] ∧
      ∀ q ∈ p.2.val, Elem.ts q.1 q.2 ∈ es ∧ start ≤ q.2 ∧ q.2 < start + c.size := by
  intro p hp
  obtain ⟨s, hok, ha, hr⟩ := runFrom_out c hS (fun q => Elem.ts q.1 q.2 ∈ es) es State.init 0
    (inv_init c _) (fun x t h => h) p hp
  refine ⟨s.start, by rw [hr, hok.span], ?_, ?_⟩
  · rw [hr]; have := hok.act; rw [ha] at this
    intro h; simp only at h; rw [h] at this; simp at this
  · intro q hq
    rw [hr] at hq
    have h1 := hok.inside q hq
    have h2 := hok.span
    exact ⟨hok.q q hq, h1.1, by omega⟩

/-- **C13 (one key, one interval, keyed operator).** Every data element the `WindowOperator`
    emits, on any keyed input whatsoever, is `Timestamped((k, items), start + size)` with `items`
    non-empty, and every element of `items` arrived *with key `k`* and a timestamp in
    `[start, start + size)`. No `Item` is ever emitted. -/
theorem etwin_op_one_key_one_interval [DecidableEq κ] (c : Cfg) (hS : 0 < c.slide)
    (es : List (Elem (κ × α))) :
    ∀ o ∈ WindowOp.run (mgr c) es,
      match o with
      | .ts (k, items) t => ∃ start : Int, t = start + c.size ∧ items ≠ [] ∧
          ∀ q ∈ items, Elem.ts (k, q.1) q.2 ∈ es ∧ start ≤ q.2 ∧ q.2 < start + c.size
      | .item _ => False
      | _ => True := by
  intro o ho
  simp only [WindowOp.run, List.mem_flatten] at ho
  obtain ⟨u, hu, hou⟩ := ho
  have := op_runUnits_good c hS es es WindowOp.State.init (fun e h => h) (by simp [WindowOp.State.init]) u hu o hou
  cases o with
  | ts p t => obtain ⟨k, items⟩ := p; exact this
  | item p => exact this
  | _ => trivial

/-! ### nothing is carried over -/

/-- **C13 (reset, manager).** After `FlushAndRestart`/`Terminate` a manager has no open slot and is
    recyclable. (Its `last_watermark` field is *not* reset — harmless, because the operator drops
    the manager, see `etwin_resets`.) -/
theorem etwin_manager_drained (c : Cfg) (st : State α) :
    (process c st .far).1.ws = [] ∧ recycle (process c st .far).1 = true ∧
    (process c st .term).1.ws = [] ∧ recycle (process c st .term).1 = true := by
  simp [process, recycle]

/-- **C13 (reset, keyed operator).** After `FlushAndRestart` (or `Terminate`) the operator holds no
    manager at all: its state is the initial one, so no slot, anchor or watermark of an iteration
    survives into the next. -/
theorem etwin_resets [DecidableEq κ] (c : Cfg) (st : WindowOp.State κ (State α)) :
    (WindowOp.step (mgr c) st .far).1.windows = [] ∧ (WindowOp.step (mgr c) st .term).1.windows = [] := by
  constructor
  · exact broadcast_all_recycled (mgr c) .far (fun s => by simp [mgr, process, recycle]) st.windows
  · exact broadcast_all_recycled (mgr c) .term (fun s => by simp [mgr, process, recycle]) st.windows

/-! ### the two defects of the unchanged code -/

/-- **F2 (confirmed on the real code).** `tumbling(10)`, arrivals with timestamps 5, 3, 7 and no
    watermark at all (so nothing is late): the element with timestamp 3 is in no result.
    The full statement `etwin_tumbling_exactly_one` (every non-late element is in exactly one
    result) is therefore false for the code as it is. -/
theorem etwin_tumbling_exactly_one_counterexample :
    let es : List (Elem Nat) := [.ts 1 5, .ts 2 3, .ts 3 7, .far]
    wmSafeOk es = true ∧
    (run ⟨10, 10⟩ es).map (fun p => (p.1, p.2.val, p.2.ts)) = [(3, [(1, 5), (3, 7)], some 15)] ∧
    ¬ ∃ p ∈ run ⟨10, 10⟩ es, (2, 3) ∈ p.2.val := by
  decide

/-- **F3 (confirmed on the real code).** A slot fires on `end < w` but its result is stamped `end`:
    with `tumbling(10)`, `Timestamped(1, 3)`, `Watermark(13)`, `Watermark(14)` the operator forwards
    `Watermark(13)` and afterwards emits a result stamped 13. The input is watermark-safe, the
    output is not (property C06). -/
theorem etwin_wmsafe_counterexample :
    let es : List (Elem (Nat × Nat)) := [.ts (0, 1) 3, .wm 13, .wm 14, .far, .term]
    wmSafeOk es = true ∧
    WindowOp.run (mgr ⟨10, 10⟩) es = [.wm 13, .ts (0, [(1, 3)]) 13, .wm 14, .far, .term] ∧
    wmSafeOk (WindowOp.run (mgr ⟨10, 10⟩) es) = false := by
  decide

end Noir.EventTimeWindow
