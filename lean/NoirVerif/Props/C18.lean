/-
  Props/C18.lean — property theorems for C18 (batching never withholds data).

  "With adaptive batching, an element handed to a streaming (channel) source reaches the sink within a
  small multiple of the configured maximum delay per block boundary even if no further input ever
  arrives. With any batch mode every buffered element is delivered at the latest when its iteration
  ends, and the choice of batch mode never changes a job's result."

  Layers (models: Model/ChannelSource.lean, Model/Batcher.lean (C02), Model/Latency.lean; helper
  lemmas: Lemmas/Latency.lean):
  * `ChannelSource`  — the retry automaton of `ChannelSource::next`, over ALL sequences of channel states;
  * `End`/`Batcher`  — end of iteration, any mode (re-using the C02 batcher theorems);
  * pipeline         — `d+1` blocks in logical time under ANY schedule of source/receive/timeout events,
                       any batch mode per block, any outcome of the batchers' own timers.
  Real time enters only through the events `srcIdle` (≤ `MAX_RETRY + 1` polls of the source) and
  `timeout i` (one expiry of `recv_timeout(max_delay)` of block `i`); `quiesce_delivers_all` counts them.

  Finding F12 (`starved_batcher_counterexample`): the bound does NOT extend to "while further input
  keeps arriving for other destinations" — see the end of this file.
-/
import NoirVerif.Lemmas.Latency
import NoirVerif.Props.C02

/-! ## ChannelSource -/
namespace Noir.ChannelSource

variable {α : Type}

/-- **C18 (the source flushes before it sleeps).** For every sequence `ps` of channel states:
    1. the source enters its blocking `recv()` (event `block`) only DIRECTLY after an observation on
       which `next()` returned `FlushBatch` — no `Item`, and nothing else, in between — so when the
       source sleeps every `End` batcher of its block has been flushed after the last item;
    2. whenever it is neither finished nor asleep, it returns `FlushBatch` after at most
       `MAX_RETRY + 1` consecutive empty polls (precisely: `MAX_RETRY - retry` spins, then
       `FlushBatch`), unless `FlushBatch` is the last thing it returned (then the next empty poll
       puts it to sleep, by 1.). `MAX_RETRY` is the constant read from channel.rs on every run. -/
theorem channel_source_flushes_before_blocking (ps : List (Poll α)) :
    (∀ i, (run ps)[i]? = some .block →
      ∃ j, i = j + 1 ∧ (run ps)[j]? = some (.ret .flushBatch)) ∧
    (let s := stateAfter init ps
     s.terminated = false → s.blocked = false →
      (s.retry ≤ Consts.MAX_RETRY ∧
        runFrom s (List.replicate (Consts.MAX_RETRY - s.retry + 1) (Poll.empty : Poll α)) =
          List.replicate (Consts.MAX_RETRY - s.retry) Ev.spin ++ [Ev.ret Elem.flushBatch]) ∨
      (s.retry = Consts.MAX_RETRY + 1 ∧ (run ps).getLast? = some (.ret .flushBatch))) := by
  constructor
  · intro i h
    have := block_after_flush_aux ps init none inv_init i h
    cases i with
    | zero => simp at this
    | succ j => exact ⟨j, rfl, this⟩
  · intro s ht hb
    have hinv : Inv s (lastEv none (runFrom init ps)) :=
      stateAfter_inv ps init (none : Option (Ev α)) inv_init
    obtain ⟨h1, h2, _⟩ := hinv
    by_cases hle : s.retry ≤ Consts.MAX_RETRY
    · left
      exact ⟨hle, spin_then_flush (Consts.MAX_RETRY - s.retry) s ht hb (by omega)⟩
    · right
      have hgt : s.retry > Consts.MAX_RETRY := by omega
      have hl := h2 ht hgt
      rw [lastEv_eq] at hl
      refine ⟨by omega, ?_⟩
      unfold run
      cases hg : (runFrom init ps).getLast? with
      | none => rw [hg] at hl; simp at hl
      | some e => rw [hg] at hl; simpa using hl

/-- An available item is returned at once, awake or asleep: the source itself never withholds. -/
theorem channel_source_returns_items (s : St) (a : α) (ht : s.terminated = false) :
    (step s (.ok a)).2 = .ret (.item a) := by
  cases hb : s.blocked <;> simp [step, ht, hb]

/-- After the sender is gone: `FlushAndRestart`, then `Terminate` for ever. -/
theorem channel_source_ends (s : St) (ht : s.terminated = false) (p : Poll α) :
    (step s (Poll.disc : Poll α)).2 = .ret .far ∧
    (step (step s (Poll.disc : Poll α)).1 p).2 = .ret .term := by
  cases hb : s.blocked <;> simp [step, ht, hb]

/-- Non-vacuity: item, eight spins, `FlushBatch`, sleep, woken by an item, disconnect. -/
example : run ([.ok 7] ++ List.replicate 10 .empty ++ [.empty, .ok 8, .disc, .empty] : List (Poll Nat)) =
    [.ret (.item 7)] ++ List.replicate 8 .spin ++ [.ret .flushBatch, .block, .wait, .ret (.item 8),
      .ret .far, .ret .term] := by decide

end Noir.ChannelSource

/-! ## End of iteration, any batch mode -/
namespace Noir.Batcher

variable {α : Type}

/-- **C18 (delivered at the latest when the iteration ends).** Any batch mode, any clock, any history
    `ops` of calls on one of the batchers of an `End`: after the `End` has processed
    `FlushAndRestart` (end.rs:190-226: enqueue it into every batcher, then flush every batcher) the
    batcher holds nothing, and everything ever enqueued — followed by the `FlushAndRestart` itself —
    has been handed to the network sender, in order. With link exactness (C02 `link_prefix`) every
    element buffered anywhere is therefore delivered when its iteration ends. The same holds for
    `Terminate`. -/
theorem far_flushes_everything (m : Mode) (ops : List (Op (Elem α))) (el : Bool) (e : Elem α)
    (he : e = .far ∨ e = .term) :
    (run m [] (ops ++ opsOfElem el e)).1 = [] ∧
    (run m [] (ops ++ opsOfElem el e)).2.flatten = enqueued ops ++ [e] := by
  have hen : ∀ ops : List (Op (Elem α)), enqueued (ops ++ [Op.enqueue e el]) = enqueued ops ++ [e] := by
    intro ops
    induction ops with
    | nil => rfl
    | cons op ops ih => rw [List.cons_append, enqueued_cons, ih, enqueued_cons op ops, List.append_assoc]
  have key : ∀ last : Op (Elem α), last = .flush ∨ last = .end_ →
      (run m [] (ops ++ [.enqueue e el, last])).1 = [] ∧
      (run m [] (ops ++ [.enqueue e el, last])).2.flatten = enqueued ops ++ [e] := by
    intro last hl
    have h := batcher_flush_complete m (ops ++ [.enqueue e el]) last hl
    rw [List.append_assoc, hen] at h
    exact h
  rcases he with rfl | rfl
  · exact key .flush (Or.inl rfl)
  · exact key .end_ (Or.inr rfl)

/-- Every batcher of the `End`, whatever it held (`end_flushes_on_control` of C02, for all of them). -/
theorem far_flushes_every_batcher (m : Mode) (bufs : List (List (Elem α))) (el : Bool) :
    ∀ b ∈ bufs.map (fun buf => (run m buf (opsOfElem el .far)).1), b = [] := by
  intro b hb
  simp only [List.mem_map] at hb
  obtain ⟨buf, _, rfl⟩ := hb
  exact end_flushes_on_control m buf el .far (Or.inr (Or.inl rfl))

/-- Non-vacuity: `Fixed 1000` withholds until the end of the iteration, and not longer. -/
example : run (.fixed 1000) [] ([.enqueue (.item 1) false, .enqueue (.item 2) false] ++ opsOfElem false (.far : Elem Nat))
    = ([], [[.item 1, .item 2, .far]]) := by decide

end Noir.Batcher

/-! ## The pipeline in logical time -/
namespace Noir.Latency

variable {α : Type}

/-- **C18 (an idle block holds nothing).** In every state reachable under ANY schedule, batch modes
    and timer outcomes: a block that sits in its untimed blocking receive — block 0: the
    `ChannelSource` sleeps in `recv()`; block `i ≥ 1`: `Start` timed out and nothing arrived since —
    has an empty `End` batcher. (So whatever is still withheld somewhere sits in a block whose receive
    timeout is armed, or in a channel.) -/
theorem idle_block_is_flushed (cfg : List (Batcher.Mode × (α → List α))) (es : List (Ev α)) :
    ∀ t ∈ (run (State.init cfg) es).stages, t.idle = true → t.buf = [] := by
  intro t ht hi
  exact ((run_inv es _ (inv_init cfg)).1.ok t ht).2 hi

/-- **C18 (`batch_mode_invisible`: conservation under every schedule).** For every pipeline (any
    chains `f i`, ANY batch mode per block), every schedule of `src`/`srcIdle`/`recv`/`timeout`
    events in any interleaving and every outcome of the batchers' timers (`els`): what the sink has
    received, followed by everything in flight in pipeline order (pushed through the chains still
    ahead of it), is exactly what the chains make of the emitted sequence; `emitted` is the sequence
    of `src` items. Nothing is lost, duplicated or reordered, and the right-hand side does not
    mention modes, sizes, timers or the schedule. -/
theorem batch_mode_invisible (cfg : List (Batcher.Mode × (α → List α))) (hne : cfg ≠ [])
    (es : List (Ev α)) :
    let s := run (State.init cfg) es
    s.sink ++ pending s.stages = downF (cfg.map (·.2)) (srcItems es) ∧ s.emitted = srcItems es := by
  intro s
  obtain ⟨hi, hc⟩ := run_inv es _ (inv_init cfg)
  have hem : s.emitted = srcItems es := by
    have := run_emitted es _ (inv_init cfg) (by
      intro h0
      have := congrArg List.length (fsOf_init cfg)
      simp [h0, fsOf] at this
      exact hne (List.eq_nil_of_length_eq_zero this.symm))
    exact this.trans (by simp [State.init])
  refine ⟨?_, hem⟩
  have hb := hi.bal
  rw [hc.1, fsOf_init, hem] at hb
  exact hb

/-- Corollary: two runs of the same chains — different batch modes, different schedules, different
    timer outcomes — that emitted the same items and are both quiescent delivered the same sequence
    to the sink. -/
theorem batch_mode_invisible_result (fs : List (α → List α)) (hne : fs ≠ [])
    (modes₁ modes₂ : List Batcher.Mode) (h₁ : modes₁.length = fs.length) (h₂ : modes₂.length = fs.length)
    (es₁ es₂ : List (Ev α)) (hsame : srcItems es₁ = srcItems es₂)
    (hq₁ : Quiescent (run (State.init (modes₁.zip fs)) es₁).stages)
    (hq₂ : Quiescent (run (State.init (modes₂.zip fs)) es₂).stages) :
    (run (State.init (modes₁.zip fs)) es₁).sink = (run (State.init (modes₂.zip fs)) es₂).sink := by
  have hz : ∀ (ms : List Batcher.Mode), ms.length = fs.length → (ms.zip fs).map (·.2) = fs ∧ ms.zip fs ≠ [] := by
    intro ms hl
    refine ⟨by rw [List.map_snd_zip]; omega, ?_⟩
    intro h0
    have := congrArg List.length h0
    simp [List.length_zip, hl] at this
    exact hne this
  obtain ⟨z1, n1⟩ := hz modes₁ h₁
  obtain ⟨z2, n2⟩ := hz modes₂ h₂
  have b1 := (batch_mode_invisible (modes₁.zip fs) n1 es₁).1
  have b2 := (batch_mode_invisible (modes₂.zip fs) n2 es₂).1
  simp only [pending_quiescent _ hq₁, pending_quiescent _ hq₂, List.append_nil, z1, z2] at b1 b2
  rw [b1, b2, hsame]

/-- **C18 (`one_timeout_per_boundary` / `quiesce_delivers_all`).** Pipeline of `cfg.length` blocks
    (block 0 with any mode — the source's idle flush does not need a timer —, the others `Adaptive`),
    ANY reachable state `s` (any schedule `es`, any timer outcomes). If no further input arrives, the
    schedule `quiesceSched s` —
        source idle flush; then for `i = 1 … d`: deliver everything queued on channel `i-1` to block
        `i`, then ONE receive timeout of block `i`; finally deliver channel `d` to the sink —
    leaves every batcher and every channel empty, and the sink has received everything emitted so
    far, in order (pushed through the chains). The schedule contains no `src` event and exactly the
    timeout events `timeout 1, …, timeout d`, once each, in this order: one expiry of
    `recv_timeout(max_delay)` per non-source block, plus `MAX_RETRY + 1` polls of the source
    (`channel_source_flushes_before_blocking`) — hence at most `(d+1)` maximum delays of real time
    plus processing. -/
theorem quiesce_delivers_all (cfg : List (Batcher.Mode × (α → List α)))
    (hadp : ∀ c ∈ cfg.tail, isAdaptive c.1 = true) (es : List (Ev α)) :
    let s := run (State.init cfg) es
    let q := run s (quiesceSched s)
    Quiescent q.stages ∧
    q.sink = downF (cfg.map (·.2)) s.emitted ∧ q.emitted = s.emitted ∧
    (quiesceSched s).filterMap timeoutIdx = List.range' 1 (cfg.length - 1) ∧
    (∀ e ∈ quiesceSched s, Ev.isSrc e = false) := by
  intro s q
  obtain ⟨hi, hc⟩ := run_inv es _ (inv_init cfg)
  have hmodes : s.stages.map (·.mode) = cfg.map (·.1) := hc.2.trans (modes_init cfg)
  have hfs : fsOf s.stages = cfg.map (·.2) := hc.1.trans (fsOf_init cfg)
  have hlen : s.stages.length = cfg.length := by simpa using congrArg List.length hmodes
  have hadp' : ∀ t ∈ s.stages.tail, isAdaptive t.mode = true := by
    intro t ht
    have hm : t.mode ∈ (s.stages.map (·.mode)).tail := by
      rw [← List.map_tail]; exact List.mem_map_of_mem ht
    rw [hmodes, ← List.map_tail] at hm
    obtain ⟨c, hc1, hc2⟩ := List.mem_map.mp hm
    rw [← hc2]; exact hadp c hc1
  obtain ⟨g1, g2, g3, _, g5, g6⟩ := quiesce_spec s hi hadp'
  exact ⟨g1, by rw [← hfs]; exact g2, g3, by rw [← hlen]; exact g5, g6⟩

/-- Non-vacuity (d = 2, `Adaptive 3`, chains `x ↦ x+1` and `x ↦ [x, x+100]`): input stops with
    elements sitting in block 0's batcher, on channel 0 and in block 1's batcher; the quiescing
    schedule is the expected list of events and delivers everything, in order. -/
example :
    let cfg : List (Batcher.Mode × (Nat → List Nat)) :=
      [(.adaptive 3, fun x => [x]), (.adaptive 3, fun x => [x + 1]), (.adaptive 3, fun x => [x, x + 100])]
    let s := run (State.init cfg)
      [.src 1 [], .src 2 [], .srcIdle, .src 3 [], .recv 0 [], .timeout 1, .src 4 [], .src 5 [true], .src 6 []]
    (s.sink = [] ∧ quiescentB s.stages = false) ∧
    (quiesceSched s).filterMap timeoutIdx = [1, 2] ∧ (quiesceSched s).length = 12 ∧
    (run s (quiesceSched s)).sink = [2, 102, 3, 103, 4, 104, 5, 105, 6, 106, 7, 107] ∧
    quiescentB (run s (quiesceSched s)).stages = true := by
  decide

/-- Non-vacuity: the same input under `Single` / `Fixed 2` / `Adaptive 3` with different schedules
    gives the same sink once quiescent. -/
example :
    let fs : List (Nat → List Nat) := [fun x => [x], fun x => [x + 1]]
    let a := run (State.init ([Batcher.Mode.single, .single].zip fs))
      [.src 1 [], .recv 0 [], .src 2 [], .recv 1 [], .recv 0 [], .recv 1 []]
    let b := run (State.init ([Batcher.Mode.fixed 2, .adaptive 3].zip fs))
      [.src 1 [], .src 2 [], .recv 0 [], .timeout 1, .recv 1 []]
    a.sink = [2, 3] ∧ b.sink = [2, 3] ∧ quiescentB a.stages = true ∧ quiescentB b.stages = true := by
  decide

/-- **C18 (`eventually_delivered`: any order, fairness style).** Pipeline as in `quiesce_delivers_all`,
    ANY reachable state `s`, and ANY continuation `es'` without new input — `recv`, `timeout`, `srcIdle`
    events in an arbitrary interleaving, enabled or not:
    1. the number of events of `es'` that are enabled when their turn comes is at most the work bound
       `phi s.stages` (a number computed from the state: 2 per queued batch, 2 per buffered element and
       what they cause downstream, 1 per armed timeout) — there is no infinite activity without input,
       whatever the order, and each enabled event uses up at least one unit of the bound;
    2. nothing is emitted meanwhile;
    3. as soon as no event except new input is enabled (`Stuck`: every channel empty, every block in
       its untimed receive, the source asleep) — the only way for a fair execution to stop, reached
       after at most `phi s.stages` enabled events by 1. — every batcher and channel is empty and the
       sink holds everything emitted, in order.
    Together with `timeout_needs_recv` (a block whose input has drained performs at most ONE further
    timeout): regardless of the order of the remaining `recv` events, one timeout per block after its
    input channel drained delivers everything. -/
theorem eventually_delivered (cfg : List (Batcher.Mode × (α → List α))) (hne : cfg ≠ [])
    (hadp : ∀ c ∈ cfg.tail, isAdaptive c.1 = true) (es es' : List (Ev α))
    (hno : ∀ e ∈ es', Ev.isSrc e = false) :
    let s := run (State.init cfg) es
    let t := run s es'
    countEnabled s es' + phi t.stages ≤ phi s.stages ∧
    t.emitted = s.emitted ∧
    (Stuck t → Quiescent t.stages ∧ t.sink = downF (cfg.map (·.2)) s.emitted) := by
  intro s t
  obtain ⟨hi, hc⟩ := run_inv es _ (inv_init cfg)
  obtain ⟨hi', hc'⟩ := run_inv es' s hi
  have hfs : fsOf t.stages = cfg.map (·.2) := hc'.1.trans (hc.1.trans (fsOf_init cfg))
  have hmodes : t.stages.map (·.mode) = cfg.map (·.1) := hc'.2.trans (hc.2.trans (modes_init cfg))
  have hne' : s.stages ≠ [] := by
    intro h0
    have h0' : (run (State.init cfg) es).stages = [] := h0
    have := congrArg List.length (hc.1.trans (fsOf_init cfg))
    simp [h0', fsOf] at this
    exact hne (List.eq_nil_of_length_eq_zero this.symm)
  have hem : t.emitted = s.emitted := by
    have := run_emitted es' s hi hne'
    rw [srcItems_noSrc es' hno, List.append_nil] at this
    exact this
  refine ⟨run_work es' s hi hno, hem, fun hst => ?_⟩
  have hadp' : ∀ u ∈ t.stages.tail, isAdaptive u.mode = true := by
    intro u hu
    have hm : u.mode ∈ (t.stages.map (·.mode)).tail := by
      rw [← List.map_tail]; exact List.mem_map_of_mem hu
    rw [hmodes, ← List.map_tail] at hm
    obtain ⟨c, hc1, hc2⟩ := List.mem_map.mp hm
    rw [← hc2]; exact hadp c hc1
  have hq := stuck_quiescent t hi' hst hadp'
  refine ⟨hq, ?_⟩
  have hb := hi'.bal
  rw [pending_quiescent _ hq, List.append_nil, hfs, hem] at hb
  exact hb

/-- Non-vacuity: from the state of the first example, a DIFFERENT order than `quiesceSched` (the sink
    side first, timeouts early, useless events in between) also ends stuck with everything delivered;
    14 of its events are enabled, the work bound of the start state is 40. -/
example :
    let cfg : List (Batcher.Mode × (Nat → List Nat)) :=
      [(.adaptive 3, fun x => [x]), (.adaptive 3, fun x => [x + 1]), (.adaptive 3, fun x => [x, x + 100])]
    let s := run (State.init cfg)
      [.src 1 [], .src 2 [], .srcIdle, .src 3 [], .recv 0 [], .timeout 1, .src 4 [], .src 5 [true], .src 6 []]
    let es' : List (Ev Nat) := [.recv 1 [], .timeout 2, .timeout 1, .recv 2 [], .recv 0 [], .recv 2 [],
      .srcIdle, .recv 0 [], .timeout 1, .recv 1 [], .recv 1 [], .recv 1 [], .timeout 2, .recv 2 [], .recv 2 [], .recv 2 [], .recv 2 []]
    (run s es').sink = [2, 102, 3, 103, 4, 104, 5, 105, 6, 106, 7, 107] ∧
    quiescentB (run s es').stages = true ∧ phi s.stages = 40 ∧ countEnabled s es' = 14 := by
  decide

/-- **C18 (one timeout per drained block).** In ANY schedule continuing from any reachable state that
    contains no receive of block `i ≥ 1` (its input has drained: no `recv (i-1)`), at most one
    `timeout i` event is enabled — a timeout needs a preceding receive to be re-armed. -/
theorem timeout_needs_recv (cfg : List (Batcher.Mode × (α → List α))) (es es' : List (Ev α)) (i : Nat)
    (hi : 1 ≤ i) (hno : noRecvOf i es' = true) :
    countTimeouts i (run (State.init cfg) es) es' ≤ 1 :=
  (countTimeouts_le es' i _ hi hno).1

/-! ### Finding F12 — the bound does not survive continued input for other destinations

  Full-strength reading of C18 ("all pauses between input elements"): an element handed to the source
  reaches the sink within a small multiple of `max_delay` per boundary, whatever the later input does.
  REFUTED on the unchanged code for blocks with more than one downstream replica: `Batcher::enqueue`
  evaluates `last_send.elapsed() > max_delay` only when an element is enqueued into THAT batcher
  (batcher.rs:75-81), and `Start` produces its timeout `FlushBatch` only when NO batch arrives for
  `max_delay` (start/mod.rs:284-300: every successful `recv_timeout` re-arms the full delay). While
  input routed to replica B keeps arriving at gaps below `max_delay`, an element buffered for replica
  A is withheld — for as long as that input lasts. What does hold is `quiesce_delivers_all` (no
  further input) and `far_flushes_everything` (end of the iteration).
  Witness on the real engine: harness `latency`, case `witnessF12` (elements 30, 45 arrive only when the
  trickle stops: ≈1.4 s with `max_delay` = 20 ms / bound 720 ms, ≈2.8 s with 100 ms / bound 2000 ms). -/

/-- `Adaptive n` (`n ≥ 3`), an `End` with two downstream batchers: `x₁` is enqueued for A while A's
    timer has elapsed (flushed at once, `last_send` := now), `x₂` follows immediately (buffered).
    Then ANY number of further elements routed to B — whatever B's own timer says — leaves `x₂` in
    A's buffer and sends nothing more to A: no event bound exists short of a receive timeout, and
    that timeout is not enabled while these elements keep arriving. -/
theorem starved_batcher_untimed_counterexample (n : Nat) (hn : 3 ≤ n) (x₁ x₂ : α) (ys : List (α × Bool)) :
    let e0 : End2 α := ⟨[], [], [], []⟩
    let e1 := (e0.enqueue (.adaptive n) true x₁ true).enqueue (.adaptive n) true x₂ false
    (e1.feedB (.adaptive n) ys).bufA = [x₂] ∧ (e1.feedB (.adaptive n) ys).sentA = [[x₁]] := by
  intro e0 e1
  have h1 : e1.bufA = [x₂] ∧ e1.sentA = [[x₁]] := by
    have h2 : ¬ (n ≤ 1) := by omega
    simp [e1, e0, End2.enqueue, Batcher.enqueue, Batcher.flush, h2]
  have : ∀ (ys : List (α × Bool)) (e : End2 α), (e.feedB (.adaptive n) ys).bufA = e.bufA ∧
      (e.feedB (.adaptive n) ys).sentA = e.sentA := by
    intro ys
    induction ys with
    | nil => intro e; exact ⟨rfl, rfl⟩
    | cons y ys ih =>
      intro e
      obtain ⟨y, el⟩ := y
      obtain ⟨g1, g2⟩ := ih (e.enqueue (.adaptive n) false y el)
      simp only [End2.feedB]
      exact ⟨g1.trans (by simp [End2.enqueue]), g2.trans (by simp [End2.enqueue])⟩
  obtain ⟨g1, g2⟩ := this ys e1
  exact ⟨g1.trans h1.1, g2.trans h1.2⟩

/-- **F12 with time.** The same `End` behind a `Start` whose receive timeout is `delta` ticks
    (`TBlock`): after `x₁` (sent at once) and `x₂` (buffered for A), elements for B arrive every
    `gap < delta` ticks. For EVERY length of that trickle — i.e. after `ys.length * gap` ticks of real
    time, unboundedly many maximum delays — `x₂` is still in A's batcher, nothing more was sent to A,
    and the block never timed out (every arrival re-arms the full delay). This is the negation of the
    full-strength bounded-delay statement
        "∀ input timing, every element handed to the source is sent on by every block within
         `k · max_delay` of its arrival there (k fixed)"
    on the model of the unchanged code. -/
theorem starved_batcher_counterexample (n : Nat) (hn : 3 ≤ n) (delta gap : Nat) (hgap : gap < delta)
    (x₁ x₂ : α) (ys : List (α × Bool)) :
    let e1 := ((⟨[], [], [], []⟩ : End2 α).enqueue (.adaptive n) true x₁ true).enqueue (.adaptive n) true x₂ false
    let b := TBlock.trickle (.adaptive n) delta gap ⟨e1, 0, false⟩ ys
    b.e.bufA = [x₂] ∧ b.e.sentA = [[x₁]] ∧ b.idle = false := by
  intro e1 b
  have h1 : e1.bufA = [x₂] ∧ e1.sentA = [[x₁]] := by
    have h2 : ¬ (n ≤ 1) := by omega
    simp [e1, End2.enqueue, Batcher.enqueue, Batcher.flush, h2]
  have hticks : ∀ (k : Nat) (b : TBlock α), b.idle = false → b.since + k < delta →
      TBlock.ticks delta k b = { b with since := b.since + k } := by
    intro k
    induction k with
    | zero => intro b _ _; rfl
    | succ k ih =>
      intro b hi hlt
      have hno : ¬ (b.since + 1 ≥ delta) := by omega
      have ht : b.tick delta = { b with since := b.since + 1 } := by simp [TBlock.tick, hi, hno]
      rw [TBlock.ticks, ht, ih _ (by simpa using hi) (by simp; omega)]
      simp [Nat.add_assoc, Nat.add_comm 1 k]
  have key : ∀ (ys : List (α × Bool)) (b : TBlock α), b.idle = false → b.since = 0 →
      (TBlock.trickle (.adaptive n) delta gap b ys).e.bufA = b.e.bufA ∧
      (TBlock.trickle (.adaptive n) delta gap b ys).e.sentA = b.e.sentA ∧
      (TBlock.trickle (.adaptive n) delta gap b ys).idle = false := by
    intro ys
    induction ys with
    | nil => intro b hi _; exact ⟨rfl, rfl, hi⟩
    | cons y ys ih =>
      intro b hi hs
      obtain ⟨y, el⟩ := y
      rw [TBlock.trickle, hticks gap b hi (by omega)]
      obtain ⟨g1, g2, g3⟩ := ih (TBlock.recvB (.adaptive n) { b with since := b.since + gap } y el) rfl rfl
      exact ⟨g1.trans (by simp [TBlock.recvB, End2.enqueue]), g2.trans (by simp [TBlock.recvB, End2.enqueue]), g3⟩
  obtain ⟨g1, g2, g3⟩ := key ys ⟨e1, 0, false⟩ rfl rfl
  exact ⟨g1.trans h1.1, g2.trans h1.2, g3⟩

/-- Non-vacuity of the timed witness (`delta` = 20 ticks, one element for B every 19 ticks, 50 of
    them = 950 ticks): `x₂` = 30 is still buffered; one silent `delta` later the timeout flushes it. -/
example :
    let e1 := ((⟨[], [], [], []⟩ : End2 Nat).enqueue (.adaptive 1000) true 15 true).enqueue (.adaptive 1000) true 30 false
    let b := TBlock.trickle (.adaptive 1000) 20 19 ⟨e1, 0, false⟩ ((List.range 50).map fun k => (18 + 15 * k, false))
    b.e.bufA = [30] ∧ b.e.sentA = [[15]] ∧
    (TBlock.ticks 20 20 b).e.bufA = [] ∧ (TBlock.ticks 20 20 b).e.sentA = [[15], [30]] := by
  decide

/-- **Bounded delay, the part that holds (`_partial`).** Full-strength statement (refuted by
    `starved_batcher_counterexample`, finding F12): "for ALL timings of the input, an element handed
    to the source reaches the sink within `k·(d+1)` maximum delays". Proved: the case the property
    text singles out — no further input arrives — from any reachable state, with one receive timeout
    per non-source block (`quiesce_delivers_all`); what is missing is exactly the case of a block
    with several destinations that keeps receiving input for the other destinations. -/
theorem bounded_delay_partial (cfg : List (Batcher.Mode × (α → List α)))
    (hadp : ∀ c ∈ cfg.tail, isAdaptive c.1 = true) (es : List (Ev α)) :
    let s := run (State.init cfg) es
    let q := run s (quiesceSched s)
    Quiescent q.stages ∧ q.sink = downF (cfg.map (·.2)) s.emitted ∧
    ((quiesceSched s).filter Ev.isTimeout).length = cfg.length - 1 := by
  intro s q
  obtain ⟨g1, g2, _, g4, _⟩ := quiesce_delivers_all cfg hadp es
  refine ⟨g1, g2, ?_⟩
  have : ∀ l : List (Ev α), (l.filter Ev.isTimeout).length = (l.filterMap timeoutIdx).length := by
    intro l
    induction l with
    | nil => rfl
    | cons e l ih =>
      cases e <;> simp only [List.filter_cons, List.filterMap_cons, Ev.isTimeout, timeoutIdx] <;> simp [ih]
  rw [this, g4]; simp

end Noir.Latency

/-! ## The general network: several replicas per block, fan-out, several upstream senders

  `Model/Latency.lean`, namespace `Noir.Net`: layers of blocks with `width i` replicas, one batcher per
  (replica, downstream replica), any routing function per layer, a receiver takes batches from any of
  its upstream replicas in any order, every received batch re-arms the block's timeout, and the
  timeout is enabled only when ALL incoming links are empty. -/
namespace Noir.Net

variable {α : Type}

/-- **C18 (`batch_mode_invisible` on the network: conservation per destination, any schedule).**
    Any configuration (widths, modes, chains, routing), any schedule, any timer outcomes. For every
    link `(i, r) → (i+1, d)`: what `d` has received over it, followed by what is in flight on it
    (channel, then the batcher of `r` towards `d`), is exactly — same elements, same order — what `r`
    enqueued towards `d`; and that is exactly the sub-sequence, routed to `d`, of what `r`'s chain
    makes of the elements `r` has processed. No mode, size, timer or schedule appears on the
    right-hand sides. -/
theorem net_batch_mode_invisible (c : Cfg α) (es : List (Ev α)) :
    let s := run c State.init es
    (∀ i r d, s.recvOn i r d ++ ((s.row i r).out d).flatten ++ (s.row i r).buf d = (s.row i r).sent d) ∧
    (∀ i r d, i ≤ c.depth →
      (s.row i r).sent d = ((s.got i r).flatMap (c.f i)).filter (fun y => dest c i y = d)) := by
  intro s
  have h := run_inv c es _ (inv_init c)
  exact ⟨fun i r d => (h.link i r d).1, h.routed⟩

/-- **C18 (`idle_block_is_flushed`, all batchers of the block).** -/
theorem net_idle_block_is_flushed (c : Cfg α) (es : List (Ev α)) (i r : Nat)
    (hidle : (run c State.init es).idle i r = true) : ∀ d, ((run c State.init es).row i r).buf d = [] :=
  (run_inv c es _ (inv_init c)).idle i r hidle

/-- **C18 (`net_eventually_delivered`: termination and delivery on the network, any order).** Blocks
    `1 … depth` adaptive, ANY reachable state `s` of the layered network, ANY continuation `es'` without
    new input (`recv` on any link, `timeout`, `srcIdle`, in any interleaving, enabled or not):
    1. **termination** — the number of events of `es'` that are enabled when their turn comes is at most
       the work bound `phi c s` (2 per buffered element and 2 per queued batch, each weighted with what
       it causes in the layers below, plus 1 per armed timeout / awake source); every enabled event
       except `src` strictly lowers `phi` and every other event changes nothing, so every schedule
       without further input contains only finitely many effective steps, whatever the order;
    2. **delivery** — as soon as no event except new input is enabled (every real link empty, every
       source asleep, every replica timed out once after ALL its incoming links drained), every real
       link `(i, r) → (i+1, d)` has an empty batcher, an empty channel, and its destination has received
       exactly what was enqueued for it, in order;
    3. such a state is reachable from `s` by a continuation of at most `phi c s` events (none of them
       input). -/
theorem net_eventually_delivered (c : Cfg α)
    (hadp : ∀ i, 1 ≤ i → i ≤ c.depth → isAdaptive (c.mode i) = true) (es es' : List (Ev α))
    (hno : ∀ e ∈ es', Ev.isSrc e = false) :
    let s := run c State.init es
    let t := run c s es'
    countEnabled c s es' + phi c t ≤ phi c s ∧
    (NoEnabled c t → Delivered c t) ∧
    (∃ es'', (∀ e ∈ es'', Ev.isSrc e = false) ∧ es''.length ≤ phi c s ∧ NoEnabled c (run c s es'') ∧
      Delivered c (run c s es'')) := by
  intro s t
  have hs := run_inv c es _ (inv_init c)
  have ht := run_inv c es' s hs
  refine ⟨run_work c es' s hno, fun hst => noEnabled_delivered c t ht hst hadp, ?_⟩
  have key : ∀ (n : Nat) (s : State α), Inv c s → phi c s ≤ n →
      ∃ es'', (∀ e ∈ es'', Ev.isSrc e = false) ∧ es''.length ≤ phi c s ∧ NoEnabled c (run c s es'') := by
    intro n
    induction n with
    | zero =>
      intro s _ h0
      refine ⟨[], by simp, by simp, ?_⟩
      intro e he
      show Enabled c s e = false
      cases hen : Enabled c s e with
      | false => rfl
      | true => have := (step_work c s e he).1 hen; omega
    | succ n ih =>
      intro s hi hle
      by_cases hst : NoEnabled c s
      · exact ⟨[], by simp, by simp, hst⟩
      · have : ∃ e, Ev.isSrc e = false ∧ Enabled c s e = true := by
          apply Classical.byContradiction
          intro hcon
          apply hst
          intro e he
          cases hen : Enabled c s e with
          | false => rfl
          | true => exact absurd ⟨e, he, hen⟩ hcon
        obtain ⟨e, he, hen⟩ := this
        have hdec := (step_work c s e he).1 hen
        obtain ⟨es2, h1, h2, h3⟩ := ih (step c s e) (step_inv c s e hi) (by omega)
        refine ⟨e :: es2, ?_, by simp; omega, by simpa [run] using h3⟩
        intro e' he'
        simp only [List.mem_cons] at he'
        rcases he' with rfl | he'
        · exact he
        · exact h1 e' he'
  obtain ⟨es2, h1, h2, h3⟩ := key (phi c s) s hs (Nat.le_refl _)
  exact ⟨es2, h1, h2, h3, noEnabled_delivered c _ (run_inv c es2 s hs) h3 hadp⟩

/-- **C18 (bounded delay on the network — the F12 hypothesis negated).** One replica's `End` (its `Row`
    of batchers, `Adaptive`), any history `pre` of calls, then a call `sv` that *services* the batcher
    towards `d` — an enqueue into THAT batcher whose timer test `last_send.elapsed() > max_delay` is
    true, or a `FlushBatch` (the receive timeout of the block, the idle flush of the source) — then any
    further calls `post`: everything enqueued towards `d` before `sv` has left the batcher (it has
    been received by `d` or is on the channel to `d`, in order).
    Hence the bounded-delay half of C18 holds on the network exactly under the fairness condition
    that F12 violates: *every non-empty batcher is serviced within bounded time* — it receives an
    enqueue after `max_delay`, or its block's receive timeout expires. The timeout is guaranteed when
    no input arrives (`net_eventually_delivered`); the unchanged code does not guarantee either while
    the block keeps receiving input routed to other destinations (`starved_batcher_counterexample`:
    a schedule without any servicing call for `d`). -/
theorem net_bounded_delay_if_serviced (n : Nat) (dest : α → Nat) (rcv : Nat → List α) (ρ : Row α)
    (hρ : ∀ d, rcv d ++ (ρ.out d).flatten ++ ρ.buf d = ρ.sent d)
    (pre post : List (RowOp α)) (sv : RowOp α) (d : Nat) (hs : services dest d sv = true) :
    let ρ₁ := Row.runOps (.adaptive n) dest ρ pre
    let ρ₂ := Row.runOps (.adaptive n) dest ρ (pre ++ [sv] ++ post)
    (ρ₁.sent d) <+: rcv d ++ (ρ₂.out d).flatten := by
  intro ρ₁ ρ₂
  have hinv0 : RowInv (.adaptive n) rcv ρ := fun d => ⟨hρ d, fun h => by cases h⟩
  have hinv1 := runOps_inv (.adaptive n) dest rcv pre ρ hinv0
  have hinvs := rowStep_inv (.adaptive n) dest rcv ρ₁ sv hinv1
  have hbuf := services_empties n dest ρ₁ d sv hs
  obtain ⟨_, ⟨e2, hsent⟩⟩ := rowStep_mono (.adaptive n) dest ρ₁ sv d
  obtain ⟨⟨e3, hout⟩, _⟩ := runOps_mono (.adaptive n) dest d post (ρ₁.step (.adaptive n) dest sv)
  have h2 : ρ₂ = Row.runOps (.adaptive n) dest (ρ₁.step (.adaptive n) dest sv) post := by
    simp only [ρ₂, ρ₁, runOps_append, Row.runOps]
  have hl := (hinvs d).1
  rw [hbuf, List.append_nil, hsent] at hl
  refine ⟨e2 ++ e3.flatten, ?_⟩
  rw [h2, hout, List.flatten_append, ← List.append_assoc, ← List.append_assoc, hl]

/-- … and a receive timeout (or the source's idle flush) services ALL batchers of the replica at once:
    right after it, on every link of the replica, everything enqueued so far is received or on the
    channel. -/
theorem net_timeout_services_all (c : Cfg α) (es : List (Ev α)) (i r : Nat)
    (hen : Enabled c (run c State.init es) (.timeout i r) = true ∨
           (i = 0 ∧ Enabled c (run c State.init es) (.srcIdle r) = true)) :
    let t := step c (run c State.init es) (if i = 0 then .srcIdle r else .timeout i r)
    ∀ d, t.recvOn i r d ++ ((t.row i r).out d).flatten = (t.row i r).sent d := by
  intro t d
  have hs := run_inv c es _ (inv_init c)
  have ht : Inv c t := step_inv c _ _ hs
  have hidle : t.idle i r = true := by
    rcases hen with hen | ⟨rfl, hen⟩
    · have hi : i ≠ 0 := by
        intro h0; subst h0; simp [Enabled, timeoutEnabled] at hen
      simp only [t, hi, if_false]
      simp only [Enabled] at hen
      simp [step, hen, flushIdle]
    · simp only [t, if_true]
      simp only [Enabled] at hen
      simp [step, hen, flushIdle]
  have := (ht.link i r d).1
  simpa [ht.idle i r hidle d] using this

/-- Non-vacuity: source → 2 replicas (routing `y % 2`) → sink, `Adaptive 2`: size flushes, an idle flush,
    one timeout per replica; the sink gets everything, per link in order. -/
example :
    let c : Cfg Nat := ⟨1, fun i => if i = 1 then 2 else 1, fun _ => .adaptive 2, fun _ x => [x], fun _ y => y⟩
    let s := run c State.init [.src 0 1 [], .src 0 2 [], .src 0 3 [], .srcIdle 0, .recv 1 1 0 [], .recv 1 0 0 [],
      .timeout 1 0, .timeout 1 1, .recv 2 0 1 [], .recv 2 0 0 []]
    s.got 2 0 = [1, 3, 2] ∧ s.recvOn 0 0 1 = [1, 3] ∧ s.recvOn 0 0 0 = [2] ∧ (s.row 0 0).sent 1 = [1, 3] ∧
    s.idle 1 0 = true ∧ s.idle 1 1 = true := by
  decide

/-- Non-vacuity of the work bound on the same network: after the three inputs it is 13; the seven
    events of the continuation are all enabled and bring it to 0 (nothing left to do). -/
example :
    let c : Cfg Nat := ⟨1, fun i => if i = 1 then 2 else 1, fun _ => .adaptive 2, fun _ x => [x], fun _ y => y⟩
    let s := run c State.init [.src 0 1 [], .src 0 2 [], .src 0 3 []]
    let es' : List (Ev Nat) := [.srcIdle 0, .recv 1 1 0 [], .recv 1 0 0 [], .timeout 1 0, .timeout 1 1,
      .recv 2 0 1 [], .recv 2 0 0 []]
    phi c s = 13 ∧ countEnabled c s es' = 7 ∧ phi c (run c s es') = 0 := by
  decide

/-- Non-vacuity of the servicing condition: `30` sits in the batcher towards 1; enqueues for 0 do not
    help, an enqueue for 1 after `max_delay` (flag `true`) sends it. -/
example :
    let ρ := Row.runOps (.adaptive 5) (fun y : Nat => y % 2) Row.empty
      [.enq 31 false, .enq 10 false, .enq 12 true, .enq 33 true, .enq 14 false]
    ρ.out 1 = [[31, 33]] ∧ ρ.buf 1 = [] ∧ ρ.buf 0 = [14] ∧ ρ.out 0 = [[10, 12]] := by
  decide

end Noir.Net

/-! ## F12 on the executable component model the harness `tblock` is diffed against -/
namespace Noir.Latency

/-- `KBlock` (k = 2, `Adaptive 5`, `max_delay` 60 ms): after 96 ms of silence `15 → B` is sent at once,
    `30 → B` is buffered; eight batches for A arrive 24 ms apart (192 ms ≫ 60 ms): `30` is still in
    B's batcher and is sent only by the timeout that follows the end of that input. Exactly the case
    the harness replays on the real `Start` + `End`. -/
theorem starved_batcher_kblock_counterexample :
    let b0 : KBlock Nat := (KBlock.init 2).pass 96
    let r1 := KBlock.recv (.adaptive 5) 60 b0 [(1, 15)]
    let r2 := KBlock.recv (.adaptive 5) 60 r1.1 [(1, 30)]
    let r3 := (List.range 8).foldl (fun (acc : KBlock Nat) k =>
      (KBlock.recv (.adaptive 5) 60 (acc.pass 24) [(0, 100 + k)]).1) r2.1
    r1.2 = [(1, [15])] ∧ r2.2 = [] ∧ r3.bufs = [[107], [30]] ∧
    (KBlock.timeout 60 r3).2 = [(0, [107]), (1, [30])] := by
  decide

end Noir.Latency
