/-
  Props/C12.lean — property theorems for C12 (count windows). Helper lemmas live in
  Lemmas/CountWindow.lean; this file contains only statements a reader should audit.
-/
import NoirVerif.Lemmas.CountWindow
import NoirVerif.Model.WindowAggr
import NoirVerif.Model.CountWindowAcc
namespace Noir.CountWindow

variable {α : Type}

/-- all elements of the list are data (`Item` / `Timestamped`) -/
def AllData (es : List (Elem α)) : Prop := ∀ e ∈ es, e.isData = true

/-- the payloads of the data elements -/
def values (es : List (Elem α)) : List α := es.filterMap Elem.value

/-- observable part of the outputs: (index of the triggering element, group content) -/
def obs (out : List (Nat × Result α)) : List (Nat × List α) := out.map (fun p => (p.1, p.2.items))

/-- Core simulation statement: from any state satisfying the invariant with open group `cur`,
    feeding data elements emits exactly the complete sliding groups of `cur ++ values es`, each
    at the index of its N-th element, and ends in a state whose open group is the residual. -/
theorem run_data (c : Cfg) (hS : 0 < c.slide) (hSN : c.slide ≤ c.size) :
    ∀ (es : List (Elem α)) (ws : List (Slot α)) (cur : List α) (i : Nat),
      AllData es → Inv c ws cur → cur.length ≤ i →
      obs (runFrom c ws i es) = groupsIdx c.size c.slide (i - cur.length) (cur ++ values es)
      ∧ Inv c (stateAfter c ws es) (residual c.size c.slide (cur ++ values es)) := by
  intro es
  induction es with
  | nil =>
    intro ws cur i _ inv _
    have hs := inv.short
    simp only [values, List.filterMap_nil, List.append_nil, runFrom, obs, List.map_nil, stateAfter]
    rw [groupsIdx, residual]
    simp [hs, inv]
  | cons e es ih =>
    intro ws cur i hd inv hi
    have he : e.isData = true := hd e (by simp)
    have hd' : AllData es := fun e' h' => hd e' (by simp [h'])
    -- reduce to `processItem`
    obtain ⟨x, t, hx, hv⟩ : ∃ x t, process c ws e = processItem c ws x t ∧ e.value = some x := by
      cases e <;> simp [Elem.isData] at he
      · exact ⟨_, none, rfl, rfl⟩
      · exact ⟨_, some _, rfl, rfl⟩
    have hvals : values (e :: es) = x :: values es := by simp [values, hv]
    have hN := inv.short
    simp only [runFrom, stateAfter, hx, hvals]
    by_cases hlt : cur.length + 1 < c.size
    · obtain ⟨hnone, inv'⟩ := processItem_noemit c hS ws cur x t inv hlt
      have := ih (processItem c ws x t).1 (cur ++ [x]) (i + 1) hd' inv' (by simp; omega)
      cases hp : processItem c ws x t with
      | mk ws' out =>
        rw [hp] at hnone this; simp only at hnone this
        subst hnone
        simp only [List.length_append, List.length_cons, List.length_nil, List.append_assoc,
          List.cons_append, List.nil_append] at this
        have hidx : i + 1 - (cur.length + 0 + 1) = i - cur.length := by omega
        rw [hidx] at this
        exact this
    · have heq : cur.length + 1 = c.size := by omega
      obtain ⟨⟨ts, hsome⟩, inv'⟩ := processItem_emit c hS hSN ws cur x t inv heq
      have := ih (processItem c ws x t).1 ((cur ++ [x]).drop c.slide) (i + 1) hd' inv'
        (by simp; omega)
      cases hp : processItem c ws x t with
      | mk ws' out =>
        rw [hp] at hsome this; simp only at hsome this
        subst hsome
        obtain ⟨h1, h2⟩ := this
        have hlenge : ¬ ((cur ++ x :: values es).length < c.size ∨ c.slide = 0 ∨ c.size = 0) := by
          simp; omega
        have htake : (cur ++ x :: values es).take c.size = cur ++ [x] := by
          have : cur ++ x :: values es = (cur ++ [x]) ++ values es := by simp
          rw [this, List.take_append_of_le_length (by simp; omega)]
          apply List.take_of_length_le; simp; omega
        have hdrop : (cur ++ x :: values es).drop c.slide = (cur ++ [x]).drop c.slide ++ values es := by
          have : cur ++ x :: values es = (cur ++ [x]) ++ values es := by simp
          rw [this, List.drop_append_of_le_length (by simp; omega)]
        constructor
        · rw [groupsIdx]
          simp only [hlenge, dite_false, obs, List.map_cons, htake, hdrop]
          congr 1
          · congr 1; omega
          · have hidx : i + 1 - ((cur ++ [x]).drop c.slide).length = i - cur.length + c.slide := by
              simp; omega
            rw [hidx] at h1; exact h1
        · rw [residual]; simp only [hlenge, dite_false, hdrop]; exact h2

/-- **C12 (groups, order, emission time).** For `1 ≤ S ≤ N` and any sequence of data elements of
    one key, the manager started in its initial state emits exactly the groups `[jS, jS+N)`,
    in order, the j-th one while processing the element of index `jS+N-1` (its N-th element). -/
theorem countWindow_groups (c : Cfg) (hS : 1 ≤ c.slide) (hSN : c.slide ≤ c.size)
    (es : List (Elem α)) (hd : AllData es) :
    obs (run c es) = groupsIdx c.size c.slide 0 (values es) := by
  have := (run_data c hS hSN es [] [] 0 hd (inv_init c (by omega)) (by simp)).1
  simpa [run] using this

/-- the j-th group is `[jS, jS+N)` and is stamped with index `off + jS + N - 1` -/
theorem groupsIdx_spec (N S : Nat) (hS : 0 < S) (hN : 0 < N) :
    ∀ (xs : List α) (off j : Nat) (p : Nat × List α), (groupsIdx N S off xs)[j]? = some p →
      p = (off + j * S + N - 1, (xs.drop (j * S)).take N) ∧ j * S + N ≤ xs.length := by
  intro xs
  induction h : xs.length using Nat.strongRecOn generalizing xs with
  | _ n ih =>
    intro off j p hp
    rw [groupsIdx] at hp
    by_cases hlt : xs.length < N ∨ S = 0 ∨ N = 0
    · simp [hlt] at hp
    · simp only [hlt, dite_false] at hp
      cases j with
      | zero =>
        simp at hp; subst hp
        constructor
        · simp
        · simp; omega
      | succ j =>
        simp only [List.getElem?_cons_succ] at hp
        have hlen : (xs.drop S).length < n := by rw [List.length_drop]; omega
        obtain ⟨h1, h2⟩ := ih _ hlen (xs.drop S) rfl (off + S) j p hp
        constructor
        · rw [h1, List.drop_drop, Nat.succ_mul]
          congr 1
          · omega
          · congr 1; congr 1; omega
        · rw [List.length_drop] at h2; rw [Nat.succ_mul]; omega

/-- number of groups: every `j` with `jS + N ≤ |xs|` yields a group -/
theorem groupsIdx_complete (N S : Nat) (hS : 0 < S) (hN : 0 < N) :
    ∀ (xs : List α) (off j : Nat), j * S + N ≤ xs.length → j < (groupsIdx N S off xs).length := by
  intro xs
  induction h : xs.length using Nat.strongRecOn generalizing xs with
  | _ n ih =>
    intro off j hj
    rw [groupsIdx]
    have hlt : ¬ (xs.length < N ∨ S = 0 ∨ N = 0) := by
      have : 0 ≤ j * S := Nat.zero_le _
      omega
    simp only [hlt, dite_false, List.length_cons]
    cases j with
    | zero => omega
    | succ j =>
      have hlen : (xs.drop S).length < n := by rw [List.length_drop]; omega
      have := ih _ hlen (xs.drop S) rfl (off + S) j (by
        rw [List.length_drop]; rw [Nat.succ_mul] at hj; omega)
      omega

/-- **C12 (end of iteration, exact mode).** Nothing is emitted and no slot stays open. -/
theorem countWindow_end_exact (c : Cfg) (hE : c.exact = true) (ws : List (Slot α)) :
    processEnd c ws = ([], none) := by
  simp [processEnd, hE]

/-- **C12 (end of iteration, non-exact mode).** Exactly the oldest incomplete group is emitted
    if it is non-empty, nothing otherwise; no slot stays open. -/
theorem countWindow_end_inexact (c : Cfg) (hS : 1 ≤ c.slide) (hN : 1 ≤ c.size) (hE : c.exact = false)
    (ws : List (Slot α)) (cur : List α) (inv : Inv c ws cur) :
    (processEnd c ws).1 = [] ∧
    (cur = [] → (processEnd c ws).2 = none) ∧
    (cur ≠ [] → ∃ ts, (processEnd c ws).2 = some ⟨cur, ts⟩) := by
  have hneed := need_pos c hS hN
  have hit := inv.items
  cases hm : need c with
  | zero => omega
  | succ m =>
    rw [hm] at hit
    cases ws with
    | nil =>
      have : cur = [] := by
        unfold pad at hit
        simp only [List.nil_append, List.length_nil, Nat.sub_zero] at hit
        have hnd : (c.size + c.slide - 1) / c.slide = m + 1 := hm
        rw [hnd] at hit
        simp [List.replicate_succ, slotsOf, Slot.empty] at hit
        exact hit.1
      simp [processEnd, hE, this]
    | cons r rest =>
      have hr : r.items = cur := by
        unfold pad at hit; simp [slotsOf] at hit; exact hit.1
      have hc : r.count = cur.length := by
        have := inv.ok r (by simp); unfold SlotOk at this; rw [this, hr]
      refine ⟨rfl, ?_, ?_⟩
      · intro h; simp [processEnd, hE, hc, h]
      · intro h
        have : 0 < cur.length := List.length_pos_iff.mpr h
        exact ⟨r.ts, by simp [processEnd, hE, hc, this, hr]⟩

/-- **C12 (nothing is carried over).** After `FlushAndRestart` (or `Terminate`) the manager is back
    in its initial state, so the groups of the next iteration never contain older elements. -/
theorem countWindow_resets (c : Cfg) (ws : List (Slot α)) :
    (process c ws .far).1 = [] ∧ (process c ws .term).1 = [] := by
  simp [process, processEnd]

/-- **C12 (whole iteration).** Feeding one iteration `data ++ [far]` from the initial state emits
    the complete groups at their N-th elements and then, at the `far`, nothing (exact) or the
    non-empty residual group (non-exact); the state is initial again. -/
theorem countWindow_iteration (c : Cfg) (hS : 1 ≤ c.slide) (hSN : c.slide ≤ c.size)
    (es : List (Elem α)) (hd : AllData es) :
    let st := stateAfter c ([] : List (Slot α)) es
    let r := residual c.size c.slide (values es)
    obs (run c es) = groupsIdx c.size c.slide 0 (values es) ∧
    (process c st .far).1 = [] ∧
    (c.exact = true → (process c st .far).2 = none) ∧
    (c.exact = false → r = [] → (process c st .far).2 = none) ∧
    (c.exact = false → r ≠ [] → ∃ ts, (process c st .far).2 = some ⟨r, ts⟩) := by
  intro st r
  have hrd := run_data c hS hSN es [] [] 0 hd (inv_init c (by omega)) (by simp)
  simp only [List.nil_append] at hrd
  refine ⟨by simpa [run] using hrd.1, by simp [process, processEnd], ?_, ?_, ?_⟩
  · intro hE; simp [process, processEnd, hE]
  · intro hE hr
    exact (countWindow_end_inexact c hS (by omega) hE st r hrd.2).2.1 hr
  · intro hE hr
    exact (countWindow_end_inexact c hS (by omega) hE st r hrd.2).2.2 hr

/-- **C12 (every aggregator sees exactly the group).** For any accumulator algebra
    `(init, step, out)`, folding it over the emitted group equals what the Rust manager computes by
    calling `process` on a clone of `init` for each element of the slot, in order. Stated on the
    free accumulator: the content of each result is the list the fold runs over. -/
theorem acc_applied_to_group {σ β : Type} (init : σ) (step : σ → α → σ) (out : σ → β)
    (c : Cfg) (hS : 1 ≤ c.slide) (hSN : c.slide ≤ c.size) (es : List (Elem α)) (hd : AllData es) :
    (run c es).map (fun p => out (p.2.items.foldl step init)) =
      (groups c.size c.slide (values es)).map (fun g => out (g.foldl step init)) := by
  have h := countWindow_groups c hS hSN es hd
  have : (run c es).map (fun p => p.2.items) = groups c.size c.slide (values es) := by
    unfold groups; rw [← h]; simp [obs]
  rw [← this]; simp

/-- Non-vacuity: the hypotheses are satisfiable by a non-trivial configuration and input, and
    the conclusion is the expected concrete list. -/
example : obs (run ⟨3, 2, true⟩ ([1, 2, 3, 4, 5, 6, 7].map Elem.item : List (Elem Nat)))
    = [(2, [1, 2, 3]), (4, [3, 4, 5]), (6, [5, 6, 7])] := by decide

/-- For the record: `slide > size` is *not* handled as "skip elements" by the code — with
    `size = 1, slide = 2` the groups are `[0],[1],[2]`, not `[0],[2]` (outside C12's quantifier). -/
theorem slide_gt_size_counterexample :
    (run ⟨1, 2, true⟩ ([0, 1, 2].map Elem.item : List (Elem Nat))).map (·.2.items) = [[0], [1], [2]] := by
  decide

/-! ### the window aggregators of src/operator/window/aggr (Model/WindowAggr.lean)

  `acc_applied_to_group` says: whatever `(init, process, output)` triple the windows are built
  with, the value emitted for a window is `output (foldl process init group)` for exactly the
  group, in arrival order. Below: the same for an `Acc` triple, and what that value is for every
  accumulator of /repo (closed forms). That the REAL accumulators compute these values on the
  REAL keyed operator is checked by the `cwinop` component (all of sum, count, min, max,
  min_by_key, max_by_key, first, last, fold with a non-commutative function, map/CollectVec). -/

open Noir.WindowAggr

variable {σ β : Type}

/-- **C12 (every aggregator sees exactly the group), for an accumulator triple.** -/
theorem countWindow_aggregators (a : Acc α σ β) (c : Cfg) (hS : 1 ≤ c.slide) (hSN : c.slide ≤ c.size)
    (es : List (Elem α)) (hd : AllData es) :
    (run c es).map (fun p => a.run p.2.items) = (groups c.size c.slide (values es)).map a.run :=
  acc_applied_to_group a.init a.process a.output c hS hSN es hd

/-! #### the manager with a real accumulator in its slots is the image of the free-accumulator model -/

theorem padA_withAcc (a : Acc α σ β) (c : Cfg) (ws : List (Slot α)) :
    padA a c (ws.map (Slot.withAcc a)) = (pad c ws).map (Slot.withAcc a) := by
  simp [padA, pad, Slot.withAcc, Slot.empty, SlotA.empty]

theorem updFirstA_withAcc (a : Acc α σ β) (x : α) (t : Option Int) : ∀ (k : Nat) (ws : List (Slot α)),
    updFirstA a k x t (ws.map (Slot.withAcc a)) = (updFirst k x t ws).map (Slot.withAcc a) := by
  intro k
  induction k with
  | zero => intro ws; rfl
  | succ k ih =>
    intro ws
    cases ws with
    | nil => rfl
    | cons s ws =>
      simp only [List.map_cons, updFirstA, updFirst, ih, List.cons.injEq, and_true]
      simp [SlotA.update, Slot.update, Slot.withAcc, List.foldl_append]

/-- **C12 (the accumulator is applied exactly to the group — simulation).** One step of
    `CountWindowManager<A>` with accumulator `A = a` in its slots, from the image of a state of the
    free-accumulator model, yields the image of that model's step: the same slots with
    `acc = foldl a.process a.init items`, and the result `a.output (foldl a.process a.init group)`
    with the same timestamp. -/
theorem countWindow_acc_simulation_step (a : Acc α σ β) (c : Cfg) (ws : List (Slot α)) (e : Elem α) :
    processA a c (ws.map (Slot.withAcc a)) e =
      ((process c ws e).1.map (Slot.withAcc a), (process c ws e).2.map (Result.withAcc a)) := by
  have hitem : ∀ (x : α) (t : Option Int), processItemA a c (ws.map (Slot.withAcc a)) x t =
      ((processItem c ws x t).1.map (Slot.withAcc a), (processItem c ws x t).2.map (Result.withAcc a)) := by
    intro x t
    simp only [processItemA, processItem, padA_withAcc]
    cases hp : pad c ws with
    | nil => rfl
    | cons s0 rest =>
      have hk : (Slot.withAcc a s0).count = s0.count := rfl
      simp only [List.map_cons, hk]
      rw [← List.map_cons, updFirstA_withAcc]
      cases hu : updFirst (s0.count / c.slide + 1) x t (s0 :: rest) with
      | nil => rfl
      | cons r rest' =>
        have hr : (Slot.withAcc a r).count = r.count := rfl
        simp only [List.map_cons, hr]
        by_cases hc : r.count = c.size
        · simp [hc, Result.withAcc, Slot.withAcc, Acc.run]
        · simp [hc]
  have hend : processEndA a c (ws.map (Slot.withAcc a)) =
      ((processEnd c ws).1.map (Slot.withAcc a), (processEnd c ws).2.map (Result.withAcc a)) := by
    simp only [processEndA, processEnd]
    cases c.exact with
    | true => simp
    | false =>
      cases ws with
      | nil => simp
      | cons r rest =>
        have hr : (Slot.withAcc a r).count = r.count := rfl
        by_cases hc : r.count > 0
        · simp [hc, Result.withAcc, Slot.withAcc, Acc.run]
        · simp [hr, hc]
  cases e with
  | item x => exact hitem x none
  | ts x t => exact hitem x (some t)
  | far => exact hend
  | term => exact hend
  | wm w => simp [processA, process]
  | flushBatch => simp [processA, process]

/-- **C12 (real accumulators, whole run).** The manager with accumulator `a`, started in its
    initial state on any input, emits at the same positions as the free-accumulator model, and
    the value of every result is `a.run` of that model's group. -/
theorem countWindow_acc_simulation (a : Acc α σ β) (c : Cfg) (es : List (Elem α)) :
    runA a c es = (run c es).map (fun p => (p.1, Result.withAcc a p.2)) := by
  have h : ∀ (es : List (Elem α)) (ws : List (Slot α)) (i : Nat),
      runFromA a c (ws.map (Slot.withAcc a)) i es = (runFrom c ws i es).map (fun p => (p.1, Result.withAcc a p.2)) := by
    intro es
    induction es with
    | nil => intros; rfl
    | cons e es ih =>
      intro ws i
      simp only [runFromA, runFrom, countWindow_acc_simulation_step]
      cases (process c ws e).2 with
      | none => simp only [Option.map_none]; exact ih _ _
      | some r => simp only [Option.map_some, List.map_cons]; rw [ih]
  simpa [runA, run] using h es [] 0

/-- **C12 (every REAL aggregator sees exactly the group).** For `1 ≤ S ≤ N` and any sequence of
    data elements of one key, `CountWindowManager<A>` with the accumulator triple `a` in its slots
    emits, at the `N`-th element of each sliding group `[jS, jS+N)`, the value
    `a.output (foldl a.process a.init group)`. -/
theorem countWindow_real_aggregator (a : Acc α σ β) (c : Cfg) (hS : 1 ≤ c.slide) (hSN : c.slide ≤ c.size)
    (es : List (Elem α)) (hd : AllData es) :
    (runA a c es).map (fun p => (p.1, p.2.1)) =
      (groupsIdx c.size c.slide 0 (values es)).map (fun p => (p.1, a.run p.2)) := by
  rw [countWindow_acc_simulation, ← countWindow_groups c hS hSN es hd]
  simp [obs, Result.withAcc, List.map_map, Function.comp_def]

/-- `fold(init, f)` (and `sum`, which is `fold(default, +=)`): the left fold of the group -/
theorem fold_run (init : σ) (f : σ → α → σ) (g : List α) : (fold init f).run g = g.foldl f init := rfl

theorem sum_run (zero : σ) (add : σ → α → σ) (g : List α) : (WindowAggr.sum zero add).run g = g.foldl add zero := rfl

/-- `sum` over integers is the sum of the group -/
theorem sum_run_int (g : List Int) : (WindowAggr.sum (0 : Int) (· + ·)).run g = g.sum := by
  have h : ∀ (g : List Int) (a : Int), g.foldl (· + ·) a = a + g.sum := by
    intro g
    induction g with
    | nil => intro a; simp
    | cons x xs ih => intro a; simp only [List.foldl_cons, ih, List.sum_cons]; omega
  rw [sum_run, h]; omega

/-- `count()`: the number of elements of the group -/
theorem count_run (g : List α) : (count (α := α)).run g = g.length := by
  have h : ∀ (g : List α) (n : Nat), g.foldl (fun n _ => n + 1) n = n + g.length := by
    intro g
    induction g with
    | nil => intro n; rfl
    | cons x xs ih => intro n; simp only [List.foldl_cons, ih, List.length_cons]; omega
  simp only [Acc.run, count, id, h]; omega

/-- `map(f)` (`CollectVec`): `f` applied to the group as a vector, in arrival order -/
theorem collectVec_run (f : List α → β) (g : List α) : (collectVec f).run g = f g := by
  have h : ∀ (g v : List α), g.foldl (fun v x => v ++ [x]) v = v ++ g := by
    intro g
    induction g with
    | nil => intro v; simp
    | cons x xs ih => intro v; simp [ih]
  simp only [Acc.run, collectVec, h, List.nil_append]

/-- `FoldFirst` (behind `min`, `max`, `…_by_key`, `…_by`, `fold_first`): the first element of the
    group is the initial state, the others are folded in; on the empty group `output` panics. -/
theorem foldFirst_run (f : α → α → α) (g : List α) :
    (foldFirst f).run g = match g with | [] => none | x :: xs => some (xs.foldl f x) := by
  have h : ∀ (xs : List α) (m : α),
      xs.foldl (fun s x => match s with | none => some x | some m => some (f m x)) (some m) = some (xs.foldl f m) := by
    intro xs
    induction xs with
    | nil => intro m; rfl
    | cons y ys ih => intro m; simp only [List.foldl_cons, ih]
  cases g with
  | nil => rfl
  | cons x xs => simp only [Acc.run, foldFirst, id, List.foldl_cons]; exact h xs x

/-- `first()`: the first element of the group -/
theorem first_run (g : List α) : (first (α := α)).run g = g.head? := by
  have h : ∀ (xs : List α) (y : α),
      xs.foldl (fun s x => match s with | none => some x | some y => some y) (some y) = some y := by
    intro xs
    induction xs with
    | nil => intro y; rfl
    | cons z zs ih => intro y; simp only [List.foldl_cons, ih]
  cases g with
  | nil => rfl
  | cons x xs => simp only [Acc.run, first, id, List.foldl_cons, List.head?_cons]; exact h xs x

/-- `last()`: the last element of the group -/
theorem last_run (g : List α) : (last (α := α)).run g = g.getLast? := by
  have h : ∀ (xs : List α) (s : Option α), xs.foldl (fun _ x => some x) s = (xs.getLast?).or s := by
    intro xs
    induction xs with
    | nil => intro s; simp
    | cons z zs ih =>
      intro s
      simp only [List.foldl_cons, ih]
      cases zs with
      | nil => simp
      | cons w ws =>
        rw [List.getLast?_cons_cons]
        cases hl : (w :: ws).getLast? with
        | none => simp at hl
        | some l => simp
  simp only [Acc.run, last, id, h, Option.or_none]

/-- `max()` on integers: a greatest element of the (non-empty) group -/
theorem max_run_int (g : List Int) (hne : g ≠ []) :
    ∃ m, (maxBy (fun x m : Int => decide (x > m))).run g = some m ∧ m ∈ g ∧ ∀ y ∈ g, y ≤ m := by
  have h : ∀ (xs : List Int) (m0 : Int),
      (xs.foldl (fun m x => if decide (x > m) = true then x else m) m0 = m0 ∨
        xs.foldl (fun m x => if decide (x > m) = true then x else m) m0 ∈ xs) ∧
      m0 ≤ xs.foldl (fun m x => if decide (x > m) = true then x else m) m0 ∧
      ∀ y ∈ xs, y ≤ xs.foldl (fun m x => if decide (x > m) = true then x else m) m0 := by
    intro xs
    induction xs with
    | nil => intro m0; simp
    | cons x xs ih =>
      intro m0
      by_cases hx : x > m0
      · have hstep : (if decide (x > m0) = true then x else m0) = x := by simp [hx]
        rw [List.foldl_cons, hstep]
        obtain ⟨h1, h2, h3⟩ := ih x
        refine ⟨?_, by omega, ?_⟩
        · rcases h1 with h1 | h1
          · right; rw [h1]; simp
          · right; exact List.mem_cons_of_mem _ h1
        · intro y hy; simp only [List.mem_cons] at hy
          rcases hy with rfl | hy
          · exact h2
          · exact h3 y hy
      · have hstep : (if decide (x > m0) = true then x else m0) = m0 := by simp [hx]
        rw [List.foldl_cons, hstep]
        obtain ⟨h1, h2, h3⟩ := ih m0
        refine ⟨?_, h2, ?_⟩
        · rcases h1 with h1 | h1
          · left; exact h1
          · right; exact List.mem_cons_of_mem _ h1
        · intro y hy; simp only [List.mem_cons] at hy
          rcases hy with rfl | hy
          · omega
          · exact h3 y hy
  cases g with
  | nil => exact absurd rfl hne
  | cons x xs =>
    obtain ⟨h1, h2, h3⟩ := h xs x
    refine ⟨_, by rw [maxBy, foldFirst_run], ?_, ?_⟩
    · rcases h1 with h1 | h1
      · rw [h1]; simp
      · exact List.mem_cons_of_mem _ h1
    · intro y hy; simp only [List.mem_cons] at hy
      rcases hy with rfl | hy
      · exact h2
      · exact h3 y hy

/-- `min()` on integers: a least element of the (non-empty) group -/
theorem min_run_int (g : List Int) (hne : g ≠ []) :
    ∃ m, (minBy (fun x m : Int => decide (x < m))).run g = some m ∧ m ∈ g ∧ ∀ y ∈ g, m ≤ y := by
  have h : ∀ (xs : List Int) (m0 : Int),
      (xs.foldl (fun m x => if decide (x < m) = true then x else m) m0 = m0 ∨
        xs.foldl (fun m x => if decide (x < m) = true then x else m) m0 ∈ xs) ∧
      xs.foldl (fun m x => if decide (x < m) = true then x else m) m0 ≤ m0 ∧
      ∀ y ∈ xs, xs.foldl (fun m x => if decide (x < m) = true then x else m) m0 ≤ y := by
    intro xs
    induction xs with
    | nil => intro m0; simp
    | cons x xs ih =>
      intro m0
      by_cases hx : x < m0
      · have hstep : (if decide (x < m0) = true then x else m0) = x := by simp [hx]
        rw [List.foldl_cons, hstep]
        obtain ⟨h1, h2, h3⟩ := ih x
        refine ⟨?_, by omega, ?_⟩
        · rcases h1 with h1 | h1
          · right; rw [h1]; simp
          · right; exact List.mem_cons_of_mem _ h1
        · intro y hy; simp only [List.mem_cons] at hy
          rcases hy with rfl | hy
          · exact h2
          · exact h3 y hy
      · have hstep : (if decide (x < m0) = true then x else m0) = m0 := by simp [hx]
        rw [List.foldl_cons, hstep]
        obtain ⟨h1, h2, h3⟩ := ih m0
        refine ⟨?_, h2, ?_⟩
        · rcases h1 with h1 | h1
          · left; exact h1
          · right; exact List.mem_cons_of_mem _ h1
        · intro y hy; simp only [List.mem_cons] at hy
          rcases hy with rfl | hy
          · omega
          · exact h3 y hy
  cases g with
  | nil => exact absurd rfl hne
  | cons x xs =>
    obtain ⟨h1, h2, h3⟩ := h xs x
    refine ⟨_, by rw [minBy, foldFirst_run], ?_, ?_⟩
    · rcases h1 with h1 | h1
      · rw [h1]; simp
      · exact List.mem_cons_of_mem _ h1
    · intro y hy; simp only [List.mem_cons] at hy
      rcases hy with rfl | hy
      · exact h2
      · exact h3 y hy

/-- every emitted group has exactly `N` elements — in particular it is non-empty, so the `expect`
    of `FoldFirst`/`First`/`Last::output` cannot fail on a complete group -/
theorem groups_length (N S : Nat) (hS : 0 < S) (hN : 0 < N) (xs : List α) :
    ∀ g ∈ groups N S xs, g.length = N := by
  intro g hg
  simp only [groups, List.mem_map] at hg
  obtain ⟨p, hp, rfl⟩ := hg
  obtain ⟨j, hj, hget⟩ := List.getElem_of_mem hp
  obtain ⟨h1, h2⟩ := groupsIdx_spec N S hS hN xs 0 j p (by rw [List.getElem?_eq_getElem hj, hget])
  rw [h1]; simp only [List.length_take, List.length_drop]; omega

/-- Non-vacuity: a non-commutative fold distinguishes the order inside the group. -/
example : (fold (0 : Int) (fun s x => (s * 31 + x) % 1000003)).run [1, 2, 3] = 1026 ∧
    (fold (0 : Int) (fun s x => (s * 31 + x) % 1000003)).run [3, 2, 1] = 2946 ∧
    (maxBy (fun x m : Int × Nat => decide (x.1 > m.1))).run [(5, 0), (7, 1), (7, 2)] = some (7, 1) ∧
    (count (α := Nat)).run [4, 4, 4] = 3 ∧ (last (α := Nat)).run [1, 2, 3] = some 3 := by
  decide

/-! ### panic freedom of `process` on data elements -/

/-- where the Rust `process` panics on a data element in state `ws` (count.rs:66-73): division by
    `slide = 0` (line 66), `front().unwrap()` on an empty deque (line 69), or `self.ws[idx]` out of
    bounds in `update_slot` (line 42) for some `idx < k`. The model's `updFirst` silently stops
    at the end of the list in the last case. -/
def itemPanics (c : Cfg) (ws : List (Slot α)) : Bool :=
  c.slide == 0 ||
  match pad c ws with
  | [] => true
  | s0 :: rest => decide ((s0 :: rest).length < s0.count / c.slide + 1)

/-- **C12 (no index panic).** In every state satisfying the representation invariant (all
    reachable states, see `countWindow_never_panics` in Props/C12WinOp.lean) and for
    `1 ≤ S ≤ N`: the deque is non-empty after padding, `k = front.count / S + 1` does not exceed
    its length — so `update_slot(i)` is in bounds for all `i < k`, `updFirst` updates exactly `k`
    slots and never takes its `[]` branch — and `processItem` takes none of its `[]` branches. -/
theorem countWindow_no_index_panic (c : Cfg) (hS : 1 ≤ c.slide) (hSN : c.slide ≤ c.size)
    (ws : List (Slot α)) (cur : List α) (inv : Inv c ws cur) :
    itemPanics c ws = false ∧
    (∃ s0 rest, pad c ws = s0 :: rest ∧ s0.count / c.slide + 1 ≤ (s0 :: rest).length ∧
      ∀ (x : α) (t : Option Int),
        (updFirst (s0.count / c.slide + 1) x t (s0 :: rest)).length = (s0 :: rest).length) := by
  have hN : 0 < c.size := by omega
  have hneed := need_pos c hS hN
  have hlen : (pad c ws).length = need c := by
    have := congrArg List.length inv.items; simpa using this
  cases hp : pad c ws with
  | nil => rw [hp] at hlen; simp at hlen; omega
  | cons s0 rest =>
    have hit := inv.items
    rw [hp] at hit hlen
    have hs0 : s0.items = cur := by
      cases hm : need c with
      | zero => omega
      | succ m => rw [hm] at hit; simp [slotsOf] at hit; exact hit.1
    have hok := pad_ok c ws inv.ok
    rw [hp] at hok
    have hc0 : s0.count = cur.length := by
      have := hok s0 (by simp); unfold SlotOk at this; rw [this, hs0]
    have hshort := inv.short
    -- k = |cur| / S + 1 ≤ (N - 1) / S + 1 = (N + S - 1) / S = need
    have hk : s0.count / c.slide + 1 ≤ need c := by
      rw [hc0]
      have h1 : cur.length / c.slide ≤ (c.size - 1) / c.slide := Nat.div_le_div_right (by omega)
      have h2 : (c.size - 1) / c.slide + 1 = need c := by
        unfold need
        have : c.size + c.slide - 1 = (c.size - 1) + c.slide := by omega
        rw [this, Nat.add_div_right _ (by omega)]
      omega
    have hk' : s0.count / c.slide + 1 ≤ (s0 :: rest).length := by rw [hlen]; exact hk
    refine ⟨?_, s0, rest, rfl, hk', fun x t => updFirst_length _ x t _ hk'⟩
    have hS0 : (c.slide == 0) = false := by simp; omega
    simp only [itemPanics, hS0, hp, Bool.false_or, decide_eq_false_iff_not]
    omega

end Noir.CountWindow
