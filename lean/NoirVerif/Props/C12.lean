/-
  Props/C12.lean — property theorems for C12 (count windows). Helper lemmas live in
  Lemmas/CountWindow.lean; this file contains only statements a reader should audit.
-/
import NoirVerif.Lemmas.CountWindow
namespace Noir.CountWindow

variable {α : Type}

/-- all elements of the list are data (`Item` / `Timestamped`) -/
def AllData (es : List (Elem α)) : Prop := ∀ e ∈ es, e.isData = true

/-- the payloads of the data elements -/
def values (es : List (Elem α)) : List α := es.filterMap Elem.value

/-- observable part of the outputs: (index of the triggering element, group content) -/
def obs (out : List (Nat × Result α)) : List (Nat × List α) := out.map (fun p => (p.1, p.2.items))

/-- Core simulation statement: from any state satisfying the invariant with open group `cur`,
    feeding data elements emits exactly the complete sliding groups of `cur ++ values es`, each
    at the index of its N-th element, and ends in a state whose open group is the residual. -/
theorem run_data (c : Cfg) (hS : 0 < c.slide) (hSN : c.slide ≤ c.size) :
    ∀ (es : List (Elem α)) (ws : List (Slot α)) (cur : List α) (i : Nat),
      AllData es → Inv c ws cur → cur.length ≤ i →
      obs (runFrom c ws i es) = groupsIdx c.size c.slide (i - cur.length) (cur ++ values es)
      ∧ Inv c (stateAfter c ws es) (residual c.size c.slide (cur ++ values es)) := by
  intro es
  induction es with
  | nil =>
    intro ws cur i _ inv _
    have hs := inv.short
    simp only [values, List.filterMap_nil, List.append_nil, runFrom, obs, List.map_nil, stateAfter]
    rw [groupsIdx, residual]
    simp [hs, inv]
  | cons e es ih =>
    intro ws cur i hd inv hi
    have he : e.isData = true := hd e (by simp)
    have hd' : AllData es := fun e' h' => hd e' (by simp [h'])
    -- reduce to `processItem`
    obtain ⟨x, t, hx, hv⟩ : ∃ x t, process c ws e = processItem c ws x t ∧ e.value = some x := by
      cases e <;> simp [Elem.isData] at he
      · exact ⟨_, none, rfl, rfl⟩
      · exact ⟨_, some _, rfl, rfl⟩
    have hvals : values (e :: es) = x :: values es := by simp [values, hv]
    have hN := inv.short
    simp only [runFrom, stateAfter, hx, hvals]
    by_cases hlt : cur.length + 1 < c.size
    · obtain ⟨hnone, inv'⟩ := processItem_noemit c hS ws cur x t inv hlt
      have := ih (processItem c ws x t).1 (cur ++ [x]) (i + 1) hd' inv' (by simp; omega)
      cases hp : processItem c ws x t with
      | mk ws' out =>
        rw [hp] at hnone this; simp only at hnone this
        subst hnone
        simp only [List.length_append, List.length_cons, List.length_nil, List.append_assoc,
          List.cons_append, List.nil_append] at this
        have hidx : i + 1 - (cur.length + 0 + 1) = i - cur.length := by omega
        rw [hidx] at this
        exact this
    · have heq : cur.length + 1 = c.size := by omega
      obtain ⟨⟨ts, hsome⟩, inv'⟩ := processItem_emit c hS hSN ws cur x t inv heq
      have := ih (processItem c ws x t).1 ((cur ++ [x]).drop c.slide) (i + 1) hd' inv'
        (by simp; omega)
      cases hp : processItem c ws x t with
      | mk ws' out =>
        rw [hp] at hsome this; simp only at hsome this
        subst hsome
        obtain ⟨h1, h2⟩ := this
        have hlenge : ¬ ((cur ++ x :: values es).length < c.size ∨ c.slide = 0 ∨ c.size = 0) := by
          simp; omega
        have htake : (cur ++ x :: values es).take c.size = cur ++ [x] := by
          have : cur ++ x :: values es = (cur ++ [x]) ++ values es := by simp
          rw [this, List.take_append_of_le_length (by simp; omega)]
          apply List.take_of_length_le; simp; omega
        have hdrop : (cur ++ x :: values es).drop c.slide = (cur ++ [x]).drop c.slide ++ values es := by
          have : cur ++ x :: values es = (cur ++ [x]) ++ values es := by simp
          rw [this, List.drop_append_of_le_length (by simp; omega)]
        constructor
        · rw [groupsIdx]
          simp only [hlenge, dite_false, obs, List.map_cons, htake, hdrop]
          congr 1
          · congr 1; omega
          · have hidx : i + 1 - ((cur ++ [x]).drop c.slide).length = i - cur.length + c.slide := by
              simp; omega
            rw [hidx] at h1; exact h1
        · rw [residual]; simp only [hlenge, dite_false, hdrop]; exact h2

/-- **C12 (groups, order, emission time).** For `1 ≤ S ≤ N` and any sequence of data elements of
    one key, the manager started in its initial state emits exactly the groups `[jS, jS+N)`,
    in order, the j-th one while processing the element of index `jS+N-1` (its N-th element). -/
theorem countWindow_groups (c : Cfg) (hS : 1 ≤ c.slide) (hSN : c.slide ≤ c.size)
    (es : List (Elem α)) (hd : AllData es) :
    obs (run c es) = groupsIdx c.size c.slide 0 (values es) := by
  have := (run_data c hS hSN es [] [] 0 hd (inv_init c (by omega)) (by simp)).1
  simpa [run] using this

/-- the j-th group is `[jS, jS+N)` and is stamped with index `off + jS + N - 1` -/
theorem groupsIdx_spec (N S : Nat) (hS : 0 < S) (hN : 0 < N) :
    ∀ (xs : List α) (off j : Nat) (p : Nat × List α), (groupsIdx N S off xs)[j]? = some p →
      p = (off + j * S + N - 1, (xs.drop (j * S)).take N) ∧ j * S + N ≤ xs.length := by
  intro xs
  induction h : xs.length using Nat.strongRecOn generalizing xs with
  | _ n ih =>
    intro off j p hp
    rw [groupsIdx] at hp
    by_cases hlt : xs.length < N ∨ S = 0 ∨ N = 0
    · simp [hlt] at hp
    · simp only [hlt, dite_false] at hp
      cases j with
      | zero =>
        simp at hp; subst hp
        constructor
        · simp
        · simp; omega
      | succ j =>
        simp only [List.getElem?_cons_succ] at hp
        have hlen : (xs.drop S).length < n := by rw [List.length_drop]; omega
        obtain ⟨h1, h2⟩ := ih _ hlen (xs.drop S) rfl (off + S) j p hp
        constructor
        · rw [h1, List.drop_drop, Nat.succ_mul]
          congr 1
          · omega
          · congr 1; congr 1; omega
        · rw [List.length_drop] at h2; rw [Nat.succ_mul]; omega

/-- number of groups: every `j` with `jS + N ≤ |xs|` yields a group -/
theorem groupsIdx_complete (N S : Nat) (hS : 0 < S) (hN : 0 < N) :
    ∀ (xs : List α) (off j : Nat), j * S + N ≤ xs.length → j < (groupsIdx N S off xs).length := by
  intro xs
  induction h : xs.length using Nat.strongRecOn generalizing xs with
  | _ n ih =>
    intro off j hj
    rw [groupsIdx]
    have hlt : ¬ (xs.length < N ∨ S = 0 ∨ N = 0) := by
      have : 0 ≤ j * S := Nat.zero_le _
      omega
    simp only [hlt, dite_false, List.length_cons]
    cases j with
    | zero => omega
    | succ j =>
      have hlen : (xs.drop S).length < n := by rw [List.length_drop]; omega
      have := ih _ hlen (xs.drop S) rfl (off + S) j (by
        rw [List.length_drop]; rw [Nat.succ_mul] at hj; omega)
      omega

/-- **C12 (end of iteration, exact mode).** Nothing is emitted and no slot stays open. -/
theorem countWindow_end_exact (c : Cfg) (hE : c.exact = true) (ws : List (Slot α)) :
    processEnd c ws = ([], none) := by
  simp [processEnd, hE]

/-- **C12 (end of iteration, non-exact mode).** Exactly the oldest incomplete group is emitted
    if it is non-empty, nothing otherwise; no slot stays open. -/
theorem countWindow_end_inexact (c : Cfg) (hS : 1 ≤ c.slide) (hN : 1 ≤ c.size) (hE : c.exact = false)
    (ws : List (Slot α)) (cur : List α) (inv : Inv c ws cur) :
    (processEnd c ws).1 = [] ∧
    (cur = [] → (processEnd c ws).2 = none) ∧
    (cur ≠ [] → ∃ ts, (processEnd c ws).2 = some ⟨cur, ts⟩) := by
  have hneed := need_pos c hS hN
  have hit := inv.items
  cases hm : need c with
  | zero => omega
  | succ m =>
    rw [hm] at hit
    cases ws with
    | nil =>
      have : cur = [] := by
        unfold pad at hit
        simp only [List.nil_append, List.length_nil, Nat.sub_zero] at hit
        have hnd : (c.size + c.slide - 1) / c.slide = m + 1 := hm
        rw [hnd] at hit
        simp [List.replicate_succ, slotsOf, Slot.empty] at hit
        exact hit.1
      simp [processEnd, hE, this]
    | cons r rest =>
      have hr : r.items = cur := by
        unfold pad at hit; simp [slotsOf] at hit; exact hit.1
      have hc : r.count = cur.length := by
        have := inv.ok r (by simp); unfold SlotOk at this; rw [this, hr]
      refine ⟨rfl, ?_, ?_⟩
      · intro h; simp [processEnd, hE, hc, h]
      · intro h
        have : 0 < cur.length := List.length_pos_iff.mpr h
        exact ⟨r.ts, by simp [processEnd, hE, hc, this, hr]⟩

/-- **C12 (nothing is carried over).** After `FlushAndRestart` (or `Terminate`) the manager is back
    in its initial state, so the groups of the next iteration never contain older elements. -/
theorem countWindow_resets (c : Cfg) (ws : List (Slot α)) :
    (process c ws .far).1 = [] ∧ (process c ws .term).1 = [] := by
  simp [process, processEnd]

/-- **C12 (whole iteration).** Feeding one iteration `data ++ [far]` from the initial state emits
    the complete groups at their N-th elements and then, at the `far`, nothing (exact) or the
    non-empty residual group (non-exact); the state is initial again. -/
theorem countWindow_iteration (c : Cfg) (hS : 1 ≤ c.slide) (hSN : c.slide ≤ c.size)
    (es : List (Elem α)) (hd : AllData es) :
    let st := stateAfter c ([] : List (Slot α)) es
    let r := residual c.size c.slide (values es)
    obs (run c es) = groupsIdx c.size c.slide 0 (values es) ∧
    (process c st .far).1 = [] ∧
    (c.exact = true → (process c st .far).2 = none) ∧
    (c.exact = false → r = [] → (process c st .far).2 = none) ∧
    (c.exact = false → r ≠ [] → ∃ ts, (process c st .far).2 = some ⟨r, ts⟩) := by
  intro st r
  have hrd := run_data c hS hSN es [] [] 0 hd (inv_init c (by omega)) (by simp)
  simp only [List.nil_append] at hrd
  refine ⟨by simpa [run] using hrd.1, by simp [process, processEnd], ?_, ?_, ?_⟩
  · intro hE; simp [process, processEnd, hE]
  · intro hE hr
    exact (countWindow_end_inexact c hS (by omega) hE st r hrd.2).2.1 hr
  · intro hE hr
    exact (countWindow_end_inexact c hS (by omega) hE st r hrd.2).2.2 hr

/-- **C12 (every aggregator sees exactly the group).** For any accumulator algebra
    `(init, step, out)`, folding it over the emitted group equals what the Rust manager computes by
    calling `process` on a clone of `init` for each element of the slot, in order. Stated on the
    free accumulator: the content of each result is the list the fold runs over. -/
theorem acc_applied_to_group {σ β : Type} (init : σ) (step : σ → α → σ) (out : σ → β)
    (c : Cfg) (hS : 1 ≤ c.slide) (hSN : c.slide ≤ c.size) (es : List (Elem α)) (hd : AllData es) :
    (run c es).map (fun p => out (p.2.items.foldl step init)) =
      (groups c.size c.slide (values es)).map (fun g => out (g.foldl step init)) := by
  have h := countWindow_groups c hS hSN es hd
  have : (run c es).map (fun p => p.2.items) = groups c.size c.slide (values es) := by
    unfold groups; rw [← h]; simp [obs]
  rw [← this]; simp

/-- Non-vacuity: the hypotheses are satisfiable by a non-trivial configuration and input, and
    the conclusion is the expected concrete list. -/
example : obs (run ⟨3, 2, true⟩ ([1, 2, 3, 4, 5, 6, 7].map Elem.item : List (Elem Nat)))
    = [(2, [1, 2, 3]), (4, [3, 4, 5]), (6, [5, 6, 7])] := by decide

/-- For the record: `slide > size` is *not* handled as "skip elements" by the code — with
    `size = 1, slide = 2` the groups are `[0],[1],[2]`, not `[0],[2]` (outside C12's quantifier). -/
theorem slide_gt_size_counterexample :
    (run ⟨1, 2, true⟩ ([0, 1, 2].map Elem.item : List (Elem Nat))).map (·.2.items) = [[0], [1], [2]] := by
  decide

end Noir.CountWindow
