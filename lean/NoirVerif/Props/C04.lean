/-
  Props/C04.lean — termination (C04), layer 1: a purely combinatorial theorem about
  configurations of an acyclic network of replica processes with bounded multi-producer /
  single-consumer FIFO channels. Layer 2 — that the configurations reachable by the real
  machines satisfy A1–A6 — is discharged per machine: A1–A3 are the semantics of bounded channels
  (trusted, flume), A6 is acyclicity of the job graph, A4 holds trivially for the simple `Start`
  (it never refuses its only channel) and A5 is the marker accounting of `Start`
  (`Noir.Start.start_term_once_last` in Props/C05Start.lean: once every producer has sent its
  final `Terminate` and the channel has been drained the `Start` emits `Terminate` and the block
  finishes). Binary starts (which temporarily refuse one side) and loops (cyclic) are outside this
  theorem and are exercised by the whole-engine `term` component; see DESIGN.md §5 C04.
-/
import NoirVerif.Lemmas.Net
namespace Noir.Net

/-- **C04 (no deadlock on DAGs).** A well-formed configuration in which no process can move has
    only finished processes: replicas never wait on each other forever. -/
theorem no_deadlock_config (c : Config) (wf : WellFormed c) :
    ¬ (noneRunnable c ∧ ¬ allFinished c) := by
  intro ⟨stuck, hnot⟩
  exact hnot (stuck_all_finished c wf stuck)

/-- Equivalent reading: as long as some process is unfinished, some process is runnable. -/
theorem progress_possible (c : Config) (wf : WellFormed c) (h : ¬ allFinished c) :
    ∃ p, p < c.nproc ∧ c.status p = .runnable := by
  apply Classical.byContradiction
  intro hno
  apply no_deadlock_config c wf
  refine ⟨?_, h⟩
  intro p hp hr
  exact hno ⟨p, hp, hr⟩

/-- A concrete pipeline `0 → 1 → 2` (channels 0: 0→1, 1: 1→2, capacity 16): process 1 is blocked
    sending on the full channel 1, process 0 is blocked sending on the full channel 0, process 2 is
    runnable. -/
def demo : Config where
  nproc := 3
  status := fun p => if p = 0 then .sendBlocked 0 else if p = 1 then .sendBlocked 1 else .runnable
  len := fun _ => 16
  cap := fun _ => 16
  consumer := fun ch => ch + 1
  producers := fun ch => [ch]
  rank := fun p => p

/-- Non-vacuity: the hypotheses of the theorem are satisfiable by a non-trivial configuration
    (two processes blocked behind full channels). -/
theorem demo_wellFormed : WellFormed demo := by
  refine ⟨?_, ?_, ?_, ?_, ?_, ?_⟩
  · intro p ch hp hs
    have hp3 : p < 3 := hp
    have : p = 0 ∨ p = 1 ∨ p = 2 := by omega
    rcases this with rfl | rfl | rfl
    · simp [demo] at hs ⊢; subst hs; simp
    · simp [demo] at hs ⊢; subst hs; simp
    · simp [demo] at hs
  · intro p w ch hp hs
    have hp3 : p < 3 := hp
    have : p = 0 ∨ p = 1 ∨ p = 2 := by omega
    rcases this with rfl | rfl | rfl <;> simp [demo] at hs
  · intro ch hq hs
    have hq3 : ch + 1 < 3 := hq
    have : ch = 0 ∨ ch = 1 := by omega
    rcases this with rfl | rfl <;> simp [demo] at hs
  · intro p ch w hp hs hst
    have hp3 : p < 3 := hp
    have : p = 0 ∨ p = 1 ∨ p = 2 := by omega
    rcases this with rfl | rfl | rfl
    · simp [demo] at hs; subst hs; simp [demo] at hst
    · simp [demo] at hs; subst hs; simp [demo] at hst
    · simp [demo] at hs
  · intro p w hp hs
    have hp3 : p < 3 := hp
    have : p = 0 ∨ p = 1 ∨ p = 2 := by omega
    rcases this with rfl | rfl | rfl <;> simp [demo] at hs
  · intro ch q hq
    simp [demo] at hq ⊢; omega

/-- Why A4 matters: a consumer that refuses the channel its producer is blocked on (as a binary
    start does for the side that already ended its iteration) can be stuck although acyclic:
    process 0 blocked sending on full channel 0 to process 1, which waits on the empty channel 1
    (produced by the finished process 2 — excluded by A5 — or, as here, by a process blocked
    elsewhere). This configuration satisfies A1–A3, A6 and is stuck. -/
theorem refusal_counterexample :
    let c : Config := {
      nproc := 2
      status := fun p => if p = 0 then .sendBlocked 0 else .recvBlocked [1]
      len := fun ch => if ch = 0 then 16 else 0
      cap := fun _ => 16
      consumer := fun _ => 1
      producers := fun ch => if ch = 0 then [0] else []
      rank := fun p => p }
    noneRunnable c ∧ ¬ allFinished c := by
  intro c
  constructor
  · intro p hp
    have hp2 : p < 2 := hp
    have : p = 0 ∨ p = 1 := by omega
    rcases this with rfl | rfl <;> simp [c]
  · intro h
    have := h 0 (by show 0 < 2; omega)
    simp [c] at this

end Noir.Net
