/-
  Props/C16Chain.lean — C16, first half, at full length: "along any path on which producer and
  consumer both have a single replica, and inside any operator chain, elements are delivered in the
  order they were produced, so a sequential pipeline behaves like the corresponding iterator chain
  for every batch mode and transport … for all inputs and batch modes on single-replica chains of
  ANY LENGTH".

  Props/C16SeqPath.lean proves one hop, for the data projection. Here:
  * `hop_stream_identity` — one hop, the WHOLE stream (data, watermarks, FlushAndRestart, Terminate),
    every batch mode, every clock behaviour, every placement of receive timeouts;
  * `liftStage` (Model/Stateless.lean, tied to the REAL operators by the correspondence component
    `stateless`; lemmas in Lemmas/SeqChain.lean) — an operator chain (map / filter / flat_map / inspect and
    compositions) as a per-element transducer; it composes and preserves the link contract;
  * `seq_chain_identity` / `seq_chain_iterator` — pipelines of `k + 1` single-replica blocks for
    every `k` (type `Chain`, Lemmas/SeqChain.lean: a stage per block, a `Hop` = batch mode + clock
    behaviour + timeout placement per block boundary).

  Definitions used (all in Lemmas/SeqChain.lean): `arrivalsOf tos batches` (the batches in sending
  order, each consumed whole, `tos[i]` receive timeouts before batch `i`), `hop`, `Chain`,
  `Chain.run`, `Chain.kleisli`, `Chain.iter`, `dataOf`, `untilTerm`, `toElem`.
  The side condition on the source stream is exactly the input contract `inputOk 1`
  (Model/StartSpec.lean) — the one every `Start` theorem of C05/C06/C17 assumes — and nothing more;
  it is what makes watermarks strictly increasing within an iteration (a repeated watermark would be
  swallowed by `WatermarkFrontier::update`, watermark_frontier.rs "old watermark").
-/
import NoirVerif.Lemmas.SeqChain
namespace Noir.SeqChain
open Noir Noir.StartSpec Noir.SeqPath Noir.Stateless

variable {α β γ : Type}

/-! ## 1. one hop, the whole stream -/

/-- **`pending_watermark` with one upstream replica.** Whatever arrives (contract or not),
    `pending_watermark` is `None` in every reachable state: it is only ever set while handling a
    `FlushAndRestart`, and with one upstream replica that `FlushAndRestart` completes the iteration
    in the same call, which clears it (`afterCounters`). So since /repo 6a9bcff a receive timeout
    still yields exactly one `FlushBatch` here — there is never a pending watermark to emit first. -/
theorem single_upstream_pending_none (as : List (Start.Arrival α)) :
    (Start.stateAfter (Start.init 1) as).pending = none ∧
    ((Start.stateAfter (Start.init 1) as).missingTerm ≠ 0 →
      (Start.step (Start.stateAfter (Start.init 1) as) (Start.Arrival.timeout : Start.Arrival α)).2
        = [.flushBatch]) := by
  have h := shape_stateAfter as (Start.init 1) shape_init
  refine ⟨h.pend, fun hT => ?_⟩
  simp only [Start.step, hT, if_false, h.pend]

/-- **C16 (a single-upstream `Start` is the identity).** One upstream replica, ANY arrival sequence
    whose elements respect the contract, receive timeouts anywhere (even inside a batch): what
    `Start` yields is the arrival sequence itself, in order and at once — every upstream element
    unchanged (watermarks included), one `FlushBatch` per timeout — up to the `Terminate`. -/
theorem start_single_identity (as : List (Start.Arrival α))
    (hin : inputOk 1 (Start.elemsOf as) = true) :
    Start.run 1 as = untilTerm (as.map toElem) :=
  run_one_exact as hin

/-- **C16 (hop identity, whole stream).** One producer replica, one consumer replica. For every
    batch mode `m`, every behaviour `bs` of the batcher clock, every placement `tos` of receive
    timeouts between the arriving batches and every stream `es ++ [Terminate]` of the producer's
    chain that respects the contract: the output of the consumer's `Start` without its `FlushBatch`
    elements is the producer's stream without its `FlushBatch` elements — data, watermarks,
    `FlushAndRestart` and `Terminate`, in order, nothing lost, duplicated or added. -/
theorem hop_stream_identity (m : Batcher.Mode) (bs : List Bool) (tos : List Nat) (es : List (Elem α))
    (hin : inputOk 1 (((es ++ [Elem.term]).filter notFlushBatch).map (fun e => (0, e))) = true) :
    let batches := (Batcher.run m [] (opsOfScript bs (es ++ [Elem.term]))).2
    (Start.run 1 (arrivalsOf tos batches)).filter notFlushBatch
      = (es ++ [Elem.term]).filter notFlushBatch := by
  intro batches
  have hb : batches.flatten = (es ++ [Elem.term]).filter notFlushBatch :=
    batches_flatten_eq_script m bs es
  have hel := elemsOf_arrivalsOf batches tos
  rw [hb] at hel
  rw [run_one_exact _ (by rw [hel]; exact hin), untilTerm_filter, toElem_filter, hel]
  rw [inputOk_one] at hin
  simp only [List.map_map, Function.comp_def, List.map_id', List.filter_filter, Bool.and_self]
  exact untilTerm_of_linkOk _ _ _ _ hin

/-- The consumer's chain sees the `Terminate` last (so its own `End` flushes and ends, and the
    next hop's hypothesis "stream `es' ++ [Terminate]`" holds). -/
theorem hop_ends_term (m : Batcher.Mode) (bs : List Bool) (tos : List Nat) (es : List (Elem α))
    (hin : inputOk 1 (((es ++ [Elem.term]).filter notFlushBatch).map (fun e => (0, e))) = true) :
    ∃ pre, Start.run 1 (arrivalsOf tos (Batcher.run m [] (opsOfScript bs (es ++ [Elem.term]))).2)
      = pre ++ [Elem.term] := by
  have hid := hop_stream_identity m bs tos es hin
  simp only at hid
  have hel := elemsOf_arrivalsOf (Batcher.run m [] (opsOfScript bs (es ++ [Elem.term]))).2 tos
  rw [batches_flatten_eq_script m bs es] at hel
  rw [run_one_exact _ (by rw [hel]; exact hin)] at hid ⊢
  rcases untilTerm_ends
    ((arrivalsOf tos (Batcher.run m [] (opsOfScript bs (es ++ [Elem.term]))).2).map toElem) with h | h
  · exact h
  · exfalso
    have hm : Elem.term ∈ (es ++ [Elem.term]).filter notFlushBatch := by
      simp [List.mem_filter, notFlushBatch]
    rw [← hid] at hm
    exact h (List.mem_filter.mp hm).1

/-! ## 2. operator chains as per-element transducers -/

/-- **Stages compose.** `liftStage g ∘ liftStage f = liftStage (f >=> g)`: a chain of map / filter /
    flat_map / inspect operators is one stage. -/
theorem liftStage_compose (f : α → List β) (g : β → List γ) :
    liftStage g ∘ liftStage f = liftStage (kleisli f g) :=
  funext (liftStage_comp f g)

/-- **A stage preserves the link contract** (so the hypothesis of the next hop holds): expanding
    or dropping data elements while keeping their timestamps, and passing watermarks and markers
    through, keeps a contract-respecting stream contract-respecting. -/
theorem liftStage_preserves_contract (f : α → List β) (l : List (Elem α))
    (h : inputOk 1 (l.map (fun e => (0, e))) = true) :
    inputOk 1 ((liftStage f l).map (fun e => (0, e))) = true := by
  rw [inputOk_one] at h ⊢
  exact linkOk_liftStage f l _ _ _ h

/-- a stage acts on the data projection as `flatMap` -/
theorem liftStage_data (f : α → List β) (l : List (Elem α)) :
    dataOf (liftStage f l) = (dataOf l).flatMap f :=
  dataOf_liftStage f l

/-! ## 3. pipelines of any length -/

/-- **C16 (sequential chain identity).** For every `k`, every pipeline `c` of `k + 1` single-replica
    blocks (stage `i` in block `i`; hop `i` with its own batch mode, clock behaviour and timeout
    placement) and every contract-respecting source stream `es ++ [Terminate]`: the stream observed
    at the end of the last block equals, modulo `FlushBatch` hints,
    `liftStage (stage_0 >=> … >=> stage_k)` applied to the source stream — the whole stream, in
    order. (Induction on the pipeline with `hop_stream_identity`, `hop_ends_term`,
    `liftStage_preserves_contract` and `liftStage_comp`.) -/
theorem seq_chain_identity (c : Chain α γ) (es : List (Elem α))
    (hin : inputOk 1 (((es ++ [Elem.term]).filter notFlushBatch).map (fun e => (0, e))) = true) :
    (c.run (es ++ [Elem.term])).filter notFlushBatch
      = liftStage c.kleisli ((es ++ [Elem.term]).filter notFlushBatch) := by
  induction c with
  | last f => exact liftStage_filter f _
  | cons f h rest ih =>
    -- the stream the first block hands to its `End`
    have hsrc : liftStage f (es ++ [Elem.term]) = liftStage f es ++ [Elem.term] := by
      rw [liftStage_append]; rfl
    have hin' : inputOk 1 (((liftStage f es ++ [Elem.term]).filter notFlushBatch).map
        (fun e => (0, e))) = true := by
      rw [← hsrc, liftStage_filter]
      exact liftStage_preserves_contract f _ hin
    have hid := hop_stream_identity h.mode h.clock h.timeouts (liftStage f es) hin'
    obtain ⟨pre, hpre⟩ := hop_ends_term h.mode h.clock h.timeouts (liftStage f es) hin'
    simp only at hid
    have hrun : (Chain.cons f h rest).run (es ++ [Elem.term]) = rest.run (pre ++ [Elem.term]) := by
      simp only [Chain.run, hop, hsrc, hpre]
    rw [hpre] at hid
    rw [hrun, ih pre (by rw [hid]; exact hin'), hid, ← hsrc, liftStage_filter, liftStage_comp]
    rfl

/-- **C16 (a sequential pipeline is its iterator chain).** The data observed at the end of the
    pipeline is `xs.flatMap stage_0 |>.flatMap stage_1 … |>.flatMap stage_k` of the source data `xs`,
    in order, for every length, every batch mode, clock behaviour and timeout placement. -/
theorem seq_chain_iterator (c : Chain α γ) (es : List (Elem α))
    (hin : inputOk 1 (((es ++ [Elem.term]).filter notFlushBatch).map (fun e => (0, e))) = true) :
    dataOf (c.run (es ++ [Elem.term])) = c.iter (dataOf es) := by
  have h := congrArg dataOf (seq_chain_identity c es hin)
  have ht : dataOf [(Elem.term : Elem α)] = [] := rfl
  rw [dataOf_filter, dataOf_liftStage, dataOf_filter, dataOf_append, ht, List.append_nil] at h
  rw [h, Chain.iter_eq]

/-- The same with the pipeline given literally as lists: for every `k`, a first stage and a list of
    `k` further stages (`k + 1` stages), and a list of `k` hops (batch modes, clock behaviours,
    timeout placements). -/
theorem seq_chain_identity_lists (k : Nat) (f0 : α → List α) (fs : List (α → List α)) (hs : List Hop)
    (hfs : fs.length = k) (hhs : hs.length = k) (es : List (Elem α))
    (hin : inputOk 1 (((es ++ [Elem.term]).filter notFlushBatch).map (fun e => (0, e))) = true) :
    (Chain.ofLists f0 fs hs).hops = k ∧
    ((Chain.ofLists f0 fs hs).run (es ++ [Elem.term])).filter notFlushBatch
      = liftStage (kleisliL f0 fs) ((es ++ [Elem.term]).filter notFlushBatch) ∧
    dataOf ((Chain.ofLists f0 fs hs).run (es ++ [Elem.term]))
      = fs.foldl (fun acc f => acc.flatMap f) ((dataOf es).flatMap f0) := by
  have hl : fs.length = hs.length := by omega
  refine ⟨by rw [ofLists_hops fs hs f0 hl, hhs], ?_, ?_⟩
  · rw [seq_chain_identity _ es hin, ofLists_kleisli fs hs f0 hl]
  · rw [seq_chain_iterator _ es hin, ofLists_iter fs hs f0 _ hl]

/-! ## 4. non-vacuity -/

/-- Three blocks: a filter (odd payloads) → hop `Fixed 2` with one receive timeout before the second
    batch → a flat_map (`x ↦ [x, 10 x]`) → hop `Single` with a timeout before the third batch → a map
    (`+ 1`). The source stream carries timestamps, a watermark and two iterations. The hypotheses
    hold, the batches of the first hop are as expected, and the observed stream is the lifted
    composition with the two timeout `FlushBatch`es in the middle. -/
example :
    let c : Chain Nat Nat :=
      .cons (fun x => if x % 2 = 1 then [x] else []) ⟨.fixed 2, [], [0, 1]⟩
        (.cons (fun x => [x, 10 * x]) ⟨.single, [false, true], [0, 0, 1]⟩
          (.last (fun x => [x + 1])))
    let es : List (Elem Nat) := [.ts 1 5, .ts 2 6, .wm 6, .item 3, .far, .item 4, .item 5, .far]
    inputOk 1 (((es ++ [Elem.term]).filter notFlushBatch).map (fun e => (0, e))) = true ∧
    (Batcher.run (.fixed 2) [] (opsOfScript [] (liftStage (fun x => if x % 2 = 1 then [x] else [])
        (es ++ [Elem.term])))).2
      = [[.ts 1 5, .wm 6], [.item 3, .far], [.item 5, .far], [.term]] ∧
    c.run (es ++ [Elem.term])
      = [.ts 2 5, .ts 11 5, .flushBatch, .wm 6, .item 4, .item 31, .far, .item 6, .item 51, .far, .term] ∧
    c.kleisli 3 = [4, 31] ∧ c.hops = 2 := by
  decide

/-- the same pipeline: hypotheses and conclusion of `seq_chain_iterator` on concrete data -/
example :
    let c : Chain Nat Nat :=
      .cons (fun x => if x % 2 = 1 then [x] else []) ⟨.fixed 2, [], [0, 1]⟩
        (.cons (fun x => [x, 10 * x]) ⟨.single, [false, true], [0, 0, 1]⟩
          (.last (fun x => [x + 1])))
    let es : List (Elem Nat) := [.ts 1 5, .ts 2 6, .wm 6, .item 3, .far, .item 4, .item 5, .far]
    dataOf (c.run (es ++ [Elem.term])) = [2, 11, 4, 31, 6, 51] ∧
    c.iter (dataOf es) = [2, 11, 4, 31, 6, 51] := by
  decide

/-- the contract is needed: a repeated watermark is swallowed by the consumer's frontier
    (`update` returns `None` for an old watermark), so the hop is not the identity on it -/
example :
    let es : List (Elem Nat) := [.wm 3, .wm 3, .far]
    inputOk 1 (((es ++ [Elem.term]).filter notFlushBatch).map (fun e => (0, e))) = false ∧
    (hop ⟨.single, [], []⟩ (es ++ [Elem.term])) = [.wm 3, .far, .term] := by
  decide

end Noir.SeqChain
