/-
  Props/C05BinaryStart.lean — stream grammar (C05) at the output of the binary start
  (`Start<BinaryStartReceiver>`, src/operator/start/binary.rs + src/operator/start/mod.rs:213-311).

  Full-strength statement:

    bstart_grammar : for every contract-respecting complete history (both sides send synchronised
        iterations and terminate; with a cached side: one iteration on the cached side, K rounds on
        the loop side), every parallelism and interleaving, `grammarOk (run … h).1`, i.e. the output
        is `((item|ts|wm|flushBatch)* far)+ term`, and each side's End marker occurs exactly once per
        iteration, before that iteration's `far`.

  It is FALSE for the unchanged code with a cached side (`bstart_grammar_counterexample`, F6;
  `bstart_grammar_timeout_counterexample`, F6b): the cache is replayed between the last
  `FlushAndRestart` and `Terminate`. Proved: the `Terminate` clause of the grammar for every history
  (`bstart_grammar_partial`). Missing: the `FlushAndRestart` clause (every iteration's data is
  followed by a `far` before `term`; needs the lock-step invariant between the receiver's and
  `Start`'s `missing_flush_and_restart` counters) — checked by the oracle on every implementation
  trace, and by `decide` on the instances below.
-/
import NoirVerif.Lemmas.BinaryStart
namespace Noir.BinaryStart

variable {α : Type}

/-- **C05 (binary start, `Terminate` clause; `_partial`).** For every history (cached or not, any
    parallelism, any interleaving, any receive timeouts) from a live `Start`: the output contains
    `Terminate` at most once, as its last element, and it is there exactly when the run ended. -/
theorem bstart_grammar_partial (nL nR : Nat) (lc rc : Bool) (hn : nL + nR ≠ 0) (ops : List (Op α)) :
    ((run nL nR lc rc ops).2 ≠ .done ∧ Elem.term ∉ (run nL nR lc rc ops).1)
    ∨ ((run nL nR lc rc ops).2 = .done
        ∧ ∃ pre, (run nL nR lc rc ops).1 = pre ++ [Elem.term] ∧ Elem.term ∉ pre) := by
  have := runFrom_term ops (init nL nR lc rc) 0 (by simpa [init, Noir.Start.init] using hn)
  simpa [run] using this

/-- Former findings F6 / F6b (fixed by 6c83288 / 14727d5): the histories that used to put data between
    the last `FlushAndRestart` and `Terminate` now respect the grammar. -/
example :
    let h : List (Op Nat) :=
      Op.b true 0 [.item 41, .far, .term] ++ Op.b false 0 [.far] ++ [.enq false 1 [.far]]
        ++ Op.b false 0 [.term] ++ Op.b false 1 [.term]
    (run 1 2 true false h).2 = .done ∧ grammarOk (run 1 2 true false h).1 = true := by
  decide

example :
    let h : List (Op Nat) :=
      Op.b true 0 [.item 41, .far, .term] ++ Op.b false 0 [.far] ++ Op.b false 0 [.term]
    (run 1 1 true false h).2 = .done ∧ grammarOk (run 1 1 true false h).1 = true := by
  decide

/-- the good cases: no cache, two replicas on the left, two iterations, a queued `Terminate`;
    cached side with a single, fast loop-side replica -/
example :
    let h : List (Op Nat) :=
      Op.b true 0 [.item 1, .far] ++ Op.b false 0 [.item 2] ++ Op.b true 1 [.far] ++ Op.b false 0 [.far]
        ++ Op.b true 1 [.item 3, .far, .term] ++ Op.b true 0 [.far] ++ [.enq true 0 [.term]]
        ++ Op.b false 0 [.item 4, .far, .term]
    (run 2 1 false false h).2 = .done ∧ grammarOk (run 2 1 false false h).1 = true := by
  decide

example :
    let h : List (Op Nat) :=
      Op.b true 0 [.item 41, .far, .term] ++ [.enq false 0 [.far]] ++ Op.b false 0 [.item 2]
        ++ [.enq false 0 [.far]] ++ Op.b false 0 [.term]
    (run 1 1 true false h).2 = .done ∧ grammarOk (run 1 1 true false h).1 = true := by
  decide

end Noir.BinaryStart
