/-
  Props/C05BinaryStart.lean — stream grammar (C05) at the output of the binary start
  (`Start<BinaryStartReceiver>`, src/operator/start/binary.rs as of 6c83288 + 14727d5, composed with
  src/operator/start/mod.rs:213-311).

  Proved at full strength for a cached LEFT side (`bstart_grammar`, contract `contractL`) and a cached RIGHT
  side (`bstart_grammar_right`, `contractR`; by the side-exchange argument of Props/C11.lean): for every
  `nL, nR ≥ 1`, every contract-respecting history (any interleaving, any receive timeouts) that has
  returned `Terminate` and every resolution `ch` of the unspecified two-sided `select`, the output is
  `((item|ts|wm|flushBatch)* far)+ term` (`grammarOk`). For EVERY history (cached or not, contract or
  not): `bstart_grammar_partial`, the `Terminate` clause (at most once, last, exactly when the run ended).

  The protocol's own timeout `FlushBatch` is not part of these outputs (the harness stops pulling at it
  and does not print it; a pending watermark announcement released by it is), so the remark of finding
  F11 (a timeout `FlushBatch` between the last `FlushAndRestart` and `Terminate`) neither shows up here
  nor is excluded by this theorem; it is a property of `Start::next`, identical for both receivers. The
  invariant does show that no watermark announcement is pending once a round is closed, so nothing but
  that `FlushBatch` can appear there.

  Still out of reach (not mechanised): the `FlushAndRestart` clause for the UNCACHED binary start (needs its
  own lock-step invariant between the two sides' `missing_flush_and_restart` counters and `Start`'s);
  checked by the oracle on every implementation trace and by `decide` on the instances below.
-/
import NoirVerif.Lemmas.BinaryStart
namespace Noir.BinaryStart

variable {α : Type}

/-- **C05 (binary start, `Terminate` clause; `_partial`).** For every history (cached or not, any
    parallelism, any interleaving, any receive timeouts) from a live `Start`: the output contains
    `Terminate` at most once, as its last element, and it is there exactly when the run ended. -/
theorem bstart_grammar_partial (ch : Nat → Bool) (nL nR : Nat) (lc rc : Bool) (hn : nL + nR ≠ 0)
    (ops : List (Op α)) :
    ((run ch nL nR lc rc ops).2 ≠ .done ∧ Elem.term ∉ (run ch nL nR lc rc ops).1)
    ∨ ((run ch nL nR lc rc ops).2 = .done
        ∧ ∃ pre, (run ch nL nR lc rc ops).1 = pre ++ [Elem.term] ∧ Elem.term ∉ pre) := by
  have := runFrom_term (ch := ch) ops (init nL nR lc rc) 0 (by simpa [init, Noir.Start.init] using hn)
  simpa [run] using this

/-- **C05 (binary start with a cached left side).** Every complete contract-respecting history yields a
    well-formed stream: one or more iterations, each closed by `FlushAndRestart`, then `Terminate` —
    whatever the resolution `ch` of the unspecified choices. -/
theorem bstart_grammar (ch : Nat → Bool) (nL nR : Nat) (ops : List (Op α))
    (hc : contractL nL nR ops = true) (hd : (run ch nL nR true false ops).2 = .done) :
    grammarOk (run ch nL nR true false ops).1 = true :=
  shaped_grammar (run_shaped nL nR ops hc) hd

/-- **C05 (binary start with a cached right side)**: the mirror image (Props/C11.lean). -/
theorem bstart_grammar_right (ch : Nat → Bool) (nL nR : Nat) (ops : List (Op α))
    (hc : contractR nL nR ops = true) (hd : (run ch nL nR false true ops).2 = .done) :
    grammarOk (run ch nL nR false true ops).1 = true :=
  shaped_grammar (run_shaped_right nL nR ops hc) hd

/-- Former findings F6 / F6b (fixed by 6c83288 / 14727d5): the histories that used to put data between
    the last `FlushAndRestart` and `Terminate` now respect the grammar. -/
example :
    let h : List (Op Nat) :=
      Op.b true 0 [.item 41, .far, .term] ++ Op.b false 0 [.far] ++ [.enq false 1 [.far]]
        ++ Op.b false 0 [.term] ++ Op.b false 1 [.term]
    (run (fun _ => true) 1 2 true false h).2 = .done ∧ grammarOk (run (fun _ => true) 1 2 true false h).1 = true := by
  decide

example :
    let h : List (Op Nat) :=
      Op.b true 0 [.item 41, .far, .term] ++ Op.b false 0 [.far] ++ Op.b false 0 [.term]
    (run (fun _ => true) 1 1 true false h).2 = .done ∧ grammarOk (run (fun _ => true) 1 1 true false h).1 = true := by
  decide

/-- the good cases: no cache, two replicas on the left, two iterations, a queued `Terminate`;
    cached side with a single, fast loop-side replica -/
example :
    let h : List (Op Nat) :=
      Op.b true 0 [.item 1, .far] ++ Op.b false 0 [.item 2] ++ Op.b true 1 [.far] ++ Op.b false 0 [.far]
        ++ Op.b true 1 [.item 3, .far, .term] ++ Op.b true 0 [.far] ++ [.enq true 0 [.term]]
        ++ Op.b false 0 [.item 4, .far, .term]
    (run (fun _ => true) 2 1 false false h).2 = .done ∧ grammarOk (run (fun _ => true) 2 1 false false h).1 = true := by
  decide

example :
    let h : List (Op Nat) :=
      Op.b true 0 [.item 41, .far, .term] ++ [.enq false 0 [.far]] ++ Op.b false 0 [.item 2]
        ++ [.enq false 0 [.far]] ++ Op.b false 0 [.term]
    (run (fun _ => true) 1 1 true false h).2 = .done ∧ grammarOk (run (fun _ => true) 1 1 true false h).1 = true := by
  decide

end Noir.BinaryStart
