/-
  Props/C17.lean — watermark progress (C17) at the block input.

  Full-strength statement of the property (NOT provable for the unchanged code, see
  `frontier_progress_counterexample`):

    for every contract-respecting arrival (of any kind) after which the specification frontier
    (`specFront`: min over the replicas that have not ended the iteration of their latest
    watermark) has increased to `f'`, `Start` emits `Watermark(f')` before any later element.

  The code discards the value returned by `watermark_frontier.update(sender, Timestamp::MAX)` when a
  replica ends its iteration (src/operator/start/mod.rs:249-256), so an increase *caused by a replica
  ending* is not announced (finding F5). What is proved: the code's frontier always EQUALS the
  specification frontier (so an ended replica never holds the others back and the next watermark
  arrival announces the right value), and every increase caused by a *watermark* arrival is
  announced immediately — and nothing is announced otherwise.
-/
import NoirVerif.Lemmas.Start
import NoirVerif.Props.C06
namespace Noir.Start
open Noir.StartSpec

variable {α : Type}

/-- **C17 (the frontier is the minimum over the active replicas).** In every state reachable
    through contract-respecting arrivals the frontier held by the code equals the minimum, over the
    replicas that have not yet ended their iteration, of their latest watermark; in particular a
    replica that already finished never holds the others back. -/
theorem ended_replica_never_blocks {s : State} {sp : InSt} {outW : Option Int} (rel : Rel s sp outW) :
    s.frontier.front = specFront sp :=
  front_eq_spec rel

/-- reachability: the relation holds after every contract-respecting prefix (unless terminated) -/
theorem rel_reachable (n : Nat) (hn : 1 ≤ n) (arr : List (Nat × Elem α))
    (hin : inputOk n arr = true) :
    let s := stateAfter (init n) (arr.map (fun p => Arrival.elem p.1 p.2))
    s.missingTerm = 0 ∨ ∃ outW, Rel s (inStateAfter (InSt.init n) arr) outW := by
  suffices h : ∀ (s : State) (sp : InSt) (outW : Option Int),
      (s.missingTerm = 0 ∨ Rel s sp outW) → inputOkFrom sp arr = true →
      (stateAfter s (arr.map (fun p => Arrival.elem p.1 p.2))).missingTerm = 0 ∨
        ∃ outW', Rel (stateAfter s (arr.map (fun p => Arrival.elem p.1 p.2))) (inStateAfter sp arr) outW' by
    exact h (init n) (InSt.init n) none (Or.inr (rel_init n hn)) hin
  clear hin
  induction arr with
  | nil =>
    intro s sp outW h _
    rcases h with h | h
    · exact Or.inl h
    · exact Or.inr ⟨outW, h⟩
  | cons a arr ih =>
    intro s sp outW h hok
    obtain ⟨r, e⟩ := a
    simp only [inputOkFrom] at hok
    cases hs : inStep sp r e with
    | none => rw [hs] at hok; cases hok
    | some sp' =>
      rw [hs] at hok
      simp only [List.map_cons, stateAfter, inStateAfter, hs]
      by_cases hT : s.missingTerm = 0
      · have : step s (Arrival.elem r e) = (s, []) := by simp [step, hT]
        rw [this]
        exact ih s sp' outW (Or.inl hT) hok
      · have rel := h.resolve_left hT
        obtain ⟨_, h2⟩ := step_ok rel hT hs
        exact ih _ sp' _ h2 hok

/-- **C17 (progress caused by watermarks, `_partial`).** In a reachable state, for a
    contract-respecting watermark arrival: if the specification frontier changes, `Start` emits
    exactly one watermark, equal to the new minimum, as the output of that very arrival (hence
    before any later element); if it does not change, nothing is emitted. -/
theorem frontier_progress_partial {s : State} {sp sp' : InSt} {outW : Option Int} {r : Nat} {t : Int}
    (rel : Rel s sp outW) (hT : s.missingTerm ≠ 0)
    (hin : inStep sp r (Elem.wm t : Elem α) = some sp') :
    (step s (.elem r (Elem.wm t : Elem α))).2 =
      (if specFront sp' = specFront sp then []
       else match specFront sp' with | some f' => [.wm f'] | none => []) := by
  obtain ⟨_, h2⟩ := step_ok (α := α) rel hT hin
  have hT' : (step s (.elem r (Elem.wm t : Elem α))).1.missingTerm ≠ 0 := by
    simp only [step, hT, if_false]; exact hT
  have rel' := h2.resolve_left hT'
  have hf := front_eq_spec rel
  have hf' := front_eq_spec rel'
  rw [← hf, ← hf']
  simp only [step, hT, if_false]
  rcases update_cases s.frontier r t with hu | ⟨x, _, _, hu⟩
  · rw [hu]; simp
  · rw [hu]
    simp only
    cases h1 : s.frontier.front with
    | none =>
      cases h2 : compute (s.frontier.latest.set r (some t)) with
      | none => simp [announce]
      | some f' => simp [announce]
    | some f =>
      cases h2 : compute (s.frontier.latest.set r (some t)) with
      | none => simp [announce]
      | some f' =>
        by_cases heq : f = f'
        · simp [announce, heq]
        · have : ¬ (f' = f) := fun h => heq h.symm
          simp [announce, heq, this]

/-- **F5 — the full-strength progress statement is false for the unchanged code.** Two replicas;
    replica 0 announces 20, replica 1 announces 100, then replica 0 ends its iteration: the minimum
    over the active replicas rises from 20 to 100, nothing is emitted, and the next data element
    of replica 1 (timestamp 150) is observed with last watermark 20. The history respects the
    contract. -/
theorem frontier_progress_counterexample :
    let pre : List (Nat × Elem Nat) := [(0, .wm 20), (1, .wm 100)]
    let arr := pre ++ [(0, .far), (1, .ts 7 150)]
    inputOk 2 arr = true ∧
    specFront (inStateAfter (InSt.init 2) pre) = some 20 ∧
    specFront (inStateAfter (InSt.init 2) (pre ++ [(0, .far)])) = some 100 ∧
    run 2 (arr.map (fun p => Arrival.elem p.1 p.2)) = [.wm 20, .ts 7 150] := by
  decide

/-- Non-vacuity of `frontier_progress_partial`: a reachable state and a watermark arrival that
    raises the minimum from 20 to 100. -/
example :
    let pre : List (Nat × Elem Nat) := [(0, .wm 20), (1, .wm 100)]
    let arr : List (Nat × Elem Nat) := pre ++ [(0, .wm 110)]
    inputOk 2 arr = true ∧
    run 2 (arr.map (fun p => Arrival.elem p.1 p.2)) = [.wm 20, .wm 100] := by
  decide

end Noir.Start
