/-
  Props/C17.lean — watermark progress (C17) at the block input.

  Property: whenever the minimum, over the upstream replicas that have not yet ended their
  iteration, of their latest watermark increases, the block's operators observe a watermark equal to
  the new minimum before any later element.

  What the code does after the fix of finding F5 (/repo, `fix: Start announces a frontier increase
  caused by a replica ending its iteration`): an increase caused by a *watermark* arrival is
  announced immediately; an increase caused by a *replica ending its iteration* is remembered
  (`pending_watermark`) and announced right before the next data element, or when the block goes idle
  (receive timeout → `FlushBatch`), unless a later watermark arrival supersedes it with a larger
  announcement. (An eager announcement at the replica's `FlushAndRestart` would contradict the
  repository's unit test `test_single_watermark`.) The theorems below state exactly this:
  `frontier_told_is_spec` (invariant: told-or-pending = specification frontier in every reachable
  state), `frontier_progress` (every data element is observed with the current minimum),
  `frontier_progress_idle` (so is every idle flush), `frontier_progress_watermark` (watermark arrivals
  announce immediately, exactly the new minimum, nothing otherwise). Not covered by an announcement:
  the interval between a replica's end and the next data element / timeout / watermark of the block —
  in batch modes without timeout (`Fixed`, `Single`) that interval ends only with the next arrival.
-/
import NoirVerif.Lemmas.Start
import NoirVerif.Props.C06
namespace Noir.Start
open Noir.StartSpec

variable {α : Type}

/-- **C17 (the frontier is the minimum over the active replicas).** In every state reachable
    through contract-respecting arrivals the frontier held by the code equals the minimum, over the
    replicas that have not yet ended their iteration, of their latest watermark; in particular a
    replica that already finished never holds the others back. -/
theorem ended_replica_never_blocks {s : State} {sp : InSt} {outW : Option Int} (rel : Rel s sp outW) :
    s.frontier.front = specFront sp :=
  front_eq_spec rel

/-- reachability: the relation holds after every contract-respecting prefix (unless terminated) -/
theorem rel_reachable (n : Nat) (hn : 1 ≤ n) (arr : List (Nat × Elem α))
    (hin : inputOk n arr = true) :
    let s := stateAfter (init n) (arr.map (fun p => Arrival.elem p.1 p.2))
    s.missingTerm = 0 ∨ ∃ outW, Rel s (inStateAfter (InSt.init n) arr) outW := by
  suffices h : ∀ (s : State) (sp : InSt) (outW : Option Int),
      (s.missingTerm = 0 ∨ Rel s sp outW) → inputOkFrom sp arr = true →
      (stateAfter s (arr.map (fun p => Arrival.elem p.1 p.2))).missingTerm = 0 ∨
        ∃ outW', Rel (stateAfter s (arr.map (fun p => Arrival.elem p.1 p.2))) (inStateAfter sp arr) outW' by
    exact h (init n) (InSt.init n) none (Or.inr (rel_init n hn)) hin
  clear hin
  induction arr with
  | nil =>
    intro s sp outW h _
    rcases h with h | h
    · exact Or.inl h
    · exact Or.inr ⟨outW, h⟩
  | cons a arr ih =>
    intro s sp outW h hok
    obtain ⟨r, e⟩ := a
    simp only [inputOkFrom] at hok
    cases hs : inStep sp r e with
    | none => rw [hs] at hok; cases hok
    | some sp' =>
      rw [hs] at hok
      simp only [List.map_cons, stateAfter, inStateAfter, hs]
      by_cases hT : s.missingTerm = 0
      · have : step s (Arrival.elem r e) = (s, []) := by simp [step, hT]
        rw [this]
        exact ih s sp' outW (Or.inl hT) hok
      · have rel := h.resolve_left hT
        obtain ⟨_, h2⟩ := step_ok rel hT hs
        exact ih _ sp' _ h2 hok

/-- what the block has been told (last watermark emitted in this iteration) or is about to be told
    (the pending announcement) -/
def told (s : State) (outW : Option Int) : Option Int :=
  match s.pending with | some p => some p | none => outW

/-- **C17 (nothing is withheld, invariant form).** In every state reachable through
    contract-respecting arrivals, the last watermark the block has observed in this iteration —
    or the announcement that is pending and will be emitted before the next data element — equals
    the specification frontier: the minimum over the replicas that have not ended their iteration of
    their latest watermark. -/
theorem frontier_told_is_spec {s : State} {sp : InSt} {outW : Option Int} (rel : Rel s sp outW) :
    told s outW = specFront sp := by
  have he := rel.eff
  have hf := front_eq_spec rel
  unfold told
  cases hp : s.pending with
  | none => rw [hp] at he; simp only at he ⊢; rw [← he]; exact hf
  | some p => rw [hp] at he; simp only at he ⊢; rw [← he]; exact hf

/-- **C17 (progress at data elements).** For every contract-respecting arrival of a data element in
    a reachable state, the output is the element itself, preceded by a watermark exactly when an
    announcement was pending, and the last watermark observed by the block's operators when they
    see the element equals the current minimum over the active replicas — whatever caused the last
    increase (a watermark arrival or a replica ending its iteration). -/
theorem frontier_progress {s : State} {sp sp' : InSt} {outW : Option Int} {r : Nat} {e : Elem α}
    (rel : Rel s sp outW) (hT : s.missingTerm ≠ 0) (hd : e.isData = true)
    (hin : inStep sp r e = some sp') :
    ∃ pre, (step s (.elem r e)).2 = pre ++ [e] ∧ (pre = [] ∨ ∃ p, pre = [.wm p]) ∧
      wmAfter outW pre = specFront sp ∧ specFront sp' = specFront sp := by
  have htold := frontier_told_is_spec rel
  obtain ⟨_, h2⟩ := step_ok (α := α) rel hT hin
  have hspec : specFront sp' = specFront sp := by
    -- a data arrival does not touch the frontier
    have hT' : (step s (.elem r e)).1.missingTerm ≠ 0 := by
      cases e with
      | item a => simp only [step, hT, if_false]; cases s.pending <;> exact hT
      | ts a t => simp only [step, hT, if_false]; cases s.pending <;> exact hT
      | wm t => simp [Elem.isData] at hd
      | far => simp [Elem.isData] at hd
      | term => simp [Elem.isData] at hd
      | flushBatch => simp [Elem.isData] at hd
    have rel' := h2.resolve_left hT'
    have hfr : (step s (.elem r e)).1.frontier = s.frontier := by
      cases e with
      | item a => simp only [step, hT, if_false]; cases s.pending <;> rfl
      | ts a t => simp only [step, hT, if_false]; cases s.pending <;> rfl
      | wm t => simp [Elem.isData] at hd
      | far => simp [Elem.isData] at hd
      | term => simp [Elem.isData] at hd
      | flushBatch => simp [Elem.isData] at hd
    rw [← front_eq_spec rel', ← front_eq_spec rel, hfr]
  unfold told at htold
  cases e with
  | item a =>
    simp only [step, hT, if_false]
    cases hp : s.pending with
    | none =>
      rw [hp] at htold
      exact ⟨[], by simp, Or.inl rfl, by simpa [wmAfter] using htold, hspec⟩
    | some p =>
      rw [hp] at htold
      exact ⟨[.wm p], by simp, Or.inr ⟨p, rfl⟩, by simpa [wmAfter] using htold, hspec⟩
  | ts a t =>
    simp only [step, hT, if_false]
    cases hp : s.pending with
    | none =>
      rw [hp] at htold
      exact ⟨[], by simp, Or.inl rfl, by simpa [wmAfter] using htold, hspec⟩
    | some p =>
      rw [hp] at htold
      exact ⟨[.wm p], by simp, Or.inr ⟨p, rfl⟩, by simpa [wmAfter] using htold, hspec⟩
  | wm t => simp [Elem.isData] at hd
  | far => simp [Elem.isData] at hd
  | term => simp [Elem.isData] at hd
  | flushBatch => simp [Elem.isData] at hd

/-- **C17 (progress when the block goes idle).** When the receive times out in a reachable state,
    the block first emits the pending announcement (if any) and then the `FlushBatch`; at that
    `FlushBatch` the last watermark observed equals the current minimum over the active replicas. -/
theorem frontier_progress_idle {s : State} {sp : InSt} {outW : Option Int}
    (rel : Rel s sp outW) (hT : s.missingTerm ≠ 0) :
    ∃ pre, (step s (Arrival.timeout : Arrival α)).2 = pre ++ [.flushBatch] ∧
      (pre = [] ∨ ∃ p, pre = [.wm p]) ∧ wmAfter outW pre = specFront sp := by
  have htold := frontier_told_is_spec rel
  unfold told at htold
  simp only [step, hT, if_false]
  cases hp : s.pending with
  | none =>
    rw [hp] at htold
    exact ⟨[], by simp, Or.inl rfl, by simpa [wmAfter] using htold⟩
  | some p =>
    rw [hp] at htold
    exact ⟨[.wm p], by simp, Or.inr ⟨p, rfl⟩, by simpa [wmAfter] using htold⟩

/-- **C17 (increases caused by watermarks are announced immediately).** For a contract-respecting
    watermark arrival: if the specification frontier changes, `Start` emits exactly one watermark,
    equal to the new minimum, as the output of that very arrival; otherwise nothing. -/
theorem frontier_progress_watermark {s : State} {sp sp' : InSt} {outW : Option Int} {r : Nat} {t : Int}
    (rel : Rel s sp outW) (hT : s.missingTerm ≠ 0)
    (hin : inStep sp r (Elem.wm t : Elem α) = some sp') :
    (step s (.elem r (Elem.wm t : Elem α))).2 =
      (if specFront sp' = specFront sp then []
       else match specFront sp' with | some f' => [.wm f'] | none => []) := by
  obtain ⟨_, h2⟩ := step_ok (α := α) rel hT hin
  have hT' : (step s (.elem r (Elem.wm t : Elem α))).1.missingTerm ≠ 0 := by
    simp only [step, hT, if_false]
    rcases hu : s.frontier.update r t with ⟨f, o⟩
    cases o <;> exact hT
  have rel' := h2.resolve_left hT'
  have hf := front_eq_spec rel
  have hf' := front_eq_spec rel'
  rw [← hf, ← hf']
  simp only [step, hT, if_false]
  rcases update_cases s.frontier r t with hu | ⟨x, _, _, hu⟩
  · rw [hu]; simp
  · rw [hu]
    simp only
    cases h1 : s.frontier.front with
    | none =>
      cases h2 : compute (s.frontier.latest.set r (some t)) with
      | none => simp [announce]
      | some f' => simp [announce]
    | some f =>
      cases h2 : compute (s.frontier.latest.set r (some t)) with
      | none => simp [announce]
      | some f' =>
        by_cases heq : f = f'
        · simp [announce, heq]
        · have : ¬ (f' = f) := fun h => heq h.symm
          simp [announce, heq, this]

/-- The former F5 witness (fixed in /repo): two replicas; replica 0 announces 20, replica 1
    announces 100, replica 0 ends its iteration — the minimum over the active replicas rises from 20
    to 100 — and the next data element of replica 1 (timestamp 150) is now preceded by
    `Watermark(100)`. -/
example :
    let pre : List (Nat × Elem Nat) := [(0, .wm 20), (1, .wm 100)]
    let arr := pre ++ [(0, .far), (1, .ts 7 150)]
    inputOk 2 arr = true ∧
    specFront (inStateAfter (InSt.init 2) pre) = some 20 ∧
    specFront (inStateAfter (InSt.init 2) (pre ++ [(0, .far)])) = some 100 ∧
    run 2 (arr.map (fun p => Arrival.elem p.1 p.2)) = [.wm 20, .wm 100, .ts 7 150] := by
  decide

/-- a later watermark supersedes a pending announcement (behaviour pinned by the repository's unit
    test `test_single_watermark`) -/
example :
    let arr : List (Nat × Elem Nat) := [(0, .wm 20), (1, .wm 100), (0, .far), (1, .wm 110)]
    inputOk 2 arr = true ∧
    run 2 (arr.map (fun p => Arrival.elem p.1 p.2)) = [.wm 20, .wm 110] := by
  decide

end Noir.Start
