/-
  Props/C06.lean — watermark safety (C06): property theorems for the block input (`Start` +
  `WatermarkFrontier`). Operator-level preservation theorems live in the Props files of the
  respective operators (fold, reorder, windows, …) and are registered under C06 in checks.d.
-/
import NoirVerif.Lemmas.Start
namespace Noir.Start
open Noir.StartSpec

variable {α : Type}

/-- the upstream arrivals of an arrival sequence (receive timeouts projected away) -/
def elemsOf : List (Arrival α) → List (Nat × Elem α)
  | [] => []
  | .elem r e :: as => (r, e) :: elemsOf as
  | .timeout :: as => elemsOf as

/-- Generalised statement: from any pair of related states. -/
theorem start_wmsafe_from (as : List (Arrival α)) :
    ∀ (s : State) (sp : InSt) (outW : Option Int),
      (s.missingTerm = 0 ∨ Rel s sp outW) → inputOkFrom sp (elemsOf as) = true →
      wmSafeGo outW (outs s as) = true := by
  induction as with
  | nil => intro s sp outW _ _; simp [outs, runFrom, wmSafeGo]
  | cons a as ih =>
    intro s sp outW hrel hin
    by_cases hT : s.missingTerm = 0
    · rw [outs_terminated s hT]; simp [wmSafeGo]
    · have rel : Rel s sp outW := hrel.resolve_left hT
      rw [outs_cons, wmSafeGo_append]
      cases a with
      | timeout =>
        obtain ⟨h1, _, h3⟩ := timeout_ok (α := α) rel hT
        rw [h1, Bool.true_and]
        exact ih _ sp _ (Or.inr h3) (by simpa [elemsOf] using hin)
      | elem r e =>
        simp only [elemsOf, inputOkFrom] at hin
        cases hs : inStep sp r e with
        | none => rw [hs] at hin; cases hin
        | some sp' =>
          rw [hs] at hin
          obtain ⟨h1, h2⟩ := step_ok rel hT hs
          rw [h1, Bool.true_and]
          exact ih _ sp' _ h2 hin

/-- **C06 (block input).** For every number `n ≥ 1` of upstream replicas and every arrival
    schedule (any interleaving of the replicas' batches, any receive timeouts) whose links respect
    the contract (`inputOk`: each link watermark-safe, iterations synchronised), the sequence the
    `Start` operator hands to the block never contains, within an iteration, an element with
    timestamp ≤ an earlier watermark nor a second watermark ≤ an earlier one. -/
theorem start_wmsafe (n : Nat) (hn : 1 ≤ n) (as : List (Arrival α))
    (hin : inputOk n (elemsOf as) = true) : wmSafeOk (run n as) = true := by
  unfold wmSafeOk run
  rw [runFrom_map_snd]
  exact start_wmsafe_from as (init n) (InSt.init n) none (Or.inr (rel_init n hn)) hin

/-- **C06 (only the minimum is forwarded).** Whenever the frontier announces a watermark `f`,
    every upstream replica has sent a watermark ≥ `f` (or ended the iteration), and `f` is the
    latest watermark of one of them. -/
theorem frontier_is_min (fr : Frontier) (r : Nat) (t f : Int) (h : (fr.update r t).2 = some f) :
    (∀ x ∈ (fr.update r t).1.latest, ∃ w, x = some w ∧ f ≤ w) ∧ some f ∈ (fr.update r t).1.latest := by
  rcases update_cases fr r t with hu | ⟨x, hx, _, hu⟩
  · rw [hu] at h; cases h
  · rw [hu] at h ⊢
    have hfront := announce_some h
    obtain ⟨hall, hmem, hlow⟩ := compute_some hfront
    refine ⟨?_, hmem⟩
    intro y hy
    have := hall y hy
    cases y with
    | none => simp at this
    | some w => exact ⟨w, rfl, hlow w hy⟩

/-- **C06 (frontier monotone).** The successive values of the frontier within an iteration never
    decrease, and an announced value is strictly above the previously computed frontier. -/
theorem frontier_monotone (fr : Frontier) (r : Nat) (t : Int) (f f' : Int)
    (hinv : fr.front = compute fr.latest) (hf : fr.front = some f)
    (hf' : (fr.update r t).1.front = some f') : f ≤ f' := by
  rcases update_cases fr r t with hu | ⟨x, hx, hfresh, hu⟩
  · rw [hu] at hf'; rw [hf] at hf'; cases hf'; exact Int.le_refl _
  · rw [hu] at hf'
    rw [hinv] at hf
    exact compute_set_mono hx (fun t0 h0 => by have := hfresh t0 h0; omega) hf hf'

/-- Non-vacuity / concrete instance: two replicas, watermarks 20 and 100, then replica 0 sends
    110 — only min = 20, then 100 are forwarded; the contract holds for this history. -/
example :
    let as : List (Arrival Nat) :=
      [.elem 0 (.ts 42 10), .elem 0 (.wm 20), .elem 1 (.wm 100), .elem 0 (.wm 110), .elem 0 .far, .elem 1 .far]
    inputOk 2 (elemsOf as) = true ∧ run 2 as = [.ts 42 10, .wm 20, .wm 100, .far] := by
  decide

end Noir.Start
