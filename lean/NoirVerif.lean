-- Root of the `NoirVerif` library: model, lemmas, property theorems.
import NoirVerif.Model.Elem
import NoirVerif.Model.CountWindow
