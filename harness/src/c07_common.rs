//! Shared by the `fold`, `kfold` and `reorder` harness binaries (included with `#[path]`):
//! a pull-counting probe operator, the pull loop, the finite user-function library mirrored in
//! `lean/Driver/Fold.lean`, and the grammar-respecting script generator.
#![allow(dead_code)]
use std::fmt::Display;
use std::sync::atomic::{AtomicUsize, Ordering};
use std::sync::Arc;

use nvh::*;
use renoir::operator::{Operator, StreamElement};
use renoir::structure::BlockStructure;
use renoir::verif::{Coord, FakeNet};
use renoir::{BatchMode, ExecutionMetadata};

/// Transparent operator counting how many times the operator under test pulled from upstream.
#[derive(Clone)]
pub struct Probe<Op> {
    prev: Op,
    pulls: Arc<AtomicUsize>,
}

impl<Op> Probe<Op> {
    pub fn new(prev: Op) -> (Self, Arc<AtomicUsize>) {
        let pulls = Arc::new(AtomicUsize::new(0));
        (
            Probe {
                prev,
                pulls: pulls.clone(),
            },
            pulls,
        )
    }
}

impl<Op: Display> Display for Probe<Op> {
    fn fmt(&self, f: &mut std::fmt::Formatter<'_>) -> std::fmt::Result {
        write!(f, "{} -> Probe", self.prev)
    }
}

impl<Op: Operator> Operator for Probe<Op> {
    type Out = Op::Out;
    fn setup(&mut self, metadata: &mut ExecutionMetadata) {
        self.prev.setup(metadata)
    }
    fn next(&mut self) -> StreamElement<Op::Out> {
        self.pulls.fetch_add(1, Ordering::SeqCst);
        self.prev.next()
    }
    fn structure(&self) -> BlockStructure {
        self.prev.structure()
    }
}

impl<Op: renoir::operator::source::Source> renoir::operator::source::Source for Probe<Op> {
    fn replication(&self) -> renoir::Replication {
        self.prev.replication()
    }
}

/// `setup` through a fake single-replica network, then pull `next()` until `Terminate`; every
/// output is recorded with the index of the last upstream element pulled before it was returned.
pub fn drive<Op: Operator>(
    mut op: Op,
    pulls: &AtomicUsize,
    to_val: impl Fn(Op::Out) -> Val,
) -> Vec<(usize, StreamElement<Val>)> {
    let me = Coord::new(0, 0, 0);
    FakeNet::new(me).with_metadata(vec![me], 0, BatchMode::fixed(8), |m| op.setup(m));
    let mut out = vec![];
    for _ in 0..100_000 {
        let e = op.next();
        let idx = pulls.load(Ordering::SeqCst).saturating_sub(1);
        let stop = matches!(e, StreamElement::Terminate);
        out.push((idx, e.map(&to_val)));
        if stop {
            return out;
        }
    }
    panic!("operator did not terminate");
}

pub fn fmt_out(out: &[(usize, StreamElement<Val>)]) -> Vec<String> {
    out.iter().map(|(i, e)| format!("{i} {}", fmt_elem(e))).collect()
}

pub fn parse_script(c: &Case) -> Vec<StreamElement<Val>> {
    c.ops
        .iter()
        .filter(|op| op[0] == "e")
        .map(|op| parse_elem(&op[1]).expect("bad elem"))
        .collect()
}

// ------------------------------------------------------------------------------------------------
// user-function library (mirrored by `Noir.Driver.Fold.lib`)

pub const FNS: &[&str] = &["sum", "count", "list", "rmax", "minel", "maxel", "gsum", "avg"];

fn some(v: Val) -> Val {
    Val::Some(Box::new(v))
}

fn fst(v: &Val) -> i64 {
    match v {
        Val::Tup(l) => l[0].int(),
        _ => panic!("not a tuple: {v}"),
    }
}

/// `(init, f)`; the shapes are those built in `operator/mod.rs` (reduce: 1590-1592,
/// group_by_min/max_element through group_by_reduce: 1185-1189, 1403-1407, 1464-1467,
/// group_by_sum global: 1244-1251, group_by_avg local: 1301-1307).
pub fn lib(name: &str) -> (Val, fn(&mut Val, Val)) {
    match name {
        "sum" => (Val::Int(0), |a, v| *a = Val::Int(a.int() + v.int())),
        "count" => (Val::Int(0), |a, _| *a = Val::Int(a.int() + 1)),
        "list" => (Val::List(vec![]), |a, v| {
            if let Val::List(l) = a {
                l.push(v)
            }
        }),
        "rmax" => (Val::None, |acc, b| {
            let cur = std::mem::replace(acc, Val::None);
            *acc = some(if let Val::Some(a) = cur {
                if b.int() > a.int() {
                    b
                } else {
                    *a
                }
            } else {
                b
            })
        }),
        "minel" => (Val::None, |acc, value| match acc {
            Val::None => *acc = some(value),
            Val::Some(out) => {
                if fst(&value) < fst(out) {
                    **out = value
                }
            }
            _ => panic!("bad acc"),
        }),
        "maxel" => (Val::None, |acc, value| match acc {
            Val::None => *acc = some(value),
            Val::Some(out) => {
                if fst(&value) > fst(out) {
                    **out = value
                }
            }
            _ => panic!("bad acc"),
        }),
        "gsum" => (Val::None, |acc, value| match acc {
            Val::None => *acc = value,
            Val::Some(a) => {
                if let Val::Some(v) = value {
                    **a = Val::Int(a.int() + v.int())
                }
            }
            _ => panic!("bad acc"),
        }),
        "avg" => (Val::Tup(vec![Val::None, Val::Int(0)]), |acc, value| {
            if let Val::Tup(l) = acc {
                l[1] = Val::Int(l[1].int() + 1);
                l[0] = match &l[0] {
                    Val::Some(s) => some(Val::Int(s.int() + value.int())),
                    _ => some(value),
                };
            }
        }),
        _ => panic!("unknown function {name}"),
    }
}

/// a payload suitable for function `name`; `uniq` makes payloads distinguishable
pub fn payload(rng: &mut Rng, name: &str, uniq: i64) -> Val {
    match name {
        "minel" | "maxel" => Val::Tup(vec![Val::Int(rng.range(0, 3)), Val::Int(uniq)]),
        "gsum" => {
            if rng.chance(1, 4) {
                Val::None
            } else {
                some(Val::Int(rng.range(-5, 20)))
            }
        }
        "list" => Val::Int(uniq),
        _ => Val::Int(rng.range(-5, 20)),
    }
}

// ------------------------------------------------------------------------------------------------
// scripts

#[derive(Clone, Copy, PartialEq, Eq)]
pub enum IterKind {
    Empty,
    Control,
    Items,
    Stamped,
    Mixed,
}

pub struct ScriptCfg {
    /// maximum number of data elements per iteration
    pub max_len: i64,
    /// break the watermark contract now and then (late elements, non-monotone watermarks)
    pub allow_unsafe: bool,
    /// break the grammar now and then (missing FAR / TERM, elements after TERM)
    pub allow_malformed: bool,
    /// probability (x/16) that a timestamp repeats an earlier one of the iteration
    pub dup16: u64,
}

/// Grammar-respecting random script: 1-4 iterations, each ended by FAR, finally TERM.
/// `data(rng, seq)` produces the payload of the `seq`-th data element of the case.
pub fn gen_script(
    rng: &mut Rng,
    cfg: &ScriptCfg,
    mut data: impl FnMut(&mut Rng, i64) -> Val,
) -> Vec<StreamElement<Val>> {
    let mut s = vec![];
    let iters = rng.range(1, 4);
    let unsafe_case = cfg.allow_unsafe && rng.chance(1, 10);
    let malformed = cfg.allow_malformed && rng.chance(1, 16);
    let mut seq = 0i64;
    for it in 0..iters {
        let kind = match rng.below(10) {
            0 => IterKind::Empty,
            1 => IterKind::Control,
            2..=4 => IterKind::Items,
            5..=8 => IterKind::Stamped,
            _ => IterKind::Mixed,
        };
        let len = match kind {
            IterKind::Empty | IterKind::Control => 0,
            _ => match rng.below(5) {
                0 => 1,
                1 => rng.range(0, 3),
                _ => rng.range(1, cfg.max_len),
            },
        };
        // timestamps restart in every iteration (the contract is per iteration)
        let mut last_wm: Option<i64> = None;
        let mut seen: Vec<i64> = vec![];
        let base = rng.range(-3, 50);
        if kind == IterKind::Control {
            for _ in 0..rng.range(1, 4) {
                if rng.chance(1, 2) {
                    s.push(StreamElement::FlushBatch);
                } else {
                    let w = last_wm.map(|w| w + rng.range(1, 5)).unwrap_or(base);
                    last_wm = Some(w);
                    s.push(StreamElement::Watermark(w));
                }
            }
        }
        for _ in 0..len {
            seq += 1;
            let v = data(rng, seq);
            let stamped = match kind {
                IterKind::Stamped => true,
                IterKind::Mixed => rng.chance(1, 2),
                _ => false,
            };
            if stamped {
                let lo = last_wm.map(|w| w + 1).unwrap_or(base);
                let mut t = if !seen.is_empty() && rng.below(16) < cfg.dup16 {
                    *rng.pick(&seen)
                } else {
                    lo + rng.range(0, 12)
                };
                if t < lo {
                    t = lo;
                }
                if unsafe_case && rng.chance(1, 4) {
                    t = lo - rng.range(1, 4); // late element
                }
                seen.push(t);
                s.push(StreamElement::Timestamped(v, t));
            } else {
                s.push(StreamElement::Item(v));
            }
            if rng.chance(1, 10) {
                s.push(StreamElement::FlushBatch);
            }
            if (kind == IterKind::Stamped || kind == IterKind::Mixed) && rng.chance(1, 4) {
                let lo = last_wm.map(|w| w + 1).unwrap_or(base - 2);
                let mut w = match rng.below(4) {
                    0 if !seen.is_empty() => *rng.pick(&seen), // equal to an element's timestamp
                    1 if !seen.is_empty() => *seen.iter().max().unwrap(),
                    2 if !seen.is_empty() => *seen.iter().min().unwrap() - 1,
                    _ => lo + rng.range(0, 8),
                };
                if w < lo {
                    w = lo;
                }
                if unsafe_case && rng.chance(1, 3) {
                    w = lo - 1 - rng.range(0, 2); // repeated / decreasing watermark
                }
                last_wm = Some(w);
                s.push(StreamElement::Watermark(w));
                if rng.chance(1, 8) {
                    // repeated watermark (strictly: the next admissible one)
                    let w2 = if unsafe_case { w } else { w + 1 };
                    last_wm = Some(w2);
                    s.push(StreamElement::Watermark(w2));
                }
            }
        }
        if malformed && it + 1 == iters && rng.chance(1, 2) {
            // the last iteration is not closed by FAR
        } else {
            s.push(StreamElement::FlushAndRestart);
        }
    }
    if malformed && rng.chance(1, 3) {
        // no TERM at all: ScriptOp yields Terminate when exhausted
    } else {
        s.push(StreamElement::Terminate);
        if malformed && rng.chance(1, 2) {
            s.push(StreamElement::Item(data(rng, seq + 1)));
            s.push(StreamElement::FlushAndRestart);
        }
    }
    s
}

pub fn script_case(header: &[&str], script: &[StreamElement<Val>]) -> Case {
    let mut c = Case::new(header);
    for e in script {
        c.ops(vec!["e".into(), fmt_elem(e)]);
    }
    c
}

/// sort every maximal run of data elements pulled at the same upstream index (the unit whose
/// order is the hash map's)
pub fn canon_runs(out: &mut [(usize, StreamElement<Val>)]) {
    let is_data = |e: &StreamElement<Val>| {
        matches!(e, StreamElement::Item(_) | StreamElement::Timestamped(_, _))
    };
    let mut i = 0;
    while i < out.len() {
        if !is_data(&out[i].1) {
            i += 1;
            continue;
        }
        let mut j = i;
        while j < out.len() && is_data(&out[j].1) && out[j].0 == out[i].0 {
            j += 1;
        }
        out[i..j].sort_by_key(|(_, e)| fmt_elem(e));
        i = j;
    }
}
