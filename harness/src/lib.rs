//! Shared pieces of the correspondence harness: PRNG, wire values, case files, runner.

use std::fmt::{self, Display};
use std::io::{BufRead, Write};
use std::panic::{catch_unwind, AssertUnwindSafe};

use renoir::operator::StreamElement;
use serde::{Deserialize, Serialize};

/// splitmix64: one u64 seed reproduces a whole run.
#[derive(Clone)]
pub struct Rng(pub u64);

impl Rng {
    pub fn new(seed: u64) -> Self {
        Rng(seed.wrapping_mul(0x9E3779B97F4A7C15) ^ 0xD1B54A32D192ED03)
    }
    pub fn next(&mut self) -> u64 {
        self.0 = self.0.wrapping_add(0x9E3779B97F4A7C15);
        let mut z = self.0;
        z = (z ^ (z >> 30)).wrapping_mul(0xBF58476D1CE4E5B9);
        z = (z ^ (z >> 27)).wrapping_mul(0x94D049BB133111EB);
        z ^ (z >> 31)
    }
    /// uniform in [0, n)
    pub fn below(&mut self, n: u64) -> u64 {
        if n == 0 {
            0
        } else {
            self.next() % n
        }
    }
    /// uniform in [lo, hi]
    pub fn range(&mut self, lo: i64, hi: i64) -> i64 {
        lo + self.below((hi - lo + 1) as u64) as i64
    }
    pub fn chance(&mut self, num: u64, den: u64) -> bool {
        self.below(den) < num
    }
    pub fn pick<'a, T>(&mut self, xs: &'a [T]) -> &'a T {
        &xs[self.below(xs.len() as u64) as usize]
    }
    pub fn fork(&mut self) -> Rng {
        Rng::new(self.next())
    }
}

/// Universal payload value (mirrors `Noir.Driver.Val`).
#[derive(Clone, Debug, PartialEq, Eq, Hash, PartialOrd, Ord, Serialize, Deserialize)]
pub enum Val {
    Int(i64),
    Tup(Vec<Val>),
    List(Vec<Val>),
    None,
    Some(Box<Val>),
    Left(Box<Val>),
    Right(Box<Val>),
    LeftEnd,
    RightEnd,
}

impl Default for Val {
    fn default() -> Self {
        Val::Int(0)
    }
}

impl Display for Val {
    fn fmt(&self, f: &mut fmt::Formatter<'_>) -> fmt::Result {
        fn seq(f: &mut fmt::Formatter<'_>, l: &[Val], o: char, c: char) -> fmt::Result {
            write!(f, "{o}")?;
            for (i, v) in l.iter().enumerate() {
                if i > 0 {
                    write!(f, ",")?;
                }
                write!(f, "{v}")?;
            }
            write!(f, "{c}")
        }
        match self {
            Val::Int(n) => write!(f, "{n}"),
            Val::Tup(l) => seq(f, l, '(', ')'),
            Val::List(l) => seq(f, l, '[', ']'),
            Val::None => write!(f, "N"),
            Val::Some(v) => write!(f, "S{v}"),
            Val::Left(v) => write!(f, "L{v}"),
            Val::Right(v) => write!(f, "R{v}"),
            Val::LeftEnd => write!(f, "LE"),
            Val::RightEnd => write!(f, "RE"),
        }
    }
}

impl Val {
    pub fn int(&self) -> i64 {
        match self {
            Val::Int(n) => *n,
            _ => panic!("not an int: {self}"),
        }
    }
    pub fn ints(l: impl IntoIterator<Item = i64>) -> Val {
        Val::List(l.into_iter().map(Val::Int).collect())
    }
    pub fn pair(a: Val, b: Val) -> Val {
        Val::Tup(vec![a, b])
    }
    pub fn opt(v: Option<Val>) -> Val {
        match v {
            Some(v) => Val::Some(Box::new(v)),
            None => Val::None,
        }
    }
    pub fn parse(s: &str) -> Option<Val> {
        let cs: Vec<char> = s.chars().collect();
        let (v, rest) = parse_val(&cs)?;
        if rest.is_empty() {
            Some(v)
        } else {
            None
        }
    }
}

fn parse_val(cs: &[char]) -> Option<(Val, &[char])> {
    match cs {
        ['N', rest @ ..] => Some((Val::None, rest)),
        ['S', rest @ ..] => parse_val(rest).map(|(v, r)| (Val::Some(Box::new(v)), r)),
        ['L', 'E', rest @ ..] => Some((Val::LeftEnd, rest)),
        ['R', 'E', rest @ ..] => Some((Val::RightEnd, rest)),
        ['L', rest @ ..] => parse_val(rest).map(|(v, r)| (Val::Left(Box::new(v)), r)),
        ['R', rest @ ..] => parse_val(rest).map(|(v, r)| (Val::Right(Box::new(v)), r)),
        ['(', rest @ ..] => parse_seq(')', rest).map(|(l, r)| (Val::Tup(l), r)),
        ['[', rest @ ..] => parse_seq(']', rest).map(|(l, r)| (Val::List(l), r)),
        _ => {
            let mut i = 0;
            if cs.first() == Some(&'-') {
                i = 1;
            }
            let start = i;
            while i < cs.len() && cs[i].is_ascii_digit() {
                i += 1;
            }
            if i == start {
                return None;
            }
            let s: String = cs[..i].iter().collect();
            Some((Val::Int(s.parse().ok()?), &cs[i..]))
        }
    }
}

fn parse_seq(close: char, mut cs: &[char]) -> Option<(Vec<Val>, &[char])> {
    let mut out = vec![];
    if cs.first() == Some(&close) {
        return Some((out, &cs[1..]));
    }
    loop {
        let (v, rest) = parse_val(cs)?;
        out.push(v);
        match rest.first() {
            Some(',') => cs = &rest[1..],
            Some(c) if *c == close => return Some((out, &rest[1..])),
            _ => return None,
        }
    }
}

/// `I:v` | `T:v:t` | `W:t` | `FB` | `FAR` | `TERM`
pub fn fmt_elem(e: &StreamElement<Val>) -> String {
    match e {
        StreamElement::Item(v) => format!("I:{v}"),
        StreamElement::Timestamped(v, t) => format!("T:{v}:{t}"),
        StreamElement::Watermark(t) => format!("W:{t}"),
        StreamElement::FlushBatch => "FB".into(),
        StreamElement::FlushAndRestart => "FAR".into(),
        StreamElement::Terminate => "TERM".into(),
    }
}

pub fn parse_elem(s: &str) -> Option<StreamElement<Val>> {
    let p: Vec<&str> = s.split(':').collect();
    match p.as_slice() {
        ["I", v] => Some(StreamElement::Item(Val::parse(v)?)),
        ["T", v, t] => Some(StreamElement::Timestamped(Val::parse(v)?, t.parse().ok()?)),
        ["W", t] => Some(StreamElement::Watermark(t.parse().ok()?)),
        ["FB"] => Some(StreamElement::FlushBatch),
        ["FAR"] => Some(StreamElement::FlushAndRestart),
        ["TERM"] => Some(StreamElement::Terminate),
        _ => None,
    }
}

pub fn map_elem<A, B>(e: StreamElement<A>, f: impl FnOnce(A) -> B) -> StreamElement<B> {
    e.map(f)
}

/// A case: header words (component + parameters) and op lines.
#[derive(Clone, Debug, Default)]
pub struct Case {
    pub header: Vec<String>,
    pub ops: Vec<Vec<String>>,
}

impl Case {
    pub fn new(header: &[&str]) -> Self {
        Case {
            header: header.iter().map(|s| s.to_string()).collect(),
            ops: vec![],
        }
    }
    pub fn op(&mut self, words: &[&str]) {
        self.ops.push(words.iter().map(|s| s.to_string()).collect());
    }
    pub fn ops(&mut self, words: Vec<String>) {
        self.ops.push(words);
    }
}

pub struct Args {
    pub seed: u64,
    pub cases: usize,
    pub replay: Option<String>,
    pub extra: Vec<String>,
}

pub fn parse_args() -> Args {
    let mut a = Args {
        seed: 1,
        cases: 100,
        replay: None,
        extra: vec![],
    };
    let mut it = std::env::args().skip(1);
    while let Some(x) = it.next() {
        match x.as_str() {
            "--seed" => a.seed = it.next().unwrap().parse().unwrap(),
            "--cases" => a.cases = it.next().unwrap().parse().unwrap(),
            "--replay" => a.replay = Some(it.next().unwrap()),
            _ => a.extra.push(x),
        }
    }
    a
}

/// Read cases (header + ops; `>` lines and comments are ignored) from a file.
pub fn read_cases(path: &str) -> Vec<(String, Case)> {
    let f = std::io::BufReader::new(std::fs::File::open(path).expect("cannot open replay file"));
    let mut out = vec![];
    let mut cur: Option<(String, Case)> = None;
    for line in f.lines() {
        let line = line.unwrap();
        let l = line.trim();
        if let Some(rest) = l.strip_prefix("case ") {
            let w: Vec<String> = rest.split_whitespace().map(|s| s.to_string()).collect();
            cur = Some((
                w[0].clone(),
                Case {
                    header: w[1..].to_vec(),
                    ops: vec![],
                },
            ));
        } else if l == "end" {
            if let Some(c) = cur.take() {
                out.push(c);
            }
        } else if l.starts_with('>') || l.starts_with('#') || l.is_empty() {
        } else if let Some((_, c)) = cur.as_mut() {
            c.ops.push(l.split_whitespace().map(|s| s.to_string()).collect());
        }
    }
    out
}

/// Run `exec` on a case, mapping a panic to the single output line `panic:<class>`.
pub fn guarded(exec: impl Fn(&Case) -> Vec<String>, case: &Case) -> Vec<String> {
    match catch_unwind(AssertUnwindSafe(|| exec(case))) {
        Ok(v) => v,
        Err(e) => {
            let msg = if let Some(s) = e.downcast_ref::<String>() {
                s.clone()
            } else if let Some(s) = e.downcast_ref::<&str>() {
                s.to_string()
            } else {
                "unknown".into()
            };
            vec![format!("panic:{}", classify_panic(&msg))]
        }
    }
}

pub fn classify_panic(msg: &str) -> String {
    let m = msg.to_lowercase();
    for (needle, class) in [
        ("overflow", "overflow"),
        ("out of bounds", "index"),
        ("index out of", "index"),
        ("unwrap", "unwrap"),
        ("not registered", "setup"),
        ("tryfrominterror", "conversion"),
        ("out of range integral", "conversion"),
    ] {
        if m.contains(needle) {
            return class.into();
        }
    }
    let first: String = m
        .chars()
        .take(40)
        .map(|c| if c.is_whitespace() { '_' } else { c })
        .collect();
    format!("other:{first}")
}

/// Standard main: generate `cases` cases with `gen` (or read `--replay`), execute the real code
/// with `exec`, print the case stream on stdout.
pub fn run_main(
    component: &str,
    gen: impl Fn(&mut Rng, usize) -> Case,
    exec: impl Fn(&Case) -> Vec<String>,
) {
    let args = parse_args();
    std::panic::set_hook(Box::new(|_| {}));
    let out = std::io::stdout();
    let mut out = std::io::BufWriter::new(out.lock());
    let cases: Vec<(String, Case)> = if let Some(p) = &args.replay {
        read_cases(p)
    } else {
        let mut rng = Rng::new(args.seed);
        (0..args.cases)
            .map(|i| {
                let mut r = rng.fork();
                (format!("{component}-{}-{i}", args.seed), gen(&mut r, i))
            })
            .collect()
    };
    // circuit breaker: every `blocked` case costs a whole watchdog period; once 25 cases of a run have
    // blocked (on an unchanged tree at most a handful do, in the regions of the known deadlock findings)
    // the remaining cases are not executed but reported as `skipped:too-many-blocked`, which the model
    // side can never agree with — the run ends in minutes instead of hours and is still reported
    // (components whose unchanged-tree runs contain known deadlocks — F17/F18 — are exempt)
    let max_blocked = match component {
        "loopcycle" | "probe" | "term" | "e2e" | "loops" | "statelock" | "chansrc" => usize::MAX,
        _ => 25,
    };
    let mut blocked = 0usize;
    for (id, case) in cases {
        let res = if blocked >= max_blocked {
            vec!["skipped:too-many-blocked".to_string()]
        } else {
            guarded(&exec, &case)
        };
        // only the whole-case watchdog outcome counts (a single line `blocked`); components that report
        // `blocked` as a legitimate per-operation answer (statelock) are not affected
        if res.len() == 1 && res[0] == "blocked" {
            blocked += 1;
        }
        writeln!(out, "case {id} {}", case.header.join(" ")).unwrap();
        for op in &case.ops {
            writeln!(out, "{}", op.join(" ")).unwrap();
        }
        for r in res {
            writeln!(out, "> {r}").unwrap();
        }
        writeln!(out, "end").unwrap();
    }
}

pub mod e2e;

/// 1 on an idle machine, up to 8 when the 1-minute load average is many times the number of cores: watchdogs
/// that decide "blocked" multiply their patience by this, so that a busy machine does not turn a slow
/// run into a false `blocked` (a really deadlocked job stays blocked however long one waits).
pub fn load_factor() -> u32 {
    let load = std::fs::read_to_string("/proc/loadavg")
        .ok()
        .and_then(|s| s.split_whitespace().next().and_then(|x| x.parse::<f64>().ok()))
        .unwrap_or(0.0);
    let cores = std::thread::available_parallelism().map(|n| n.get()).unwrap_or(16) as f64;
    (1.0 + load / cores).min(8.0) as u32
}
