//! A catalogue of real renoir jobs (public API only) used by the whole-engine components
//! `term` (C04) and `crash` (C20). Included with `#[path]` by the binaries.
//!
//! Every job takes a size `n`, builds its pipeline on the given context and returns one getter per
//! sink; each sink element is flattened to a `Vec<i64>`. The same jobs are defined over `Int` lists
//! in `lean/NoirVerif/Model/Jobs.lean` (sequential reference semantics).
#![allow(dead_code)]

use std::sync::atomic::{AtomicI64, Ordering};
use std::sync::Arc;

use renoir::operator::sink::StreamOutput;
use renoir::operator::window::CountWindow;
use renoir::prelude::*;

pub type Getter = Box<dyn FnOnce() -> Option<Vec<Vec<i64>>> + Send>;

pub const JOBS: &[&str] = &[
    "map_shuffle",
    "group_fold",
    "group_by_reduce",
    "diamond",
    "join_hash",
    "join_bc",
    "zip",
    "replay",
    "iterate",
    "cwindow",
    "multi_sink",
    "side_input",
    "fold_assoc",
    "keyed_chain",
    "count_sink",
    "set_sink",
    "side_left_merge",
    "side_left_join",
    "side_zip_right",
    "side_zip_left",
    "limited_forward",
    "limited_forward3",
];

fn get1<T: Send + 'static>(o: StreamOutput<Vec<T>>, f: impl Fn(T) -> Vec<i64> + Send + 'static) -> Getter {
    Box::new(move || o.get().map(|v| v.into_iter().map(&f).collect()))
}

/// `fault`: if `Some((stage, k))`, the user function of stage `stage` panics when it sees its k-th
/// element (counted per process, over all replicas) — used by the crash component.
#[derive(Clone)]
pub struct Fault {
    pub stage: usize,
    pub at: i64,
    pub counter: Arc<AtomicI64>,
    /// host id of the replica in which the fault fired (-1 = not fired)
    pub fired_host: Arc<AtomicI64>,
    pub fired_block: Arc<AtomicI64>,
    pub fired_replica: Arc<AtomicI64>,
}

impl Fault {
    pub fn new(stage: usize, at: i64) -> Self {
        Fault {
            stage,
            at,
            counter: Arc::new(AtomicI64::new(0)),
            fired_host: Arc::new(AtomicI64::new(-1)),
            fired_block: Arc::new(AtomicI64::new(-1)),
            fired_replica: Arc::new(AtomicI64::new(-1)),
        }
    }
}

/// Called by every user function with its stage number.
#[inline]
fn tick(f: &Option<Fault>, stage: usize) {
    if let Some(f) = f {
        if f.stage == stage && f.counter.fetch_add(1, Ordering::SeqCst) == f.at {
            let c = renoir::verif::replica_coord();
            f.fired_host.store(c.map(|c| c.host_id as i64).unwrap_or(-2), Ordering::SeqCst);
            f.fired_block.store(c.map(|c| c.block_id as i64).unwrap_or(-2), Ordering::SeqCst);
            f.fired_replica.store(c.map(|c| c.replica_id as i64).unwrap_or(-2), Ordering::SeqCst);
            panic!("injected fault at stage {stage}");
        }
    }
}

/// number of user-function stages of a job (for fault placement)
pub fn stages(job: &str) -> usize {
    match job {
        "map_shuffle" => 2,
        "group_fold" => 2,
        "group_by_reduce" => 2,
        "diamond" => 3,
        "join_hash" | "join_bc" => 3,
        "zip" => 1,
        "cwindow" => 1,
        "multi_sink" => 2,
        "fold_assoc" => 2,
        "keyed_chain" => 3,
        "count_sink" => 1,
        "set_sink" => 2,
        _ => 1,
    }
}

pub fn build(ctx: &StreamContext, job: &str, n: i64, bm: BatchMode, fault: Option<Fault>) -> Vec<Getter> {
    let f = fault;
    match job {
        "map_shuffle" => {
            let (f1, f2) = (f.clone(), f.clone());
            let o = ctx
                .stream_par_iter(0..n)
                .batch_mode(bm)
                .map(move |x| {
                    tick(&f1, 0);
                    x + 1
                })
                .shuffle()
                .map(move |x| {
                    tick(&f2, 1);
                    x * 2
                })
                .collect_vec();
            vec![get1(o, |x| vec![x])]
        }
        "group_fold" => {
            let (f1, f2) = (f.clone(), f.clone());
            let o = ctx
                .stream_par_iter(0..n)
                .batch_mode(bm)
                .group_by(move |x| {
                    tick(&f1, 0);
                    x % 7
                })
                .fold(0i64, move |acc, x| {
                    tick(&f2, 1);
                    *acc += x
                })
                .collect_vec();
            vec![get1(o, |(k, v)| vec![k, v])]
        }
        "group_by_reduce" => {
            let (f1, f2) = (f.clone(), f.clone());
            let o = ctx
                .stream_iter(0..n)
                .batch_mode(bm)
                .map(move |x| {
                    tick(&f1, 0);
                    x
                })
                .shuffle()
                .group_by_reduce(
                    |x| x % 5,
                    move |a, b| {
                        tick(&f2, 1);
                        *a += b
                    },
                )
                .collect_vec();
            vec![get1(o, |(k, v)| vec![k, v])]
        }
        "diamond" => {
            let (f1, f2, f3) = (f.clone(), f.clone(), f.clone());
            let mut parts = ctx
                .stream_par_iter(0..n)
                .batch_mode(bm)
                .map(move |x| {
                    tick(&f1, 0);
                    x
                })
                .shuffle()
                .split(2)
                .into_iter();
            let a = parts.next().unwrap().map(move |x| {
                tick(&f2, 1);
                x + 1_000_000
            });
            let b = parts.next().unwrap().filter(move |x| {
                tick(&f3, 2);
                x % 2 == 0
            });
            let o = a.merge(b).collect_vec();
            vec![get1(o, |x| vec![x])]
        }
        "join_hash" | "join_bc" => {
            let (f1, f2, f3) = (f.clone(), f.clone(), f.clone());
            let nl = n.min(300);
            let nr = (n / 2).min(150);
            let l = ctx.stream_par_iter(0..nl).batch_mode(bm).map(move |x| {
                tick(&f1, 0);
                x
            });
            let r = ctx.stream_par_iter(0..nr).batch_mode(bm).map(move |x| {
                tick(&f2, 1);
                x
            });
            let j = l.join_with(r, |x| x % 10, |y| y % 10);
            let o = if job == "join_hash" {
                j.ship_hash().local_hash().inner().unkey().map(move |(k, (x, y))| {
                    tick(&f3, 2);
                    vec![k, x, y]
                }).collect_vec()
            } else {
                j.ship_broadcast_right().local_hash().inner().map(move |(k, (x, y))| {
                    tick(&f3, 2);
                    vec![k, x, y]
                }).collect_vec()
            };
            vec![get1(o, |v| v)]
        }
        "zip" => {
            let f1 = f.clone();
            let a = ctx.stream_iter(0..n).batch_mode(bm).map(move |x| {
                tick(&f1, 0);
                x
            });
            let b = ctx.stream_iter(n..(2 * n + 3)).batch_mode(bm);
            let o = a.zip(b).collect_vec();
            vec![get1(o, |(x, y)| vec![x, y])]
        }
        "replay" => {
            let n = n.min(2000);
            let o = ctx
                .stream_iter(0..n)
                .batch_mode(bm)
                .shuffle()
                .replay(
                    3,
                    1i64,
                    |s, state| s.shuffle().map(move |x| (x % 5) * *state.get()),
                    |delta: &mut i64, x| *delta += x,
                    |old, delta| *old = (*old + delta) % 1_000_003,
                    |state| {
                        *state += 1;
                        true
                    },
                )
                .collect_vec();
            vec![get1(o, |x| vec![x])]
        }
        "iterate" => {
            let n = n.min(2000);
            let (state, res) = ctx.stream_iter(0..n).batch_mode(bm).shuffle().iterate(
                3,
                0i64,
                |s, state| s.shuffle().map(move |x| (x + *state.get()) % 1_000_003),
                |delta: &mut i64, x| *delta = (*delta + x) % 1_000_003,
                |old, delta| *old = (*old + delta) % 1_000_003,
                |_state| true,
            );
            let o1 = state.collect_vec();
            let o2 = res.collect_vec();
            vec![get1(o1, |x| vec![x]), get1(o2, |x| vec![x])]
        }
        "cwindow" => {
            let f1 = f.clone();
            let o = ctx
                .stream_iter(0..n)
                .batch_mode(bm)
                .group_by(move |x| {
                    tick(&f1, 0);
                    x % 3
                })
                .window(CountWindow::sliding(3, 2))
                .sum::<i64>()
                .collect_vec();
            vec![get1(o, |(k, v)| vec![k, v])]
        }
        "multi_sink" => {
            let (f1, f2) = (f.clone(), f.clone());
            let mut parts = ctx.stream_par_iter(0..n).batch_mode(bm).shuffle().split(2).into_iter();
            let o1 = parts
                .next()
                .unwrap()
                .map(move |x| {
                    tick(&f1, 0);
                    x * 3
                })
                .collect_vec();
            let o2 = parts
                .next()
                .unwrap()
                .fold(0i64, move |c, _x| {
                    tick(&f2, 1);
                    *c += 1
                })
                .collect_vec();
            vec![get1(o1, |x| vec![x]), get1(o2, |x| vec![x])]
        }
        "side_input" => {
            let n = n.min(200);
            let side = ctx.stream_iter(0..n).batch_mode(bm);
            let (state, res) = ctx.stream_iter(0..n).batch_mode(bm).map(|x| (x, x)).shuffle().iterate(
                3,
                0i64,
                move |s, state| {
                    s.join(side, |(x, _)| *x, |x| *x)
                        .map(move |(_key, ((x, y), _x))| (x, (y + *state.get()) % 1_000_003))
                        .drop_key()
                },
                |delta: &mut i64, (_x, y)| *delta = (*delta + y) % 1_000_003,
                |old, delta| *old = (*old + delta) % 1_000_003,
                |_state| true,
            );
            let o1 = state.collect_vec();
            let o2 = res.collect_vec();
            vec![get1(o1, |x| vec![x]), get1(o2, |(x, y)| vec![x, y])]
        }
        "side_left_merge" => {
            // a side input from outside the loop as the LEFT operand of a merge inside a replay body
            // (merge wants equal replication on both sides, hence the shuffle; the join variant below has
            // a one-replica side against a fully replicated loop stream)
            let n = n.min(200);
            let side = ctx.stream_iter(0..n).batch_mode(bm).map(|x| x * 2).shuffle();
            let state = ctx.stream_par_iter(0..n).batch_mode(bm).shuffle().replay(
                3,
                0i64,
                move |s, state| side.merge(s).map(move |x| (x + *state.get()) % 1_000_003),
                |delta: &mut i64, x| *delta = (*delta + x) % 1_000_003,
                |old, delta| *old = (*old + delta) % 1_000_003,
                |_state| true,
            );
            let o = state.collect_vec();
            vec![get1(o, |x| vec![x])]
        }
        "limited_forward3" => {
            // the same with `Limited(3)` behind a map: on three or more hosts several consumer replicas of
            // one host are fed by producers of different remote hosts
            let o = ctx
                .stream_par_iter(0..n)
                .batch_mode(bm)
                .map(|x| x * 2)
                .replication(renoir::Replication::new_limited(3))
                .map(|x| x + 1)
                .collect_vec();
            vec![get1(o, |x| vec![x])]
        }
        "limited_forward" => {
            // a forward connection into a block with fewer replicas (`Limited(2)`): on several hosts the
            // consumer replicas do not cover every producer host; nothing may be dropped
            let o = ctx
                .stream_par_iter(0..n)
                .batch_mode(bm)
                .replication(renoir::Replication::new_limited(2))
                .map(|x| x + 1)
                .collect_vec();
            vec![get1(o, |x| vec![x])]
        }
        "side_zip_right" => {
            // a side input from outside the loop zipped with the loop stream inside a replay body (right
            // operand); equal lengths, so every element is used exactly once whatever the pairing
            let n = n.min(200);
            let side = ctx.stream_par_iter(0..n).batch_mode(bm).map(|x| x * 2);
            let state = ctx.stream_par_iter(0..n).batch_mode(bm).replay(
                3,
                0i64,
                move |s, state| s.zip(side).map(move |(a, b)| (a + b + *state.get()) % 1_000_003),
                |delta: &mut i64, x| *delta = (*delta + x) % 1_000_003,
                |old, delta| *old = (*old + delta) % 1_000_003,
                |_state| true,
            );
            let o = state.collect_vec();
            vec![get1(o, |x| vec![x])]
        }
        "side_zip_left" => {
            // a side input from outside the loop zipped with the loop stream inside a replay body (left
            // operand); equal lengths, so every element is used exactly once whatever the pairing
            let n = n.min(200);
            let side = ctx.stream_par_iter(0..n).batch_mode(bm).map(|x| x * 2);
            let state = ctx.stream_par_iter(0..n).batch_mode(bm).replay(
                3,
                0i64,
                move |s, state| side.zip(s).map(move |(a, b)| (a + b + *state.get()) % 1_000_003),
                |delta: &mut i64, x| *delta = (*delta + x) % 1_000_003,
                |old, delta| *old = (*old + delta) % 1_000_003,
                |_state| true,
            );
            let o = state.collect_vec();
            vec![get1(o, |x| vec![x])]
        }
        "side_left_join" => {
            // same with a join inside an iterate body (side on the left, one replica)
            let n = n.min(200);
            let side = ctx.stream_iter(0..n).batch_mode(bm);
            let (state, res) = ctx.stream_par_iter(0..n).batch_mode(bm).map(|x| (x, x)).shuffle().iterate(
                3,
                0i64,
                move |s, state| {
                    side.join(s, |x| *x, |(x, _)| *x)
                        .map(move |(_key, (_x, (x, y)))| (x, (y + *state.get()) % 1_000_003))
                        .drop_key()
                },
                |delta: &mut i64, (_x, y)| *delta = (*delta + y) % 1_000_003,
                |old, delta| *old = (*old + delta) % 1_000_003,
                |_state| true,
            );
            let o1 = state.collect_vec();
            let o2 = res.collect_vec();
            vec![get1(o1, |x| vec![x]), get1(o2, |(x, y)| vec![x, y])]
        }
        "fold_assoc" => {
            let (f1, f2) = (f.clone(), f.clone());
            let o = ctx
                .stream_par_iter(0..n)
                .batch_mode(bm)
                .map(move |x| {
                    tick(&f1, 0);
                    x
                })
                .fold_assoc(
                    0i64,
                    move |a, x| {
                        tick(&f2, 1);
                        *a += x
                    },
                    |a, b| *a += b,
                )
                .collect_vec();
            vec![get1(o, |x| vec![x])]
        }
        "keyed_chain" => {
            let (f1, f2, f3) = (f.clone(), f.clone(), f.clone());
            let o = ctx
                .stream_par_iter(0..n)
                .batch_mode(bm)
                .flat_map(move |x| {
                    tick(&f1, 0);
                    vec![x, x + 1]
                })
                .group_by(move |x| {
                    tick(&f2, 1);
                    x % 4
                })
                .reduce(move |a, b| {
                    tick(&f3, 2);
                    *a = (*a).max(b)
                })
                .collect_vec();
            vec![get1(o, |(k, v)| vec![k, v])]
        }
        "count_sink" => {
            // `collect_count` (fold + CollectCountSink)
            let f1 = f.clone();
            let o = ctx
                .stream_par_iter(0..n)
                .batch_mode(bm)
                .shuffle()
                .filter(move |x| {
                    tick(&f1, 0);
                    x % 3 != 0
                })
                .collect_count();
            vec![Box::new(move || o.get().map(|c| vec![vec![c as i64]]))]
        }
        "set_sink" => {
            // `collect::<C>` (the generic Collect sink) behind a keyed reduce
            let (f1, f2) = (f.clone(), f.clone());
            let o = ctx
                .stream_par_iter(0..n)
                .batch_mode(bm)
                .group_by(move |x| {
                    tick(&f1, 0);
                    x % 6
                })
                .reduce(move |a, b| {
                    tick(&f2, 1);
                    *a += b
                })
                .collect::<std::collections::BTreeSet<(i64, i64)>>();
            vec![Box::new(move || o.get().map(|s| s.into_iter().map(|(k, v)| vec![k, v]).collect()))]
        }
        _ => panic!("unknown job {job}"),
    }
}

pub fn parse_bm(s: &str) -> BatchMode {
    match s {
        "single" => BatchMode::single(),
        "fixed1" => BatchMode::fixed(1),
        "fixed3" => BatchMode::fixed(3),
        "fixed1024" => BatchMode::fixed(1024),
        "adaptive" => BatchMode::adaptive(64, std::time::Duration::from_millis(5)),
        _ => BatchMode::default(),
    }
}

pub const BMS: &[&str] = &["default", "single", "fixed1", "fixed3", "fixed1024", "adaptive"];

// ------------------------------------------------------------------------------------------------
// runner: local or multi-host (one thread per host, loopback TCP) with a watchdog

use renoir::config::{ConfigBuilder, HostConfig};
use renoir::RuntimeConfig;
use std::sync::mpsc;
use std::time::Duration;

#[derive(Clone, Debug)]
pub enum Cfg {
    Local(u64),
    /// cores per host
    Remote(Vec<u64>),
}

pub fn parse_cfg(s: &str) -> Cfg {
    if let Some(p) = s.strip_prefix('L') {
        Cfg::Local(p.parse().unwrap())
    } else {
        Cfg::Remote(s[1..].split('x').map(|c| c.parse().unwrap()).collect())
    }
}

pub fn parallelism(c: &Cfg) -> u64 {
    match c {
        Cfg::Local(p) => *p,
        Cfg::Remote(v) => v.iter().sum(),
    }
}

/// Outcome of one host: whether `execute_blocking` returned (`Ok`) or panicked (`Err(msg)`), and
/// what every sink handle yields afterwards (`StreamOutput::get()`), also after a panic.
pub struct HostOutcome {
    pub exec: Result<(), String>,
    pub sinks: Vec<Option<Vec<Vec<i64>>>>,
}

pub struct RunOutcome {
    /// `None` = the host did not finish before the watchdog fired
    pub hosts: Vec<Option<HostOutcome>>,
}

fn host_configs(cfg: &Cfg, uniq: u32) -> Vec<RuntimeConfig> {
    match cfg {
        Cfg::Local(p) => vec![RuntimeConfig::local(*p).unwrap()],
        Cfg::Remote(cores) => {
            // distinct loopback addresses per (process, case): 127.a.b.h
            let pid = std::process::id();
            let a = 1 + (pid % 250) as u8;
            let b = ((pid / 250 + uniq * 7) % 250) as u8;
            let base_port = 21000 + ((uniq * 37) % 20000) as u16;
            let hosts: Vec<HostConfig> = cores
                .iter()
                .enumerate()
                .map(|(h, c)| HostConfig {
                    address: format!("127.{a}.{b}.{}", h + 1),
                    base_port,
                    num_cores: *c,
                    ssh: Default::default(),
                    perf_path: None,
                })
                .collect();
            (0..cores.len())
                .map(|h| {
                    ConfigBuilder::new_remote()
                        .add_hosts(&hosts)
                        .host_id(h as u64)
                        .build()
                        .unwrap()
                })
                .collect()
        }
    }
}

pub fn run_job(job: &str, n: i64, bm: &str, cfg: &Cfg, fault: Option<Fault>, uniq: u32, timeout: Duration) -> RunOutcome {
    let configs = host_configs(cfg, uniq);
    let (tx, rx) = mpsc::channel::<(usize, HostOutcome)>();
    fn msg_of(e: Box<dyn std::any::Any + Send>) -> String {
        if let Some(s) = e.downcast_ref::<String>() {
            s.clone()
        } else if let Some(s) = e.downcast_ref::<&str>() {
            s.to_string()
        } else {
            "unknown".to_string()
        }
    }
    let nh = configs.len();
    for (h, config) in configs.into_iter().enumerate() {
        let tx = tx.clone();
        let job = job.to_string();
        let bm = parse_bm(bm);
        let fault = fault.clone();
        std::thread::Builder::new()
            .name(format!("host{h}"))
            .spawn(move || {
                let mut getters: Vec<Getter> = vec![];
                let exec = std::panic::catch_unwind(std::panic::AssertUnwindSafe(|| {
                    let ctx = StreamContext::new(config);
                    getters = build(&ctx, &job, n, bm, fault);
                    ctx.execute_blocking();
                }))
                .map_err(msg_of);
                let sinks = getters
                    .into_iter()
                    .map(|g| std::panic::catch_unwind(std::panic::AssertUnwindSafe(g)).unwrap_or(None))
                    .collect();
                let _ = tx.send((h, HostOutcome { exec, sinks }));
            })
            .unwrap();
    }
    drop(tx);
    let mut hosts: Vec<Option<HostOutcome>> = (0..nh).map(|_| None).collect();
    let deadline = std::time::Instant::now() + timeout;
    let mut got = 0;
    while got < nh {
        let left = deadline.saturating_duration_since(std::time::Instant::now());
        match rx.recv_timeout(left) {
            Ok((h, r)) => {
                hosts[h] = Some(r);
                got += 1;
            }
            Err(_) => break,
        }
    }
    RunOutcome { hosts }
}

pub fn is_infra(msg: &str) -> bool {
    // only start-up problems of the in-process multi-host rig: the listening socket cannot be
    // bound. Everything else (connect failures after the retry budget, disconnections during the
    // run, …) is the engine's behaviour and is reported.
    let m = msg.to_lowercase();
    m.contains("failed to bind") || m.contains("address already in use") || m.contains("address in use")
}


/// Hosts that run a replica (transitively) downstream of `(block, host, replica)`, including the
/// replica's own host: computed from the execution graph of the same job/config (built with the
/// `verif` hook, nothing is executed).
pub fn downstream_hosts(job: &str, n: i64, bm: &str, cfg: &Cfg, from: (u64, u64, u64)) -> Vec<u64> {
    let config = host_configs(cfg, 9_999_999).into_iter().next().unwrap();
    let ctx = StreamContext::new(config);
    let _getters = build(&ctx, job, n, parse_bm(bm), None);
    let g = ctx.verif_execution_graph();
    let mut seen = std::collections::BTreeSet::new();
    let mut todo = vec![from];
    while let Some(c) = todo.pop() {
        if !seen.insert(c) {
            continue;
        }
        for (f, t, _fragile) in &g.links {
            if (f.block_id, f.host_id, f.replica_id) == c {
                todo.push((t.block_id, t.host_id, t.replica_id));
            }
        }
    }
    let hosts: std::collections::BTreeSet<u64> = seen.iter().map(|c| c.1).collect();
    hosts.into_iter().collect()
}
