//! C07 (keyed `rich_map` state): the REAL chain `ScriptOp -> KeyBy -> RichMap` built through the
//! public API (`env.stream(..).key_by(..).rich_map(..)`) and taken out with `take_ops_keyed`; the
//! stateful closure is a running fold (one clone per key). header: `krmap <fn>`; ops: `e <elem>`
//! with payloads `(k,v)`; outputs `<idx> <elem>` with payloads `(k,running_acc)`.
#[path = "../c07_common.rs"]
mod common;
use common::*;
use nvh::*;
use renoir::operator::StreamElement;
use renoir::verif::{take_ops_keyed, ScriptOp};
use renoir::{RuntimeConfig, StreamContext};

fn gen(rng: &mut Rng, _i: usize) -> Case {
    // per-component stream: components run with the same --seed must not draw identical sequences
    let rng = &mut Rng::new(rng.next() ^ 0x4B12_3A90_0000_0004);
    let name = *rng.pick(FNS);
    let dist = rng.below(3);
    let cfg = ScriptCfg {
        max_len: 10,
        allow_unsafe: false,
        allow_malformed: true,
        dup16: 3,
    };
    let script = gen_script(rng, &cfg, |r, seq| {
        let k = match dist {
            0 => 7,
            1 => r.range(0, 2),
            _ => r.range(-10, 10),
        };
        Val::pair(Val::Int(k), payload(r, name, seq))
    });
    script_case(&["krmap", name], &script)
}

fn exec(c: &Case) -> Vec<String> {
    let (init, f) = lib(&c.header[1]);
    let script: Vec<StreamElement<(Val, Val)>> = parse_script(c)
        .into_iter()
        .map(|e| {
            e.map(|v| match v {
                Val::Tup(mut l) if l.len() == 2 => {
                    let b = l.pop().unwrap();
                    (l.pop().unwrap(), b)
                }
                v => panic!("not a pair: {v}"),
            })
        })
        .collect();
    let (probe, pulls) = Probe::new(ScriptOp::new(script));
    let env = StreamContext::new(RuntimeConfig::local(1).unwrap());
    let ks = env
        .stream(probe)
        .key_by(|kv: &(Val, Val)| kv.0.clone())
        .rich_map({
            let mut acc = init;
            move |(_k, kv): (&Val, (Val, Val))| {
                f(&mut acc, kv.1);
                acc.clone()
            }
        });
    let op = take_ops_keyed(ks);
    fmt_out(&drive(op, &pulls, |(k, v)| Val::pair(k, v)))
}

fn main() {
    run_main("krmap", gen, exec);
}
