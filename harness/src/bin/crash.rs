//! C20: fault injection on the real engine. A user function of a chosen stage of a catalogue job
//! panics when it sees its k-th element (in whichever replica that happens); acyclic jobs only.
//! Observed: per host whether `execute_blocking` returned or panicked (or never came back within
//! the watchdog), what every sink handle yields afterwards, and where the fault fired.
#[path = "../jobs.rs"]
mod jobs;

use std::sync::atomic::Ordering;
use std::time::Duration;

use jobs::*;
use nvh::*;

/// acyclic jobs of the catalogue
const CRASH_JOBS: &[&str] = &[
    "map_shuffle",
    "group_fold",
    "group_by_reduce",
    "diamond",
    "join_hash",
    "join_bc",
    "zip",
    "cwindow",
    "multi_sink",
    "fold_assoc",
    "keyed_chain",
    "count_sink",
    "set_sink",
];

fn gen(rng: &mut Rng, i: usize) -> Case {
    let job = CRASH_JOBS[(i + rng.below(2) as usize) % CRASH_JOBS.len()];
    let bm = *rng.pick(BMS);
    let n: i64 = match rng.below(4) {
        0 => rng.range(1, 20),
        1 => rng.range(20, 300),
        _ => rng.range(300, 3000),
    };
    let stage = rng.below(stages(job) as u64) as usize;
    // position of the fault: first element, somewhere in the middle, near the end, or beyond
    // the end (never fires: the run must then succeed normally)
    let at: i64 = match rng.below(5) {
        0 => 0,
        1 => rng.range(0, n.max(1) - 1),
        2 => (n - 1).max(0),
        3 => rng.range(0, (2 * n).max(1)),
        _ => 10 * n + 100,
    };
    let cfg = match rng.below(7) {
        0 => "L1",
        1 => "L2",
        2 => "L3",
        3 => "L4",
        4 => "R2x2",
        5 => "R1x3",
        _ => "R2x1x2",
    };
    let mut c = Case::new(&["crash", job, &n.to_string(), bm, cfg, &stage.to_string(), &at.to_string()]);
    c.op(&["run"]);
    c
}

fn exec(c: &Case) -> Vec<String> {
    if c.ops.is_empty() {
        return vec![];
    }
    let job = &c.header[1];
    let n: i64 = c.header[2].parse().unwrap();
    let bm = &c.header[3];
    let cfg = parse_cfg(&c.header[4]);
    let stage: usize = c.header[5].parse().unwrap();
    let at: i64 = c.header[6].parse().unwrap();
    static UNIQ: std::sync::atomic::AtomicU32 = std::sync::atomic::AtomicU32::new(5000);
    let mut out = vec![];
    for attempt in 0..2 {
        out.clear();
        let uniq = UNIQ.fetch_add(1, Ordering::SeqCst);
        let fault = Fault::new(stage, at);
        let r = run_job(job, n, bm, &cfg, Some(fault.clone()), uniq, Duration::from_secs(25 * nvh::load_factor() as u64));
        let fired = fault.fired_host.load(Ordering::SeqCst);
        let mut infra = false;
        if fired >= 0 {
            // every host running something downstream of the failed replica (from the execution graph)
            let from = (
                fault.fired_block.load(Ordering::SeqCst) as u64,
                fired as u64,
                fault.fired_replica.load(Ordering::SeqCst) as u64,
            );
            let hosts = downstream_hosts(job, n, bm, &cfg, from);
            let hs: Vec<String> = hosts.iter().map(|h| h.to_string()).collect();
            out.push(format!("fired {fired} downstream {}", hs.join(",")));
        } else {
            out.push(format!("fired {fired}"));
        }
        for (h, ho) in r.hosts.iter().enumerate() {
            match ho {
                None => out.push(format!("host {h} blocked")),
                Some(ho) => {
                    let e = match &ho.exec {
                        Ok(()) => "ok".to_string(),
                        Err(m) => {
                            if fired < 0 && is_infra(m) {
                                infra = true;
                            }
                            "panicked".to_string()
                        }
                    };
                    let sinks: Vec<String> = ho
                        .sinks
                        .iter()
                        .map(|s| match s {
                            None => "none".to_string(),
                            Some(v) => format!("some:{}", v.len()),
                        })
                        .collect();
                    out.push(format!("host {h} {e} sinks {}", sinks.join(",")));
                }
            }
        }
        if infra && attempt == 0 {
            continue;
        }
        if infra {
            return vec!["infra".to_string()];
        }
        break;
    }
    out
}

fn main() {
    run_main("crash", gen, exec);
}
