//! C14, hook-free experiment: the real session / processing-time managers with the REAL clock
//! (`set_clock(None)`), real pauses between the `process` calls. The op line `e <pause_ns> <elem>` says
//! how long the harness busy-waits before the call, so the clock advance between two calls is *at
//! least* the pauses in between (it may be arbitrarily more). The results are timing dependent; the
//! driver checks only what must hold for every timing (conservation, order, cover, forced splits).
use std::time::{Duration, Instant};

use nvh::*;
use renoir::operator::window::{
    ProcessingTimeWindow, SessionWindow, WindowAccumulator, WindowDescription, WindowManager, WindowResult,
};
use renoir::operator::StreamElement;

#[derive(Clone, Default)]
struct Collect(Vec<Val>);
impl WindowAccumulator for Collect {
    type In = Val;
    type Out = Val;
    fn process(&mut self, el: Val) {
        self.0.push(el)
    }
    fn output(self) -> Val {
        Val::List(self.0)
    }
}

const US: u64 = 1_000;

fn gen(rng: &mut Rng, i: usize) -> Case {
    // windows of 20..200 µs; pauses of 0 (burst) .. a few windows
    let unit = *rng.pick(&[10 * US, 20 * US, 50 * US]);
    let a = rng.range(1, 4) as u64;
    let (kind, size, slide) = match rng.below(3) {
        0 => ("s", a * unit, a * unit),
        1 => ("p", a * unit, a * unit),
        _ => ("p", a * unit, rng.range(1, (a as i64 - 1).max(1)) as u64 * unit),
    };
    let mut c = Case::new(&["twreal", kind, &size.to_string(), &slide.to_string()]);
    let iters = rng.range(1, 2);
    let mut next = (i as i64) * 1000;
    for _ in 0..iters {
        let len = rng.range(0, 12);
        for _ in 0..len {
            next += 1;
            let pause = match rng.below(8) {
                0 | 1 | 2 | 3 => 0,
                4 => size / 2,
                5 => size + size / 4,
                6 => slide,
                _ => size * 2 + rng.below(size),
            };
            c.ops(vec!["e".into(), pause.to_string(), fmt_elem(&StreamElement::Item(Val::Int(next)))]);
            if rng.chance(1, 8) {
                c.ops(vec!["e".into(), (size / 2).to_string(), "W:0".into()]);
            }
        }
        c.ops(vec!["e".into(), "0".into(), "FAR".into()]);
    }
    c.ops(vec!["e".into(), "0".into(), "TERM".into()]);
    c
}

fn run<M: WindowManager<In = Val, Out = Val>>(mut mgr: M, c: &Case) -> Vec<String> {
    renoir::verif::set_clock(None);
    let mut out = vec![];
    let mut idx = 0usize;
    for op in &c.ops {
        if op[0] != "e" || op.len() != 3 {
            continue;
        }
        let (Ok(pause), Some(e)) = (op[1].parse::<u64>(), parse_elem(&op[2])) else { continue };
        let t0 = Instant::now();
        let d = Duration::from_nanos(pause);
        while t0.elapsed() < d {
            std::hint::spin_loop();
        }
        for r in mgr.process(e) {
            let e = match r {
                WindowResult::Item(v) => StreamElement::Item(v),
                WindowResult::Timestamped(v, t) => StreamElement::Timestamped(v, t),
            };
            out.push(format!("{idx} {}", fmt_elem(&e)));
        }
        idx += 1;
    }
    out
}

fn exec(c: &Case) -> Vec<String> {
    let size = Duration::from_nanos(c.header[2].parse().unwrap());
    let slide = Duration::from_nanos(c.header[3].parse().unwrap());
    if c.header[1] == "s" {
        run(SessionWindow::new(size).build(Collect::default()), c)
    } else {
        run(ProcessingTimeWindow::sliding(size, slide).build(Collect::default()), c)
    }
}

fn main() {
    run_main("twreal", gen, exec);
}
