//! C02 (batcher): the real `Batcher`, reached through the real `End` operator with exactly one
//! downstream replica (one `End` sender = one `Batcher`). A scripted upstream feeds `End`; after
//! every `next()` the downstream channel is drained, so batch boundaries, batch contents and the
//! `next()` call during which each batch was sent are observed.
//!
//! header: `batcher <S|F|A> <n>`; ops: `e <elem>`; outputs: `<idx> <elem> <elem> …` (one per batch).
use std::time::Duration;

use nvh::*;
use renoir::operator::{Operator, StreamElement};
use renoir::verif::ops::{self, Strategy};
use renoir::verif::{Coord, FakeNet, ScriptOp};
use renoir::BatchMode;

fn data(rng: &mut Rng, next: &mut i64, ts: &mut i64, timestamped: bool) -> String {
    *next += 1;
    if timestamped {
        *ts += rng.range(0, 4);
        format!("T:{}:{}", *next, *ts)
    } else {
        format!("I:{}", *next)
    }
}

fn gen(rng: &mut Rng, i: usize) -> Case {
    let (mode, n) = match rng.below(8) {
        0 | 1 => ("S", 1),
        2..=5 => ("F", rng.range(1, 6)),
        _ => ("A", rng.range(1, 6)),
    };
    let mut c = Case::new(&["batcher", mode, &n.to_string()]);
    let mut next = (i as i64 % 1000) * 100;
    let mut ts = 0i64;
    if rng.chance(1, 5) {
        // arbitrary order (no grammar): every kind anywhere, possibly nothing after the last flush,
        // possibly elements after a TERM (never consumed by `End`)
        let len = rng.range(0, 30);
        for _ in 0..len {
            let e = match rng.below(12) {
                0 => "FB".to_string(),
                1 => "FAR".to_string(),
                2 => "TERM".to_string(),
                3 => format!("W:{}", rng.range(-3, 30)),
                4 | 5 => data(rng, &mut next, &mut ts, true),
                _ => data(rng, &mut next, &mut ts, false),
            };
            c.ops(vec!["e".into(), e]);
        }
        return c;
    }
    // grammar respecting: ((data | W | FB)* FAR)+ TERM, lengths around multiples of n
    let iters = rng.range(1, 3);
    let timestamped = rng.chance(1, 3);
    for _ in 0..iters {
        let len = match rng.below(6) {
            0 => 0,
            1 => n * rng.range(1, 4),
            2 => n * rng.range(1, 4) + 1,
            3 => (n * rng.range(1, 4) - 1).max(0),
            _ => rng.range(0, 25),
        };
        for _ in 0..len {
            let e = data(rng, &mut next, &mut ts, timestamped);
            c.ops(vec!["e".into(), e]);
            if timestamped && rng.chance(1, 6) {
                c.ops(vec!["e".into(), format!("W:{ts}")]);
            }
            if rng.chance(1, 10) {
                c.op(&["e", "FB"]);
            }
        }
        c.op(&["e", "FAR"]);
    }
    c.op(&["e", "TERM"]);
    c
}

fn exec(c: &Case) -> Vec<String> {
    let n: usize = c.header[2].parse().unwrap();
    let mode = match c.header[1].as_str() {
        "S" => BatchMode::single(),
        "F" => BatchMode::fixed(n),
        // the timer branch of `Adaptive` cannot be driven deterministically: 1 hour never elapses
        "A" => BatchMode::adaptive(n, Duration::from_secs(3600)),
        m => panic!("bad mode {m}"),
    };
    let script: Vec<StreamElement<Val>> = c
        .ops
        .iter()
        .filter(|op| op[0] == "e")
        .map(|op| parse_elem(&op[1]).expect("bad elem"))
        .collect();
    let me = Coord::new(0, 0, 0);
    let mut net = FakeNet::new(me);
    let rx = net.add_next::<Val>(Coord::new(1, 0, 0), false);
    let mut op = ops::end(ScriptOp::new(script), Strategy::OnlyOne, mode, None, &[]);
    net.with_metadata(vec![me], 0, mode, |m| op.setup(m));
    let mut out = vec![];
    let mut idx = 0usize;
    loop {
        let r = op.next();
        while let Some((from, batch)) = rx.try_recv() {
            assert_eq!(from, me, "sender coordinate of the batch");
            let mut line = idx.to_string();
            for e in &batch {
                line.push(' ');
                line.push_str(&fmt_elem(e));
            }
            out.push(line);
        }
        if matches!(r, StreamElement::Terminate) {
            break;
        }
        idx += 1;
    }
    out
}

fn main() {
    run_main("batcher", gen, exec);
}
