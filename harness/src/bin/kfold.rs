//! C07: the REAL `KeyedFold` operator (`renoir::verif::ops::keyed_fold`) on a scripted upstream of
//! `(key, value)` pairs. header: `kfold <fn>`; ops: `e <elem>` with payloads `(k,v)`; outputs:
//! `<idx> <elem>` with payloads `(k,acc)`; the results of one iteration (hash-map order) are sorted.
#[path = "../c07_common.rs"]
mod common;
use common::*;
use nvh::*;
use renoir::operator::StreamElement;
use renoir::verif::{ops, ScriptOp};

fn gen(rng: &mut Rng, _i: usize) -> Case {
    // per-component stream: components run with the same --seed must not draw identical sequences
    let rng = &mut Rng::new(rng.next() ^ 0x4BF0_1D00_0000_0002);
    let name = *rng.pick(FNS);
    // key distribution: single key, skewed, few keys, many keys
    let dist = rng.below(4);
    let cfg = ScriptCfg {
        max_len: if dist == 3 { 24 } else { 14 },
        allow_unsafe: true,
        allow_malformed: true,
        dup16: 3,
    };
    let script = gen_script(rng, &cfg, |r, seq| {
        let k = match dist {
            0 => 7,
            1 => {
                if r.chance(3, 4) {
                    1
                } else {
                    r.range(2, 5)
                }
            }
            2 => r.range(0, 2),
            _ => r.range(-20, 20),
        };
        Val::pair(Val::Int(k), payload(r, name, seq))
    });
    script_case(&["kfold", name], &script)
}

fn exec(c: &Case) -> Vec<String> {
    let (init, f) = lib(&c.header[1]);
    let script: Vec<StreamElement<(Val, Val)>> = parse_script(c)
        .into_iter()
        .map(|e| {
            e.map(|v| match v {
                Val::Tup(mut l) if l.len() == 2 => {
                    let b = l.pop().unwrap();
                    (l.pop().unwrap(), b)
                }
                v => panic!("not a pair: {v}"),
            })
        })
        .collect();
    let (probe, pulls) = Probe::new(ScriptOp::new(script));
    let op = ops::keyed_fold(probe, init, f);
    let mut out = drive(op, &pulls, |(k, v)| Val::pair(k, v));
    canon_runs(&mut out);
    fmt_out(&out)
}

fn main() {
    run_main("kfold", gen, exec);
}
