//! C05/C06/C17/C04: the real `Start` over a simple receiver, fed by harness-owned channels.
//! Protocol (DESIGN.md §4.3.1): adaptive batch mode with a 1 ms delay; send one batch, pull
//! `next()` until the timeout-generated `FlushBatch` (or `Terminate`) appears, next batch.
use std::time::Duration;

use nvh::*;
use renoir::operator::{Operator, StreamElement};
use renoir::verif::{ops, Coord, FakeNet, FakeSender};
use renoir::BatchMode;

/// Generate a contract-respecting arrival history: `n` upstream replicas, each link watermark-safe,
/// iterations synchronised (no replica sends data of iteration k+1 before all ended iteration k).
fn gen(rng: &mut Rng, _i: usize) -> Case {
    let n = match rng.below(6) {
        0 => 1,
        1 | 2 => 2,
        3 => 3,
        _ => rng.range(1, 5) as usize,
    };
    let mut c = Case::new(&["start", &n.to_string()]);
    let iters = rng.range(1, 3);
    let timestamped = rng.chance(3, 4);
    let mut val = 0i64;
    // batches queued in a row (over iteration boundaries too); the channel holds CHANNEL_CAPACITY = 16
    // batches and the Terminate tail may queue up to 5 more
    let mut qrun = 0;
    for it in 0..iters {
        if n >= 2 && timestamped && it == 0 && rng.chance(1, 5) {
            // hand-off scenario: every replica has announced a watermark, the replica holding the minimum
            // ends its iteration (the frontier rises: a pending announcement), then — without a receive
            // timeout in between or with one, at random — watermarks of replicas that do not hold the new
            // minimum, then a data element
            let base = rng.range(-3, 50);
            let mut w: Vec<i64> = (0..n as i64).map(|r| base + 5 * r + rng.range(0, 3)).collect();
            for i in (1..n).rev() {
                let j = rng.below(i as u64 + 1) as usize;
                w.swap(i, j);
            }
            let opk = |rng: &mut Rng| if rng.chance(3, 4) { "q" } else { "b" }.to_string();
            for r in 0..n {
                c.ops(vec!["b".into(), r.to_string(), format!("W:{}", w[r])]);
            }
            let m = (0..n).min_by_key(|&r| w[r]).unwrap();
            c.ops(vec![opk(rng), m.to_string(), "FAR".into()]);
            let rest: Vec<usize> = (0..n).filter(|&r| r != m).collect();
            let m2 = *rest.iter().min_by_key(|&&r| w[r]).unwrap();
            for _ in 0..rng.range(0, 2) {
                let cand: Vec<usize> = rest.iter().cloned().filter(|&r| r != m2).collect();
                if cand.is_empty() {
                    break;
                }
                let r = *rng.pick(&cand);
                w[r] += rng.range(1, 4);
                c.ops(vec![opk(rng), r.to_string(), format!("W:{}", w[r])]);
            }
            let r = *rng.pick(&rest);
            val += 1;
            c.ops(vec!["b".into(), r.to_string(), format!("T:{val}:{}", w[r] + 1 + rng.range(0, 3))]);
            for &r in &rest {
                let mut o = vec![opk(rng), r.to_string()];
                if rng.chance(1, 2) {
                    w[r] += 10;
                    o.push(format!("W:{}", w[r]));
                }
                o.push("FAR".into());
                c.ops(o);
            }
            if let Some(last) = c.ops.last_mut() {
                last[0] = "b".into();
            }
            continue;
        }
        // per replica: pending list of elements for this iteration
        let mut links: Vec<Vec<String>> = vec![];
        for _r in 0..n {
            let mut l = vec![];
            let len = match rng.below(5) {
                0 => 0,
                1 => 1,
                _ => rng.range(0, 8),
            };
            // sometimes timestamps close to i64::MAX (the value the frontier uses for ended replicas)
            let mut t = if rng.chance(1, 25) { i64::MAX - 40 } else { rng.range(0, 5) };
            let mut last_wm: Option<i64> = None;
            for _ in 0..len {
                val += 1;
                if timestamped && rng.chance(1, 10) {
                    // plain items between timestamped ones (they pass through unchanged)
                    l.push(format!("I:{val}"));
                } else if timestamped {
                    match rng.below(4) {
                        0 => {
                            // watermark: strictly above the previous one, possibly equal to earlier ts
                            let w = match last_wm {
                                Some(w) => w + rng.range(1, 6),
                                None => t + rng.range(-2, 3),
                            };
                            last_wm = Some(w);
                            l.push(format!("W:{w}"));
                        }
                        _ => {
                            let lo = last_wm.map(|w| w + 1).unwrap_or(t - 3);
                            t = lo + rng.range(0, 6);
                            l.push(format!("T:{val}:{t}"));
                        }
                    }
                } else {
                    l.push(format!("I:{val}"));
                }
            }
            l.push("FAR".into());
            links.push(l);
        }
        // interleave: pick a replica with remaining elements, emit a batch of 1..3 of its elements.
        // `q` batches are only queued (no pull, hence no receive timeout before the next batch): runs of
        // batches from different replicas are then consumed back to back, e.g. a replica's
        // FlushAndRestart, then a watermark of another replica that does not move the frontier, then data
        let qnum = *rng.pick(&[0u64, 0, 1, 2, 9]);
        let mut pos = vec![0usize; n];
        loop {
            let avail: Vec<usize> = (0..n).filter(|&r| pos[r] < links[r].len()).collect();
            if avail.is_empty() {
                break;
            }
            let r = *rng.pick(&avail);
            let k = if rng.chance(1, 2) { 1 } else { rng.range(1, 3) as usize };
            let end = (pos[r] + k).min(links[r].len());
            let q = qrun < 8 && rng.chance(qnum, 10);
            qrun = if q { qrun + 1 } else { 0 };
            let mut w = vec![if q { "q" } else { "b" }.to_string(), r.to_string()];
            w.extend(links[r][pos[r]..end].iter().cloned());
            c.ops(w);
            pos[r] = end;
        }
    }
    // terminates, in random order, sometimes missing (incomplete history)
    let mut order: Vec<usize> = (0..n).collect();
    for i in (1..n).rev() {
        let j = rng.below(i as u64 + 1) as usize;
        order.swap(i, j);
    }
    let drop_last = rng.chance(1, 10);
    // in half of the cases the Terminates are queued right behind the last batch (`q` = send
    // without pulling), so that no receive timeout falls between the last FlushAndRestart and them
    let queued = rng.chance(1, 2);
    if queued {
        if let Some(last) = c.ops.last_mut() {
            if last[0] == "b" {
                last[0] = "q".into();
            }
        }
    }
    let nterm = if drop_last { n - 1 } else { n };
    for (k, r) in order.iter().enumerate() {
        if k >= nterm {
            break;
        }
        let op = if queued && k + 1 < nterm { "q" } else { "b" };
        c.ops(vec![op.into(), r.to_string(), "TERM".into()]);
    }
    c
}

fn exec(c: &Case) -> Vec<String> {
    let n: u64 = c.header[1].parse().unwrap();
    let me = Coord::new(0, 0, 0);
    let mut net = FakeNet::new(me);
    let senders: Vec<FakeSender<Val>> = (0..n).map(|r| net.add_prev::<Val>(Coord::new(1, 0, r))).collect();
    let mut op = ops::start_single::<Val>(1);
    net.with_metadata(vec![me], 0, BatchMode::adaptive(1000, Duration::from_millis(1)), |m| op.setup(m));
    let mut out = vec![];
    let mut done = false;
    for (i, w) in c.ops.iter().enumerate() {
        if (w[0] != "b" && w[0] != "q") || done {
            continue;
        }
        let r: usize = w[1].parse().unwrap();
        if r >= senders.len() {
            continue;
        }
        let batch: Vec<StreamElement<Val>> = w[2..].iter().filter_map(|s| parse_elem(s)).collect();
        if batch.is_empty() {
            continue;
        }
        senders[r].send(batch);
        if w[0] == "q" {
            continue; // queued: the next `b` pulls it
        }
        loop {
            let e = op.next();
            match e {
                StreamElement::Terminate => {
                    out.push(format!("{i} TERM"));
                    done = true;
                    break;
                }
                StreamElement::FlushBatch => {
                    // timeout-generated FlushBatch: the marker of the protocol, and a real output
                    out.push(format!("{i} FB"));
                    break;
                }
                e => out.push(format!("{i} {}", fmt_elem(&e))),
            }
        }
    }
    out
}

fn main() {
    run_main("start", gen, exec);
}
