//! C09 (route part): the REAL `RoutingEnd` operator (`renoir::verif::ops::routing_end`, the operator behind
//! `Stream::route()`) on a fake topology around the producer replica `0.0.0`.
//!
//! ops:    `r <block> <pred> <nrep>`   a route (see lean/Driver/Route.lean for the skipping rules)
//!         `e <elem>`                  scripted element (payload: an int)
//! outputs: `<step> <elem> <receiver b.h.r,…>` (sorted) per step and distinct element received at that step.
use nvh::*;
use renoir::operator::{Operator, StreamElement};
use renoir::verif::ops::{self, Strategy};
use renoir::verif::{Coord, FakeNet, FakeReceiver, ScriptOp};
use renoir::BatchMode;

fn n_of(v: &Val) -> i64 {
    match v {
        Val::Int(n) => *n,
        _ => 0,
    }
}
fn p_div2(v: &Val) -> bool {
    n_of(v) % 2 == 0
}
fn p_div3(v: &Val) -> bool {
    n_of(v) % 3 == 0
}
fn p_div5(v: &Val) -> bool {
    n_of(v) % 5 == 0
}
fn p_odd(v: &Val) -> bool {
    n_of(v) % 2 != 0
}
fn p_lt0(v: &Val) -> bool {
    n_of(v) < 0
}
fn p_lt5(v: &Val) -> bool {
    n_of(v) < 5
}
fn p_lt10(v: &Val) -> bool {
    n_of(v) < 10
}
fn p_ge5(v: &Val) -> bool {
    n_of(v) >= 5
}
fn p_always(_: &Val) -> bool {
    true
}
fn p_never(_: &Val) -> bool {
    false
}

const PREDS: &[&str] = &["div2", "div3", "div5", "odd", "lt0", "lt5", "lt10", "ge5", "always", "never"];

/// the library of named predicates (mirrors `predOf` in lean/Driver/Route.lean)
fn pred_of(name: &str) -> fn(&Val) -> bool {
    match name {
        "div2" => p_div2,
        "div3" => p_div3,
        "div5" => p_div5,
        "odd" => p_odd,
        "lt0" => p_lt0,
        "lt5" => p_lt5,
        "lt10" => p_lt10,
        "ge5" => p_ge5,
        "always" => p_always,
        _ => p_never,
    }
}

fn coord(c: &Coord) -> String {
    format!("{}.{}.{}", c.block_id, c.host_id, c.replica_id)
}

fn exec(c: &Case) -> Vec<String> {
    let me = Coord::new(0, 0, 0);
    let mut net = FakeNet::new(me);
    let mut receivers: Vec<FakeReceiver<Val>> = vec![];
    let mut routes: Vec<(u64, fn(&Val) -> bool)> = vec![];
    let mut script = vec![];
    for op in &c.ops {
        match (op[0].as_str(), op.len()) {
            ("r", 4) => {
                let (Ok(b), Ok(n)) = (op[1].parse::<u64>(), op[3].parse::<u64>()) else { continue };
                if b == 0 || n == 0 || routes.len() >= 4 || routes.iter().any(|r| r.0 == b) {
                    continue;
                }
                for i in 0..n.min(2) {
                    receivers.push(net.add_next::<Val>(Coord::new(b, 0, i), false));
                }
                routes.push((b, pred_of(&op[2])));
            }
            ("e", 2) => {
                if let Some(e) = parse_elem(&op[1]) {
                    script.push(e)
                }
            }
            _ => {}
        }
    }
    let n = script.len();
    let mut end = ops::routing_end(ScriptOp::new(script), routes, Strategy::OnlyOne, BatchMode::single());
    net.with_metadata(vec![me], 0, BatchMode::single(), |m| end.setup(m));
    let mut out = vec![];
    for step in 0..n {
        end.next();
        // drain every receiver
        let mut got: Vec<(StreamElement<Val>, Vec<Coord>)> = vec![];
        for r in &receivers {
            while let Some((from, batch)) = r.try_recv() {
                assert_eq!(from, me, "sender coordinate of the message");
                for e in batch {
                    match got.iter_mut().find(|(x, _)| *x == e) {
                        Some((_, l)) => l.push(r.to),
                        None => got.push((e, vec![r.to])),
                    }
                }
            }
        }
        for (e, mut l) in got {
            l.sort();
            let t: Vec<String> = l.iter().map(coord).collect();
            out.push(format!("{step} {} {}", fmt_elem(&e), t.join(",")));
        }
    }
    out
}

fn gen(rng: &mut Rng, i: usize) -> Case {
    let malformed = i % 15 == 7;
    let mut c = Case::new(&["route"]);
    let k = match rng.below(8) {
        0 => 1,
        1 | 2 => 2,
        3 | 4 => 3,
        5 => 4,
        _ => rng.range(if malformed { 0 } else { 1 }, 4),
    };
    // block ids: distinct, in arbitrary (not sorted) order, so that route order != sender order
    let mut blocks: Vec<u64> = vec![];
    while (blocks.len() as i64) < k {
        let b = rng.range(1, 9) as u64;
        if !blocks.contains(&b) {
            blocks.push(b);
        }
    }
    // predicates: overlapping on purpose; sometimes a catch-all first/last, sometimes nothing matches
    for (j, b) in blocks.iter().enumerate() {
        let p = match rng.below(10) {
            0 => "never",
            1 => {
                if j + 1 == blocks.len() {
                    "always"
                } else {
                    "lt5"
                }
            }
            _ => *rng.pick(PREDS),
        };
        let nrep = if rng.chance(1, 6) { 2 } else { 1 };
        c.ops(vec!["r".into(), b.to_string(), p.into(), nrep.to_string()]);
    }
    let iters = rng.range(1, 2);
    for _ in 0..iters {
        for _ in 0..rng.range(0, 10) {
            let v = match rng.below(8) {
                0 => rng.range(-6, -1),
                1 => *rng.pick(&[0i64, 4, 5, 9, 10, 15, 30]),
                _ => rng.range(0, 20),
            };
            let e = if rng.chance(1, 3) { format!("T:{v}:{}", rng.range(0, 50)) } else { format!("I:{v}") };
            c.ops(vec!["e".into(), e]);
            if rng.chance(1, 8) {
                c.ops(vec!["e".into(), format!("W:{}", rng.range(0, 50))]);
            }
            if rng.chance(1, 10) {
                c.op(&["e", "FB"]);
            }
        }
        c.op(&["e", "FAR"]);
    }
    c.op(&["e", "TERM"]);
    if malformed && rng.chance(2, 3) {
        c.ops(vec!["e".into(), (*rng.pick(&["W:3", "I:4", "I:7", "FB", "TERM", "FAR"])).into()]);
    }
    c
}

fn main() {
    run_main("route", gen, exec);
}
