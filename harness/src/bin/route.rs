//! C03/C09: the REAL `RoutingEnd` operator on a fake topology.
//!
//! header: `route <OnlyOne|GroupBy> <me b.0.r>`
//! ops:    `route <block> <bit>`         a route towards `block` whose filter accepts an item iff
//!                                       bit `<bit>` (0..3) of the item's mask is set; route order
//!         `next <b.h.r> <fragile 0|1>`  downstream replicas, in `connect` order
//!         `e <elem>`                    payloads are `(mask,hash,value)`; `hash` is what the
//!                                       `GroupBy` keyer returns
//! outputs: `<step> <elem> <receiver b.h.r,…>` (sorted) per step and distinct element received.
use nvh::*;
use renoir::operator::{Operator, StreamElement};
use renoir::verif::ops::{self, Strategy};
use renoir::verif::{Coord, FakeNet, FakeReceiver, ScriptOp};
use renoir::BatchMode;

fn parse_coord(s: &str) -> Coord {
    let p: Vec<u64> = s.split('.').map(|x| x.parse().expect("bad coord")).collect();
    Coord::new(p[0], p[1], p[2])
}

fn coord(c: &Coord) -> String {
    format!("{}.{}.{}", c.block_id, c.host_id, c.replica_id)
}

fn field(v: &Val, i: usize) -> i64 {
    match v {
        Val::Tup(l) => l[i].int(),
        v => v.int(),
    }
}

fn hash_of(v: &Val) -> u64 {
    field(v, 1) as u64
}
fn bit0(v: &Val) -> bool {
    field(v, 0) & 1 != 0
}
fn bit1(v: &Val) -> bool {
    field(v, 0) & 2 != 0
}
fn bit2(v: &Val) -> bool {
    field(v, 0) & 4 != 0
}
fn bit3(v: &Val) -> bool {
    field(v, 0) & 8 != 0
}

fn exec(c: &Case) -> Vec<String> {
    let strategy = c.header[1].as_str();
    let me = parse_coord(&c.header[2]);
    let mut net = FakeNet::new(me);
    let mut receivers: Vec<FakeReceiver<Val>> = vec![];
    let mut routes: Vec<(u64, fn(&Val) -> bool)> = vec![];
    let mut script = vec![];
    for op in &c.ops {
        match op[0].as_str() {
            "next" => {
                let to = parse_coord(&op[1]);
                if receivers.iter().any(|r| r.to == to) {
                    continue;
                }
                receivers.push(net.add_next::<Val>(to, op[2] == "1"));
            }
            "route" => {
                let f: fn(&Val) -> bool = match op[2].as_str() {
                    "0" => bit0,
                    "1" => bit1,
                    "2" => bit2,
                    _ => bit3,
                };
                routes.push((op[1].parse().unwrap(), f));
            }
            "e" => script.push(parse_elem(&op[1]).expect("bad elem")),
            _ => {}
        }
    }
    let n = script.len();
    let s = match strategy {
        "GroupBy" => Strategy::GroupBy(hash_of as fn(&Val) -> u64),
        _ => Strategy::OnlyOne,
    };
    let mut end = ops::routing_end(ScriptOp::new(script), routes, s, BatchMode::single());
    net.with_metadata(vec![me], 0, BatchMode::single(), |m| end.setup(m));
    let mut out = vec![];
    for step in 0..n {
        end.next();
        let mut got: Vec<(StreamElement<Val>, Vec<Coord>)> = vec![];
        for r in &receivers {
            while let Some((from, batch)) = r.try_recv() {
                assert_eq!(from, me, "sender coordinate of the message");
                for e in batch {
                    match got.iter_mut().find(|(x, _)| *x == e) {
                        Some((_, l)) => l.push(r.to),
                        None => got.push((e, vec![r.to])),
                    }
                }
            }
        }
        for (e, mut l) in got {
            l.sort();
            let t: Vec<String> = l.iter().map(coord).collect();
            out.push(format!("{step} {} {}", fmt_elem(&e), t.join(",")));
        }
    }
    out
}

fn gen(rng: &mut Rng, i: usize) -> Case {
    let malformed = i % 10 == 3;
    // `route()` of the public API always uses OnlyOne; GroupBy shows `indexes[index]` (no modulo)
    let strategy = if rng.chance(1, 5) { "GroupBy" } else { "OnlyOne" };
    let me_block = rng.range(0, 3) as u64;
    let me = format!("{}.0.{}", me_block, rng.range(0, 3));
    let mut c = Case::new(&["route", strategy, &me]);
    let nroutes = rng.range(1, 4);
    let mut blocks: Vec<u64> = vec![];
    while (blocks.len() as i64) < nroutes {
        let b = rng.range(0, 9) as u64;
        if b != me_block && !blocks.contains(&b) {
            blocks.push(b);
        }
    }
    // routes: distinct or overlapping filters (the same bit twice: only the first route matches)
    for &b in &blocks {
        let hi = if rng.chance(1, 3) { 1 } else { 3 };
        let bit = rng.range(0, hi);
        c.ops(vec!["route".into(), b.to_string(), bit.to_string()]);
    }
    let mut connected = blocks.clone();
    if malformed {
        match rng.below(4) {
            0 => {
                connected.pop(); // a route without connection
            }
            1 => connected.push(77), // a connection without route
            2 => c.ops(vec!["route".into(), blocks[0].to_string(), "0".into()]), // duplicate route
            _ => {}
        }
    }
    let mut nexts: Vec<(String, bool)> = vec![];
    for &b in &connected {
        let nrep = if strategy == "OnlyOne" && rng.chance(3, 4) { 1 } else { rng.range(1, 4) };
        let nhosts = rng.range(1, 3);
        let fragile_block = malformed && rng.chance(1, 6);
        let mut per_host = vec![0u64; nhosts as usize];
        for _ in 0..nrep {
            let h = rng.below(nhosts as u64) as usize;
            nexts.push((format!("{b}.{h}.{}", per_host[h]), fragile_block));
            per_host[h] += 1;
        }
    }
    for k in (1..nexts.len()).rev() {
        let j = rng.below(k as u64 + 1) as usize;
        nexts.swap(k, j);
    }
    for (n, f) in &nexts {
        c.op(&["next", n, if *f { "1" } else { "0" }]);
    }
    let mut v = 0i64;
    for _ in 0..rng.range(1, 2) {
        for _ in 0..rng.range(0, 10) {
            v += 1;
            let mask = rng.range(0, 15);
            // hash = index inside the group; mostly in range
            let h = if rng.chance(5, 6) { rng.range(0, 2) } else { rng.range(3, 9) };
            let e = if rng.chance(1, 3) {
                format!("T:({mask},{h},{v}):{}", rng.range(0, 50))
            } else {
                format!("I:({mask},{h},{v})")
            };
            c.ops(vec!["e".into(), e]);
            if rng.chance(1, 8) {
                c.ops(vec!["e".into(), format!("W:{}", rng.range(0, 50))]);
            }
            if rng.chance(1, 10) {
                c.op(&["e", "FB"]);
            }
        }
        c.op(&["e", "FAR"]);
    }
    c.op(&["e", "TERM"]);
    if malformed && rng.chance(1, 3) {
        c.ops(vec!["e".into(), (*rng.pick(&["W:3", "I:(15,0,1)", "I:(0,0,1)", "FB", "TERM"])).into()]);
    }
    c
}

fn main() {
    run_main("route", gen, exec);
}
