//! C02 (abatcher): the real `Batcher` in `Adaptive(n, max_delay)` mode with a SCRIPTED clock
//! (hook `renoir::verif::set_batcher_elapsed`: the `enqueue` of every element sees the given
//! `last_send.elapsed()`), reached through the real `End` operator with one downstream replica as
//! in `batcher.rs`. Batch boundaries, contents, order and the `next()` call that sent each batch
//! are observed, so the timer branch is compared exactly.
//!
//! header: `abatcher A <n> <max_delay ms>`; ops: `e <elem> <elapsed ms>`;
//! outputs: `<idx> <elem> <elem> …` (one per batch).
use std::time::Duration;

use nvh::*;
use renoir::operator::{Operator, StreamElement};
use renoir::verif::ops::{self, Strategy};
use renoir::verif::{set_batcher_elapsed, Coord, FakeNet, ScriptOp};
use renoir::BatchMode;

fn gen(rng: &mut Rng, i: usize) -> Case {
    let n = rng.range(1, 6);
    let md = *rng.pick(&[2i64, 50, 1000]);
    let mut c = Case::new(&["abatcher", "A", &n.to_string(), &md.to_string()]);
    let mut next = (i as i64 % 1000) * 100;
    let mut ts = 0i64;
    // how often the clock is late in this case
    let late_num = *rng.pick(&[0u64, 1, 1, 3, 6]);
    let elapsed = |rng: &mut Rng| -> i64 {
        if rng.below(12) < late_num {
            // above max_delay, also by a lot (several x max_delay: a "slow stream")
            *rng.pick(&[md + 1, 2 * md, 4 * md, 4 * md + 1, 5 * md, 100 * md])
        } else {
            // below or exactly equal: `>` is strict
            *rng.pick(&[0, 1, md / 2, md - 1, md, md])
        }
    };
    let arbitrary = rng.chance(1, 5);
    let iters = rng.range(1, 3);
    let timestamped = rng.chance(1, 3);
    for _ in 0..iters {
        let len = if arbitrary { rng.range(0, 12) } else { match rng.below(5) {
            0 => 0,
            1 => n * rng.range(1, 4) + rng.range(-1, 1),
            _ => rng.range(0, 25),
        } };
        for _ in 0..len.max(0) {
            next += 1;
            let e = if arbitrary {
                match rng.below(10) {
                    0 => "FB".to_string(),
                    1 => "FAR".to_string(),
                    2 => format!("W:{}", rng.range(0, 30)),
                    _ => format!("I:{next}"),
                }
            } else if timestamped {
                ts += rng.range(0, 4);
                format!("T:{next}:{ts}")
            } else {
                format!("I:{next}")
            };
            let el = elapsed(rng);
            c.ops(vec!["e".into(), e, el.to_string()]);
            if !arbitrary && timestamped && rng.chance(1, 6) {
                let el = elapsed(rng);
                c.ops(vec!["e".into(), format!("W:{ts}"), el.to_string()]);
            }
            if !arbitrary && rng.chance(1, 12) {
                c.ops(vec!["e".into(), "FB".into(), "0".into()]);
            }
        }
        let el = elapsed(rng);
        c.ops(vec!["e".into(), "FAR".into(), el.to_string()]);
    }
    let el = elapsed(rng);
    c.ops(vec!["e".into(), "TERM".into(), el.to_string()]);
    c
}

fn exec(c: &Case) -> Vec<String> {
    let n: usize = c.header[2].parse().unwrap();
    let md: u64 = c.header[3].parse().unwrap();
    let mode = BatchMode::adaptive(n, Duration::from_millis(md));
    let ops: Vec<&Vec<String>> = c.ops.iter().filter(|op| op[0] == "e").collect();
    let script: Vec<StreamElement<Val>> = ops.iter().map(|op| parse_elem(&op[1]).expect("bad elem")).collect();
    let elapsed: Vec<u64> = ops.iter().map(|op| op.get(2).and_then(|t| t.parse().ok()).unwrap_or(0)).collect();
    let me = Coord::new(0, 0, 0);
    let mut net = FakeNet::new(me);
    let rx = net.add_next::<Val>(Coord::new(1, 0, 0), false);
    let mut op = ops::end(ScriptOp::new(script), Strategy::OnlyOne, mode, None, &[]);
    net.with_metadata(vec![me], 0, mode, |m| op.setup(m));
    let mut out = vec![];
    let mut idx = 0usize;
    loop {
        // what the `enqueue` of the element pulled by this `next()` sees as `last_send.elapsed()`
        set_batcher_elapsed(Some(Duration::from_millis(elapsed.get(idx).copied().unwrap_or(0))));
        let r = op.next();
        while let Some((from, batch)) = rx.try_recv() {
            assert_eq!(from, me, "sender coordinate of the batch");
            let mut line = idx.to_string();
            for e in &batch {
                line.push(' ');
                line.push_str(&fmt_elem(e));
            }
            out.push(line);
        }
        if matches!(r, StreamElement::Terminate) {
            break;
        }
        idx += 1;
    }
    set_batcher_elapsed(None);
    out
}

fn main() {
    run_main("abatcher", gen, exec);
}
